"""C07 — minimum-value promises mean value >= promise, and bind the proof."""
import copy
from lib.common import *
from lib import gen, sessions, forge

TRUSTED = [
    "Coq 8.16.1 kernel and vm_compute; Bignums.BigZ only in the executable instance",
    "axioms: none",
    "hand-written prover/verifier/transcript models tied to the code by differential runs (promise enters: a_L offset, transcript, H scalar, range guard)",
    "'accepted only under equal promise vectors' is deterministic up to the transcript log and probabilistic after it (random oracle): NOT a theorem",
]
U64 = 2 ** 64 - 1


def gen_specs(run):
    rng = run.rng
    quick = run.tier == "quick"
    confs = [(1, 2, 1), (2, 2, 2), (4, 1, 1), (8, 4, 3), (16, 2, 1), (32, 1, 2), (64, 2, 1), (4, 8, 1), (64, 1, 6)]
    extra = gen.lattice(128 if quick else 512)
    rng.shuffle(extra)
    confs += extra[: (3 if quick else 80)]
    specs = []
    sid = 0
    for (b, m, T) in confs:
        top = (1 << b) - 1
        for j in sorted(set([0, m - 1, rng.randrange(m)])):
            v = rng.randrange(1, top + 1) if top >= 1 else 1
            # (a) proving time: promise values at position j
            for ptag, p in (("0", 0), ("v", v), ("v-1", v - 1), ("v+1", v + 1), ("2^n-1", top), ("2^n", top + 1), ("u64max", U64), ("None", None)):
                if p is not None and (p < 0 or p > U64):
                    continue
                mem = gen.mk_member(rng, b, m, cap=m, T=T, vkinds=["rand"] * m)
                mem["commit"][j]["v"] = str(v)
                mem["promises"][j] = None if p is None else str(p)
                valid = p is None or p <= v
                stmt_ok = p is None or b == 64 or p <= top
                specs.append({"id": f"c07-{sid}", "group": "fm", "members": [mem],
                              "verifies": [{"mode": "VerifyOnly", "vmembers": [gen.vmember(mem, 0)]}],
                              "_role": "prove", "_tag": ptag, "_valid": valid, "_stmt_ok": stmt_ok, "_conf": [b, m, T, j], "with_gens": False})
                sid += 1
            # (b) verification time: substitute one promise under an accepted proof
            p0 = rng.randrange(0, v + 1)
            mem = gen.mk_member(rng, b, m, cap=m, T=T, vkinds=["rand"] * m)
            mem["commit"][j]["v"] = str(v)
            mem["promises"][j] = str(p0) if rng.random() < 0.8 else None
            eff0 = int(mem["promises"][j]) if mem["promises"][j] is not None else 0
            verifies, tags = [{"mode": "VerifyOnly", "vmembers": [gen.vmember(mem, 0)]}], [("base", True)]
            for stag, q in (("0", 0), ("p+1", eff0 + 1), ("p-1", eff0 - 1), ("v", v), ("v+1", v + 1), ("2^n-1", top), ("2^n", top + 1), ("u64max", U64), ("None", None), ("rand", rng.randrange(top + 1))):
                if q is not None and (q < 0 or q > U64):
                    continue
                st = gen.stmt_of(mem)
                st["promises"][j] = None if q is None else str(q)
                effq = 0 if q is None else q
                verifies.append({"mode": "VerifyOnly", "vmembers": [{"proof": 0, "stmt": st, "ctx": mem["ctx"]}]})
                tags.append((stag, effq == eff0))
            # substitution at another position too
            if m > 1:
                j2 = (j + 1) % m
                st = gen.stmt_of(mem)
                e2 = 0 if st["promises"][j2] is None else int(st["promises"][j2])
                st["promises"][j2] = str(e2 + 1 if e2 + 1 <= top else e2 - 1)
                verifies.append({"mode": "VerifyOnly", "vmembers": [{"proof": 0, "stmt": st, "ctx": mem["ctx"]}]})
                tags.append(("other position", False))
            specs.append({"id": f"c07-{sid}", "group": "ristretto" if (sid % 5 == 0 and b * m <= 64) else "fm", "members": [mem], "verifies": verifies,
                          "_role": "verify", "_tags": tags, "_conf": [b, m, T, j], "with_gens": False})
            sid += 1
    # (a2) promise VECTORS whose entries are individually fine but whose u64 sum, xor or product is special (wraps to 0, to 1, to u64::MAX):
    #      each promise is a datum of its own; nothing about the vector as a whole may change the verdict.  64-bit statements, honest proofs.
    U = 1 << 64
    vectors = [[1 << 63, 1 << 63], [U - 1, 1], [U - 1, 2], [1 << 62] * 4, [(1 << 63) + 1, (1 << 63) - 1], [U - 1, U - 1], [5, 5], [1 << 32, 1 << 32], [U - 2, 1, 1, 0]]
    for vi_, pv in enumerate(vectors if not quick else vectors[:6]):
        m_ = len(pv)
        mem = gen.mk_member(rng, 64, m_, cap=m_, T=1 + vi_ % 2)
        for j in range(m_):
            mem["commit"][j]["v"] = str(pv[j] + rng.randrange(0, min(1 << 20, U - pv[j])))
            mem["promises"][j] = str(pv[j])
        specs.append({"id": f"c07-vec-{vi_}", "group": "fm", "members": [mem], "verifies": [{"mode": md, "vmembers": [gen.vmember(mem, 0)]} for md in ("VerifyOnly", "RecoverAndVerify")],
                      "_role": "prove", "_tag": f"vector {['2^63,2^63', 'max,1', 'max,2', '4x2^62', '2^63+-1', 'max,max', '5,5', '2^32,2^32', 'max-1,1,1,0'][vi_]}", "_valid": True, "_stmt_ok": True,
                      "_conf": [64, m_, 1 + vi_ % 2, 0], "with_gens": False})
    # (c) batches whose members carry different promise patterns (Some / None at the same position in different members, different
    #     aggregation factors): every member must be judged under its own promise vector
    nb = 6 if quick else 40
    for bi in range(nb):
        b = rng.choice([2, 4, 8])
        T = rng.choice([1, 2])
        shape = rng.choice([[1, 1], [1, 1, 1], [2, 2], [2, 1], [1, 2], [2, 1, 2], [4, 2, 4]])
        mems = []
        for i, mm in enumerate(shape):
            # alternate: non-zero promises everywhere / no promises / zero promises / random
            kinds = [["rand"] * mm, ["none"] * mm, ["zero"] * mm, None][(i + bi) % 4]
            mem = gen.mk_member(rng, b, mm, cap=mm, T=T, pkinds=kinds, vkinds=["tophalf"] * mm)
            if kinds and kinds[0] == "rand":
                for j in range(mm):       # make sure the promise is non-zero
                    v = int(mem["commit"][j]["v"])
                    mem["promises"][j] = str(max(1, min(v, int(mem["promises"][j] or 1))))
            mems.append(mem)
        vm = [gen.vmember(mems[i], i) for i in range(len(shape))]
        verifies = [{"mode": "VerifyOnly", "vmembers": vm}, {"mode": "VerifyOnly", "vmembers": list(reversed(vm))}]
        # one member verified under the promise vector of its neighbour (same m) must be refused unless the vectors are value-wise equal
        tags = [("honest", True), ("honest reversed", True)]
        for i in range(len(shape)):
            j = (i + 1) % len(shape)
            if shape[i] == shape[j]:
                st = gen.stmt_of(mems[i])
                st["promises"] = list(mems[j]["promises"])
                same = [int(x or 0) for x in st["promises"]] == [int(x or 0) for x in mems[i]["promises"]]
                fits = all(int(x or 0) < (1 << b) for x in st["promises"])
                vm2 = list(vm)
                vm2[i] = {"proof": i, "stmt": st, "ctx": mems[i]["ctx"]}
                verifies.append({"mode": "VerifyOnly", "vmembers": vm2})
                tags.append((f"member {i} under the promises of member {j}", same and fits))
        specs.append({"id": f"c07-batch-{bi}", "group": "fm", "members": mems, "verifies": verifies, "_role": "batch", "_tags": tags,
                      "_conf": [b, max(shape), T, 0], "_shape": shape, "with_gens": False})
    return specs


def substitution_attack(run):
    """A proof made under promises p must not be accepted under another vector p'.  The promises enter the verification equation only through
    sum_j z^(2(j+1)) p_j (times y^(nm+1)) on the value generator, so the one thing that stops an adversary from swapping in a vector p' with the same
    weighted sum is that z itself depends on the promises (they are absorbed before z is drawn).  The attack assumes they are not: read z off the
    verifier's transcript for the honest proof, find by lattice reduction a short integer vector d with sum_j z^(2(j+1)) d_j = 0 (mod l), present
    the same proof under p + d.  On a verifier that binds the promises the challenges move and the proof is refused."""
    from lib import forge, lll
    rng = run.rng
    quick = run.tier == "quick"
    jobs = []
    for (b, m, T) in ([(64, 8, 1)] if quick else [(64, 8, 1), (64, 8, 3), (64, 16, 1), (64, 8, 2)]):
        mem = gen.mk_member(rng, b, m, cap=m, T=T, ctx={"label": "c07-subst"})
        for j in range(m):
            pj = (1 << 62) + rng.randrange(1 << 40)
            mem["commit"][j]["v"] = str(pj + rng.randrange(1, 1 << 20))
            mem["promises"][j] = str(pj)
        jobs.append((b, m, T, mem))
    specs1 = [{"id": f"c07-subst-{i}", "group": "fm", "members": [mem], "with_gens": False, "log_msm": False,
               "verifies": [{"mode": "VerifyOnly", "vmembers": [gen.vmember(mem, 0)]}]} for i, (b, m, T, mem) in enumerate(jobs)]
    obs1 = run_harness(["session"], [sessions.strip(s) for s in specs1], jobs=len(specs1))
    specs2 = []
    for (b, m, T, mem), s1, o1 in zip(jobs, specs1, obs1):
        vo = o1["verifies"][0]
        if vo["result"] != "ok":
            run.violation(f"honest aggregated proof under large promises refused: {vo['result'][:80]}", {"kind": "session", "spec": sessions.strip(s1)})
            continue
        z = forge.challenges_of(vo)[1]
        pos = sorted(rng.sample(range(m), 5))                       # five positions give entries of about 2^51, well inside u64
        d5 = lll.short_relation([pow(z, 2 * (j + 1), L) for j in pos], L)
        if d5 is None:
            continue
        d = [0] * m
        for j, x in zip(pos, d5):
            d[j] = x
        p = [int(x) for x in mem["promises"]]
        p2 = [a + x for a, x in zip(p, d)]
        if not all(0 <= x < (1 << 64) for x in p2):
            continue
        st = gen.stmt_of(mem)
        st["promises"] = [str(x) for x in p2]
        below = [j for j in range(m) if int(mem["commit"][j]["v"]) < p2[j]]
        specs2.append({"id": s1["id"] + "-b", "group": "fm", "members": [mem], "with_gens": False, "log_msm": False, "log_merlin": False,
                       "verifies": [{"mode": "VerifyOnly", "vmembers": [gen.vmember(mem, 0)]}, {"mode": "VerifyOnly", "vmembers": [{"proof": 0, "stmt": st, "ctx": mem["ctx"]}]},
                                    {"mode": "RecoverAndVerify", "vmembers": [{"proof": 0, "stmt": st, "ctx": mem["ctx"]}]}],
                       "_conf": [b, m, T], "_d": d, "_below": below, "_no_embed": True, "_no_modes": True})
    for s2, o2 in zip(specs2, run_harness(["session"], [sessions.strip(s) for s in specs2], jobs=max(1, len(specs2)))):
        b, m, T = s2["_conf"]
        res = [v["result"] for v in o2["verifies"]]
        run.count(["c07subst", b, m, T, res[1].split(":")[0]], {"attack": "promise vector substituted by p + d with sum z^(2(j+1)) d_j = 0 (lattice reduction)", "bits": b, "m": m, "T": T,
                                                                "max |d_j| bits": max(abs(x) for x in s2["_d"]).bit_length(), "value < promise at": s2["_below"], "result": res[1][:60]})
        run.bump("promise substitution attacks")
        if res[0] != "ok":
            run.violation(f"control: the proof is refused under its own promises: {res[0][:80]}", {"kind": "session", "spec": sessions.strip(s2)})
        for vi in (1, 2):
            if res[vi] == "ok":
                run.violation(f"a proof created under promise vector p is ACCEPTED under p + d, d = {s2['_d']} (value < promise at positions {s2['_below']}; bits={b}, m={m}, T={T}): "
                              f"the promises do not reach the challenges", {"kind": "session", "spec": sessions.strip(s2), "verify": vi})
                break


def oracle(run, s, o):
    b, m, T, j = s["_conf"]
    rp = {"kind": "session", "spec": sessions.strip(s)}
    mo = o["members"][0]
    if s["_role"] == "prove":
        tag, valid, stmt_ok = s["_tag"], s["_valid"], s["_stmt_ok"]
        pr = mo.get("prove", mo.get("statement", ""))
        run.count(["c07p", b, m, T, j == 0, tag, pr.split(":")[0]], {"bits": b, "m": m, "position": j, "promise": tag, "prove": pr[:60]})
        run.bump("prove:" + tag)
        if mo.get("statement") != "ok":
            run.violation(f"statement constructor refused promise {tag}: {mo.get('statement')}", rp)
            return
        if valid and pr != "ok":
            run.violation(f"prover refused value >= promise (promise {tag} at position {j}, bits={b}): {pr[:80]}", rp)
        if not valid and pr == "ok":
            run.violation(f"prover accepted value < promise (promise {tag} at position {j}, bits={b})", rp)
        if pr == "ok":
            vr = o["verifies"][0]["result"]
            if stmt_ok and vr != "ok":
                run.violation(f"proof made under promise {tag} does not verify: {vr[:80]}", rp)
            if not stmt_ok and vr == "ok":
                run.violation(f"verifier accepted a promise that does not fit in the bit length ({tag}, bits={b})", rp)
        return
    if s["_role"] == "batch":
        if any(m_.get("prove") != "ok" for m_ in o["members"]):
            run.violation(f"prover failed in a mixed-promise batch: {[m_.get('prove') for m_ in o['members']]}", rp)
            return
        pats = ["".join("N" if x is None else ("0" if x == "0" else "S") for x in m_["promises"]) for m_ in s["members"]]
        for vi, ((tag, want_ok), vo) in enumerate(zip(s["_tags"], o["verifies"])):
            res = vo["result"]
            run.count(["c07b", b, tuple(s["_shape"]), tuple(pats), tag.split(" ")[0], res.split(":")[0]], {"bits": b, "shape": s["_shape"], "promise patterns": pats, "case": tag, "result": res[:60]})
            run.bump("batch:" + tag.split(" ")[0])
            if want_ok and res != "ok":
                run.violation(f"batch of valid proofs with promise patterns {pats} refused ({tag}): {res[:80]}", dict(rp, verify=vi))
            if not want_ok and res == "ok":
                run.violation(f"batch accepted although {tag} (patterns {pats})", dict(rp, verify=vi))
        return
    if mo.get("prove") != "ok" or o["verifies"][0]["result"] != "ok":
        run.violation(f"base case not accepted: {mo.get('prove')} / {o['verifies'][0]['result'][:60]}", rp)
        return
    for vi, ((tag, same), vo) in enumerate(zip(s["_tags"], o["verifies"])):
        if vi == 0:
            continue
        res = vo["result"]
        run.count(["c07v", b, m, T, j == 0, tag, same, res.split(":")[0]], {"bits": b, "m": m, "position": j, "substituted": tag, "same_effective_value": same, "result": res[:60]})
        run.bump("subst:" + tag)
        if same and res != "ok":
            run.violation(f"proof refused under a value-wise equal promise vector ({tag})", dict(rp, verify=vi))
        if not same and res == "ok":
            run.violation(f"proof accepted under a different promise ({tag} at position {j}; bits={b}, m={m})", dict(rp, verify=vi))
        if tag in ("2^n", "u64max") and b < 64 and not res.startswith("err"):
            run.violation(f"verifier did not refuse a promise that does not fit in {b} bits ({tag})", dict(rp, verify=vi))


def run(run: Run):
    run.run_audit()
    specs = gen_specs(run)
    sessions.run_sessions(run, specs, oracle, relevant=1 | 4 | 8 | 16 | 64, jobs=12)
    # "acceptance establishes promise_j <= value_j with value_j - promise_j < 2^bits" needs an adversary that can prove the in-range OFFSET of a value
    # hidden behind a promise beyond the bit length (the crate's own prover refuses such a witness): tools/lib/forge.py
    jobs = forge.standard_jobs(run.rng, run.tier == "quick", which=("promise", "digit"))
    fspecs = forge.forge_all(run.rng, jobs, prefix="c07f")
    forge.report_incomplete(run, jobs)
    sessions.run_sessions(run, fspecs, lambda r, s, o: forge.oracle(r, s, o, " (C07: promise <= value < 2^bits)"), relevant=1 | 4 | 8 | 16 | 64, name="c07f")
    substitution_attack(run)
    return run.finish(
        "proof",
        "per configuration and position j: promise values {0, v, v-1, v+1, 2^n-1, 2^n, u64::MAX, None} at proving time, and every single substitution "
        "{0, p+-1, v, v+1, 2^n-1, 2^n, u64::MAX, None, random} (and one at another position) at verification time under an accepted proof; batches whose "
        "members carry different promise patterns (Some / None / zero at the same position, mixed aggregation), forwards, reversed and with promise vectors exchanged between members; verdicts compared "
        "with the value-wise equality of promise vectors; each verification compared with the Coq model (H scalar, commitments, transcript); "
        "distinct by (bits, m, T, position class, promise kind, outcome)",
        [],
        TRUSTED)


def replay(rp):
    return sessions.replay_session(rp)
