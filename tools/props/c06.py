"""C06 — the prover emits a proof exactly when the witness is valid."""
import copy
from lib.common import *
from lib import gen, sessions, pmodel

TRUSTED = [
    "Coq 8.16.1 kernel and vm_compute; Bignums.BigZ only in the executable instance",
    "axioms: none",
    "hand-written prover model incl. guards (coq/Model/Prover.v: witness_valid, prove_core) tied to the code by differential runs",
    "the validity predicate is evaluated independently by the orchestrator from the generated case (it knows which single violation it injected)",
]


def gen_specs(run):
    rng = run.rng
    quick = run.tier == "quick"
    confs = [(1, 1, 1), (2, 2, 2), (4, 4, 1), (8, 2, 3), (16, 1, 6), (32, 2, 1), (64, 1, 2), (64, 4, 1), (8, 8, 2)]
    extra = gen.lattice(128 if quick else 512)
    rng.shuffle(extra)
    confs += extra[: (4 if quick else 80)]
    specs = []
    sid = 0
    for (b, m, T) in confs:
        top = (1 << b) - 1
        base = gen.mk_member(rng, b, m, cap=m * rng.choice([1, 2]), T=T, vkinds=["rand"] * m, pkinds=[rng.choice(["none", "zero", "rand"]) for _ in range(m)])
        # make sure promises leave room: value >= promise already guaranteed by mk_member
        cases = []  # (tag, member spec, valid?)
        cases.append(("valid", base, True))

        def variant(tag, valid, fn):
            x = copy.deepcopy(base)
            x["witness"] = copy.deepcopy(x["commit"])
            r = fn(x)
            if r is False:
                return
            cases.append((tag, x, valid))

        for j in sorted(set([0, m - 1, rng.randrange(m)])):
            # value changed under the same commitment
            def v_pm(x, d):
                v = int(x["witness"][j]["v"]) + d
                if v < 0 or v > 2 ** 64 - 1:
                    return False
                x["witness"][j]["v"] = str(v)
            variant(f"value+1@{j}", False, lambda x: v_pm(x, 1))
            variant(f"value-1@{j}", False, lambda x: v_pm(x, -1))
            # one blinding component changed
            def bl(x):
                kk = rng.randrange(T)
                x["witness"][j]["r"][kk] = gen.hx((int.from_bytes(bytes.fromhex(x["witness"][j]["r"][kk]), "little") + 1) % L)
            variant(f"blinding+1@{j}", False, bl)
            # boundaries of the value (commitment follows the witness here)
            def setv(x, v, p):
                x["commit"][j]["v"] = str(v)
                x["witness"][j]["v"] = str(v)
                x["promises"][j] = None if p is None else str(p)
            variant(f"v=2^n-1@{j}", True, lambda x: setv(x, top, None))
            if b < 64:
                variant(f"v=2^n@{j}", False, lambda x: setv(x, top + 1, None))
                variant(f"v=2^n,p=2^n@{j}", False, lambda x: setv(x, top + 1, top + 1))
                variant(f"v=2^n+5,p=10@{j}", False, lambda x: setv(x, top + 6, 10))
                variant(f"v=u64max@{j}", False, lambda x: setv(x, 2 ** 64 - 1, None))
            else:
                variant(f"v=u64max@{j}", True, lambda x: setv(x, 2 ** 64 - 1, None))
                variant(f"v=u64max,p=u64max@{j}", True, lambda x: setv(x, 2 ** 64 - 1, 2 ** 64 - 1))
            pv = rng.randrange(top + 1)
            variant(f"p=v@{j}", True, lambda x: setv(x, pv, pv))
            if pv + 1 <= 2 ** 64 - 1:
                variant(f"p=v+1@{j}", False, lambda x: setv(x, pv, pv + 1))
            # degenerate but valid openings: all-zero blinding vector; value 0 with an all-zero blinding vector (identity commitment)
            def zero_r(x, v):
                x["commit"][j] = {"v": str(v), "r": [gen.hx(0)] * T}
                x["witness"][j] = {"v": str(v), "r": [gen.hx(0)] * T}
                x["promises"][j] = None
            variant(f"zero blinding vector@{j}", True, lambda x: zero_r(x, rng.randrange(1, top + 1)))
            variant(f"identity commitment (v=0, r=0)@{j}", True, lambda x: zero_r(x, 0))
            variant(f"v=0,p=0@{j}", True, lambda x: setv(x, 0, 0))
            variant(f"v=0,p=1@{j}", False, lambda x: setv(x, 0, 1))
        # opening count
        def missing(x):
            if m == 1:
                return False
            x["witness"] = x["witness"][:-1]
        variant("missing opening", False, missing)
        def extra_o(x):
            x["witness"] = x["witness"] + [copy.deepcopy(x["witness"][-1])]
        variant("extra opening", False, extra_o)
        # extension degree of the witness
        def t_plus(x):
            if T == 6:
                return False
            for o in x["witness"]:
                o["r"] = o["r"] + [gen.hx(gen.rscalar(rng))]
        variant("witness T+1", False, t_plus)
        def t_minus(x):
            if T == 1:
                return False
            for o in x["witness"]:
                o["r"] = o["r"][:-1]
        variant("witness T-1", False, t_minus)
        # ... and of lower degree with commitments that were MADE from the short openings (commit() accepts 1..T blinding factors), so that only
        # the degree is wrong; likewise one opening alone shorter than the others cannot be built (RangeWitness::init refuses it)
        def t_minus_consistent(x, drop):
            if T - drop < 1:
                return False
            for o in x["witness"]:
                o["r"] = o["r"][:T - drop]
            for c in x["commit"]:
                c["r"] = c["r"][:T - drop]
        variant("witness T-1, commitments made from the short openings", False, lambda x: t_minus_consistent(x, 1))
        variant("witness of degree 1, commitments made from the short openings", False, lambda x: t_minus_consistent(x, T - 1) if T >= 3 else False)
        # a witness object of the right degree whose openings were REPLACED in place afterwards (public field) by ones carrying more blinding factors
        # than the generators support / than the object's recorded degree: the prover must refuse it like any other invalid witness
        if T < 6:
            xw = copy.deepcopy(base)
            xw["witness"] = copy.deepcopy(xw["commit"])
            for o in xw["witness"]:
                o["r"] = o["r"] + [gen.hx(gen.rscalar(rng))]
            xw["witness_template"] = copy.deepcopy(xw["commit"])
            cases.append(("openings with T+1 blinding factors written into a witness object of degree T", xw, False))
        # openings swapped between positions
        def swap(x):
            if m < 2 or x["witness"][0] == x["witness"][1]:
                return False
            x["witness"][0], x["witness"][1] = x["witness"][1], x["witness"][0]
        variant("openings swapped", False, swap)
        # the prover's decision does not depend on the random-number generator it is handed: the invalid cases again under generators that return
        # zeros, one byte, a short period (with the scripted generator of the model those runs are ordinary; a prover deciding with drawn weights is not)
        faulty = [{"kind": "zero"}, {"kind": "const", "byte": 0x5a}, {"kind": "period", "bytes": "01ff"}]
        for ci_, (tag, x, valid) in enumerate(list(cases)):
            if not valid or tag == "valid":
                for fr in (faulty if not quick else [faulty[(sid + ci_) % 3], faulty[0]]):
                    y = copy.deepcopy(x)
                    y["rng"] = dict(fr)
                    cases.append((f"{tag} [rng={fr['kind']}]", y, valid))
        for tag, x, valid in cases:
            specs.append({"id": f"c06-{sid}", "group": "ristretto" if (sid % 7 == 3 and b * m <= 64) else "fm", "members": [x],
                          "verifies": [{"mode": "VerifyOnly", "vmembers": [gen.vmember(x, 0)], "log": False}],
                          "_tag": tag, "_valid": valid, "_conf": [b, m, T], "with_gens": (b * x["cap"] <= 32 and valid), "log_merlin": True})
            sid += 1
    return specs


def oracle(run, s, o):
    b, m, T = s["_conf"]
    tag, valid = s["_tag"], s["_valid"]
    mo = o["members"][0]
    rp = {"kind": "session", "spec": sessions.strip(s), "case": tag, "valid_witness": valid}
    kind = tag.split("@")[0]
    if mo.get("witness", "ok") != "ok" or mo.get("statement") != "ok":
        run.violation(f"generator: constructor refused the case {tag}: {mo.get('statement')} / {mo.get('witness')}", rp)
        return
    pr = mo.get("prove", "")
    run.count(["c06", b, m, T, kind, pr.split(":")[0]], {"bits": b, "m": m, "T": T, "case": tag, "valid": valid, "prove": pr[:70]})
    run.bump(kind)
    run.bump("valid" if valid else "invalid")
    if pr.startswith("panic"):
        run.violation(f"prover panicked on case {tag}: {pr[:150]}", rp)
    elif valid and pr != "ok":
        run.violation(f"prover refused a valid witness ({tag}; bits={b}, m={m}, T={T}): {pr[:100]}", rp)
    elif not valid and pr == "ok":
        run.violation(f"prover emitted a proof for an invalid witness ({tag}; bits={b}, m={m}, T={T})", rp)
    if pr == "ok" and o["verifies"][0]["result"] != "ok":
        run.violation(f"prover's output does not verify ({tag}): {o['verifies'][0]['result'][:80]}", rp)


class Extra:
    header = pmodel.PHEADER

    def __call__(self, s, o):
        out = []
        mo = o["members"][0]
        if mo.get("statement") == "ok" and mo.get("witness", "ok") == "ok" and not str(mo.get("prove", "")).startswith("panic"):
            g = pmodel.guard_term(s["members"][0], mo.get("prove") == "ok")
            if g:
                out.append((g, (s, "prover", 0)))
        if o.get("group") == "fm" and s.get("with_gens"):
            t = pmodel.prove_term(s["members"][0], o["members"][0])
            if t:
                out.append((t, (s, "prover", 0)))
        return out


def run(run: Run):
    run.run_audit()
    specs = gen_specs(run)
    sessions.run_sessions(run, specs, oracle, relevant=0, model_verify=False, extra_terms=Extra(), jobs=12)
    return run.finish(
        "proof",
        "(statement, witness) pairs with exactly one violation of the witness relation at the first / last / a random position of the aggregate "
        "(value +-1 under the same commitment, one blinding component changed, value 2^n-1 / 2^n / u64::MAX, promise = value / value+1, value >= 2^n masked by a "
        "promise, missing / extra opening, witness degree +-1, swapped openings) and the valid boundary cases (incl. zero blinding vectors and the identity commitment); prove Ok/Err is compared with the validity the "
        "generator knows and with the Coq guard model (witness_valid evaluated at the concrete field on the same statement / witness), every Ok is verified, and valid small cases are compared with the Coq prover model; distinct by (bits, m, T, case kind, outcome)",
        [],
        TRUSTED)


def replay(rp):
    return sessions.replay_session(rp)
