"""C08 — batch weighting: defects in different proofs can never cancel."""
import copy
from lib.common import *
from lib import gen, sessions, vmodel

TRUSTED = [
    "Coq 8.16.1 kernel and vm_compute; Bignums.BigZ only in the executable instance",
    "axioms: none",
    "hand-written model of the weight derivation (coq/Model/Transcript.v: ops_verifier_rng, weight_ops; VerifyTop.v: one weight per proof multiplying every "
    "term) tied to the code by comparing the instrumented merlin log and every scalar of the final product",
    "Merlin/STROBE as a random oracle (the ratio of two weights is unpredictable before both proofs are fixed): NOT proved",
    "harness: weights are read off the logged final product (minus the scalar of B_p)",
]


def weights_of(spec_v, obs, vo):
    """batch weights read off the MSM log: -scalar(B_p) in the order of the members"""
    if not vo.get("msm"):
        return None
    call = vo["msm"][0]
    ws, pos = [], 0
    for vm in spec_v["vmembers"]:
        pj = vmodel.pool_proof(obs, vm["proof"])
        m = len(vm["stmt"]["commit"])
        k = len(pj["li"])
        b_pos = pos + m + 1
        ws.append((-int_of_hex_le(call["dyn"][b_pos])) % L)
        pos += m + 3 + 2 * k
    return ws


# the weights are derived per verification call: the adversary observes and attacks in one and the same verifying mode, each mode in turn
VMODES = ["VerifyOnly", "RecoverAndVerify"]


def make_batch(rng, n, T, quick):
    bits = rng.choice([2, 4])
    mems = []
    for i in range(n):
        m = rng.choice([1, 1, 2])
        mems.append(gen.mk_member(rng, bits, m, cap=m * rng.choice([1, 2]), T=T))
    return mems


def adaptive(run, nb, prefix="c08", big=True):
    """rounds 1 and 2 of the weight attacks: honest batches -> the weights read off the final product -> cancelling pairs, integer relations among
    the weights, plain +-delta, and the requirement that a change of one response scalar changes every weight ratio involving its proof.
    Used by C08 and, with a small budget, by C02 (a proof accepted inside a batch because the weights could be known in advance is a soundness break)."""
    rng = run.rng
    quick = run.tier == "quick"
    batches = []
    for bi in range(nb):
        T = 1 + bi % 6
        n = rng.choice([2, 2, 3, 4, 8]) if bi % 5 else 2
        if big and (bi in (3, 8) or (not quick and bi % 9 == 4)):
            n = rng.choice([34, 40, 70])            # every position of a large chunk must be bound, not only the leading ones
        mems = make_batch(rng, n, T, quick)
        batches.append((bi, T, n, mems))
    # round 1: honest batches -> observe the weights
    specs1 = [{"id": f"{prefix}-h{bi}", "group": "fm", "members": mems, "with_gens": False,
               "verifies": [{"mode": VMODES[bi % 2], "vmembers": [gen.vmember(mm, i) for i, mm in enumerate(mems)]}]} for (bi, T, n, mems) in batches]

    observed = {}

    def oracle1(run, s, o):
        vo = o["verifies"][0]
        if vo["result"] != "ok":
            run.violation(f"honest batch rejected: {vo['result'][:80]}", {"kind": "session", "spec": sessions.strip(s)})
            return
        ws = weights_of(s["verifies"][0], o, vo)
        observed[s["id"]] = ws
        if any(w == 0 for w in ws):
            run.violation("a batch weight is zero", {"kind": "session", "spec": sessions.strip(s)})
        if len(set(ws)) != len(ws):
            run.violation(f"two proofs of one batch entered with the same weight", {"kind": "session", "spec": sessions.strip(s), "weights": [hex(w) for w in ws]})
        run.count(["honest", len(ws)], {"batch": len(ws), "weights_nonzero_distinct": True})

    sessions.run_sessions(run, specs1, oracle1, relevant=32 | 128 | 8 | 4, name=prefix + "a")
    # round 2: adaptive cancelling pairs computed from the observed weights + response-scalar perturbations
    specs2 = []
    for (bi, T, n, mems) in batches:
        ws = observed.get(f"{prefix}-h{bi}")
        if not ws:
            continue
        derived, verifies, tags = [], [], []
        amode = VMODES[bi % 2]
        base_vm = [gen.vmember(mm, i) for i, mm in enumerate(mems)]
        pairs = [(0, 1)] + ([(rng.randrange(n), rng.randrange(n))] if n > 2 else []) + ([(n - 2, n - 1), (32, 33), (rng.randrange(32, n), rng.randrange(32, n))] if n > 33 else [])
        for (i, j) in pairs:
            if i == j:
                continue
            for k in range(T):
                t = gen.rscalar(rng)
                di = (ws[j] * t) % L
                dj = (-ws[i] * t) % L
                derived.append({"from": i, "ops": [{"op": "scalar_add", "field": "d1", "idx": k, "hex": gen.hx(di)}]})
                derived.append({"from": j, "ops": [{"op": "scalar_add", "field": "d1", "idx": k, "hex": gen.hx(dj)}]})
                vm = list(base_vm)
                vm[i] = gen.vmember(mems[i], n + len(derived) - 2)
                vm[j] = gen.vmember(mems[j], n + len(derived) - 1)
                verifies.append({"mode": amode, "vmembers": vm})
                tags.append(("attack", i, j, k))
        # three or more members whose defects follow an integer RELATION among the observed weights (the shortest one, by exact lattice reduction):
        # a weight derivation with algebraic structure (weights in a progression, a common factor, ...) keeps such a relation whatever the responses are,
        # and the defects then cancel although every weight did change with them
        if 3 <= n:
            from lib import lll
            for idxs in ([0, 1, 2], sorted(rng.sample(range(n), 3))) + ((sorted(rng.sample(range(n), 4)),) if n >= 4 else ()):
                rel = lll.short_relation([ws[q] for q in idxs], L)
                if sum(c * ws[q] for c, q in zip(rel, idxs)) % L != 0 or sum(1 for c in rel if c % L) < 2:
                    continue
                k = rng.randrange(T)
                t = gen.rscalar(rng)
                vm = list(base_vm)
                for q, c in zip(idxs, rel):
                    if c % L == 0:
                        continue
                    derived.append({"from": q, "ops": [{"op": "scalar_add", "field": "d1", "idx": k, "hex": gen.hx((c * t) % L)}]})
                    vm[q] = gen.vmember(mems[q], n + len(derived) - 1)
                verifies.append({"mode": amode, "vmembers": vm})
                tags.append(("relation", list(idxs), max(abs(c) for c in rel).bit_length(), k))
        # equal-and-opposite without weights (what cancels if all weights are equal)
        t = gen.rscalar(rng)
        derived.append({"from": 0, "ops": [{"op": "scalar_add", "field": "d1", "idx": T - 1, "hex": gen.hx(t)}]})
        derived.append({"from": 1, "ops": [{"op": "scalar_add", "field": "d1", "idx": T - 1, "hex": gen.hx(L - t)}]})
        vm = list(base_vm)
        vm[0] = gen.vmember(mems[0], n + len(derived) - 2)
        vm[1] = gen.vmember(mems[1], n + len(derived) - 1)
        verifies.append({"mode": amode, "vmembers": vm})
        tags.append(("plain +-delta", 0, 1, T - 1))
        # a change of one response scalar must change the weight ratios
        for (f, idx) in [("r1", 0), ("s1", 0)] + [("d1", k) for k in range(T)]:
            who = rng.randrange(n)
            derived.append({"from": who, "ops": [{"op": "scalar_add", "field": f, "idx": idx, "hex": gen.hx(1)}]})
            vm = list(base_vm)
            vm[who] = gen.vmember(mems[who], n + len(derived) - 1)
            verifies.append({"mode": amode, "vmembers": vm})
            tags.append(("ratio", who, f, idx))
        specs2.append({"id": f"{prefix}-a{bi}", "group": "fm", "members": mems, "derived": derived, "verifies": verifies, "_tags": tags, "_ws": ws,
                       "_T": T, "with_gens": False})

    def oracle2(run, s, o):
        ws = s["_ws"]
        n = len(ws)
        for vi, (tag, vs, vo) in enumerate(zip(s["_tags"], s["verifies"], o["verifies"])):
            rp = {"kind": "session", "spec": sessions.strip(s), "verify": vi, "weights_observed_on_honest_run": [gen.hx(w) for w in ws]}
            res = vo["result"]
            if tag[0] == "relation":
                run.count(["relation", n, s["_T"], len(tag[1]), "short" if tag[2] <= 64 else "generic", res.split(":")[0]],
                          {"attack": "defects following the shortest integer relation among the observed weights", "members": tag[1], "coefficient_bits": tag[2], "coordinate": tag[3], "result": res[:60]})
                run.bump("relation attack")
                if res == "ok":
                    run.violation(f"batch with {len(tag[1])} individually invalid proofs accepted: defects on d1[{tag[3]}] of proofs {tag[1]} follow an integer relation "
                                  f"(coefficients up to {tag[2]} bits) among the weights of the honest run, and the weights of the altered batch satisfy it too", rp)
            elif tag[0] in ("attack", "plain +-delta"):
                run.count([tag[0], n, s["_T"], tag[3], res.split(":")[0]], {"attack": tag[0], "pair": [tag[1], tag[2]], "coordinate": tag[3], "result": res[:60]})
                run.bump(tag[0])
                if res == "ok":
                    run.violation(f"batch with two individually invalid proofs accepted: offsetting defects on d1[{tag[3]}] of proofs {tag[1]} and {tag[2]} cancelled ({tag[0]})", rp)
            else:
                w2 = weights_of(vs, o, vo)
                run.count(["ratio", n, s["_T"], tag[2], tag[3]], {"changed": f"{tag[2]}[{tag[3]}] of proof {tag[1]}", "result": res[:40]})
                run.bump("ratio:" + tag[2])
                if w2 is None:
                    run.violation("no final product logged for a batch with one altered response scalar", rp)
                    continue
                who = tag[1]
                for other in range(n):
                    if other == who:
                        continue
                    # ratio w_who / w_other unchanged  <=>  w2_who * w_other == w_who * w2_other
                    if (w2[who] * ws[other] - ws[who] * w2[other]) % L == 0:
                        run.violation(f"the ratio between the weights of proofs {who} and {other} did not change when {tag[2]}[{tag[3]}] of proof {who} changed", rp)
                        break
                if res == "ok":
                    run.violation(f"batch accepted with an altered response scalar {tag[2]}[{tag[3]}]", rp)

    sessions.run_sessions(run, specs2, oracle2, relevant=32 | 128 | 8 | 4, name=prefix + "b")


def run(run: Run):
    run.run_audit()
    rng = run.rng
    quick = run.tier == "quick"
    nb = 14 if quick else 200
    adaptive(run, nb)
    # round 3: batches in which members REPEAT (same statement, context and proof bytes several times).  A weight derivation that combines the
    # per-proof words with a self-inverse or order-blind operation makes the weights of such batches independent of the repeated proofs; the
    # adversary then reads the weights off one run and resubmits copies with defects that cancel over the groups of copies.
    patterns = [[0, 0, 1, 1], [0, 0, 1], [0, 1, 0, 1], [1, 0, 0, 1, 0, 0]] if quick else [[0, 0, 1, 1], [0, 0, 1], [0, 1, 0, 1], [1, 0, 0, 1, 0, 0], [0, 0, 0, 0, 1, 1], [0, 1, 1, 0]]
    dups = []
    for di, pat in enumerate(patterns * (1 if quick else 4)):
        T = 1 + di % 3
        mems = make_batch(rng, 2, T, quick)
        dups.append((di, T, pat, mems))
    specs3 = [{"id": f"c08-d{di}", "group": "fm", "members": mems, "with_gens": False,
               "verifies": [{"mode": VMODES[di % 2], "vmembers": [gen.vmember(mems[i], i) for i in pat]}]} for (di, T, pat, mems) in dups]
    observed3 = {}

    def oracle3(run, s, o):
        vo = o["verifies"][0]
        if vo["result"] != "ok":
            run.violation(f"honest batch with repeated members rejected: {vo['result'][:80]}", {"kind": "session", "spec": sessions.strip(s)})
            return
        ws = weights_of(s["verifies"][0], o, vo)
        observed3[s["id"]] = ws
        if any(w == 0 for w in ws) or len(set(ws)) != len(ws):
            run.violation("weights of a batch with repeated members are zero or equal", {"kind": "session", "spec": sessions.strip(s), "weights": [hex(w) for w in ws]})
        run.count(["dup-honest", len(ws)], {"batch_with_repeats": len(ws)})

    sessions.run_sessions(run, specs3, oracle3, relevant=32 | 128 | 8 | 4, name="c08c")
    specs4 = []
    for (di, T, pat, mems) in dups:
        ws = observed3.get(f"c08-d{di}")
        if not ws:
            continue
        W = [sum(w for w, i in zip(ws, pat) if i == g) % L for g in (0, 1)]
        derived, verifies, tags = [], [], []
        for k in range(T):
            t = gen.rscalar(rng)
            d0, d1_ = (W[1] * t) % L, (-W[0] * t) % L
            derived.append({"from": 0, "ops": [{"op": "scalar_add", "field": "d1", "idx": k, "hex": gen.hx(d0)}]})
            derived.append({"from": 1, "ops": [{"op": "scalar_add", "field": "d1", "idx": k, "hex": gen.hx(d1_)}]})
            alt = {0: 2 + len(derived) - 2, 1: 2 + len(derived) - 1}
            verifies.append({"mode": VMODES[di % 2], "vmembers": [gen.vmember(mems[i], alt[i]) for i in pat]})
            tags.append(k)
        specs4.append({"id": f"c08-e{di}", "group": "fm", "members": mems, "derived": derived, "verifies": verifies, "_tags": tags, "_pat": pat, "_ws": ws, "with_gens": False})

    def oracle4(run, s, o):
        for vi, (k, vo) in enumerate(zip(s["_tags"], o["verifies"])):
            res = vo["result"]
            run.count(["dup-attack", len(s["_pat"]), k, res.split(":")[0]], {"attack": "defects cancelling over groups of repeated members", "pattern": s["_pat"], "coordinate": k, "result": res[:60]})
            run.bump("repeat attack")
            if res == "ok":
                run.violation(f"batch of individually invalid proofs accepted: members repeated as {s['_pat']}, defects on d1[{k}] chosen from the weights of an earlier run "
                              f"cancel over the groups of copies", {"kind": "session", "spec": sessions.strip(s), "verify": vi, "weights_observed_on_honest_run": [gen.hx(w) for w in s["_ws"]]})

    sessions.run_sessions(run, specs4, oracle4, relevant=32 | 128 | 8 | 4, name="c08d")
    return run.finish(
        "proof",
        "batches of 2-8 proofs (extension degrees 1-6, mixed aggregation), each verifying mode in turn; weights are read off the honest run in that mode, then for pairs (i, j) and every blinding coordinate k "
        "two individually invalid proofs with defects (w_j t, -w_i t) on d1[k] are resubmitted (plus a plain +-delta pair), and each response scalar r1, s1, d1[k] of a "
        "member is changed to check that every weight ratio involving it changes; batches in which members repeat ([A,A,B,B], [A,B,A,B], ...) with defects cancelling over the groups of copies; the weight transcript and per-proof RNG operations are compared with the Coq "
        "model; distinct by (kind, batch size, T, coordinate, outcome)",
        ["weights of an earlier run are what an adaptive adversary can observe; the attack succeeds iff the weights do not depend on the altered responses"],
        TRUSTED)


def replay(rp):
    return sessions.replay_session(rp)
