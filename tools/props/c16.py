"""C16 — decoding and verification never panic on untrusted input."""
import copy
from lib.common import *
from lib import gen, sessions

TRUSTED = [
    "Coq 8.16.1 kernel and vm_compute; Bignums.BigZ only in the executable instance",
    "axioms: none",
    "hand-written verifier model with its guards in code order (coq/Model/VerifyTop.v, Codec.v) tied to the code by differential runs; the list of partial operations "
    "(indexing, unchecked arithmetic, shifts, MSM length assertions of the back end) is hand-enumerated from the source",
    "PARTIAL by nature: panics / aborts inside dependencies and the allocator are runtime behaviour the model cannot exhibit; explored with debug (overflow-checked) and "
    "release builds over Ristretto (real dalek assertions) and the free-module group (same assertions replicated)",
]
CEILING = 20.0


def hostile_derivations(rng, T, k, quick):
    ds = []
    rounds = [0, 1, 2, 3, 5, 8, 31, 32, 33, 63, 64, 65, 70] if not quick else [1, 2, 6, 31, 63, 64, 65]
    for r in rounds + ([4096] if not quick else [300]):
        if r != k and r >= 1:
            ds.append(("rounds=%d" % r, [{"op": "set_rounds", "n": r}]))
    if k >= 1:
        ds.append(("rounds-1", [{"op": "drop_round", "idx": 0}]))
    for t in range(1, 7):
        if t != T:
            ds.append(("tag=%d" % t, [{"op": "set_tag", "tag": t}]))
            ds.append(("d1_len=%d" % t, [{"op": "set_d1_len", "n": t}]))
    for f in ("a", "a1", "b", "li", "ri"):
        for kind in ("identity", "undecodable", "junk"):
            idx = rng.randrange(max(1, k))
            ds.append((f"{f}={kind}", [{"op": "point_set", "field": f, "idx": idx, "to": {kind: (True if kind == "identity" else rng.randrange(1 << 30))}}]))
    for f in ("r1", "s1", "d1"):
        ds.append((f"{f}=0", [{"op": "scalar_set", "field": f, "idx": 0, "hex": gen.hx(0)}]))
        ds.append((f"{f}=l-1", [{"op": "scalar_set", "field": f, "idx": 0, "hex": gen.hx(L - 1)}]))
        ds.append((f"{f}=l (non-canonical)", [{"op": "scalar_set", "field": f, "idx": 0, "hex": gen.hx(L)}]))
    ds.append(("all-zero points", [{"op": "point_set", "field": f, "idx": 0, "to": {"identity": True}} for f in ("a", "a1", "b")]))
    return ds


def gen_specs(run, group):
    rng = random.Random(f"c16:{run.seed}:{group}")
    quick = run.tier == "quick"
    confs = [(1, 2, 1), (2, 1, 2), (4, 2, 1), (8, 1, 3), (64, 1, 1), (2, 8, 6), (1, 1, 1)] if quick else [(1, 1, 1), (1, 2, 1), (2, 1, 2), (4, 2, 1), (8, 1, 3), (64, 1, 1), (2, 8, 6), (16, 4, 2), (64, 2, 5), (32, 1, 4)]
    if group == "ristretto":
        confs = [c for c in confs if c[0] * c[1] <= 64][: (4 if quick else 8)]
    specs = []
    for ci, (b, m, T) in enumerate(confs):
        k = (b * m).bit_length() - 1
        mem = gen.mk_member(rng, b, m, cap=m * rng.choice([1, 2]), T=T, seed=(m == 1 and ci % 2 == 0))
        m2 = max(1, m // 2) if m > 1 else 2
        mem2 = gen.mk_member(rng, b, m2, cap=max(4, m2), T=T)                              # a different aggregation factor, same bits/T
        mem3 = gen.mk_member(rng, (b * 2 if b < 64 else 32), 1, cap=1, T=T)               # different bits
        mem4 = gen.mk_member(rng, b, m, cap=m, T=(T % 6) + 1)                              # different T
        hd = hostile_derivations(rng, T, k, quick)
        derived = [{"from": 0, "ops": ops} for (_, ops) in hd]
        base_pool = 4
        verifies, tags = [], []
        modes = ["VerifyOnly", "RecoverAndVerify", "RecoverOnly"]
        for di, (name, _) in enumerate(hd):
            pi = base_pool + di
            md = modes[di % 3]
            # alone
            verifies.append({"mode": md, "vmembers": [gen.vmember(mem, pi)]})
            tags.append((name, "alone", md))
            # at position >= 1 of a batch (after an honest member), and before one
            verifies.append({"mode": md, "vmembers": [gen.vmember(mem, 0), gen.vmember(mem, pi)]})
            tags.append((name, "second", md))
            if di % 2 == 0:
                verifies.append({"mode": modes[(di + 1) % 3], "vmembers": [gen.vmember(mem2, 1), gen.vmember(mem, pi), gen.vmember(mem, 0)]})
                tags.append((name, "middle/mixed-m", modes[(di + 1) % 3]))
            # the hostile proof against a statement of another shape
            if di % 3 == 0:
                verifies.append({"mode": md, "vmembers": [gen.vmember(mem2, pi)]})
                tags.append((name, "other-m statement", md))
        # batch shapes
        a, b2, c3, d4 = gen.vmember(mem, 0), gen.vmember(mem2, 1), gen.vmember(mem3, 2), gen.vmember(mem4, 3)
        shapes = [("empty", []), ("no proofs", [{"stmt": a["stmt"], "ctx": a["ctx"]}]), ("2 statements 1 proof", [a, {"stmt": a["stmt"], "ctx": a["ctx"]}]),
                  ("1 transcript 2 proofs", [a, {"proof": 0, "stmt": a["stmt"]}]), ("3 proofs 1 statement", [a, {"proof": 0}, {"proof": 0}]),
                  ("mixed bits", [a, c3]), ("mixed T", [a, d4]), ("mixed T rev", [d4, a]), ("mixed m", [a, b2]), ("mixed m rev", [b2, a]),
                  ("proof of other statement", [{"proof": 1, "stmt": a["stmt"], "ctx": a["ctx"]}]), ("proof with other T", [{"proof": 3, "stmt": a["stmt"], "ctx": a["ctx"]}]),
                  ("proof with other bits", [{"proof": 2, "stmt": a["stmt"], "ctx": a["ctx"]}])]
        # statements whose promise vector does not match the commitments (the constructor must refuse them; if it ever lets one
        # through, verification must still end with an error, not a panic)
        for extra in (1, 2):
            stx = gen.stmt_of(mem)
            stx["promises"] = stx["promises"] + [None] * extra
            shapes.append((f"statement with {extra} surplus promise(s)", [{"proof": 0, "stmt": stx, "ctx": a["ctx"]}]))
            sty = gen.stmt_of(mem)
            sty["promises"] = sty["promises"] + ["1"] * extra
            shapes.append((f"statement with {extra} surplus Some(1) promise(s), second", [a, {"proof": 0, "stmt": sty, "ctx": a["ctx"]}]))
        if m > 1:
            stz = gen.stmt_of(mem)
            stz["promises"] = stz["promises"][:-1]
            shapes.append(("statement with a missing promise", [{"proof": 0, "stmt": stz, "ctx": a["ctx"]}]))
        for name, vm in shapes:
            for md in modes:
                verifies.append({"mode": md, "vmembers": vm})
                tags.append((name, "shape", md))
        for v in verifies:
            v["log"] = False
        specs.append({"id": f"c16-{group}-{ci}", "group": group, "members": [mem, mem2, mem3, mem4], "derived": derived, "verifies": verifies, "_tags": tags,
                      "_conf": [b, m, T], "with_gens": False, "log_merlin": False, "log_msm": False})
    return specs


def random_strings(run):
    rng = random.Random(f"c16s:{run.seed}")
    n = 400 if run.tier == "quick" else 8000
    out = []
    for i in range(n):
        ln = rng.choice([0, 1, 2, 31, 32, 33, 64, 65, rng.randrange(0, 700), 1 + 32 * rng.randrange(0, 20), 1 + 32 * rng.randrange(0, 20) + rng.choice([-1, 1])])
        ln = max(0, ln)
        b = bytearray(rng.randbytes(ln))
        if ln and rng.random() < 0.7:
            b[0] = rng.randrange(0, 8)
        if rng.random() < 0.5:
            for p in range(32, ln, 32):
                b[p] &= 0x0F
        out.append(bytes(b))
    return out


def run(run: Run):
    run.run_audit()
    profiles = [("release", "fm"), ("debug", "fm"), ("debug", "ristretto"), ("release", "ristretto")]
    for profile, group in profiles:
        specs = gen_specs(run, group)
        obs = run_harness(["session", group], [sessions.strip(s) for s in specs], profile=profile, jobs=len(specs))
        for s, o in zip(specs, obs):
            b, m, T = s["_conf"]
            for d in o["derived"]:
                if str(d.get("decode", "")).startswith("panic"):
                    run.violation(f"from_bytes panicked ({profile}, {group}): {d['decode'][:160]}", {"kind": "session", "spec": sessions.strip(s), "profile": profile})
            for vi, ((name, where, md), vo) in enumerate(zip(s["_tags"], o["verifies"])):
                res = vo["result"]
                if res.startswith("unavailable"):
                    run.trivial()
                    continue
                cls = res.split(":")[0]
                run.count(["c16", profile, group, b, m, T, name.split("=")[0], where, md, cls],
                          {"profile": profile, "group": group, "bits": b, "m": m, "T": T, "hostile": name, "where": where, "mode": md, "result": res[:60]})
                run.bump(f"{profile}/{group}")
                run.bump(where)
                rp = {"kind": "session", "spec": sessions.strip(s), "verify": vi, "profile": profile, "hostile": name, "where": where}
                if cls == "panic":
                    run.violation(f"verification panicked ({profile}, {group}; hostile proof '{name}' {where}, mode {md}; bits={b}, m={m}, T={T}): {res[:200]}", rp)
                elif vo.get("secs", 0) > CEILING:
                    run.violation(f"verification took {vo['secs']:.1f}s on a small input (hostile proof '{name}')", rp)
                elif where == "shape" and name not in ("mixed m", "mixed m rev") and cls == "ok" and not (md == "RecoverOnly" and name.startswith("proof ")):
                    run.violation(f"ill-formed batch / mismatched proof accepted ({name}, mode {md})", rp)
                elif where != "shape" and md != "RecoverOnly" and cls == "ok":
                    run.violation(f"hostile proof '{name}' accepted ({where}, mode {md})", rp)
    # very large aggregation factors: more commitments in ONE statement than the internal batch size (256); release builds only (cost)
    big = []
    for (b, m, T) in ([(1, 512, 1)] if run.tier == "quick" else [(1, 256, 1), (1, 512, 1), (1, 1024, 2)]):
        rngb = random.Random(f"c16big:{run.seed}:{m}")
        mem = gen.mk_member(rngb, b, m, cap=m, T=T)
        small = gen.mk_member(rngb, b, 2, cap=2, T=T)
        k = (b * m).bit_length() - 1
        hd = [("rounds+1", [{"op": "dup_round", "idx": 0}]), ("a1=undecodable", [{"op": "point_set", "field": "a1", "idx": 0, "to": {"undecodable": 5}}]),
              ("r1=0", [{"op": "scalar_set", "field": "r1", "idx": 0, "hex": gen.hx(0)}]), ("rounds-1", [{"op": "drop_round", "idx": 0}])]
        verifies, tags = [], []
        for md in ("VerifyOnly", "RecoverAndVerify", "RecoverOnly"):
            verifies.append({"mode": md, "vmembers": [gen.vmember(mem, 0)], "log": False}); tags.append(("honest", "alone", md, True))
            verifies.append({"mode": md, "vmembers": [gen.vmember(small, 1), gen.vmember(mem, 0)], "log": False}); tags.append(("honest", "second", md, True))
        for di, (name, _) in enumerate(hd):
            verifies.append({"mode": "VerifyOnly", "vmembers": [gen.vmember(mem, 2 + di)], "log": False}); tags.append((name, "alone", "VerifyOnly", False))
            verifies.append({"mode": "RecoverAndVerify", "vmembers": [gen.vmember(small, 1), gen.vmember(mem, 2 + di)], "log": False}); tags.append((name, "second", "RecoverAndVerify", False))
        big.append({"id": f"c16-big-{m}", "members": [mem, small], "derived": [{"from": 0, "ops": ops} for (_, ops) in hd], "verifies": verifies, "_tags": tags,
                    "_conf": [b, m, T], "with_gens": False, "log_merlin": False, "log_msm": False})
    for group in ("fm", "ristretto"):
        obs = run_harness(["session", group], [dict(sessions.strip(s), group=group) for s in big], profile="release", jobs=len(big))
        for s, o in zip(big, obs):
            b, m, T = s["_conf"]
            if o["members"][0].get("prove") != "ok":
                run.violation(f"prover failed for aggregation factor {m} ({group}): {o['members'][0].get('prove')}", {"kind": "session", "spec": dict(sessions.strip(s), group=group), "profile": "release"})
                continue
            for vi, ((name, where, md, want_ok), vo) in enumerate(zip(s["_tags"], o["verifies"])):
                res = vo["result"]
                cls = res.split(":")[0]
                run.count(["c16big", group, m, name, where, md, cls], {"group": group, "bits": b, "m": m, "T": T, "case": name, "where": where, "mode": md, "result": res[:60]})
                run.bump(f"large aggregation/{group}")
                rp = {"kind": "session", "spec": dict(sessions.strip(s), group=group), "verify": vi, "profile": "release", "hostile": name, "where": where}
                if cls == "panic":
                    run.violation(f"verification panicked (release, {group}; aggregation factor {m}, {name} {where}, mode {md}): {res[:160]}", rp)
                elif want_ok and cls != "ok":
                    run.violation(f"honest proof with aggregation factor {m} refused ({group}, {where}, mode {md}): {res[:100]}", rp)
                elif not want_ok and cls == "ok":
                    run.violation(f"hostile proof '{name}' accepted (aggregation factor {m}, {where}, mode {md})", rp)
    # batches that span several internal chunks of 256 with MIXED aggregation factors (whatever is computed once per batch — the largest member, its
    # index, the padding — must be right for every chunk): all-honest, and with one hostile member in the second chunk; release builds
    rngm = random.Random(f"c16multi:{run.seed}")
    one = gen.mk_member(rngm, 2, 1, cap=4, T=1)
    two = gen.mk_member(rngm, 2, 2, cap=4, T=1)
    four = gen.mk_member(rngm, 2, 4, cap=4, T=1)
    v1, v2, v4 = gen.vmember(one, 0), gen.vmember(two, 1), gen.vmember(four, 2)
    layouts = [("largest first", [v2] + [v1] * 256), ("largest last", [v1] * 256 + [v2]), ("largest at 255", [v1] * 255 + [v4] + [v1] * 3), ("largest at 256", [v1] * 256 + [v4, v1])]
    if run.tier != "quick":
        layouts += [("two chunks of singles then mixed", [v1] * 512 + [v2, v4, v1]), ("largest in the middle chunk", [v1] * 300 + [v4] + [v1] * 300)]
    mverifies, mtags = [], []
    for name, vm in layouts:
        for md in ("VerifyOnly", "RecoverAndVerify", "RecoverOnly"):
            mverifies.append({"mode": md, "vmembers": vm, "log": False}); mtags.append((name, md, True))
        bad = list(vm)
        bad[len(bad) - 1] = gen.vmember(one, 3)
        mverifies.append({"mode": "VerifyOnly", "vmembers": bad, "log": False}); mtags.append((name + ", hostile last member", "VerifyOnly", False))
    mspec = {"id": "c16-multichunk", "members": [one, two, four], "derived": [{"from": 0, "ops": [{"op": "dup_round", "idx": 0}]}], "verifies": mverifies, "with_gens": False,
             "log_merlin": False, "log_msm": False}
    for group in ("fm", "ristretto"):
        o = run_harness(["session", group], [dict(sessions.strip(mspec), group=group)], profile="release")[0]
        for vi, ((name, md, want_ok), vo) in enumerate(zip(mtags, o["verifies"])):
            res = vo["result"]
            cls = res.split(":")[0]
            run.count(["c16multi", group, name, md, cls], {"group": group, "layout": name, "mode": md, "members": len(mverifies[vi]["vmembers"]), "result": res[:60]})
            run.bump(f"multi-chunk mixed batches/{group}")
            rp = {"kind": "session", "spec": dict(sessions.strip(mspec), group=group), "verify": vi, "profile": "release"}
            if cls == "panic":
                run.violation(f"verification panicked (release, {group}; batch of {len(mverifies[vi]['vmembers'])} with mixed aggregation, {name}, mode {md}): {res[:160]}", rp)
            elif want_ok and cls != "ok":
                run.violation(f"honest multi-chunk batch with mixed aggregation refused ({group}, {name}, mode {md}): {res[:100]}", rp)
            elif not want_ok and cls == "ok":
                run.violation(f"hostile member accepted in a multi-chunk batch ({name})", rp)
    # the decoder on arbitrary strings, debug and release
    strs = random_strings(run)
    for profile in ("debug", "release"):
        recs = run_harness(["codec"], [{"id": i, "hex": s.hex()} for i, s in enumerate(strs)], profile=profile, jobs=4)
        for s_, r in zip(strs, recs):
            bad = [k for k in ("decode", "decode_fm", "bincode_de", "tag_from_bytes") if str(r.get(k, "")).startswith("panic")]
            run.count(["decode", profile, min(len(s_) // 64, 10), r["decode"].split(":")[0]], {"profile": profile, "len": len(s_), "decode": r["decode"][:40]})
            run.bump("decode/" + profile)
            if bad:
                run.violation(f"decoder panicked on a {len(s_)}-byte string ({profile}): {r['decode'][:120]}", {"kind": "codec", "hex": s_.hex(), "profile": profile})
    # the model predicts the Ok/Err class: a logged release run over the free-module group
    mspecs = gen_specs(run, "fm")[: (3 if run.tier == "quick" else 6)]
    for s in mspecs:
        s["log_merlin"] = True
        s["log_msm"] = True
        for i, v in enumerate(s["verifies"]):
            v["log"] = (i % (4 if run.tier == "quick" else 7) == 0)      # coqc memory grows with the logged volume (19 GB were measured at 10 specs x every 4th)
    sessions.run_sessions(run, mspecs, None, relevant=1 | 1024, name="c16m")
    # OUTSIDE the property's scope, to validate the PANIC branch of the three-valued model (Model/CheckedTop.v) against the code: statements
    # written through their public fields after construction (promise count != commitment count).  The property does not speak about them;
    # what is compared is that the model predicts the implementation's outcome class value / error / panic (code 1024), nothing else.
    rng = run.rng
    fspecs = []
    for fi, (b, m, T) in enumerate([(2, 1, 1), (1, 2, 2), (4, 2, 1), (2, 4, 3)] if run.tier == "quick" else [(2, 1, 1), (1, 2, 2), (4, 2, 1), (2, 4, 3), (8, 1, 2), (1, 4, 1), (16, 2, 6), (2, 2, 4)]):
        mem = gen.mk_member(rng, b, m, cap=m, T=T)
        other = gen.mk_member(rng, b, m, cap=m, T=T)
        verifies, tags = [], []

        def written(name, promises):
            st = gen.stmt_of(mem)
            st["raw_fields"] = {"promises": promises}
            for md in ("VerifyOnly", "RecoverAndVerify", "RecoverOnly"):
                verifies.append({"mode": md, "vmembers": [{"proof": 0, "stmt": st, "ctx": mem["ctx"]}]})
                tags.append((name, "alone", md))
            verifies.append({"mode": "VerifyOnly", "vmembers": [gen.vmember(other, 1), {"proof": 0, "stmt": st, "ctx": mem["ctx"]}]})
            tags.append((name, "second of two", "VerifyOnly"))
        written("as constructed", mem["promises"])
        written("one surplus promise (None)", mem["promises"] + [None])
        written("one surplus promise (Some)", mem["promises"] + ["0"])
        written("three surplus promises", mem["promises"] + [None, "1", None])
        if m >= 2:
            written("one promise missing", mem["promises"][:-1])
        written("no promises", [])
        fspecs.append({"id": f"c16-fields-{fi}", "group": "fm", "members": [mem, other], "verifies": verifies, "_tags": tags, "_conf": [b, m, T],
                       "_beyond_constructors": True, "_no_embed": True, "_no_modes": True, "with_gens": False})

    def field_oracle(run, s, o):
        b, m, T = s["_conf"]
        for (name, where, md), vo in zip(s["_tags"], o["verifies"]):
            cls = vo["result"].split(":")[0]
            run.count(["c16fields", b, m, T, name, where, md, cls], {"outside_scope": "statement written through its public fields", "case": name, "where": where, "mode": md,
                                                                     "bits": b, "m": m, "T": T, "implementation": cls})
            run.bump("public-field statements: " + cls)
            if name == "as constructed" and cls != "ok":
                run.violation(f"control: the untouched statement is refused ({where}, {md}): {vo['result'][:80]}", {"kind": "session", "spec": sessions.strip(s)})
    sessions.run_sessions(run, fspecs, field_oracle, relevant=1024, name="c16p")
    return run.finish(
        "proof",
        "hostile proofs (round counts 1..70 and hundreds/thousands, every extension tag and d1 length, identity / undecodable / unrelated points at each kind of position, boundary and "
        "non-canonical scalars) alone, at position >= 1 and in the middle of mixed batches, against matching and mismatching statements, ill-formed batch shapes (0-3 mismatched "
        "lengths, mixed bits / T / aggregation, batches of 257-260 (thorough: 600) members with mixed aggregation factors across the internal chunks, aggregation factors of 512 (thorough: 256..1024) commitments per statement), in the three modes, in debug (overflow-checked) and release builds over Ristretto and the free-module group; arbitrary byte strings "
        "through the decoder; any panic, abort, acceptance of a hostile proof or call above 20 s is a violation; the model predicts Ok/Err and the three-valued model value / error / panic; outside the property's scope, statements written through their public fields (promise count != commitment count) tie the PANIC branch of the three-valued model to the back end's length assertions; distinct by "
        "(profile, group, bits, m, T, hostile kind, placement, mode, outcome)",
        ["time proportional to input size is checked as an absolute ceiling on inputs of a few KiB"],
        TRUSTED)


def replay(rp):
    r = rp["replay"]
    if r.get("kind") == "codec":
        print(run_harness(["codec"], [{"id": 0, "hex": r["hex"]}], profile=r.get("profile", "release"))[0])
        return 0
    rec = run_harness(["session"], [r["spec"]], profile=r.get("profile", "release"))[0]
    for i, v in enumerate(rec["verifies"]):
        if v["result"].startswith("panic") or i == r.get("verify"):
            print(i, v["result"][:200])
    return 0
