"""C03 — batch verification accepts iff every member verifies, at any size and order."""
from lib.common import *
from lib import gen, sessions

TRUSTED = [
    "Coq 8.16.1 kernel and vm_compute; Bignums.BigZ only in the executable instance",
    "axioms: none",
    "hand-written verifier model incl. chunking and consistency guards (coq/Model/VerifyTop.v), tied to the code by differential runs",
    "harness free-module group and logs; singleton verdicts computed by the same implementation (the property is relational)",
    "the 'only if' direction for equation failures is probabilistic (a bad member survives only for one value of its weight): C08 + random oracle",
]

BAD_KINDS = ["r1", "d1", "point", "drop_round", "undecodable", "promise", "surplus_d1", "identity"]


def bad_derivation(rng, kind, base_index, T):
    if kind == "r1":
        return {"from": base_index, "ops": [{"op": "scalar_add", "field": "r1", "hex": gen.hx(1)}]}
    if kind == "d1":
        return {"from": base_index, "ops": [{"op": "scalar_add", "field": "d1", "idx": rng.randrange(T), "hex": gen.hx(gen.rscalar(rng))}]}
    if kind == "point":
        return {"from": base_index, "ops": [{"op": "point_set", "field": "a1", "to": {"junk": rng.randrange(1 << 30)}}]}
    if kind == "drop_round":
        return {"from": base_index, "ops": [{"op": "dup_round", "idx": 0}]}
    if kind == "undecodable":
        return {"from": base_index, "ops": [{"op": "point_set", "field": "b", "to": {"undecodable": rng.randrange(1 << 30)}}]}
    if kind == "identity":
        return {"from": base_index, "ops": [{"op": "point_set", "field": "ri", "idx": 0, "to": {"identity": True}}]}
    if kind == "cancel+":
        return {"from": base_index, "ops": [{"op": "scalar_add", "field": "d1", "idx": 0, "hex": gen.hx(12345)}]}
    if kind == "cancel-":
        return {"from": base_index, "ops": [{"op": "scalar_add", "field": "d1", "idx": 0, "hex": gen.hx(L - 12345)}]}
    if kind == "surplus_d1":
        # one more d1 scalar than the extension degree, tag adjusted so that the bytes still decode
        return {"from": base_index, "ops": [{"op": "set_d1_len", "n": T + 1}]}
    return None


def make_batch(run, rng, k, bad_positions, bad_kind, mixed=True, T=None, bits=None, seeded_some=True):
    bits = bits or rng.choice([2, 4])
    T = T or rng.choice([1, 2])
    pool_members, derived, vm = [], [], []
    # a small pool of distinct members, reused (with fresh transcripts) to fill big batches cheaply
    npool = min(k, 6)
    for i in range(npool):
        m = rng.choice([1, 1, 2, 4]) if mixed else 1
        if bits * m < 2:
            m = 2
        cap = m * rng.choice([1, 2, 4]) if mixed else m
        pool_members.append(gen.mk_member(rng, bits, m, cap=cap, T=T, seed=(m == 1 and seeded_some and i % 2 == 0),
                                           ctx={"label": f"c03-member-{i}", "msgs": [["who", "%02x" % i]]} if i % 3 else None))
    picks = [rng.randrange(npool) for _ in range(k)]
    # guarantee that every bad position refers to a member whose aggregation allows the mutation
    for pos in range(k):
        mem = pool_members[picks[pos]]
        if pos in bad_positions:
            if bad_kind == "promise":
                st = gen.stmt_of(mem)
                st["promises"][0] = str(1 << bits) if bits < 64 else None
                vm.append({"proof": picks[pos], "stmt": st, "ctx": mem["ctx"]})
            elif T + 1 > 6 and bad_kind == "surplus_d1":
                derived.append(bad_derivation(rng, "r1", picks[pos], T))
                vm.append(gen.vmember(mem, npool + len(derived) - 1))
            elif bad_kind == "cancel":
                # two (or more) members whose defects on the same blinding generator sum to zero: they cancel if their weights coincide
                sign = "cancel+" if sorted(bad_positions).index(pos) % 2 == 0 else "cancel-"
                derived.append(bad_derivation(rng, sign, picks[pos], T))
                vm.append(gen.vmember(mem, npool + len(derived) - 1))
            else:
                derived.append(bad_derivation(rng, bad_kind, picks[pos], T))
                vm.append(gen.vmember(mem, npool + len(derived) - 1))
        else:
            vm.append(gen.vmember(mem, picks[pos]))
    return pool_members, derived, vm


def gen_specs(run):
    rng = run.rng
    quick = run.tier == "quick"
    sizes = [1, 2, 3, 5, 255, 256, 257, 300, 512, 513] if quick else [1, 2, 3, 4, 7, 16, 100, 255, 256, 257, 258, 300, 511, 512, 513, 767, 768, 769, 1025, 2100]
    specs = []
    sid = 0
    log_budget = [2500 if quick else 6000]
    for k in sizes:
        variants = [([], None)]
        positions = sorted(set([0, k - 1, min(k - 1, 255), min(k - 1, 256), rng.randrange(k), (k // 256) * 256 if k % 256 else max(0, k - 256)]))
        kinds = list(BAD_KINDS)
        rng.shuffle(kinds)
        nvar = 3 if (quick and k > 100) else (len(positions) if quick else len(positions) * 2)
        for vi in range(nvar):
            variants.append(([positions[vi % len(positions)]], kinds[vi % len(kinds)]))
        if k >= 3:
            variants.append((sorted(rng.sample(range(k), 2)), "r1"))
        if k >= 2:
            variants.append((sorted(rng.sample(range(min(k, 256)), 2)), "cancel"))
            variants.append(([0, min(k, 256) - 1], "cancel"))
        for (bad, kind) in variants:
            members, derived, vm = make_batch(run, rng, k, set(bad), kind)
            mode = rng.choice(["VerifyOnly", "RecoverAndVerify"])
            big = k > 40
            # model evaluation of a logged batch costs about 1 GB of coqc memory per 1000 members: logged big batches are budgeted
            want_log = (not big) or (sid % (12 if quick else 4) == 0)
            if want_log and big:
                if log_budget[0] >= k:
                    log_budget[0] -= k
                else:
                    want_log = False
            verifies = [{"mode": mode, "vmembers": vm, "log": want_log, "_role": "batch"}]
            # a permutation of the same batch
            perm = list(range(k))
            rng.shuffle(perm)
            verifies.append({"mode": mode, "vmembers": [vm[i] for i in perm], "log": False, "_role": "perm", "_perm": perm})
            # singletons: every distinct (proof, statement) pair of the batch
            seen = {}
            for i, x in enumerate(vm):
                key = json.dumps([x["proof"], x["stmt"]["promises"], x["stmt"]["cap"]])
                if key not in seen:
                    seen[key] = len(verifies)
                    verifies.append({"mode": mode, "vmembers": [x], "log": False, "_role": "single"})
            specs.append({"id": f"c03-{sid}", "group": "fm", "members": members, "derived": derived, "verifies": verifies,
                          "_k": k, "_bad": bad, "_kind": kind, "_single_of": [seen[json.dumps([x["proof"], x["stmt"]["promises"], x["stmt"]["cap"]])] for x in vm],
                          "with_gens": False})
            sid += 1
    # shape refusals
    mem = gen.mk_member(rng, 4, 1, T=1)
    mem2 = gen.mk_member(rng, 8, 1, T=1)
    mem3 = gen.mk_member(rng, 4, 1, T=2)
    mem4 = dict(gen.mk_member(rng, 4, 1, T=1), gb0_eq_cH=gen.hx(7))
    mem5 = dict(gen.mk_member(rng, 4, 1, T=1), h_scale=gen.hx(3))
    a, b2, c3, d4, e5 = (gen.vmember(mem, 0), gen.vmember(mem2, 1), gen.vmember(mem3, 2), gen.vmember(mem4, 3), gen.vmember(mem5, 4))
    shapes = [
        ("empty", []), ("no_proofs", [{"stmt": a["stmt"], "ctx": a["ctx"]}]), ("no_transcripts", [{"proof": 0, "stmt": a["stmt"]}]),
        ("no_statements", [{"proof": 0, "ctx": a["ctx"]}]),
        ("fewer_proofs", [a, {"stmt": a["stmt"], "ctx": a["ctx"]}]), ("fewer_transcripts", [a, {"proof": 0, "stmt": a["stmt"]}]),
        ("fewer_statements", [a, {"proof": 0, "ctx": a["ctx"]}]),
        ("bits_differ", [a, b2]), ("bits_differ_rev", [b2, a]), ("T_differs", [a, c3]), ("T_differs_rev", [c3, a]),
        ("Gb_differs", [a, d4]), ("H_differs", [a, e5]), ("H_differs_mid", [a, a, e5, a]),
    ]
    nt_ = lambda x: {"proof": x["proof"], "stmt": x["stmt"]}                 # an entry without a transcript
    np_ = lambda x: {"stmt": x["stmt"], "ctx": x["ctx"]}                     # ... without a proof
    ns_ = lambda x: {"proof": x["proof"], "ctx": x["ctx"]}                   # ... without a statement
    shapes += [
        ("257_members_256_transcripts", [a] * 256 + [nt_(a)]), ("300_members_256_transcripts", [a] * 256 + [nt_(a)] * 44),
        ("513_members_512_transcripts", [a] * 512 + [nt_(a)]), ("257_members_256_proofs", [a] * 256 + [np_(a)]),
        ("257_members_256_statements", [a] * 256 + [ns_(a)]), ("256_members_257_transcripts", [a] * 256 + [{"ctx": a["ctx"]}]),
        ("256_members_512_transcripts", [a] * 256 + [{"ctx": a["ctx"]}] * 256),
    ]
    # members that disagree on the Pedersen generators must make the batch fail whatever their position and size (also the strictly largest, not first)
    for sp in gen.mixed_generator_batches(rng, quick, "c03g"):
        sp["_mixed"] = True
        specs.append(sp)
    for name, vm in shapes:
        specs.append({"id": f"c03-shape-{name}", "group": "fm", "members": [mem, mem2, mem3, mem4, mem5],
                      "verifies": [{"mode": "VerifyOnly", "vmembers": vm, "_role": "shape"}] + [{"mode": "VerifyOnly", "vmembers": [x], "log": False, "_role": "single"} for x in (a, b2, c3, d4, e5)],
                      "_shape": name, "with_gens": False})
    return specs


def oracle(run, s, o):
    rp = {"kind": "session", "spec": sessions.strip(s)}
    if s.get("_mixed"):
        for vi, ((tag, want_ok), vo) in enumerate(zip(s["_tags"], o["verifies"])):
            run.count(["mixed-gens", tag.split(":")[0][:40], vo["result"].split(":")[0]], {"case": tag, "result": vo["result"][:60]})
            run.bump("mixed generator batches")
            if want_ok and vo["result"] != "ok":
                run.violation(f"control batch refused ({tag}): {vo['result'][:80]}", dict(rp, verify=vi))
            if not want_ok and vo["result"] == "ok":
                run.violation(f"batch accepted although its members disagree on the generators ({tag}): not every member verifies", dict(rp, verify=vi))
        return
    if "_shape" in s:
        v = o["verifies"][0]
        singles = [x["result"] for x in o["verifies"][1:]]
        run.count(["shape", s["_shape"], v["result"].split(":")[0]], {"shape": s["_shape"], "result": v["result"][:80]})
        run.bump("shape")
        if any(x != "ok" for x in singles):
            run.violation(f"shape test setup: a member does not verify on its own: {singles}", rp)
        if not v["result"].startswith("err"):
            run.violation(f"ill-formed batch ({s['_shape']}) was not refused with an error: {v['result'][:100]}", rp)
        return
    k, bad, kind = s["_k"], s["_bad"], s["_kind"]
    vb, vp = o["verifies"][0], o["verifies"][1]
    single_idx = s["_single_of"]
    singles_ok = [o["verifies"][i]["result"] == "ok" for i in single_idx]
    for i in set(single_idx):
        r = o["verifies"][i]["result"]
        if r.startswith("unavailable"):
            run.violation(f"generator: singleton unavailable ({r})", rp)
            return
    want = all(singles_ok)
    got = vb["result"] == "ok"
    chunkpos = "none" if not bad else ("first" if bad[0] == 0 else "last" if bad[0] == k - 1 else "boundary" if bad[0] % 256 in (0, 255) else "mid")
    run.count(["batch", min(k, 600), len(bad), kind, chunkpos, got], {"k": k, "bad_positions": bad, "bad_kind": kind, "batch": vb["result"][:60], "singletons_all_ok": want})
    run.bump(f"k={k}")
    run.bump(f"bad={kind}")
    if bad and want:
        run.violation(f"generator: the {kind} member verifies on its own", rp)
    if got != want:
        run.violation(f"batch of {k} {'accepted' if got else 'rejected'} although {'member(s) ' + str([i for i, x in enumerate(singles_ok) if not x][:5]) + ' fail' if not want else 'every member verifies'} on their own"
                      f" (bad kind {kind} at {bad})", rp)
    if (vp["result"] == "ok") != got:
        run.violation(f"verdict depends on the order of the batch (k={k}, bad {kind} at {bad})", rp)
    if got:
        masks = vb["masks"]
        if len(masks) != k:
            run.violation(f"batch of {k} returned {len(masks)} results", rp)
        else:
            mode = s["verifies"][0]["mode"]
            for i, x in enumerate(s["verifies"][0]["vmembers"]):
                st = x["stmt"]
                exp = [st["commit"][0]["r"]][0] if (mode != "VerifyOnly" and st.get("seed")) else None
                if masks[i] != exp:
                    run.violation(f"result {i} of the batch does not belong to triple {i} (expected {'a mask' if exp else 'None'})", rp)
                    break
            if vp["result"] == "ok":
                pm = vp["masks"]
                perm = s["verifies"][1]["_perm"]
                if [pm[j] for j in range(k)] != [masks[perm[j]] for j in range(k)]:
                    run.violation("results of the permuted batch are not the permuted results", rp)


def shape_terms(run, specs, obs_by_id):
    """Coq evaluation of the entry guards of verify_batch on the ill-formed triples (C03_empty_refused / C03_length_mismatch_refused)"""
    from lib import vmodel
    terms, names = [], []
    for s in specs:
        if "_shape" not in s:
            continue
        vm = s["verifies"][0]["vmembers"]
        ns, npf, nt = sum(1 for x in vm if "stmt" in x), sum(1 for x in vm if "proof" in x), sum(1 for x in vm if "ctx" in x)
        if ns == npf == nt and ns > 0:
            continue
        o = obs_by_id.get(s["id"])
        if not o:
            continue
        terms.append(f"(chk_shape {ns}%nat {npf}%nat {nt}%nat {coq_bool(o['verifies'][0]['result'] == 'ok')})")
        names.append(s)
    bad = vmodel.coq_eval_codes("c03s", vmodel.VHEADER, terms, shards=1)
    run.bump("model_evaluations", len(terms))
    for i in bad:
        run.violation(f"model and implementation disagree on the entry guards of verify_batch (shape {names[i]['_shape']})",
                      {"kind": "session", "spec": sessions.strip(names[i]), "correspondence": "Exec/VerifyExec.chk_shape"}, no_input=True)


def weighted_cancellation(run):
    """'Accepts iff every member verifies', against an adversary who knows the verifier: two members are made invalid by shifts of d1[k] that cancel
    under the combination factors the verifier used for the untouched batch (read off the final product of a first run).  A verifier whose factors
    depend on every response draws other factors for the altered batch and refuses it; the members are refused individually in any case."""
    from props import c08
    rng = run.rng
    quick = run.tier == "quick"
    batches = []
    for bi in range(5 if quick else 40):
        T = 1 + bi % 3
        n = [2, 3, 4, 36, 5][bi % 5]
        batches.append((bi, T, n, c08.make_batch(rng, n, T, quick)))
    modes = ["VerifyOnly", "RecoverAndVerify"]
    specs1 = [{"id": f"c03-w{bi}", "group": "fm", "members": mems, "with_gens": False, "_no_embed": True, "_no_modes": True,
               "verifies": [{"mode": modes[bi % 2], "vmembers": [gen.vmember(mm, i) for i, mm in enumerate(mems)]}]} for (bi, T, n, mems) in batches]
    obs1 = run_harness(["session"], [sessions.strip(x) for x in specs1], jobs=len(specs1))
    specs2 = []
    for (bi, T, n, mems), s1, o1 in zip(batches, specs1, obs1):
        vo = o1["verifies"][0]
        if vo["result"] != "ok":
            run.violation(f"honest batch refused: {vo['result'][:80]}", {"kind": "session", "spec": sessions.strip(s1)})
            continue
        ws = c08.weights_of(s1["verifies"][0], o1, vo)
        i, j = (0, n - 1) if n < 34 else (33, n - 1)
        k = rng.randrange(T)
        t = gen.rscalar(rng)
        derived = [{"from": i, "ops": [{"op": "scalar_add", "field": "d1", "idx": k, "hex": gen.hx((ws[j] * t) % L)}]},
                   {"from": j, "ops": [{"op": "scalar_add", "field": "d1", "idx": k, "hex": gen.hx((-ws[i] * t) % L)}]}]
        vm = [gen.vmember(mm, q) for q, mm in enumerate(mems)]
        vm[i] = gen.vmember(mems[i], n)
        vm[j] = gen.vmember(mems[j], n + 1)
        specs2.append({"id": f"c03-x{bi}", "group": "fm", "members": mems, "derived": derived, "with_gens": False, "log_merlin": False, "log_msm": False,
                       "verifies": [{"mode": modes[bi % 2], "vmembers": vm}, {"mode": "VerifyOnly", "vmembers": [vm[i]]}, {"mode": "VerifyOnly", "vmembers": [vm[j]]}],
                       "_pair": [i, j, k], "_n": n})
    for s2, o2 in zip(specs2, run_harness(["session"], [sessions.strip(x) for x in specs2], jobs=max(1, len(specs2)))):
        res = [v["result"] for v in o2["verifies"]]
        run.count(["weighted-cancel", s2["_n"], res[0].split(":")[0]], {"attack": "two members invalid by cancelling shifts of d1[k] under observed combination factors", "batch": s2["_n"],
                                                                        "pair": s2["_pair"][:2], "result": res[0][:60]})
        run.bump("weighted cancellation attacks")
        if res[1] == "ok" or res[2] == "ok":
            run.violation("a member with a shifted response scalar verifies on its own", {"kind": "session", "spec": sessions.strip(s2), "verify": 1 if res[1] == "ok" else 2})
        if res[0] == "ok":
            run.violation(f"batch of {s2['_n']} ACCEPTED although members {s2['_pair'][0]} and {s2['_pair'][1]} do not verify on their own: their defects on d1[{s2['_pair'][2]}] cancel "
                          f"under the combination factors observed for the untouched batch", {"kind": "session", "spec": sessions.strip(s2), "verify": 0})


def run(run: Run):
    run.run_audit()
    specs = gen_specs(run)
    obs = sessions.run_sessions(run, specs, oracle, relevant=0x1FF, jobs=12)
    shape_terms(run, specs, {s["id"]: o for s, o in zip(specs, obs)})
    weighted_cancellation(run)
    return run.finish(
        "proof",
        "batches of sizes around every chunk boundary with no / one / two invalid members (eight kinds of invalidity) at first / last / boundary / random "
        "positions, mixed aggregation factors and capacities, a random permutation of each, and ill-formed batch shapes; the batch verdict is compared with "
        "the conjunction of singleton verdicts and with the Coq model (chunk by chunk); result length and alignment are checked; two members made invalid by shifts that cancel under the combination factors observed on a first run (batches of 2-36); "
        "distinct by (size bucket, #bad, bad kind, position class, outcome)",
        ["members of big batches are drawn from a pool of six distinct proofs"],
        TRUSTED)


def replay(rp):
    return sessions.replay_session(rp)
