"""C11 — generators are distinct, deterministic and derived as specified."""
import hashlib
from lib.common import *

HEADER = """From Coq Require Import Arith NArith List Bool Uint63.
From BP Require Import Exec.CasesLib Exec.Limbs Exec.GensExec.
Import ListNotations. Open Scope N_scope.
"""
TRUSTED = [
    "Coq 8.16.1 kernel and vm_compute; Bignums.BigZ (primitive 63-bit integers) in the Ristretto field arithmetic",
    "axioms: none declared; Print Assumptions of C11_generators_distinct lists the kernel's primitive 63-bit integer operations (PrimInt63.*: int, add/sub/mul with carry, "
    "shifts, comparisons, head0/tail0), which Bignums.BigZ uses under vm_compute — primitives without a Gallina body, not axioms of the development",
    "coq/Crypto/GenTab*.v: generated once from the implementation's generator bytes (tools/gen_gentab.py); each carries the lemma that the Gallina derivation computes that list",
    "coq/Crypto/Keccak.v and coq/Crypto/Ristretto.v are Gallina models of DEPENDENCIES (sha3, curve25519-dalek: SHAKE256, SHA3-512, RFC 9496 one-way map and encoding), "
    "validated by known-answer examples and by byte equality with the Rust crates on every run; modelled, not verified",
    "coq/Model/Gens.v: label layout and chain indexing, tied to the code by comparing every generator's bytes",
    "harness/src/gens.rs (reads points through gi_base_iter / hi_base_iter / g_bases / h_base / *_compressed and the table through unit-vector multiscalar multiplications)",
]


def lim(h):
    return limbs_of_int(int_of_hex_le(h), 5)


def run(run: Run):
    run.run_audit()
    quick = run.tier == "quick"
    rng = run.rng
    # objects constructed in different orders (each harness process constructs them in the given order)
    objs = [(64, 32, 6, False), (64, 4, 6, True), (8, 2, 1, True), (1, 1, 2, True), (16, 8, 3, False), (2, 32, 4, True), (32, 1, 5, True), (4, 16, 6, True),
            (1, 2, 1, True), (4, 8, 2, True), (8, 16, 1, True)]     # incl. parameter sets with more parties than bits (table rows per party vs per bit)
    order2 = list(reversed(objs))
    recs = run_harness(["gens"], [{"bits": b, "cap": c, "T": t, "table": tab} for (b, c, t, tab) in objs])
    recs2 = run_harness(["gens"], [{"bits": b, "cap": c, "T": t, "table": False} for (b, c, t, tab) in order2])
    ref = recs[0]
    digest = json.load(open(os.path.join(VERIF, "vectors", "gens_digest.json")))
    allp = [ref["H"]] + ref["Gb"] + ref["G"] + ref["Hv"]
    # (1) recorded digest of the released generators (corpus, runs first)
    h = hashlib.sha256("".join(allp).encode()).hexdigest()
    run.count(["digest"], {"check": "sha256 of all 4103 encodings of (64, 32, T=6)", "sha256": h})
    if h != digest["sha256"] or len(allp) != digest["count"]:
        first = None
        for name, want in digest["first"].items():
            got = {"H": ref["H"], "Gb1": ref["Gb"][0], "G_0_0": ref["G"][0], "H_0_0": ref["Hv"][0], "G_31_63": ref["G"][-1]}[name]
            if got != want:
                first = name
                break
        run.violation(f"the generators of (bits=64, capacity=32, T=6) differ from the recorded release 0.4.0 set (first differing landmark: {first})",
                      {"kind": "gens", "spec": {"bits": 64, "cap": 32, "T": 6}, "sha256": h, "expected": digest["sha256"]})
    # (2) pairwise distinct, none the identity
    if len(set(allp)) != len(allp):
        seen = {}
        for i, p in enumerate(allp):
            if p in seen:
                run.violation(f"two generators coincide: positions {seen[p]} and {i} of [H, Gb_1..6, G (party-major), Hv]", {"kind": "gens", "spec": {"bits": 64, "cap": 32, "T": 6}, "positions": [seen[p], i]})
                break
            seen[p] = i
    if "00" * 32 in allp:
        run.violation("a generator is the identity", {"kind": "gens", "spec": {"bits": 64, "cap": 32, "T": 6}})
    run.count(["distinct"], {"check": "pairwise distinctness and non-identity of 4103 implementation points", "distinct": len(set(allp))})
    # (3) every other object is a prefix-consistent view of the same points; compressed forms are the encodings; tables interleave
    cases, meta = [], []
    for (b, c, t, tab), r in list(zip(objs, recs)) + list(zip(order2, recs2)):
        rp = {"kind": "gens", "spec": {"bits": b, "cap": c, "T": t}}
        run.count(["object", b, c, t], {"bits": b, "capacity": c, "T": t, "points": len(r["G"]) * 2})
        run.bump("objects")
        for i in range(c):
            if r["G"][i * b:(i + 1) * b] != ref["G"][i * 64:i * 64 + b] or r["Hv"][i * b:(i + 1) * b] != ref["Hv"][i * 64:i * 64 + b]:
                run.violation(f"generator (party {i}) of the ({b}, {c}) parameter set differs from the same generator in the (64, 32) set: depends on capacity / bit length / construction order", rp)
                break
        if r["Gb"] != ref["Gb"][:t] or r["H"] != ref["H"]:
            run.violation(f"Pedersen generators for extension degree {t} are not a prefix of those for degree 6", rp)
        if r["Gb_compressed"] != r["Gb"] or r["H_compressed"] != r["H"]:
            run.violation("compressed forms handed to the transcript are not the encodings of the generator points", rp)
        if "table_panic" in r:
            run.violation(f"the precomputed table of the ({b}, {c}) parameter set cannot serve entry {r['table_panic']} of {2 * b * c}: "
                          f"it has fewer rows than the generators the object hands out (the multiscalar back end panics)", rp)
        elif "table" in r:
            cases.append(f"chk_table {coq_list([lim(x) for x in r['G']])} {coq_list([lim(x) for x in r['Hv']])} {coq_list([lim(x) for x in r['table']])}")
            meta.append(("table", rp))
            run.bump("table entries", len(r["table"]))
    # (4) the derivation itself, in Coq: SHAKE256 chains + Ristretto map.  quick: parties 0-3 (all 64 indices); thorough: all 32 parties
    parties = list(range(4)) if quick else list(range(32))
    for i in parties:
        for kc, name in ((0, "G"), (1, "Hv")):
            pts = ref[name][i * 64:(i + 1) * 64]
            # split each chain in two halves to balance shards (a chain prefix is recomputed, hashing is cheap next to the map)
            cases.append(f"chk_chain {kc} {i} {coq_list([lim(x) for x in pts])}")
            meta.append((f"chain {name} party {i}", {"kind": "gens", "spec": {"bits": 64, "cap": 32, "T": 6}, "party": i, "vector": name}))
            run.count(["chain", name, i], {"chain": name, "party": i, "points": 64} if i < 2 else None)
            run.bump("points compared with the Gallina derivation", 64)
    cases.append(f"chk_pedersen {lim(ref['H'])} {coq_list([lim(x) for x in ref['Gb']])}")
    meta.append(("pedersen", {"kind": "gens", "spec": {"bits": 64, "cap": 32, "T": 6}}))
    run.count(["pedersen"], {"check": "value generator = Ristretto base point; Gb_k = SHA3-512 label derivation, k = 1..6"})
    bad = coq_eval_bools("c11", HEADER, cases, shards=16 if not quick else 9, per_shard_min=1)
    for i in bad:
        name, rp = meta[i]
        run.violation(f"generator bytes differ from the documented derivation ({name})", rp)
    # (4c) "... and the compressed forms handed to the transcript are the encodings of those same points": EVERY generator a parameter object carries
    # reaches the transcript — a statement whose k-th blinding generator (or H) is another point, its commitments being the same points, must not
    # accept the proof, for every extension degree and every k; the transcript operations are compared with the Coq model as well
    from lib import gen, sessions
    tspecs = []
    for T in range(1, 7):
        mem = gen.mk_member(rng, 2, 1 if T % 2 else 2, T=T, ctx={"label": "c11-t"})
        verifies, tags = [{"mode": "VerifyOnly", "vmembers": [gen.vmember(mem, 0)]}], [("base", True)]
        for tag, over in [("H", {"h_scale": gen.hx(2)})] + [(f"Gb{k}", {"gb_scale": [k, gen.hx(3)]}) for k in range(T)]:
            st = gen.stmt_of(mem, **over)
            st["commit"] = [{"open_std": c} for c in st["commit"]]
            verifies.append({"mode": "VerifyOnly", "vmembers": [{"proof": 0, "stmt": st, "ctx": mem["ctx"]}]})
            tags.append((tag, False))
        # ... and with ONLY the compressed form another point (the equation's points untouched): refused iff that encoding reaches the transcript
        for tag, over in [("H (compressed form only)", {"hc_scale": gen.hx(2)})] + [(f"Gb{k} (compressed form only)", {"gbc_scale": [k, gen.hx(3)]}) for k in range(T)]:
            verifies.append({"mode": "VerifyOnly", "vmembers": [gen.vmember(mem, 0, **over)]})
            tags.append((tag, False))
        tspecs.append({"id": f"c11-t{T}", "group": "fm", "members": [mem], "verifies": verifies, "_tags": tags, "_T": T, "with_gens": False, "_no_embed": True, "_no_modes": True})

    def t_oracle(run, s, o):
        for vi, ((tag, want_ok), vo) in enumerate(zip(s["_tags"], o["verifies"])):
            run.count(["gens-in-transcript", s["_T"], tag, vo["result"].split(":")[0]], {"check": "every generator reaches the transcript", "T": s["_T"], "generator": tag})
            run.bump("generator-binding cases")
            if want_ok and vo["result"] != "ok":
                run.violation(f"honest proof refused (T={s['_T']}): {vo['result'][:80]}", {"kind": "session", "spec": sessions.strip(s)})
            if not want_ok and vo["result"] == "ok":
                run.violation(f"proof accepted under a statement whose generator {tag} is another point (extension degree {s['_T']}): that generator's encoding never reaches the transcript",
                              {"kind": "session", "spec": sessions.strip(s), "verify": vi})
    sessions.run_sessions(run, tspecs, t_oracle, relevant=16 | 128, name="c11t")
    # (4d) the parameter set as a STATEMENT carries it (RangeStatement::init(params, m commitments).generators — the object prover and verifier read)
    # is the same set: same number of generators, same points, whatever the number of commitments
    vias = [(b_, c_, t_, m_) for (b_, c_, t_) in [(8, 2, 1), (4, 8, 2), (16, 8, 3), (64, 4, 6), (1, 2, 1), (2, 32, 4)] for m_ in sorted({1, max(1, c_ // 2), c_})]
    direct = {(r_["bits"], r_["cap"], r_["T"]): r_ for r_ in recs if "G" in r_}
    for (b_, c_, t_, m_), r_ in zip(vias, run_harness(["gens"], [{"bits": b_, "cap": c_, "T": t_, "table": False, "via_statement": m_} for (b_, c_, t_, m_) in vias])):
        rp = {"kind": "gens", "spec": {"bits": b_, "cap": c_, "T": t_, "table": False, "via_statement": m_}}
        d_ = direct.get((b_, c_, t_))
        run.count(["via-statement", b_, c_, t_, m_], {"check": "generators read back from a statement", "bits": b_, "capacity": c_, "T": t_, "commitments": m_})
        run.bump("via statement")
        if "error" in r_ or d_ is None:
            run.violation(f"no generators could be read from a statement of {m_} commitment(s) over the ({b_}, {c_}) parameter set: {r_.get('error')}", rp)
        elif any(r_[k_] != d_[k_] for k_ in ("G", "Hv", "Gb", "H", "Gb_compressed", "H_compressed")):
            run.violation(f"the ({b_}, {c_}, T={t_}) parameter set carried by a statement of {m_} commitment(s) hands out {len(r_['G'])} + {len(r_['Hv'])} vector generators, "
                          f"the set given to its constructor {len(d_['G'])} + {len(d_['Hv'])}: generators missing or different", rp)
    # (4a) party indices beyond one byte (a 512-party parameter set)
    from lib import gens_hi
    gens_hi.check_high_parties(run, quick, "c11hi")
    # (4b) every way of walking the public generator accessors hands out the same points as a plain collect(): positioned access (nth, skip,
    # step_by, by_ref + take, last, count) on fresh and on partially consumed iterators, across party boundaries
    shapes = [(1, 4), (2, 2), (4, 2), (4, 4), (8, 2), (64, 2), (16, 8)] if quick else [(b, c) for b in (1, 2, 4, 8, 16, 32, 64) for c in (1, 2, 4, 8, 16, 32)]
    for r in run_harness(["gens"], [{"op": "iter_api", "bits": b, "cap": c} for (b, c) in shapes], jobs=4):
        run.count(["iter_api", r.get("bits"), r.get("cap")], {"check": "iterator API of gi_base_iter / hi_base_iter vs collect()", "bits": r.get("bits"), "capacity": r.get("cap")})
        run.bump("iterator-API shapes")
        if r.get("error") or r.get("mismatches"):
            mm = (r.get("mismatches") or [{}])[0]
            run.violation(f"the generator accessor of the ({r.get('bits')}, {r.get('cap')}) parameter set hands out a different point through {mm.get('api')} "
                          f"(vector {mm.get('vector')}, after consuming {mm.get('consumed')}, argument {mm.get('k')}) than through collect()",
                          {"kind": "gens", "spec": {"op": "iter_api", "bits": r.get("bits"), "cap": r.get("cap")}, "observed": (r.get("mismatches") or [])[:8]})
    # (5) concurrent first use and concurrent construction (fresh processes)
    nproc = 6 if quick else 40
    thr = run_harness(["gens"], [{"op": "threads", "race_first_use": True, "degrees": rng.sample([1, 2, 3, 4, 5, 6], 6)} for _ in range(nproc)], jobs=nproc)
    for r in thr:
        run.count(["race", len(r["first_use"])], {"check": "16 threads race the first use of the cached blinding generators in a fresh process"})
        run.bump("first-use races")
        if r["mismatches"] or r["first_use"] != ref["Gb"][:len(r["first_use"])]:
            run.violation("racing first use of the cached blinding generators returned wrong or inconsistent points", {"kind": "gens", "spec": {"op": "threads", "race_first_use": True}, "observed": r})
    return run.finish(
        "proof",
        "all 4103 points of (64, 32, T=6) [every smaller parameter set is checked to be a prefix view of it, in two construction orders]: recorded digest, pairwise distinctness, "
        "non-identity; compressed accessors; iterator API of the accessors (nth / skip / step_by / by_ref on partially consumed iterators) vs collect(); precomputed tables read out point by point vs the interleaving model; byte equality of chains (quick: parties 0-3, thorough: all 32) and of the "
        "seven Pedersen points with the Gallina SHAKE256 / SHA3-512 / Ristretto derivation; fresh processes racing the first use from 16 threads; distinct by (kind of check, object / chain)",
        ["the (64, 32) domain covers every parameter set the constructors admit up to capacity 32"],
        TRUSTED, extra={"exhaustive": not quick})


def replay(rp):
    r = rp["replay"]
    rec = run_harness(["gens"], [r["spec"]])[0]
    print(json.dumps(rec)[:1500])
    return 0
