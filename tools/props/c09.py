"""C09 — mask recovery returns the commitment's exact mask, position by position."""
from lib.common import *
from lib import gen, sessions

TRUSTED = [
    "Coq 8.16.1 kernel and vm_compute; Bignums.BigZ only in the executable instance",
    "axioms: none",
    "hand-written model of mask recovery (coq/Model/Verifier.v: recover_mask; VerifyTop.v: mask_of / result alignment) tied to the code by differential runs; "
    "seed nonces recomputed independently (blake2b, documented key layout) by the orchestrator",
]


def gen_specs(run):
    rng = run.rng
    quick = run.tier == "quick"
    specs = []
    sid = 0
    # singles: all bit lengths x extension degrees
    pairs = [(b, T) for b in gen.BITS for T in range(1, 7)]
    if quick:
        rng.shuffle(pairs)
        pairs = [(1, 1), (1, 6), (64, 1), (64, 6), (2, 3), (32, 2)] + pairs[:8]
    for (b, T) in pairs:
        cap = rng.choice([1, 2, 4, 8])
        ctx = rng.choice([{"label": "c09"}, {"label": "c09", "msgs": [["m", "0011"]]}])
        mem = gen.mk_member(rng, b, 1, cap=cap, T=T, seed=True, ctx=ctx, rngspec=rng.choice([{"kind": "chacha", "seed": sid}, {"kind": "zero"}]))
        group = "ristretto" if (sid % 4 == 1 and b <= 32) else "fm"
        specs.append({"id": f"c09-{sid}", "group": group, "members": [mem], "with_gens": False,
                      "verifies": [{"mode": md, "vmembers": [gen.vmember(mem, 0)]} for md in ("RecoverAndVerify", "RecoverOnly", "VerifyOnly")]
                                  + [{"mode": "RecoverAndVerify", "vmembers": [gen.vmember(mem, 0, cap=cap * 2)]}],
                      "_kind": "single", "_conf": [b, T, cap, group]})
        sid += 1
    # batches mixing seeded, unseeded and aggregated members
    for bi in range(4 if quick else 60):
        b = rng.choice([2, 4, 8])
        T = rng.choice([1, 2, 3, 6])
        n = rng.choice([2, 3, 5, 9])
        mems = []
        for i in range(n):
            kind = rng.choice(["seeded", "seeded", "unseeded", "aggregated"])
            m = rng.choice([2, 4]) if kind == "aggregated" else 1
            mems.append(gen.mk_member(rng, b, m, cap=m * rng.choice([1, 2, 4]), T=T, seed=(kind == "seeded")))
        order = list(range(n))
        rng.shuffle(order)
        verifies = []
        for md in ("RecoverAndVerify", "RecoverOnly", "VerifyOnly"):
            verifies.append({"mode": md, "vmembers": [gen.vmember(mems[i], i) for i in order], "_order": order})
        # the seed withheld for one seeded member: its slot must be None
        seeded_pos = [p for p, i in enumerate(order) if mems[i]["seed"]]
        if seeded_pos:
            p = rng.choice(seeded_pos)
            vm = [gen.vmember(mems[i], i) for i in order]
            vm[p] = gen.vmember(mems[order[p]], order[p], seed=None)
            verifies.append({"mode": "RecoverAndVerify", "vmembers": vm, "_order": order, "_withheld": p})
        specs.append({"id": f"c09-{sid}", "group": "fm", "members": mems, "verifies": verifies, "with_gens": False, "_kind": "batch", "_conf": [b, T, n]})
        sid += 1
    # batches spanning several internal chunks of 256: whole chunks without a seeded member next to chunks with one, seeded members at the
    # chunk boundaries; every result must sit at the position of its own proof
    def layout(name, kinds):
        pool = {"s": [gen.mk_member(rng, 2, 1, T=rng.choice([1, 2]) if False else 1, seed=True) for _ in range(3)],
                "u": [gen.mk_member(rng, 2, 1, T=1, seed=False) for _ in range(2)],
                "a": [gen.mk_member(rng, 2, 2, cap=2, T=1, seed=False)]}
        mems = pool["s"] + pool["u"] + pool["a"]
        idx = {"s": [0, 1, 2], "u": [3, 4], "a": [5]}
        vm = []
        for i, k_ in enumerate(kinds):
            j = idx[k_][i % len(idx[k_])]
            vm.append(gen.vmember(mems[j], j))
        verifies = [{"mode": md, "vmembers": vm, "log": False} for md in ("RecoverAndVerify", "RecoverOnly")]
        specs.append({"id": f"c09-chunks-{name}", "group": "fm", "members": mems, "verifies": verifies, "with_gens": False, "log_merlin": False, "log_msm": False,
                      "_kind": "chunks", "_conf": [name, len(kinds)]})
    layout("unseeded-chunk-then-seeded", ["u"] * 256 + ["s"])
    layout("seeded-unseeded-chunk-seeded", ["s"] + ["u"] * 255 + ["u"] * 256 + ["s", "u", "s"])
    layout("boundaries", ["u"] * 255 + ["s", "s"] + ["u"] * 254 + ["s"] + ["a", "s"])
    if not quick:
        layout("three-chunks-middle-empty", ["s", "a"] * 128 + ["u"] * 256 + ["s"] * 3)
        layout("only-last", ["u"] * 767 + ["s"])
        layout("random", [rng.choice("suua") for _ in range(700)])
    return specs


def expected_masks(vs):
    out = []
    for vm in vs["vmembers"]:
        st = vm["stmt"]
        if vs["mode"] != "VerifyOnly" and st.get("seed"):
            out.append(st["commit"][0]["r"])
        else:
            out.append(None)
    return out


def oracle(run, s, o):
    rp = {"kind": "session", "spec": sessions.strip(s)}
    for i, mo in enumerate(o["members"]):
        if mo.get("prove") != "ok":
            run.violation(f"prover failed: {mo.get('prove')}", rp)
            return
    for vi, (vs, vo) in enumerate(zip(s["verifies"], o["verifies"])):
        res = vo["result"]
        cls = ["c09", s["_kind"]] + s["_conf"] + [vs["mode"], "withheld" in str(vs.keys())]
        run.count(cls, {"kind": s["_kind"], "conf": s["_conf"], "mode": vs["mode"], "result": res[:40], "masks": [m is not None for m in (vo.get("masks") or [])]})
        run.bump(s["_kind"] + ":" + vs["mode"])
        if res != "ok":
            run.violation(f"honest {'batch' if s['_kind'] == 'batch' else 'proof'} rejected in mode {vs['mode']}: {res[:80]}", dict(rp, verify=vi))
            continue
        exp = expected_masks(vs)
        got = vo["masks"]
        if len(got) != len(exp):
            run.violation(f"{len(got)} results for {len(exp)} proofs", dict(rp, verify=vi))
            continue
        for p, (g, e) in enumerate(zip(got, exp)):
            if g != e:
                what = ("no mask returned" if g is None else "a mask returned where none is due" if e is None else
                        "wrong mask (components: " + str([i for i, (x, y) in enumerate(zip(g, e)) if x != y]) + ")")
                run.violation(f"result {p} in mode {vs['mode']}: {what} (conf {s['_conf']})", dict(rp, verify=vi, position=p))
                break


def run(run: Run):
    run.run_audit()
    specs = gen_specs(run)
    sessions.run_sessions(run, specs, oracle, relevant=1 | 2)
    return run.finish(
        "proof",
        "seeded single proofs for bit lengths 1..64 x extension degrees 1..6 with pairwise distinct blinding components, several capacities, contexts and prover RNGs, "
        "verified in the three modes (and with a different capacity); batches mixing seeded, unseeded and aggregated members in random order, incl. one seed withheld; "
        "batches spanning several internal chunks with whole chunks lacking a seeded member and seeded members at the chunk boundaries; returned masks compared with the blinding factors position by position and with the Coq model's recovery formula; distinct by (kind, configuration, mode)",
        [],
        TRUSTED)


def replay(rp):
    return sessions.replay_session(rp)
