"""C01 — completeness: every honest proof verifies, in every configuration."""
from lib.common import *
from lib import gen, sessions, pmodel, vmodel

TRUSTED = [
    "Coq 8.16.1 kernel and vm_compute; Bignums.BigZ only in the executable instance",
    "axioms: none",
    "hand-written prover and verifier models (coq/Model/Prover.v, Nonce.v, Verifier.v, VerifyTop.v, Transcript.v) tied to the code by "
    "coordinate-by-coordinate comparison of every proof element over the free-module group and scalar-by-scalar comparison of the verifier",
    "harness: free-module group, instrumented merlin copy, scripted RNGs; Ristretto runs for the direct oracle",
    "scalars form a field / group is a vector space over it (hypotheses FldOk / ModOk of the theorems)",
]
RNGS = [{"kind": "chacha"}, {"kind": "zero"}, {"kind": "const", "byte": 0x5a}, {"kind": "period", "bytes": "01ff"}]
CTXS = [{"label": "bpv-ctx"}, {"label": "x"}, {"label": "bpv-ctx", "msgs": [["extra", "00ff10"], ["more", ""]]}]


def gen_specs(run):
    rng = run.rng
    quick = run.tier == "quick"
    confs = gen.lattice(2048)
    rng.shuffle(confs)
    must = [(1, 1, 1), (1, 1, 6), (2, 1, 2), (1, 2, 3), (64, 1, 1), (64, 8, 2), (8, 32, 1), (16, 1, 4), (2, 16, 5), (32, 4, 6), (4, 8, 1), (8, 8, 3), (1, 32, 2), (64, 32, 1)]
    confs = must + confs[: (22 if quick else 300)]
    specs = []
    vk = ["zero", "max", "eq", "eq1", "half", "tophalf", "rand"]
    for i, (b, m, T) in enumerate(confs):
        N = b * m
        seed = (m == 1 and i % 2 == 0)
        rs = dict(rng.choice(RNGS))
        if rs["kind"] == "chacha":
            rs["seed"] = rng.randrange(1 << 32)
        cap = m * rng.choice([1, 1, 2, 4]) if N * 4 <= 4096 else m
        mem = gen.mk_member(rng, b, m, cap=cap, T=T, seed=seed, ctx=rng.choice(CTXS), rngspec=rs,
                            vkinds=[vk[(i + j) % len(vk)] for j in range(m)])
        group = "ristretto" if (i % 5 == 4 and N <= 256) else "fm"
        specs.append({"id": f"c01-{i}", "group": group, "members": [mem],
                      "verifies": [{"mode": md, "vmembers": [gen.vmember(mem, 0)], "log": (N <= 256)} for md in ("VerifyOnly", "RecoverAndVerify", "RecoverOnly")],
                      "_conf": [b, m, T, cap, seed, rs["kind"], group], "with_gens": group == "fm" and N * (cap // m) <= (64 if quick else 128),
                      "log_merlin": True})
    # degenerate but valid openings: zero blinding vectors, and value 0 with a zero blinding vector (the commitment is then the identity element)
    zero_r = lambda T: [gen.hx(0)] * T
    for i, (b, m, T, ident_at) in enumerate([(4, 1, 1, [0]), (8, 2, 2, [1]), (2, 4, 3, [0, 2]), (64, 1, 6, [0]), (1, 2, 1, [0, 1]), (16, 2, 2, [])]):
        mem = gen.mk_member(rng, b, m, cap=m, T=T, seed=(m == 1 and i % 2 == 0), pkinds=["none" if j % 2 == 0 else "zero" for j in range(m)],
                            vkinds=["rand"] * m)
        for j in range(m):
            if j in ident_at:
                mem["commit"][j] = {"v": "0", "r": zero_r(T)}
            elif not ident_at:
                mem["commit"][j]["r"] = zero_r(T)      # commitment = v * H
        mem["_kinds"]["value"] = ["identity-commitment" if j in ident_at else ("zero-blinding" if not ident_at else "rand") for j in range(m)]
        for group in ("fm", "ristretto"):
            specs.append({"id": f"c01-degenerate-{i}-{group}", "group": group, "members": [mem],
                          "verifies": [{"mode": md, "vmembers": [gen.vmember(mem, 0)], "log": True} for md in ("VerifyOnly", "RecoverAndVerify", "RecoverOnly")],
                          "_conf": [b, m, T, m, mem["seed"] is not None, mem["rng"]["kind"], group], "with_gens": group == "fm" and b * m <= 64, "log_merlin": True})
    return specs


def oracle(run, s, o):
    b, m, T, cap, seed, rk, group = s["_conf"]
    mem = o["members"][0]
    kinds = s["members"][0]["_kinds"]
    cls = ["c01", b, m, T, cap // m, seed, rk, group, sorted(set(kinds["value"])), sorted(set(kinds["promise"]))]
    sample = {"bits": b, "m": m, "T": T, "cap": cap, "seed": seed, "rng": rk, "group": group, "values": kinds["value"], "promises": kinds["promise"],
              "prove": mem.get("prove"), "verify": [v["result"][:40] for v in o["verifies"]]}
    run.count(cls, sample)
    run.bump(f"N={b * m}")
    run.bump(f"T={T}")
    run.bump("rng=" + rk)
    run.bump(group)
    rp = {"kind": "session", "spec": sessions.strip(s)}
    if mem.get("prove") != "ok":
        run.violation(f"prover refused / failed on a valid witness (bits={b}, m={m}, T={T}, cap={cap}, seed={seed}, rng={rk}): {mem.get('prove')}", rp)
        return
    for vs, vo in zip(s["verifies"], o["verifies"]):
        if vo["result"] != "ok":
            run.violation(f"honest proof rejected in mode {vs['mode']} (bits={b}, m={m}, T={T}, cap={cap}, seed={seed}, rng={rk}, {group}): {vo['result'][:120]}", rp)
        elif vs["mode"] != "VerifyOnly" and seed:
            want = [s["members"][0]["commit"][0]["r"]]
            if vo["masks"] != want:
                run.violation(f"recovered mask differs from the blinding factors (bits={b}, T={T})", rp)


class Extra:
    header = pmodel.PHEADER

    def __call__(self, s, o):
        out = []
        if o.get("group") == "fm" and s.get("with_gens"):
            t = pmodel.prove_term(s["members"][0], o["members"][0])
            if t:
                out.append((t, (s, "prover", 0)))
        return out


def run(run: Run):
    run.run_audit()
    specs = gen_specs(run)
    sessions.run_sessions(run, specs, oracle, relevant=0xFF, extra_terms=Extra())
    return run.finish(
        "proof",
        "valid witnesses on the configuration lattice (bits x aggregation x extension degree x capacity x seed x value/promise kinds incl. zero blinding vectors and identity commitments x context x "
        "prover-RNG fault model, Ristretto and free-module back ends); prove then verify in the three modes; the prover's five kinds of proof element are "
        "compared with the Coq prover model coordinate by coordinate and the verifier with the Coq verifier model; distinct by "
        "(bits, m, T, capacity ratio, seed, rng kind, group, value kinds, promise kinds)",
        ["challenges / RNG draws / seed nonces are oracle outputs taken from the run (nonces recomputed independently with blake2b)"],
        TRUSTED)


def replay(rp):
    return sessions.replay_session(rp)
