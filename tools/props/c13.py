"""C13 — every blinding nonce in a proof is fresh and unpredictable."""
import copy
from lib.common import *
from lib import gen, sessions, pmodel, vmodel

TRUSTED = [
    "Coq 8.16.1 kernel and vm_compute; Bignums.BigZ only in the executable instance",
    "axioms: none",
    "hand-written source map (coq/Model/Nonce.v: which slot reads which RNG instance/draw or which seed-derived nonce) and prover model, tied to the code by reading "
    "every nonce off the proof's coordinates on the blinding generators over the free-module group",
    "values from distinct sources collide only with probability 1/l (Merlin / Blake2b as PRFs): NOT proved",
]


def slots_of(mspec, mobs):
    """nonce values actually used, read off the coordinates on Gb_k (free-module group) and the RNG log"""
    g = mobs["gens"]
    T = mspec["T"]
    gb = [p["coef"][0][0] for p in g["Gb"]]
    pj = mobs["proof"]

    def co(pt, k):
        for bid, hx in pt.get("coef", []):
            if bid == gb[k]:
                return int_of_hex_le(hx)
        return 0
    sl = {}
    for k in range(T):
        sl[("alpha", None, k)] = co(pj["a"], k)
        sl[("d", None, k)] = co(pj["a1"], k)
        sl[("eta", None, k)] = co(pj["b"], k)
        for j, (l, r) in enumerate(zip(pj["li"], pj["ri"])):
            sl[("dL", j, k)] = co(l, k)
            sl[("dR", j, k)] = co(r, k)
    per, news, fins = vmodel.split_ops(mobs["merlin"])
    ops = per.get(mobs["tid"], [])
    draws, cur = [], None
    for x in ops:
        if isinstance(x, list) and x[0] == "rng":
            cur = []
            draws.append(cur)
        elif x[0] == "fill":
            cur.append(int.from_bytes(x[2], "little") % L)
    nonempty = [d for d in draws if d]
    last = nonempty[-1] if nonempty else []
    if len(last) < 2:
        return None         # the last transcript RNG instance does not yield r and s: not the sequence of operations of the model
    sl[("r", None, 0)] = last[0]
    sl[("s", None, 0)] = last[1]
    return sl


def gen_specs(run):
    rng = run.rng
    quick = run.tier == "quick"
    confs = [(2, 1, 2), (4, 2, 3), (8, 1, 6), (1, 1, 2), (16, 1, 1), (2, 4, 2), (4, 1, 4), (1, 2, 5)]
    extra = [c for c in gen.lattice(32 if quick else 64)]
    rng.shuffle(extra)
    confs += extra[: (6 if quick else 80)]
    specs = []
    # seeded single-commitment configurations with at least one folding round (r, s must still come from fresh external randomness)
    forced = [(2, 1, 1), (4, 1, 2), (8, 1, 3), (64, 1, 1)] if quick else [(b, 1, T) for b in (2, 4, 8, 16, 32, 64) for T in (1, 2, 6)]
    confs = [(b, m, T, None) for (b, m, T) in confs] + [(b, m, T, True) for (b, m, T) in forced]
    for sid, (b, m, T, force) in enumerate(confs):
        seeded = force if force is not None else (m == 1 and sid % 2 == 1)
        # parameter objects with spare capacity too: nothing about a nonce may depend on the capacity of the parameter object
        base = gen.mk_member(rng, b, m, cap=m * ([1, 2, 4, 8][sid % 4] if b * m * 8 <= 128 else [1, 2][sid % 2]), T=T, seed=seeded, rngspec={"kind": "chacha", "seed": 2 * sid})
        other = copy.deepcopy(base)
        other["rng"] = {"kind": "chacha", "seed": 2 * sid + 1}
        again = copy.deepcopy(base)
        # a prover handed a stuck external RNG (every output byte equal), and the same statement proved twice with it: the nonces must still be
        # pairwise distinct inside the proof (they come from the transcript RNG, which is keyed with transcript and witness)
        stuck = copy.deepcopy(base)
        stuck["rng"] = {"kind": "const", "byte": 0x5a}
        specs.append({"id": f"c13-{sid}", "group": "fm", "members": [base, other, again, stuck], "verifies": [{"mode": "VerifyOnly", "vmembers": [gen.vmember(base, 0)], "log": False}],
                      "_conf": [b, m, T, seeded], "with_gens": True})
    # the crate's own entry point `prove` (it hands the operating system's generator to prove_with_rng): identical calls in one process
    for oi, (b, m, T, seeded) in enumerate([(2, 1, 1, False), (4, 1, 2, True), (2, 2, 1, False), (8, 1, 3, True)]):
        base = gen.mk_member(rng, b, m, cap=m, T=T, seed=seeded)
        base["use_os_rng"] = True
        specs.append({"id": f"c13-os-{oi}", "group": "fm", "members": [base, copy.deepcopy(base), copy.deepcopy(base)],
                      "verifies": [{"mode": "VerifyOnly", "vmembers": [gen.vmember(base, q)], "log": False} for q in range(3)],
                      "_conf": [b, m, T, seeded], "_os": True, "with_gens": True, "_no_embed": True, "_no_modes": True})
    return specs


def oracle(run, s, o):
    if s.get("_os"):
        b, m, T, seeded = s["_conf"]
        rp = {"kind": "session", "spec": sessions.strip(s)}
        run.count(["os-rng", b, m, T, seeded], {"check": "RangeProof::prove called three times with identical inputs in one process", "bits": b, "m": m, "T": T, "seeded": seeded})
        run.bump("OS-RNG proving calls", 3)
        if any(mo.get("prove") != "ok" for mo in o["members"]) or any(v["result"] != "ok" for v in o["verifies"]):
            run.violation(f"prove() with the operating system's generator failed or its proof does not verify: {[mo.get('prove') for mo in o['members']]}", rp)
            return
        A, B, C = (slots_of(ms, mo) for ms, mo in zip(s["members"], o["members"]))
        if A is None or B is None or C is None:
            run.violation(f"prove(): the prover's last transcript RNG instance does not yield the two draws (r, s) — the RNG instances are not built and used as in the "
                          f"model (one per challenge, each keyed by the external generator; bits={b}, m={m}, T={T}, seeded={seeded})", rp)
            return
        rng_slots = [k_ for k_ in A if not seeded or k_[0] in ("r", "s")]
        same = [k_ for k_ in rng_slots if A[k_] == B[k_] or A[k_] == C[k_] or B[k_] == C[k_]]
        if same or len({mo["proof"]["bytes"] for mo in o["members"]}) != 3:
            run.violation(f"identical prove() calls in one process reuse RNG-sourced nonces (bits={b}, m={m}, T={T}, seeded={seeded}): {same[:4]} — the external randomness is not fresh per call", rp)
        return
    b, m, T, seeded = s["_conf"]
    rp = {"kind": "session", "spec": sessions.strip(s)}
    for mo in o["members"]:
        if mo.get("prove") != "ok":
            run.violation(f"prover failed: {mo.get('prove')}", rp)
            return
    # every transcript RNG the prover builds must be finalised with fresh external randomness (the caller's RNG), never with constant bytes
    for mi, (ms, mo) in enumerate(zip(s["members"], o["members"])):
        fins = [x for x in mo.get("merlin", []) if x[0] == "fin"]
        k_rounds = (b * m).bit_length() - 1
        if ms["rng"]["kind"] == "chacha":
            if len(fins) != 3 + k_rounds or any(x[2] == "00" * 32 for x in fins) or len({x[2] for x in fins}) != len(fins):
                run.violation(f"prover (run {mi + 1}) built a transcript RNG without fresh external randomness: {len(fins)} instances for {k_rounds} rounds, "
                              f"{sum(1 for x in fins if x[2] == '00' * 32)} finalised with zero bytes (bits={b}, m={m}, T={T}, seeded={seeded})", rp)
                return
        elif ms["rng"]["kind"] == "const":
            # ... and those bytes are the CALLER's: under the stuck generator every instance is keyed with exactly the bytes that generator returns
            want = f"{ms['rng'].get('byte', 0x5a):02x}" * 32
            if len(fins) != 3 + k_rounds or any(x[2] != want for x in fins):
                bad = [i for i, x in enumerate(fins) if x[2] != want]
                run.violation(f"prover (run {mi + 1}, caller's generator stuck at 0x{want[:2]}) keyed transcript RNG instance(s) {bad[:6]} of {len(fins)} with bytes that do not come "
                              f"from the caller's generator ({3 + k_rounds} instances expected; bits={b}, m={m}, T={T}, seeded={seeded}): later nonces do not depend on later output "
                              f"of the external generator", rp)
                return
    A, B, C, S = (slots_of(ms, mo) for ms, mo in zip(s["members"], o["members"]))
    if A is None or B is None or C is None or S is None:
        run.violation(f"the prover's last transcript RNG instance does not yield the two draws (r, s) — the RNG instances are not built and used as in the model "
                      f"(bits={b}, m={m}, T={T}, seeded={seeded})", rp)
        return
    inv = {}
    for k_, v_ in S.items():
        inv.setdefault(v_, []).append(k_)
    dupS = [ks for ks in inv.values() if len(ks) > 1]
    zeroS = [k_ for k_, v_ in S.items() if v_ == 0]
    run.bump("stuck external RNG")
    if dupS or zeroS:
        run.violation(f"under a stuck external RNG (all bytes 0x5a) nonces are reused or zero within one proof (bits={b}, m={m}, T={T}, seeded={seeded}): {(dupS or zeroS)[:3]}", rp)
        return
    run.count(["c13", b, m, T, seeded], {"bits": b, "m": m, "T": T, "seeded": seeded, "slots": len(A)})
    run.bump("seeded" if seeded else "unseeded")
    run.bump(f"T={T}")
    for name, sl in (("run 1", A), ("run 2", B)):
        zero = [k for k, v in sl.items() if v == 0]
        if zero:
            run.violation(f"zero nonce in {name}: {zero[:4]}", rp)
        inv = {}
        for k, v in sl.items():
            inv.setdefault(v, []).append(k)
        dup = [ks for ks in inv.values() if len(ks) > 1]
        if dup:
            run.violation(f"nonces reused within one proof ({name}; bits={b}, m={m}, T={T}, seeded={seeded}): {dup[:3]}", rp)
    if A != C:
        run.violation("identical runs used different nonces", rp)
    shared = [k for k in A if A[k] == B[k]]
    vals_shared = set(A.values()) & set(B.values())
    if not seeded:
        if vals_shared:
            run.violation(f"two proofs made with different randomness share a nonce: {shared[:4] or list(vals_shared)[:2]}", rp)
    else:
        sd = bytes.fromhex(s["members"][0]["seed"])
        for k, v in A.items():
            if k[0] in ("r", "s"):
                if B[k] == v:
                    run.violation(f"with a seed, the final masking scalar {k[0]} is the same in two proofs made with different randomness", rp)
            else:
                want = vmodel.nonce(sd, k[0], k[1], k[2])
                if v != want:
                    run.violation(f"seed-derived nonce {k} is not the documented function of the seed (label, j, k)", rp)
                    break
                if B[k] != v:
                    run.violation(f"seed-derived nonce {k} differs between two runs with the same seed", rp)
                    break


class Extra:
    header = pmodel.PHEADER

    def __call__(self, s, o):
        out = []
        for i in (0, 1):
            t = pmodel.prove_term(s["members"][i], o["members"][i])
            if t:
                out.append((t, (s, "prover", i)))
        return out


def run(run: Run):
    run.run_audit()
    specs = gen_specs(run)
    sessions.run_sessions(run, specs, oracle, relevant=0, model_verify=False, extra_terms=Extra(), prover_relevant=1 | 2 | 4 | 8)
    return run.finish(
        "proof",
        "per configuration (with and without a recovery seed) three proving runs: two with different RNG streams and a repeat of the first; every nonce (alpha_k, dL_jk, dR_jk, "
        "d_k, eta_k from the coordinates on Gb_k over the free-module group; r, s from the RNG log) must be non-zero, pairwise distinct within a proof, unshared between runs with "
        "different randomness (without seed), equal to the documented function of the seed (with seed) while r, s still differ; a fourth run with a stuck external RNG must still have pairwise distinct non-zero nonces; both runs compared with the Coq prover + source-map "
        "model coordinate by coordinate; distinct by (bits, m, T, seeded)",
        [],
        TRUSTED)


def replay(rp):
    return sessions.replay_session(rp)
