"""C10 — mask recovery is keyed by the seed and never changes the verdict."""
from lib.common import *
from lib import gen, sessions

TRUSTED = [
    "Coq 8.16.1 kernel and vm_compute; Bignums.BigZ only in the executable instance",
    "axioms: none",
    "hand-written verifier model (verdict path independent of the seed by construction: coq/Model/VerifyTop.v) tied to the code by differential runs",
    "a wrong seed yields the true mask only with probability 1/l (Blake2b as a PRF keyed by the whole seed): NOT proved; "
    "the key layout (all 32 seed bytes enter the key) is proved injective in Props/C13",
]


def wrong_seeds(rng, seed_hex):
    s = int.from_bytes(bytes.fromhex(seed_hex), "little")
    out = [("random", gen.rscalar(rng)), ("seed+1", (s + 1) % L)]
    # seeds differing in a single byte, in particular the most and least significant ones
    for name, byte in (("top byte", 31), ("byte 30", 30), ("low byte", 0), ("byte 16", 16)):
        b = bytearray(bytes.fromhex(seed_hex))
        b[byte] ^= 0x01 if byte != 31 else 0x08
        v = int.from_bytes(b, "little")
        if v < L and v != s:
            out.append((name, v))
        else:
            b = bytearray(bytes.fromhex(seed_hex))
            b[byte] ^= 0x04
            v = int.from_bytes(b, "little")
            if v < L and v != s:
                out.append((name, v))
    return out


def gen_specs(run):
    rng = run.rng
    quick = run.tier == "quick"
    pairs = [(b, T) for b in gen.BITS for T in range(1, 7)]
    rng.shuffle(pairs)
    pairs = [(1, 1), (64, 2), (8, 6), (2, 3)] + pairs[: (6 if quick else 38)]
    specs = []
    for sid, (b, T) in enumerate(pairs):
        mem = gen.mk_member(rng, b, 1, cap=rng.choice([1, 2]), T=T, seed=True)
        k = max(1, b.bit_length() - 1)
        derived = [{"from": 0, "ops": [{"op": "scalar_add", "field": rng.choice(["r1", "s1"]), "hex": gen.hx(1)}]},
                   {"from": 0, "ops": [{"op": "scalar_add", "field": "d1", "idx": rng.randrange(T), "hex": gen.hx(gen.rscalar(rng))}]},
                   {"from": 0, "ops": [{"op": "point_set", "field": "a1", "to": {"junk": rng.randrange(1 << 30)}}]}]
        seeds = [("none", None), ("right", mem["seed"])] + [(n, gen.hx(v)) for (n, v) in wrong_seeds(rng, mem["seed"])]
        verifies, tags = [], []
        for pi in range(4):
            for (sname, sd) in seeds:
                for md in ("VerifyOnly", "RecoverAndVerify", "RecoverOnly"):
                    verifies.append({"mode": md, "vmembers": [gen.vmember(mem, pi, seed=sd)], "log": (pi < 2 and sname in ("none", "right", "top byte"))})
                    tags.append((pi, sname, md))
        specs.append({"id": f"c10-{sid}", "group": "ristretto" if (sid % 4 == 3 and b <= 32) else "fm", "members": [mem], "derived": derived, "verifies": verifies,
                      "_tags": tags, "_conf": [b, T], "with_gens": False})
    # the same commitment several times in one batch under different seeds: each position must get what that (statement, seed) gets alone — recovery is
    # keyed by the statement's own seed, not by anything remembered from a neighbour
    for ri, (b, T) in enumerate([(2, 1), (8, 2), (4, 3)] if quick else [(2, 1), (8, 2), (4, 3), (64, 1), (1, 6), (16, 2)]):
        mem = gen.mk_member(rng, b, 1, cap=rng.choice([1, 2]), T=T, seed=True)
        ws_ = [gen.hx(v) for (_, v) in wrong_seeds(rng, mem["seed"])[:2]]
        arrangements = [[mem["seed"], ws_[0]], [ws_[0], mem["seed"]], [ws_[0], ws_[1], mem["seed"]], [mem["seed"], None, ws_[1]], [mem["seed"], mem["seed"]], [ws_[0], ws_[0], None]]
        verifies, tags = [], []
        for sd in [mem["seed"], ws_[0], ws_[1], None]:
            verifies.append({"mode": "RecoverAndVerify", "vmembers": [gen.vmember(mem, 0, seed=sd)]})
            tags.append(("alone", [sd]))
        for arr in arrangements:
            for md in ("RecoverAndVerify", "RecoverOnly"):
                verifies.append({"mode": md, "vmembers": [gen.vmember(mem, 0, seed=sd) for sd in arr], "log": False})
                tags.append((md, arr))
        specs.append({"id": f"c10-rep-{ri}", "group": "fm", "members": [mem], "verifies": verifies, "_role": "repeat", "_tags": tags, "_conf": [b, T], "with_gens": False})
    # whole batches across the internal chunks of 256: recover-only must return what recover-and-verify returns, position by position, also when a
    # whole chunk carries no seed, and the verifying modes must agree on the verdict
    pool = [gen.mk_member(rng, 2, 1, T=1, seed=True) for _ in range(2)] + [gen.mk_member(rng, 2, 1, T=1, seed=False) for _ in range(2)]
    layouts = [("unseeded-chunk-first", ["u"] * 256 + ["s", "u", "s"]), ("seeded-ends", ["s"] + ["u"] * 511 + ["s"])]
    if not quick:
        layouts += [("middle-chunk-unseeded", ["s", "u"] * 128 + ["u"] * 256 + ["s"] * 5), ("random", [rng.choice("suu") for _ in range(600)])]
    for name, kinds in layouts:
        vm = []
        for i, k_ in enumerate(kinds):
            j = (i % 2) if k_ == "s" else 2 + (i % 2)
            vm.append(gen.vmember(pool[j], j))
        specs.append({"id": f"c10-chunks-{name}", "group": "fm", "members": pool, "with_gens": False, "log_merlin": False, "log_msm": False,
                      "verifies": [{"mode": md, "vmembers": vm, "log": False} for md in ("RecoverAndVerify", "RecoverOnly", "VerifyOnly")],
                      "_role": "chunks", "_conf": [name, len(kinds)]})
    return specs


def oracle(run, s, o):
    if s.get("_role") == "repeat":
        rp = {"kind": "session", "spec": sessions.strip(s)}
        alone = {}
        for (kind, arr), vo in zip(s["_tags"], o["verifies"]):
            if kind == "alone":
                alone[arr[0]] = (vo["result"], (vo.get("masks") or [None])[0])
        for vi, ((kind, arr), vo) in enumerate(zip(s["_tags"], o["verifies"])):
            if kind == "alone":
                continue
            run.count(["c10rep", s["_conf"][0], s["_conf"][1], kind, len(arr), vo["result"].split(":")[0]], {"same commitment repeated": len(arr), "mode": kind, "result": vo["result"][:40]})
            run.bump("repeated-commitment batches")
            if vo["result"] != "ok":
                run.violation(f"a batch repeating one valid triple under different seeds is refused ({kind}): {vo['result'][:80]}", dict(rp, verify=vi))
                continue
            for q, sd in enumerate(arr):
                want = alone[sd][1]
                if vo["masks"][q] != want:
                    run.violation(f"position {q} of a batch repeating one commitment under seeds {['right' if x == s['members'][0]['seed'] else ('none' if x is None else 'wrong') for x in arr]} "
                                  f"({kind}) returns another result than the same (statement, seed) alone: recovery is not keyed by the statement's own seed", dict(rp, verify=vi, position=q))
                    break
        return
    if s.get("_role") == "chunks":
        rp = {"kind": "session", "spec": sessions.strip(s)}
        rav, ro, vo_ = o["verifies"]
        run.count(["c10chunks"] + s["_conf"], {"layout": s["_conf"][0], "members": s["_conf"][1], "results": [rav["result"][:20], ro["result"][:20], vo_["result"][:20]]})
        run.bump("multi-chunk batches")
        if rav["result"] != "ok" or vo_["result"] != "ok" or ro["result"] != "ok":
            run.violation(f"valid multi-chunk batch ({s['_conf'][0]}): results {rav['result'][:50]} / {ro['result'][:50]} / {vo_['result'][:50]} in the three modes", rp)
        elif rav["masks"] != ro["masks"]:
            bad = [i for i, (x, y) in enumerate(zip(rav["masks"], ro["masks"])) if x != y]
            run.violation(f"recover-only and recover-and-verify return different results for a batch of {s['_conf'][1]} ({s['_conf'][0]}): lengths {len(rav['masks'])}/{len(ro['masks'])}, "
                          f"first differing positions {bad[:4]}", dict(rp, verify=1))
        return
    b, T = s["_conf"]
    rp = {"kind": "session", "spec": sessions.strip(s)}
    true_mask = s["members"][0]["commit"][0]["r"]
    res = {}
    for vi, (tag, vo) in enumerate(zip(s["_tags"], o["verifies"])):
        if vo["result"].startswith("unavailable"):
            continue
        res[tag] = (vo["result"], vo.get("masks"), vi)
    for (pi, sname, md), (r, masks, vi) in res.items():
        valid = pi == 0
        run.count(["c10", b, T, valid, sname, md, r.split(":")[0]], {"bits": b, "T": T, "proof": "valid" if valid else f"invalid#{pi}", "seed": sname, "mode": md, "result": r[:40]})
        run.bump(f"{'valid' if valid else 'invalid'}:{sname}")
        rpi = dict(rp, verify=vi)
        if r.startswith("panic"):
            run.violation(f"panic with seed '{sname}' in mode {md}", rpi)
            continue
        # verdict of the verifying modes must not depend on seed / mode
        if md in ("VerifyOnly", "RecoverAndVerify"):
            ref = res.get((pi, "none", "VerifyOnly"))
            if ref and (ref[0] == "ok") != (r == "ok"):
                run.violation(f"verdict changed with the seed ('{sname}') or mode ({md}): {r[:60]} vs {ref[0][:60]} without seed", rpi)
            if valid and r != "ok":
                run.violation(f"valid proof rejected with seed '{sname}' in mode {md}: {r[:60]}", rpi)
            if not valid and r == "ok":
                run.violation(f"invalid proof accepted with seed '{sname}' in mode {md}", rpi)
        if md == "RecoverOnly":
            if r != "ok":
                run.violation(f"recover-only returned an error with seed '{sname}': {r[:60]}", rpi)
                continue
            rv = res.get((pi, sname, "RecoverAndVerify"))
            if rv and rv[0] == "ok" and rv[1] != masks:
                run.violation(f"recover-only and recover-and-verify return different masks (seed '{sname}')", rpi)
        if md != "VerifyOnly" and r == "ok":
            m = masks[0]
            if sname == "none":
                if m is not None:
                    run.violation("a mask was returned without a seed", rpi)
            elif sname == "right":
                if valid and m != true_mask:
                    run.violation("the right seed did not recover the true mask", rpi)
            else:
                if m is None:
                    run.violation(f"no value returned for wrong seed '{sname}'", rpi)
                elif valid and m == true_mask:
                    run.violation(f"a seed different from the prover's ({sname}) recovered the true mask (bits={b}, T={T})", rpi)
                elif valid and any(x == y for x, y in zip(m, true_mask)):
                    run.violation(f"a wrong seed ({sname}) recovered a component of the true mask", rpi)
        if md == "VerifyOnly" and r == "ok" and masks[0] is not None:
            run.violation("verify-only returned a mask", rpi)


def run(run: Run):
    run.run_audit()
    specs = gen_specs(run)
    sessions.run_sessions(run, specs, oracle, relevant=1 | 2)
    return run.finish(
        "proof",
        "per configuration one valid and three invalid proofs x {no seed, the right seed, random seed, seed+1, seeds differing from the right one in one byte (top, 30, 16, low)} x "
        "three modes; multi-chunk batches (a whole chunk without a seed before / between seeded members) in the three modes, the two recovering modes compared position by position: verdict equality across seeds and modes, mask equality between the two recovering modes, inequality with the true mask (componentwise) under every "
        "wrong seed, no error from recovery; selected runs compared with the Coq model; distinct by (bits, T, validity, seed kind, mode, outcome)",
        [],
        TRUSTED)


def replay(rp):
    return sessions.replay_session(rp)
