"""C14 — prover randomness is hedged against failure of the external RNG."""
import copy
from lib.common import *
from lib import gen, sessions, pmodel, vmodel

TRUSTED = [
    "Coq 8.16.1 kernel and vm_compute; Bignums.BigZ only in the executable instance",
    "axioms: none",
    "hand-written model of the transcript-RNG keying (coq/Model/Nonce.v: prover_ops = statement log, witness bytes re-keyed into every RNG instance, rebuilt after each "
    "transcript update) tied to the code by comparison with the instrumented merlin log",
    "STROBE KEY/PRF as a PRF of (transcript operations, witness bytes, external bytes): NOT proved",
]
FAULTS = [{"kind": "zero"}, {"kind": "const", "byte": 0xa5}, {"kind": "period", "bytes": "0001"}, {"kind": "chacha", "seed": 7}]


def draws_of(mobs):
    per, news, fins = vmodel.split_ops(mobs["merlin"])
    ops = per.get(mobs["tid"], [])
    return [x[2].hex() for x in ops if x[0] == "fill"], [r.hex() for (t, r) in fins], [x for x in ops if isinstance(x, list) and x[0] == "rng"]


def gen_specs(run):
    rng = run.rng
    quick = run.tier == "quick"
    confs = [(2, 1, 1), (4, 2, 2), (8, 1, 3), (2, 2, 1), (16, 1, 2), (1, 1, 1), (4, 1, 6)]
    extra = gen.lattice(32 if quick else 64)
    rng.shuffle(extra)
    confs += extra[: (3 if quick else 60)]
    specs = []
    sid = 0
    for (b, m, T) in confs:
        for fi, fault in enumerate(FAULTS):
            seeded = (m == 1 and (sid % 2 == 0))
            c = gen.rscalar(rng)
            base = gen.mk_member(rng, b, m, cap=m, T=T, seed=seeded, rngspec=fault, vkinds=["rand"] * m, pkinds=["none"] * m)
            base["gb0_eq_cH"] = gen.hx(c)
            if T >= 2:
                base["gb_eq"] = [T - 2, T - 1]        # Gb_{T-1} = Gb_{T-2}: the extended masks can be re-balanced under one commitment
            top = (1 << b) - 1
            variants = [("repeat", copy.deepcopy(base))]
            # same commitment, different opening: v' + c*r0' = v + c*r0
            j = rng.randrange(m)
            v = int(base["commit"][j]["v"])
            v2 = v - 1 if v > 0 else (v + 1 if v + 1 <= top else None)
            if v2 is not None:
                x = copy.deepcopy(base)
                r0 = int_of_hex_le(x["commit"][j]["r"][0])
                r02 = (r0 + (v - v2) * pow(c, -1, L)) % L
                x["commit"][j] = {"v": str(v2), "r": [gen.hx(r02)] + x["commit"][j]["r"][1:]}
                variants.append(("witness (same commitment)", x))
            if T >= 2:
                # same commitment, openings differing ONLY in the extended masks r_{T-2}, r_{T-1} (+d / -d under equal generators)
                x = copy.deepcopy(base)
                dlt = gen.rscalar(rng)
                rr = x["commit"][j]["r"]
                rr[T - 2] = gen.hx((int_of_hex_le(rr[T - 2]) + dlt) % L)
                rr[T - 1] = gen.hx((int_of_hex_le(rr[T - 1]) - dlt) % L)
                variants.append(("witness (same commitment, extended masks only)", x))
            if v2 is not None:
                # the same change of witness made IN PLACE: the caller keeps the witness object of the first run and overwrites its openings
                x = copy.deepcopy(variants[1][1])
                x["reuse_witness_of"] = 0
                variants.append(("witness (same commitment, written into the first run's witness object)", x))
            x = copy.deepcopy(base)
            x["ctx"] = {"label": "other-ctx"}
            variants.append(("context", x))
            if seeded:
                # another recovery seed: witness, commitment, context and external bytes are the same, the seed-derived nonces (hence A, every L and R — the
                # transcript from A on) are not; r and s are drawn after all of those were absorbed
                x = copy.deepcopy(base)
                x["seed"] = gen.hx(gen.rscalar(rng))
                variants.append(("recovery seed", x))
            x = copy.deepcopy(base)
            x["promises"][j] = "0" if False else None
            # statement: change another public input: a blinding of some commitment (different commitment)
            x["commit"][j]["r"][-1] = gen.hx((int_of_hex_le(x["commit"][j]["r"][-1]) + 1) % L)
            if T == 1:
                # r[-1] is r0: with the degenerate generators this still changes the commitment
                pass
            variants.append(("statement (commitment)", x))
            if v >= 1:
                x = copy.deepcopy(base)
                x["promises"][j] = "1"
                variants.append(("statement (promise)", x))
            if m >= 2 and all(int(cm["v"]) >= 1 for cm in base["commit"]):
                # the same promise at two different POSITIONS (the other absent): the two statements differ, so must the nonces ("vs previous" pairs)
                j1, j2 = rng.sample(range(m), 2)
                for jj, tg in ((j1, "statement (promise at one position)"), (j2, "statement (same promise at another position) vs previous")):
                    x = copy.deepcopy(base)
                    x["promises"][jj] = "1"
                    variants.append((tg, x))
            specs.append({"id": f"c14-{sid}", "group": "fm", "members": [base] + [v_[1] for v_ in variants], "verifies": [{"mode": "VerifyOnly", "vmembers": [gen.vmember(base, 0)], "log": False}],
                          "_tags": [v_[0] for v_ in variants], "_conf": [b, m, T, seeded, fault["kind"]], "with_gens": False})
            sid += 1
    # statements that differ ONLY in the value generator H as a point (public field written after construction, cached encoding left stale) over
    # zero-value commitments: commitments, witness, context and external bytes are equal, the public input H is not; the nonces must differ
    for (b, m, T) in [(2, 1, 1), (4, 2, 2), (1, 1, 3)]:
        for fault in FAULTS[:3]:
            base = gen.mk_member(rng, b, m, cap=m, T=T, seed=False, rngspec=fault, vkinds=["zero"] * m, pkinds=["none"] * m)
            x = copy.deepcopy(base)
            x["hp_scale"] = gen.hx(gen.rscalar(rng))
            specs.append({"id": f"c14-{sid}", "group": "fm", "members": [base, x], "verifies": [], "_tags": ["statement (value generator H replaced as a point, zero-value commitments)"],
                          "_conf": [b, m, T, False, fault["kind"]], "with_gens": False})
            sid += 1
    # non-degenerate runs for the model correspondence (RNG operations and their position among the appends)
    for (b, m, T) in confs[:6]:
        for fault in FAULTS[:3]:
            mem = gen.mk_member(rng, b, m, cap=m, T=T, seed=(m == 1 and sid % 2 == 0), rngspec=fault)
            specs.append({"id": f"c14-{sid}", "group": "fm", "members": [mem], "verifies": [], "_tags": [], "_conf": [b, m, T, mem["seed"] is not None, fault["kind"]], "with_gens": True, "_model": True})
            sid += 1
    return specs


def oracle(run, s, o):
    b, m, T, seeded, fk = s["_conf"]
    rp = {"kind": "session", "spec": sessions.strip(s)}
    for mo in o["members"]:
        if mo.get("prove") != "ok":
            run.violation(f"prover failed under RNG fault {fk}: {mo.get('prove')}", rp)
            return
    if s.get("_model"):
        run.count(["model", b, m, T, seeded, fk], {"bits": b, "m": m, "T": T, "seeded": seeded, "fault": fk, "compared_with": "Coq prover_ops"})
        return
    d0, f0, r0 = draws_of(o["members"][0])
    nslots = (2 if seeded else (2 * T * ((b * m).bit_length() - 1) + 3 * T + 2))
    if len(d0) < nslots:
        run.violation(f"only {len(d0)} RNG draws for {nslots} RNG-sourced nonces", rp)
    if any(x[1] is None for x in r0):
        run.violation("a transcript RNG instance was built without re-keying with the witness", rp)
    if len(set(d0)) != len(d0):
        run.violation(f"the same RNG output was drawn twice within one proof under RNG fault {fk}", rp)
    prev_d = None
    for tag, mo in zip(s["_tags"], o["members"][1:]):
        d, f, r = draws_of(mo)
        if tag.endswith("vs previous") and prev_d is not None:
            sh = set(d) & set(prev_d)
            if sh:
                run.violation(f"two runs differing only in the POSITION of a promise share {len(sh)} RNG-derived nonce(s) under RNG fault '{fk}' (bits={b}, m={m}, T={T})", dict(rp, differs_in=tag))
        prev_d = d
        run.count(["c14", b, m, T, seeded, fk, tag], {"bits": b, "m": m, "T": T, "seeded": seeded, "fault": fk, "pair_differs_in": tag, "draws": len(d)})
        run.bump(tag)
        run.bump("fault=" + fk)
        if tag == "repeat":
            if d != d0 or mo["proof"]["bytes"] != o["members"][0]["proof"]["bytes"]:
                run.violation("identical runs (same inputs, same external bytes) are not reproducible", rp)
            continue
        shared = set(d) & set(d0)
        if shared:
            run.violation(f"two runs differing only in the {tag} share {len(shared)} RNG-derived nonce(s) under RNG fault '{fk}' (bits={b}, m={m}, T={T}, seeded={seeded})", dict(rp, differs_in=tag))


class Extra:
    header = pmodel.PHEADER

    def __call__(self, s, o):
        out = []
        if s.get("_model"):
            t = pmodel.prove_term(s["members"][0], o["members"][0])
            if t:
                out.append((t, (s, "prover", 0)))
        return out


def run(run: Run):
    run.run_audit()
    specs = gen_specs(run)
    sessions.run_sessions(run, specs, oracle, relevant=0, model_verify=False, extra_terms=Extra(), prover_relevant=16)
    return run.finish(
        "proof",
        "RNG fault models {all-zero, constant, period-2, healthy} x pairs of runs differing in exactly one of: the opening of one commitment (same commitment, via degenerate "
        "generators Gb_0 = c*H), the transcript context, a commitment, a promise, or nothing; the RNG-derived nonces (outputs of the transcript RNG recorded by the instrumented "
        "merlin) must be pairwise unshared for differing runs and identical for identical runs; every RNG instance must be re-keyed with the witness bytes; the RNG operations and "
        "their position among the transcript appends are compared with the Coq model; distinct by (bits, m, T, seeded, fault, differing datum)",
        [],
        TRUSTED)


def replay(rp):
    return sessions.replay_session(rp)
