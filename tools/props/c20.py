"""C20 — secrets are wiped from heap memory before it is released."""
from lib.common import *

TRUSTED = [
    "Coq 8.16.1 kernel",
    "axioms: none",
    "coq/Model/Heap.v: hand-enumerated list of secret-holding buffers per code path with the wrapper the source gives them (a model of the discipline, PARTIAL by nature)",
    "harness/src/bin/bpv-alloc.rs: interposing #[global_allocator] built at opt-level 0 that copies every block passed to dealloc while armed; the scan looks for the literal byte "
    "patterns of the seed, every blinding factor / recovered mask, (at 64 bits) every value and (from 16 bits) the a_L / a_R bit-decomposition images of every value",
    "what zeroize's volatile writes, the compiler and the allocator do is runtime behaviour; optimised builds elide some temporaries and are not what is observed",
]
PHASES = ["prove", "verify_recover", "drop_masks", "drop_witness", "drop_opening", "drop_mask", "drop_statement", "drop_opening_spare", "drop_mask_spare", "prove_drop_witness_spare", "drop_witness_vec_spare"]


def run(run: Run):
    run.run_audit()
    exe_dir = os.path.dirname(build_harness("debug"))
    exe = os.path.join(exe_dir, "bpv-alloc")
    quick = run.tier == "quick"
    cases = [(8, 1, 2, 1), (64, 1, 1, 1), (64, 2, 1, 0), (16, 4, 3, 0), (4, 1, 6, 1), (64, 8, 2, 0), (32, 2, 2, 0), (1, 1, 1, 1), (2, 16, 1, 0), (64, 1, 6, 0), (64, 4, 4, 0)]
    if not quick:
        for b in (1, 2, 4, 8, 16, 32, 64):
            for m in (1, 2, 4, 8):
                for T in (1, 2, 3, 6):
                    cases.append((b, m, T, 1 if m == 1 else 0))
                    if m == 1:
                        cases.append((b, m, T, 0))
    cases = sorted(set(cases))
    inp = "".join(f"{b} {m} {T} {s} {run.rng.randrange(1 << 32)}\n" for (b, m, T, s) in cases)
    jobs = 8
    lines = inp.splitlines(True)
    chunks = [lines[i::jobs] for i in range(jobs)]

    def one(ch):
        if not ch:
            return []
        r = subprocess.run([exe], input="".join(ch), stdout=subprocess.PIPE, stderr=subprocess.PIPE, text=True, timeout=3000)
        if r.returncode != 0:
            raise CheckError(f"bpv-alloc failed: {r.stderr[-1500:]}")
        return [(c, json.loads(x)) for c, x in zip(ch, r.stdout.splitlines())]

    with cf.ThreadPoolExecutor(jobs) as ex:
        outs = [x for o in ex.map(one, chunks) for x in o]
    for line, rec in outs:
        b, m, T, seeded = rec["bits"], rec["m"], rec["T"], rec["seeded"]
        rp = {"kind": "alloc", "case": line.strip(), "meaning": "bits m T seeded rng-seed (stdin line of bpv-alloc)"}
        if "prove_fails" in rec and rec.get("prove_fails_is_err") is not True:
            run.violation("generator: the prove with value < promise did not fail", rp)
        for nm in ("verify_fails_after_recovery_a", "verify_fails_after_recovery_b"):
            if nm in rec and rec.get(nm + "_is_err") is not True:
                run.violation("generator: the recovering verification of a batch with an invalid member did not fail", rp)
        if "prove_refused" in rec and rec.get("prove_refused_is_err") is not True:
            run.violation("generator: the prove with a value beyond the bit length was not refused", rp)
        for ph in PHASES + [x for x in ("prove_fails", "prove_refused", "drop_statements_on_heap_cap1", "drop_statements_on_heap_cap2", "drop_statements_on_heap_cap4", "witness_clone_from", "drop_after_clone_from", "verify_fails_after_recovery_a", "verify_fails_after_recovery_b") if x in rec]:
            r = rec[ph]
            dirty = r["dirty"]
            run.count(["c20", b, m, T, seeded, ph, len(dirty) > 0], {"bits": b, "m": m, "T": T, "seeded": seeded, "phase": ph, "freed_blocks": r["freed_blocks"], "dirty": len(dirty)})
            run.bump(ph)
            run.bump("freed_blocks", r["freed_blocks"])
            if r.get("overflow"):
                run.violation("allocator arena overflow: some freed blocks were not recorded", rp, no_input=True)
            if dirty:
                kinds = sorted(set((d["secret"].split("[")[0], d["block_size"]) for d in dirty))
                run.violation(f"{len(dirty)} freed heap block(s) still hold secrets during '{ph}' (bits={b}, m={m}, T={T}, seeded={seeded}): (secret, block size) = {kinds[:6]}",
                              dict(rp, phase=ph, dirty=dirty[:20]))
        if seeded and rec.get("inline_seed_cleared") is not True:
            run.violation("the seed held inline in a statement is not cleared when the statement is dropped", rp)
        if rec.get("prove_spare_ok") is not True:
            run.violation("generator: proving from a witness built from truncated / drained vectors failed", rp)
        if seeded and rec.get("recovered") != [True]:
            run.violation("generator: recovery did not return a mask", rp)
    return run.finish(
        "proof",
        "prove, recovering verify, a recovering verify that fails after the masks were recovered (invalid second member), drop of the recovered masks and drops of witness / opening / mask / statement, of a witness refreshed in place from a larger one (clone_from), of statements living on the heap (Vec / Box) over parameter objects of capacity 1, 2 and 4 (also when built from vectors whose spare capacity still holds secrets after truncate / drain) a prove that fails half-way through an aggregated witness and a prove refused for a value beyond the bit length (value searched as bytes and as decimal / hex text), for a spread of (bits, aggregation, extension degree, seeded) configurations in a "
        "binary built at opt-level 0 with an interposing allocator; every freed block is scanned for the seed, every blinding factor / mask and (at 64 bits) every value; the multiset of dirty frees "
        "must equal the model's (empty); distinct by (bits, m, T, seeded, phase, dirty?)",
        ["derived temporaries (bit vectors, nonces) are covered by the discipline model only; a_lo_offset / a_hi_offset are plain in the source and not claimed (DESIGN.md section 5/C20)"],
        TRUSTED)


def replay(rp):
    exe = os.path.join(os.path.dirname(build_harness("debug")), "bpv-alloc")
    r = subprocess.run([exe], input=rp["replay"]["case"] + "\n", stdout=subprocess.PIPE, text=True)
    rec = json.loads(r.stdout.splitlines()[0])
    bad = 0
    for ph in PHASES:
        print(ph, rec[ph]["freed_blocks"], "freed;", len(rec[ph]["dirty"]), "dirty", rec[ph]["dirty"][:3])
        bad += len(rec[ph]["dirty"])
    return 1 if bad else 0
