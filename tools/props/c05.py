"""C05 — statement binding: any single alteration of an accepted triple is rejected."""
import copy
from lib.common import *
from lib import gen, sessions

TRUSTED = [
    "Coq 8.16.1 kernel and vm_compute; Bignums.BigZ only in the executable instance",
    "axioms: none",
    "hand-written verifier model (guards, transcript operations, scalars) tied to the code by differential runs on every mutated triple",
    "rejection of alterations of absorbed components holds with probability 1 - O(1/l) over the fresh challenges (random oracle): NOT a theorem",
    "harness free-module group (junk / identity / undecodable points), Ristretto runs for the same sweep",
]


def gen_specs(run):
    rng = run.rng
    quick = run.tier == "quick"
    confs = [(1, 2, 1), (2, 1, 2), (4, 2, 3), (8, 1, 1), (2, 4, 6), (16, 1, 4), (4, 4, 2), (64, 1, 1), (8, 4, 5)]
    extra = gen.lattice(64 if quick else 512)
    rng.shuffle(extra)
    confs += extra[: (5 if quick else 120)]
    specs = []
    for ci, (b, m, T) in enumerate(confs):
        group = "ristretto" if ci % 3 == 2 and b * m <= 64 else "fm"
        cap = m * rng.choice([1, 2])
        mem = gen.mk_member(rng, b, m, cap=cap, T=T, seed=(m == 1 and ci % 2 == 1), ctx={"label": "c05", "msgs": [["ctx", "aa"]]})
        k = (b * m).bit_length() - 1
        derived, verifies, tags = [], [{"mode": "VerifyOnly", "vmembers": [gen.vmember(mem, 0)]}], ["base"]

        def dv(ops, tag):
            derived.append({"from": 0, "ops": ops})
            verifies.append({"mode": rng.choice(["VerifyOnly", "RecoverAndVerify"]), "vmembers": [gen.vmember(mem, len(derived))]})
            tags.append(tag)

        def sv(vm, tag):
            verifies.append({"mode": "VerifyOnly", "vmembers": [vm]})
            tags.append(tag)

        # every scalar
        scal = [("r1", 0), ("s1", 0)] + [("d1", i) for i in range(T)]
        for f, i in scal:
            dv([{"op": "scalar_add", "field": f, "idx": i, "hex": gen.hx(1)}], f"{f}+1")
            dv([{"op": "scalar_add", "field": f, "idx": i, "hex": gen.hx(gen.rscalar(rng))}], f"{f}+rand")
            dv([{"op": "scalar_set", "field": f, "idx": i, "hex": gen.hx(0)}], f"{f}=0")
            dv([{"op": "scalar_set", "field": f, "idx": i, "hex": gen.hx(gen.rscalar(rng))}], f"{f}=rand")
        for f, i in scal:
            for kk in (1, 2, 7):
                dv([{"op": "scalar_plus_l", "field": f, "idx": i, "k": kk}], f"{f}+{kk}*l (same residue, non-canonical bytes)")
        # every point
        pts = [("a", 0), ("a1", 0), ("b", 0)] + [("li", j) for j in range(k)] + [("ri", j) for j in range(k)]
        for f, i in pts:
            dv([{"op": "point_set", "field": f, "idx": i, "to": {"junk": rng.randrange(1 << 30)}}], f"{f}=junk")
            dv([{"op": "point_set", "field": f, "idx": i, "to": {"identity": True}}], f"{f}=identity")
            dv([{"op": "point_set", "field": f, "idx": i, "to": {"undecodable": rng.randrange(1 << 30)}}], f"{f}=undecodable")
            dv([{"op": "point_set", "field": f, "idx": i, "to": {"copy": ["a1" if f == "a" else "a", 0]}}], f"{f}=copy")
            dv([{"op": "point_set", "field": f, "idx": i, "to": {"addmul": {"base": rng.choice(["H", "Gb", "G", "Hv"]), "i": 0, "hex": gen.hx(1)}}}], f"{f}+gen")
        # round structure and tag
        if k >= 1:
            dv([{"op": "drop_round", "idx": rng.randrange(k)}], "rounds-1")
            dv([{"op": "dup_round", "idx": rng.randrange(k)}], "rounds+1")
            dv([{"op": "swap_lr", "idx": rng.randrange(k)}], "swapLR")
            if k >= 2:
                dv([{"op": "swap_rounds", "idx": 0, "idx2": k - 1}], "swap_rounds")
        for t in range(1, 7):
            if t != T:
                dv([{"op": "set_tag", "tag": t}], "tag")
        if T < 6:
            dv([{"op": "set_d1_len", "n": T + 1}], "d1_len+1")
        if T > 1:
            dv([{"op": "set_d1_len", "n": T - 1}], "d1_len-1")
        # statement side
        for j in range(m):
            st = gen.stmt_of(mem)
            st["commit"][j] = {"open": st["commit"][j], "shiftH": gen.hx(1)}
            sv({"proof": 0, "stmt": st, "ctx": mem["ctx"]}, "V+H")
            st = gen.stmt_of(mem)
            st["commit"][j] = {"open": st["commit"][j], "shiftGb": [rng.randrange(T), gen.hx(1)]}
            sv({"proof": 0, "stmt": st, "ctx": mem["ctx"]}, "V+Gb")
            st = gen.stmt_of(mem)
            st["commit"][j] = {"junk": rng.randrange(1 << 30)}
            sv({"proof": 0, "stmt": st, "ctx": mem["ctx"]}, "V=junk")
            p = mem["promises"][j]
            pv = 0 if p is None else int(p)
            for newp, tag in ((pv + 1, "p+1"), (pv - 1, "p-1"), (0, "p=0"), ((1 << b) - 1, "p=max"), (None, "p=None")):
                if newp is not None and (newp < 0 or newp >= (1 << b)):
                    continue
                old_eff = pv
                new_eff = 0 if newp is None else newp
                st = gen.stmt_of(mem)
                st["promises"][j] = None if newp is None else str(newp)
                if new_eff == old_eff:
                    # None <-> Some(0), or the same value: must stay accepted
                    if (p is None) != (newp is None):
                        verifies.append({"mode": "VerifyOnly", "vmembers": [{"proof": 0, "stmt": st, "ctx": mem["ctx"]}]})
                        tags.append("None<->0 (must stay accepted)")
                    continue
                sv({"proof": 0, "stmt": st, "ctx": mem["ctx"]}, tag)
        for j in range(m - 1):
            st = gen.stmt_of(mem)
            st["commit"][j], st["commit"][j + 1] = st["commit"][j + 1], st["commit"][j]
            if st["commit"][j] != st["commit"][j + 1]:
                sv({"proof": 0, "stmt": st, "ctx": mem["ctx"]}, "V.swap")
        if b < 64:
            sv(gen.vmember(mem, 0, bits=2 * b), "bits*2")
        if b > 1:
            sv(gen.vmember(mem, 0, bits=b // 2, cap=2 * cap), "bits/2")
        sv(gen.vmember(mem, 0, h_scale=gen.hx(2)), "H")
        for kk in range(T):
            sv(gen.vmember(mem, 0, gb_scale=[kk, gen.hx(2)]), "Gb")
        sv(gen.vmember(mem, 0, ctx={"label": "c05x", "msgs": [["ctx", "aa"]]}), "ctx.label")
        sv(gen.vmember(mem, 0, ctx={"label": "c05", "msgs": [["ctx", "ab"]]}), "ctx.msg")
        sv(gen.vmember(mem, 0, ctx={"label": "c05"}), "ctx.drop")
        # the altered triple placed RIGHT AFTER (and right before) its untouched original in one batch: every statement-side alteration and a sample of
        # the proof-side ones (a verifier that recognises a repeated proof must still bind each copy to its own statement and transcript)
        n_single = len(verifies)
        orig = gen.vmember(mem, 0)
        cand = [i for i in range(1, n_single) if not tags[i].startswith(("None<->0", "control"))]
        stmt_side = [i for i in cand if verifies[i]["vmembers"][0]["proof"] == 0]
        proof_side = [i for i in cand if verifies[i]["vmembers"][0]["proof"] != 0]
        for i in stmt_side + rng.sample(proof_side, min(6, len(proof_side))):
            alt = verifies[i]["vmembers"][0]
            verifies.append({"mode": rng.choice(["VerifyOnly", "RecoverAndVerify"]), "vmembers": [orig, alt]})
            tags.append(tags[i] + " | right after its original in one batch")
            verifies.append({"mode": rng.choice(["VerifyOnly", "RecoverAndVerify"]), "vmembers": [orig, alt], "share_params": True})
            tags.append(tags[i] + " | right after its original in one batch, both statements sharing one parameter object")
            if i % 3 == 0:
                verifies.append({"mode": "VerifyOnly", "vmembers": [alt, orig]})
                tags.append(tags[i] + " | right before its original in one batch")
        big = len(verifies) > 60
        for i, v in enumerate(verifies):
            # the pair batches are judged by the direct oracle only (model evaluation of every one of them exhausted memory in the thorough tier)
            v["log"] = False if i >= n_single else ((i % 3 == 0) if big else True)
        specs.append({"id": f"c05-{ci}", "group": group, "members": [mem], "derived": derived, "verifies": verifies, "_tags": tags,
                      "_conf": [b, m, T, group], "with_gens": False})
    # the same binding inside a batch that spans several internal chunks: the altered triple sits in the trailing partial chunk
    for bi, (k, pos) in enumerate([(257, 256), (300, 299)] if quick else [(257, 256), (300, 299), (513, 512), (600, 511), (258, 0)]):
        mems = [gen.mk_member(rng, 2, 1, T=1) for _ in range(4)]
        alter = rng.choice([{"op": "scalar_add", "field": "s1", "hex": gen.hx(1)}, {"op": "point_set", "field": "a", "to": {"junk": 99}}, {"op": "dup_round", "idx": 0}])
        derived = [{"from": pos % 4, "ops": [alter]}]
        vm = [gen.vmember(mems[i % 4], i % 4) for i in range(k)]
        base = {"mode": "VerifyOnly", "vmembers": list(vm), "log": False}
        vm2 = list(vm)
        vm2[pos] = gen.vmember(mems[pos % 4], 4)
        vm3 = list(vm)
        st = gen.stmt_of(mems[pos % 4])
        st["promises"][0] = "1" if st["promises"][0] in (None, "0") else str(int(st["promises"][0]) - 1)
        vm3[pos] = {"proof": pos % 4, "stmt": st, "ctx": mems[pos % 4]["ctx"]}
        specs.append({"id": f"c05-batch-{bi}", "group": "fm", "members": mems, "derived": derived,
                      "verifies": [base, {"mode": "VerifyOnly", "vmembers": vm2, "log": False}, {"mode": "VerifyOnly", "vmembers": vm3, "log": False}],
                      "_tags": ["base", f"batch[{pos}/{k}]: proof altered", f"batch[{pos}/{k}]: promise altered"], "_conf": [2, 1, 1, "fm"], "with_gens": False, "_batch": True})
    # generator binding inside mixed batches: verify() takes H, Gb and the tables from particular members (the first, the largest), so a
    # statement carrying different generators must be refused whatever its position and size (its commitments are kept unchanged)
    shapes = [[1, 2], [2, 1], [1, 2, 1], [1, 2, 4]] if quick else [[1, 2], [2, 1], [1, 2, 1], [1, 2, 4], [4, 2, 1], [2, 2], [1, 1, 2], [2, 4, 4], [1, 4, 2]]
    for si, shape in enumerate(shapes):
        b, T = rng.choice([1, 2, 4]), rng.choice([1, 2, 3])
        mems = [gen.mk_member(rng, b, mm, cap=mm, T=T) for mm in shape]
        base_vm = [gen.vmember(mems[i], i) for i in range(len(shape))]
        verifies, tags = [{"mode": "VerifyOnly", "vmembers": base_vm}], ["base"]

        def std_stmt(i, **over):
            st = gen.stmt_of(mems[i], **over)
            st["commit"] = [{"open_std": c} for c in st["commit"]]
            return {"proof": i, "stmt": st, "ctx": mems[i]["ctx"]}
        vm = list(base_vm)
        vm[len(shape) - 1] = std_stmt(len(shape) - 1)
        verifies.append({"mode": "VerifyOnly", "vmembers": vm})
        tags.append("control: same commitments given as points (must stay accepted)")
        for i in range(len(shape)):
            for tag, over in [("H", {"h_scale": gen.hx(2)})] + [(f"Gb{kk}", {"gb_scale": [kk, gen.hx(3)]}) for kk in sorted({0, T - 1})]:
                vm = list(base_vm)
                vm[i] = std_stmt(i, **over)
                verifies.append({"mode": rng.choice(["VerifyOnly", "RecoverAndVerify"]), "vmembers": vm})
                tags.append(f"mixed batch m={shape}: {tag} of member {i} altered")
        specs.append({"id": f"c05-mixed-{si}", "group": "fm", "members": mems, "verifies": verifies, "_tags": tags, "_conf": [b, max(shape), T, "fm"],
                      "with_gens": False, "_batch": True})
    return specs


def oracle(run, s, o):
    b, m, T, group = s["_conf"]
    rp = {"kind": "session", "spec": sessions.strip(s)}
    if o["verifies"][0]["result"] != "ok":
        run.violation(f"base triple not accepted: {o['verifies'][0]['result'][:80]}", rp)
        return
    base_bytes = o["members"][0]["proof"]["bytes"]
    for vi, (tag, vs, vo) in enumerate(zip(s["_tags"], s["verifies"], o["verifies"])):
        if vi == 0:
            continue
        res = vo["result"]
        rpi = dict(rp, verify=vi, alteration=tag)
        if res.startswith("unavailable"):
            # the altered bytes do not decode (e.g. non-canonical scalar, wrong length): rejected before verification
            run.count(["c05", b, m, T, group, tag, "undecodable-bytes"], None)
            run.bump("rejected at decoding")
            continue
        pi = max(x["proof"] for x in vs["vmembers"])
        if not s.get("_batch") and pi >= 1 and o["derived"][pi - 1].get("bytes") == base_bytes:
            run.trivial()
            continue
        run.count(["c05", b, m, T, group, tag, res.split(":")[0]], {"bits": b, "m": m, "T": T, "group": group, "alteration": tag, "result": res[:70]})
        run.bump(tag.split("=")[-1] if "=" in tag else tag)
        if tag.startswith("control"):
            if res != "ok":
                run.violation(f"control case refused: {tag}: {res[:80]}", rpi)
        elif tag.startswith("None<->0"):
            if res != "ok":
                run.violation(f"replacing an absent promise by zero (or back) changed the verdict: {res[:80]}", rpi)
        elif res == "ok":
            run.violation(f"altered triple accepted: {tag} (bits={b}, m={m}, T={T}, {group})", rpi)
        elif res.startswith("panic"):
            run.violation(f"altered triple caused a panic: {tag}: {res[:120]}", rpi)


def run(run: Run):
    run.run_audit()
    specs = gen_specs(run)
    sessions.run_sessions(run, specs, oracle, relevant=1 | 4 | 8 | 16 | 64 | 256)
    # altering the NUMBER of rounds to anything at all must give an error in both build profiles: counts around the width of usize
    # (a shift by the round count is evaluated before it is compared), alone and inside a batch, copies of the proof's own (L, R) as filling
    rng = run.rng
    rspecs = []
    for i, (b, m, T) in enumerate([(64, 1, 1), (2, 1, 2), (8, 2, 1)] if run.tier == "quick" else [(64, 1, 1), (2, 1, 2), (8, 2, 1), (32, 2, 3), (1, 2, 1), (16, 4, 2)]):
        mem = gen.mk_member(rng, b, m, cap=m, T=T)
        other = gen.mk_member(rng, b, m, cap=m, T=T)
        k = (b * m).bit_length() - 1
        counts = [0, 1, k - 1, k + 1, 31, 32, 33, 62, 63, 64, 65, 66, 127, 128, 129, k + 64]
        counts = [c for c in sorted(set(counts)) if c >= 0 and c != k]
        derived, verifies, tags = [], [], []
        for c in counts:
            ops = [{"op": "dup_round", "idx": 0} for _ in range(max(0, c - k))] + [{"op": "drop_round", "idx": 0} for _ in range(max(0, k - c))]
            derived.append({"from": 0, "ops": ops})
            verifies.append({"mode": rng.choice(["VerifyOnly", "RecoverAndVerify"]), "vmembers": [gen.vmember(mem, 2 + len(derived) - 1)], "log": False})
            tags.append((c, "alone"))
            verifies.append({"mode": "VerifyOnly", "vmembers": [gen.vmember(other, 1), gen.vmember(mem, 2 + len(derived) - 1)], "log": False})
            tags.append((c, "second of two"))
        rspecs.append({"id": f"c05-rounds-{i}", "group": "fm", "members": [mem, other], "derived": derived, "verifies": verifies, "_tags": tags, "_conf": [b, m, T],
                       "with_gens": False, "log_merlin": False, "log_msm": False})
    for profile in ("release", "debug"):
        for sp, o in zip(rspecs, run_harness(["session"], [sessions.strip(x) for x in rspecs], profile=profile, jobs=len(rspecs))):
            b, m, T = sp["_conf"]
            for vi, ((c, where), vo) in enumerate(zip(sp["_tags"], o["verifies"])):
                res = vo["result"]
                run.count(["c05rounds", profile, b, m, T, min(c, 130) // 16, where, res.split(":")[0]], {"profile": profile, "bits": b, "m": m, "T": T, "rounds_altered_to": c, "where": where, "result": res[:60]})
                run.bump("round-count alterations")
                if res == "ok" or res.startswith("panic"):
                    run.violation(f"altered triple {'ACCEPTED' if res == 'ok' else 'made verification PANIC'}: number of (L, R) pairs changed to {c} ({where}; {profile} build; bits={b}, m={m}, T={T}): {res[:120]}",
                                  {"kind": "session", "spec": sessions.strip(sp), "verify": vi, "profile": profile})
    return run.finish(
        "proof",
        "for accepted triples on the lattice, every position is altered: each of the 2+T scalars (four replacement kinds), each of the 3+2k points (junk, "
        "identity, undecodable, copy of another point, plus a generator), the round structure (drop / duplicate / swap; the NUMBER of rounds altered to 0..k+64 in release and debug builds), the extension tag and d1 length, every "
        "commitment (three kinds), the altered triple also placed right after / before its untouched original in one batch, the commitment order, every promise (+1, -1, 0, max, None), the bit length, H, every Gb_k and the context; each must be an "
        "error (never Ok, never a panic) and None<->Some(0) must stay accepted; free-module and Ristretto back ends; distinct by (bits, m, T, group, alteration, outcome)",
        ["alterations whose bytes no longer decode are counted as rejected at decoding (C15 decides those)"],
        TRUSTED)


def replay(rp):
    return sessions.replay_session(rp)
