"""C17 — constructors accept exactly the documented parameter space.
Exhaustive grid of the property run on the implementation (harness `ctor`), every row compared with the
Gallina model evaluated by coqc/vm_compute."""
from lib.common import *

HEADER = """From Coq Require Import NArith List Bool.
From BP Require Import Model.Ctor Exec.CasesLib Exec.CtorExec.
Import ListNotations. Open Scope N_scope.
"""

TRUSTED = [
    "Coq 8.16.1 kernel and vm_compute",
    "axioms: none (every theorem Closed under the global context)",
    "hand-written model coq/Model/Ctor.v, tied to the code by exhaustive evaluation of the property's grid",
    "harness/src/ctor.rs (grid driver, stored-value comparison), rustc/cargo",
    "std's usize::is_power_of_two modelled by its documentation (x = 2^k)",
]


def run(run: Run):
    run.run_audit()
    fams = {r["family"]: r["rows"] for r in run_harness(["ctor"])}
    cases, meta = [], []

    def add(term, fam, row, cls):
        cases.append(term)
        meta.append((fam, row, cls))

    for fam in ("params", "params_ristretto"):
        for bits, cap, t, c in fams[fam]:
            add(f"chk_params ({bits},{cap},{c})", fam, [bits, cap, t, c], [fam, bits, cap, c])
    for row in fams["statement"]:
        cap, count, pcount, seed, c = row[:5]       # a sixth entry names the seed VALUE of the rows that vary it
        add(f"chk_statement ({cap},{count},{pcount},{seed},{c})", "statement", [cap, count, pcount, seed, c], ["st", cap, count, pcount, seed, c] + list(row[5:]))
    for shape, c in fams["witness"]:
        add(f"chk_witness ([{';'.join(map(str, shape))}],{c})", "witness", [shape, c], ["w", shape, c])
    for n, c in fams["r_len"]:
        add(f"chk_rlen ({n},{c})", "r_len", [n, c], ["rl", n, c])
    for x, c in fams["deg_u8"]:
        add(f"chk_deg_u8 ({x},{c})", "deg_u8", [x, c], ["u8", x, c])
    for x, c in fams["deg_usize"]:
        add(f"chk_deg_usize ({x},{c})", "deg_usize", [x, c], ["us", x, c])
    for ln, t, c in fams["mask"]:
        add(f"chk_mask ({ln},{t},{c})", "mask", [ln, t, c], ["m", ln, t, c])
    for ln, t, c in fams["commit"]:
        add(f"chk_commit ({ln},{t},{c})", "commit", [ln, t, c], ["c", ln, t, c])

    bad = coq_eval_bools("c17", HEADER, cases)
    seen_fam = set()
    for (fam, row, cls) in meta:
        run.bump(fam)
        run.bump("ok" if row[-1] == 1 else "err" if row[-1] == 0 else "other")
        run.count(cls, {"family": fam, "row": row} if (fam, row[-1]) not in seen_fam else None)
        seen_fam.add((fam, row[-1]))
    for i in bad:
        fam, row, cls = meta[i]
        code = row[-1]
        what = {2: "constructor panicked", 3: "constructor silently adjusted a value"}.get(
            code, "constructor accepts/rejects differently from the documented domain (model disagrees)")
        extra = f" ({cls[6]})" if fam == "statement" and len(cls) > 6 else ""
        run.violation(f"{fam}: {what}: {row}{extra}", {"family": fam, "row": row, "kind": "ctor", "detail": extra.strip(), "meaning": "args..., observed code (1 ok, 0 err, 2 panic, 3 adjusted)"})
        if len(run.violations) > 5:
            break
    return run.finish(
        "proof",
        "the complete grid of the property (bits 0..130 x capacity 0..130; counts 0..17 x promise counts 0..18 x seed x capacity; "
        "opening shapes with blinding counts 0..8; all u8 and selected usize degree encodings; mask and commit lengths 0..8 x degree); "
        "a case is (family, arguments, observed result code); every case is distinct and exercises a constructor guard",
        ["the model's N arithmetic stands for usize (no constructor performs arithmetic that can overflow)"],
        TRUSTED,
        extra={"exhaustive": True},
    )
