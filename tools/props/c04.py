"""C04 — Fiat-Shamir binding: each challenge depends on everything before it."""
import copy
from lib.common import *
from lib import gen, sessions, vmodel, pmodel

TRUSTED = [
    "Coq 8.16.1 kernel and vm_compute",
    "axioms: none",
    "hand-written transcript model (coq/Model/Transcript.v, Nonce.v: the exact list of operations prover and verifier apply), tied to the code by "
    "operation-by-operation comparison with the instrumented merlin log",
    "Merlin/STROBE as a random oracle of the operation list (distinct lists give independent challenges): NOT proved",
    "hand-written Gallina STROBE-128 / Merlin (coq/Crypto/Strobe.v over Crypto/Keccak.v, Model/MerlinOps.v) — a model of the merlin DEPENDENCY, validated on every run by replaying recorded "
    "operation logs in Coq and comparing every challenge / RNG output byte for byte (Exec/MerlinExec.failing, Exec/MerlinOpsExec.chk_ops); vm_compute with primitive-free N arithmetic",
    "harness: instrumented merlin copy (records label, data, challenge output of every operation)",
]


def chals_of(vo):
    """challenge outputs of the (single) member of a verification, in order"""
    per, news, fins = vmodel.split_ops(vo["merlin"])
    tid = vo["tids"][0]
    return [x[2].hex() for x in per.get(tid, []) if x[0] == "chal"]


def pchals_of(mo):
    per, news, fins = vmodel.split_ops(mo["merlin"])
    return [x[2].hex() for x in per.get(mo["tid"], []) if x[0] == "chal"]


def gen_specs(run):
    rng = run.rng
    quick = run.tier == "quick"
    confs = [(4, 2, 2), (8, 1, 1), (2, 4, 3), (16, 2, 1), (1, 2, 6), (32, 1, 2), (4, 4, 4), (2, 8, 5), (64, 1, 1), (64, 2, 2)]
    extra = gen.lattice(64 if quick else 256)
    rng.shuffle(extra)
    confs += extra[: (6 if quick else 100)]
    specs = []
    for ci, (b, m, T) in enumerate(confs):
        mem = gen.mk_member(rng, b, m, cap=m, T=T, seed=(m == 1 and ci % 2 == 0), ctx={"label": "ctx-A", "msgs": [["app", "0102"]]})
        k = (b * m).bit_length() - 1
        base = gen.vmember(mem, 0)
        derived, verifies, tags = [], [{"mode": "VerifyOnly", "vmembers": [base]}], [("base", 0)]
        verifies.append({"mode": "VerifyOnly", "vmembers": [base]})
        tags.append(("repeat", None))

        def add(vm, tag, first_diff):
            verifies.append({"mode": "VerifyOnly", "vmembers": [vm]})
            tags.append((tag, first_diff))

        # context
        add(gen.vmember(mem, 0, ctx={"label": "ctx-B", "msgs": [["app", "0102"]]}), "ctx.label", 0)
        add(gen.vmember(mem, 0, ctx={"label": "ctx-A", "msgs": [["app", "0103"]]}), "ctx.msg", 0)
        add(gen.vmember(mem, 0, ctx={"label": "ctx-A", "msgs": [["app", "0102"], ["app", ""]]}), "ctx.extra", 0)
        # generators
        add(gen.vmember(mem, 0, h_scale=gen.hx(3)), "H", 0)
        for kk in range(T):
            add(gen.vmember(mem, 0, gb_scale=[kk, gen.hx(5)]), f"Gb{kk}", 0)
        # bit length (same number of commitments)
        if b < 64:
            add(gen.vmember(mem, 0, bits=2 * b), "bits", 0)
        # commitments, promises
        for j in range(m):
            st = gen.stmt_of(mem)
            st["commit"][j] = {"open": st["commit"][j], "shiftH": gen.hx(1)}
            add({"proof": 0, "stmt": st, "ctx": mem["ctx"]}, f"V{j}", 0)
            st = gen.stmt_of(mem)
            p = st["promises"][j]
            st["promises"][j] = "1" if p in (None, "0") else str(int(p) - 1)
            add({"proof": 0, "stmt": st, "ctx": mem["ctx"]}, f"p{j}", 0)
        if m >= 2:
            st = gen.stmt_of(mem)
            st["commit"][0], st["commit"][1] = st["commit"][1], st["commit"][0]
            add({"proof": 0, "stmt": st, "ctx": mem["ctx"]}, "V.swap", 0)
        if m >= 4:
            # statements in which neighbouring commitments are EQUAL (the same opening twice): each position is a datum of its own — moving the boundary of a
            # run ([A,A,B,B] -> [A,B,B,B] / [A,A,A,B]) must change every challenge; compared pairwise like the promise pairs
            st0 = gen.stmt_of(mem)
            A_, B_ = st0["commit"][0], st0["commit"][m - 1]
            runs = [A_] * (m // 2) + [B_] * (m - m // 2)
            for name, vec in (("runs", runs), ("boundary-1", [A_] * (m // 2 - 1) + [B_] * (m - m // 2 + 1)), ("boundary+1", [A_] * (m // 2 + 1) + [B_] * (m - m // 2 - 1))):
                st = gen.stmt_of(mem)
                st["commit"] = list(vec)
                add({"proof": 0, "stmt": st, "ctx": mem["ctx"]}, f"run:{name}", 0)
        if m >= 2:
            # statements holding a DEGENERATE commitment (the identity: value 0 under an all-zero mask — a valid opening; or the value generator itself) at a
            # position other than the last: every LATER commitment is still a datum of its own — two statements that differ in one of them give
            # different challenges throughout (compared with each other, not with the base run)
            degs = [("identity", {"v": "0", "r": [gen.hx(0)] * T}), ("H", {"v": "1", "r": [gen.hx(0)] * T})]
            for (dname, dopen) in degs:
                for z in sorted({0, rng.randrange(m - 1)}):
                    j = rng.randrange(z + 1, m)
                    st_a = gen.stmt_of(mem)
                    st_a["commit"][z] = dict(dopen)
                    st_a["promises"][z] = None
                    st_b = copy.deepcopy(st_a)
                    st_b["commit"][j] = {"open": st_b["commit"][j], "shiftH": gen.hx(1)}
                    add({"proof": 0, "stmt": st_a, "ctx": mem["ctx"]}, f"cpair:a:{dname}@{z}:V{j}", 0)
                    add({"proof": 0, "stmt": st_b, "ctx": mem["ctx"]}, f"cpair:b:{dname}@{z}:V{j}", 0)
        # promise encodings must be injective over the whole u64 range: neighbouring values at the top, in the middle and at the bottom of what the
        # bit length admits (a promise beyond it is refused before any challenge is drawn), compared with each other rather than with the base run
        top = (1 << 64) - 1 if b == 64 else (1 << b) - 1
        for j in sorted({0, m - 1}):
            for (x, y) in [(top - 1, top), (0, 1), (top >> 1, (top >> 1) + 1)] + ([(None, 1)] if top >= 1 else []):
                if top < 1 or (x is not None and (x < 0 or y > top)):
                    continue
                for val, half in ((x, "a"), (y, "b")):
                    st = gen.stmt_of(mem)
                    st["promises"][j] = None if val is None else str(val)
                    add({"proof": 0, "stmt": st, "ctx": mem["ctx"]}, f"pair{half}:{j}:{x}:{y}", 0)
        # proof points
        def dpoint(field, idx, first_diff, name):
            derived.append({"from": 0, "ops": [{"op": "point_set", "field": field, "idx": idx, "to": {"junk": rng.randrange(1 << 30)}}]})
            add(gen.vmember(mem, len(derived)), name, first_diff)
        dpoint("a", 0, 0, "A")
        for j in range(k):
            dpoint("li", j, 2 + j, f"L{j}")
            dpoint("ri", j, 2 + j, f"R{j}")
        dpoint("a1", 0, 2 + k, "A1")
        dpoint("b", 0, 2 + k, "B")
        # prover side: statements differing in one datum give different challenges
        pm = [mem]
        ptags = ["base"]
        for tag, chg in (("ctx", {"ctx": {"label": "ctx-B", "msgs": [["app", "0102"]]}}), ("H", {"h_scale": gen.hx(3)}), ("Gb0", {"gb_scale": [0, gen.hx(5)]}), ("repeat", {})):
            x = copy.deepcopy(mem)
            x.update(chg)
            pm.append(x)
            ptags.append(tag)
        x = copy.deepcopy(mem)
        p = x["promises"][m - 1]
        # keep the witness valid: lower the promise (or raise 0 -> stays <= value only if value > 0; use lowering / None<->0 is not a change)
        if p not in (None, "0"):
            x["promises"][m - 1] = str(int(p) - 1)
            pm.append(x)
            ptags.append("promise")
        specs.append({"id": f"c04-{ci}", "group": "fm", "members": pm, "derived": [dict(d, **{"from": 0}) for d in derived],
                      "verifies": verifies, "_tags": tags, "_ptags": ptags, "_conf": [b, m, T], "with_gens": False})
        if ci < 10 or T >= 5:
            # only the ENCODING of a generator changed (the commitments, being computed from the points, stay the same points): every challenge must still
            # differ, for every blinding generator of every extension degree.  Such parameter sets are inconsistent by construction (the verifier is handed
            # the cached encodings, the equation the points), so they are verified alone: no embedding into batches, no mode sweep
            ev, et = [{"mode": "VerifyOnly", "vmembers": [base]}], [("base", 0)]
            for tg, over in [("H-encoding", {"hc_scale": gen.hx(3)})] + [(f"Gb-encoding{kk}", {"gbc_scale": [kk, gen.hx(5)]}) for kk in range(T)]:
                ev.append({"mode": "VerifyOnly", "vmembers": [gen.vmember(mem, 0, **over)]})
                et.append((tg, 0))
            specs.append({"id": f"c04-enc-{ci}", "group": "fm", "members": [mem], "verifies": ev, "_tags": et, "_ptags": ["base"], "_conf": [b, m, T], "with_gens": False,
                          "_no_embed": True, "_no_modes": True})
        # derived proof indices start after all members
        off = len(pm)
        for v in verifies:
            for vm in v["vmembers"]:
                if vm["proof"] >= 1:
                    vm["proof"] = vm["proof"] - 1 + off
    # batches that span several internal chunks of 256: every member must be bound to ITS OWN transcript (context), also beyond the first chunk
    for bi, k in enumerate([257, 300] if quick else [257, 300, 513, 600, 1025]):
        mems = [gen.mk_member(rng, 2, 1, T=1, ctx={"label": f"c04-batch-{i}", "msgs": [["who", "%02x" % i]]}) for i in range(5)]
        vm = [gen.vmember(mems[i % 5], i % 5) for i in range(k)]
        verifies, tags = [{"mode": "VerifyOnly", "vmembers": list(vm), "log": False}], [("honest", True)]
        for pos in sorted({0, 255, 256, k - 1, rng.randrange(256, k)}):
            vm2 = list(vm)
            vm2[pos] = gen.vmember(mems[pos % 5], pos % 5, ctx={"label": f"c04-batch-{pos % 5}", "msgs": [["who", "ff"]]})
            verifies.append({"mode": "VerifyOnly", "vmembers": vm2, "log": False})
            tags.append((f"context of member {pos} of {k} perturbed", False))
            vm3 = list(vm)
            other = (pos + 1) % 5
            vm3[pos] = gen.vmember(mems[pos % 5], pos % 5, ctx=mems[other]["ctx"])
            verifies.append({"mode": "VerifyOnly", "vmembers": vm3, "log": False})
            tags.append((f"member {pos} of {k} verified under the context of another member", False))
        specs.append({"id": f"c04-batch-{bi}", "group": "fm", "members": mems, "verifies": verifies, "_role": "batch", "_tags": tags, "_conf": [2, 1, 1],
                      "with_gens": False, "log_msm": False})
    # every proof's challenges must depend on ITS OWN statement's generators, also when the statement is the largest of a mixed batch and not first
    for sp in gen.mixed_generator_batches(rng, quick, "c04g"):
        sp["_role"] = "batch"
        specs.append(sp)
    return specs


def oracle(run, s, o):
    if s.get("_role") == "batch":
        rp = {"kind": "session", "spec": sessions.strip(s)}
        for vi, ((tag, want_ok), vo) in enumerate(zip(s["_tags"], o["verifies"])):
            res = vo["result"]
            run.count(["c04b", len(s["verifies"][vi]["vmembers"]), tag.split(" of ")[0] if vi else tag, res.split(":")[0]], {"batch": len(s["verifies"][vi]["vmembers"]), "case": tag, "result": res[:60]})
            run.bump("batch cases")
            if want_ok and res != "ok":
                run.violation(f"batch of {len(s['verifies'][vi]['vmembers'])} valid proofs, each under its own context, refused: {res[:80]}", dict(rp, verify=vi))
            if not want_ok and res == "ok":
                run.violation(f"batch accepted although the {tag}: its challenges do not depend on its own transcript", dict(rp, verify=vi))
        return
    b, m, T = s["_conf"]
    rp = {"kind": "session", "spec": sessions.strip(s)}
    base = chals_of(o["verifies"][0])
    k = (b * m).bit_length() - 1
    if len(base) != 3 + k or o["verifies"][0]["result"] != "ok":
        run.violation(f"base run: expected {3 + k} challenges and Ok, got {len(base)} and {o['verifies'][0]['result'][:60]}", rp)
        return
    pending = {}
    for (tag, first), vo in zip(s["_tags"][1:], o["verifies"][1:]):
        if vo["result"].startswith("unavailable"):
            continue
        if tag.startswith("run:"):
            cs = chals_of(vo)
            pending.setdefault("runs", []).append((tag[4:], cs))
            if len(pending["runs"]) == 3:
                (n0, c0), (n1, c1), (n2, c2) = pending.pop("runs")
                run.count(["c04runs", b, m, T], {"bits": b, "m": m, "T": T, "check": "statements with runs of equal adjacent commitments, run boundary moved"})
                run.bump("equal-neighbour commitment vectors")
                for (na, ca), (nb_, cb) in (((n0, c0), (n1, c1)), ((n0, c0), (n2, c2)), ((n1, c1), (n2, c2))):
                    if not ca or len(ca) != len(cb) or any(x == y for x, y in zip(ca, cb)):
                        run.violation(f"two statements that differ in one commitment (runs of equal neighbouring commitments, '{na}' vs '{nb_}') give an equal challenge "
                                      f"(bits={b}, m={m}, T={T}): a commitment equal to its neighbour is not bound at its own position", rp)
                        break
            continue
        if tag.startswith("cpair:"):
            _, half, what, which = tag.split(":")
            cs = chals_of(vo)
            if half == "a":
                pending[("cpair", what, which)] = cs
                continue
            ca = pending.get(("cpair", what, which))
            run.count(["c04cpair", b, m, T, what.split("@")[0]], {"bits": b, "m": m, "T": T, "degenerate_commitment": what, "changed": which})
            run.bump("pairs after a degenerate commitment")
            if vo["result"] == "ok":
                run.violation(f"proof accepted under a statement with other commitments ({what}, {which} changed; bits={b}, m={m}, T={T})", rp)
            if not ca or len(ca) != len(cs):
                # a statement the constructors or the transcript refuse altogether derives no challenges: nothing to compare
                continue
            for i in range(len(cs)):
                if ca[i] == cs[i]:
                    run.violation(f"challenge #{i} is the same for two statements that differ in commitment {which} (bits={b}, m={m}, T={T}); the statement holds the "
                                  f"degenerate commitment {what}: commitments after it are not bound", rp)
                    break
            continue
        if tag.startswith("pair"):
            half, j, x, y = tag[4:].split(":")
            cs = chals_of(vo)
            if half == "a":
                pending[(j, x, y)] = cs
                continue
            ca = pending.get((j, x, y))
            run.count(["c04pair", b, m, T, x == "None", int(y).bit_length()], {"bits": b, "m": m, "T": T, "promise_pair": [x, y], "position": int(j)})
            run.bump("promise pairs")
            if ca is None or len(ca) != len(cs) or not cs:
                run.violation(f"promise {x} vs {y} at position {j}: {len(ca or [])} and {len(cs)} challenges derived (bits={b}, m={m}, T={T})", rp)
            else:
                for i in range(len(cs)):
                    if ca[i] == cs[i]:
                        run.violation(f"challenge #{i} is the same under promise {x} and promise {y} at position {j} (bits={b}, m={m}, T={T}): the promise is not bound injectively", rp)
                        break
            continue
        cs = chals_of(vo)
        kind = tag.rstrip("0123456789")
        run.count(["c04", b, m, T, kind, first], {"bits": b, "m": m, "T": T, "datum": tag, "challenges_from": first, "result": vo["result"][:50]})
        run.bump(kind)
        if tag == "repeat":
            if cs != base or vo["result"] != "ok":
                run.violation("repeating the verification gave different challenges", rp)
            continue
        if len(cs) != len(base):
            run.violation(f"perturbing {tag}: {len(cs)} challenges derived instead of {len(base)}", rp)
            continue
        for i in range(len(base)):
            if i < first and cs[i] != base[i]:
                run.violation(f"perturbing {tag} changed challenge #{i}, which is drawn before {tag} is absorbed", rp)
                break
            if i >= first and cs[i] == base[i]:
                run.violation(f"challenge #{i} ({'y z'.split()[i] if i < 2 else 'e'}) does not depend on {tag} (bits={b}, m={m}, T={T}): equal challenge bytes in two runs", rp)
                break
        if vo["result"] == "ok":
            run.violation(f"proof accepted although {tag} was changed (bits={b}, m={m}, T={T})", rp)
    # prover side
    pb = pchals_of(o["members"][0])
    for tag, mo in list(zip(s["_ptags"], o["members"]))[1:]:
        if mo.get("prove") != "ok":
            run.violation(f"prover failed on the {tag}-perturbed statement: {mo.get('prove')}", rp)
            continue
        pc = pchals_of(mo)
        run.count(["c04p", b, m, T, tag], {"prover_side": tag})
        if tag == "repeat":
            if pc != pb:
                run.violation("prover: identical inputs gave different challenges", rp)
        elif any(x == y for x, y in zip(pc, pb)):
            run.violation(f"prover: a challenge does not depend on {tag}", rp)


class Extra:
    header = pmodel.PHEADER

    def __call__(self, s, o):
        return []


def run(run: Run):
    run.run_audit()
    specs = gen_specs(run)
    sobs = sessions.run_sessions(run, specs, oracle, relevant=16)
    # the challenges themselves: Gallina STROBE-128 / Merlin (Crypto/Strobe.v) replayed on the recorded operation logs, every challenge and RNG output byte for byte
    from lib import merlinrep
    merlinrep.replay_sessions(run, "c04", specs, sobs, 10 if run.tier == "quick" else 80)
    # ... and the model's own operation lists run through the Gallina Merlin (Model/MerlinOps.run_ops): same challenge bytes
    merlinrep.abstract_sessions(run, "c04", specs, sobs, 12 if run.tier == "quick" else 100)
    return run.finish(
        "proof",
        "for each configuration one accepted proof and one run per single-datum perturbation (context label / message / extra message, H, every Gb_k, bit "
        "length, every commitment, commitment order, every promise, A, every L_j, every R_j, A1, B) on the verifier side and (context, H, Gb_0, promise) on the prover "
        "side; challenge bytes recorded by the instrumented merlin are compared pairwise (must differ from the perturbed datum on, must agree before), and every "
        "run's operation list is compared with the Coq transcript model; distinct by (bits, m, T, datum kind, first affected challenge)",
        ["a collision of two 64-byte challenge outputs under different inputs is taken as a dependency failure (probability 2^-512 otherwise)"],
        TRUSTED)


def replay(rp):
    return sessions.replay_session(rp)
