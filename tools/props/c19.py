"""C19 — wire compatibility with the released protocol and a reference implementation."""
import copy
from lib.common import *
from lib import gen, sessions, pmodel, vmodel

TRUSTED = [
    "Coq 8.16.1 kernel and vm_compute; Bignums.BigZ only in the executable instance",
    "axioms: none",
    "vectors/wire_vectors.json, vectors/gens_digest.json: recorded once from the pinned release with this harness (the recording is trusted to have happened on 0.4.0)",
    "the independent straight-from-the-paper prover / verifier is the Gallina model (prove_core / proof_terms evaluated by coqc), run over the free-module group on the implementation's own "
    "oracle outputs; byte-for-byte comparison over Ristretto is limited to generators (Gallina derivation, C11), transcript operations, nonce keys and the recorded vectors: "
    "STROBE-128 / Merlin are re-implemented in Gallina (Crypto/Strobe.v) and replayed on the merlin logs of the fresh configurations (every challenge and RNG output byte for byte); Blake2b is not",
    "Cargo.lock pins rand_chacha / merlin / curve25519-dalek (the scripted prover RNG must reproduce the recorded proofs bit for bit)",
]


def run(run: Run):
    run.run_audit()
    V = json.load(open(os.path.join(VERIF, "vectors", "wire_vectors.json")))["vectors"]
    rng = run.rng
    specs = []
    for v in V:
        mem = v["member"]
        specs.append({"id": v["id"], "group": "ristretto", "members": [mem], "log_merlin": False, "log_msm": False, "with_gens": False,
                      "derived": [{"ops": [{"op": "raw", "hex": v["proof"]}]}],
                      "verifies": [{"mode": "RecoverAndVerify", "vmembers": [gen.vmember(mem, 1)]},
                                   {"mode": "VerifyOnly", "vmembers": [gen.vmember(mem, 1, cap=mem["cap"] * 2)]},
                                   {"mode": "RecoverOnly", "vmembers": [gen.vmember(mem, 1)]}],
                      "_vec": v})

    def oracle(run, s, o):
        v = s["_vec"]
        mem = s["members"][0]
        rp = {"kind": "session", "spec": sessions.strip(s), "vector": v["id"]}
        mo = o["members"][0]
        run.count(["vector", v["id"]], {"vector": v["id"], "bits": mem["bits"], "m": len(mem["commit"]), "T": mem["T"], "seeded": mem["seed"] is not None, "proof_bytes": len(v["proof"]) // 2})
        run.bump("recorded vectors")
        if [c["enc"] for c in mo.get("commitments", [])] != v["commitments"]:
            run.violation(f"{v['id']}: commitments of the recorded openings differ from the recorded ones (generators changed?)", rp)
        if mo.get("prove") != "ok" or mo["proof"]["bytes"] != v["proof"]:
            run.violation(f"{v['id']}: the prover no longer reproduces the recorded 0.4.0 proof bytes under the same inputs and RNG stream", rp)
        if mem["bits"] * len(mem["commit"]) == 1:
            # zero folding rounds: the byte form does not decode (known finding of C15); the recorded bytes were compared with the prover's output above
            return
        if o["derived"][0].get("decode") != "ok":
            run.violation(f"{v['id']}: the recorded proof no longer decodes: {o['derived'][0].get('decode')}", rp)
            return
        for vi, vo in enumerate(o["verifies"]):
            if vo["result"] != "ok":
                run.violation(f"{v['id']}: the recorded 0.4.0 proof no longer verifies ({s['verifies'][vi]['mode']}): {vo['result'][:80]}", dict(rp, verify=vi))
            elif s["verifies"][vi]["mode"] != "VerifyOnly" and vo["masks"] != v["masks"]:
                run.violation(f"{v['id']}: the recorded proof no longer yields the recorded masks", dict(rp, verify=vi))
        if o["verifies"][0].get("stmts") and (o["verifies"][0]["stmts"][0]["H"] != v["H"] or o["verifies"][0]["stmts"][0]["Gb"] != v["Gb"]):
            run.violation(f"{v['id']}: Pedersen generator bytes differ from the recorded ones", rp)

    sessions.run_sessions(run, specs, oracle, model_verify=False, relevant=0)
    # fresh configurations: library prover == independent (Gallina) prover on the same inputs / nonces / challenges, coordinate by coordinate;
    # library verifier == independent (Gallina) verifier scalar by scalar; transcript operations and nonce keys literal
    quick = run.tier == "quick"
    confs = gen.lattice(32 if quick else 128)
    rng.shuffle(confs)
    confs = [(2, 1, 2), (4, 2, 1), (1, 1, 3), (8, 2, 2)] + confs[: (6 if quick else 120)]
    fresh = []
    for i, (b, m, T) in enumerate(confs):
        mem = gen.mk_member(rng, b, m, cap=m * rng.choice([1, 2]), T=T, seed=(m == 1 and i % 2 == 0), ctx={"label": "fresh", "msgs": [["i", gen.hx(i, 4)]]})
        fresh.append({"id": f"c19-fresh-{i}", "group": "fm", "members": [mem], "with_gens": True,
                      "verifies": [{"mode": "RecoverAndVerify", "vmembers": [gen.vmember(mem, 0)]}], "_conf": [b, m, T]})

    def oracle2(run, s, o):
        b, m, T = s["_conf"]
        run.count(["fresh", b, m, T, s["members"][0]["seed"] is not None], {"bits": b, "m": m, "T": T, "compared": "library prover/verifier vs Gallina prover/verifier"})
        run.bump("fresh configurations")
        if o["members"][0].get("prove") != "ok" or o["verifies"][0]["result"] != "ok":
            run.violation("fresh configuration: honest proof not produced / accepted", {"kind": "session", "spec": sessions.strip(s)})

    class Extra:
        header = pmodel.PHEADER

        def __call__(self, s, o):
            t = pmodel.prove_term(s["members"][0], o["members"][0])
            return [(t, (s, "prover", 0))] if t else []

    fobs = sessions.run_sessions(run, fresh, oracle2, relevant=0xFF, extra_terms=Extra(), name="c19f")
    # STROBE-128 / Merlin re-implemented in Gallina (Crypto/Strobe.v): every challenge and transcript-RNG output of these runs recomputed in Coq
    from lib import merlinrep
    merlinrep.replay_sessions(run, "c19", fresh, fobs, 10 if quick else 80)
    merlinrep.abstract_sessions(run, "c19", fresh, fobs, 12 if quick else 100)
    # the wire constants of the Gallina model itself: the labels, personas, nonce key layout and batch size the theorems speak about are the
    # ones the harness decodes the implementation's logs with (and whose Blake2b outputs C13 compares with the implementation's nonces)
    hdr = """From Coq Require Import NArith List Bool String Ascii.
From BP Require Import Model.Codec Model.Transcript Model.Verifier Model.VerifyTop Model.Nonce Exec.CasesLib Exec.VerifyExec.
Import ListNotations. Open Scope N_scope.
Fixpoint nl_eqb (a b : list N) : bool := match a, b with [], [] => true | x :: a', y :: b' => (x =? y)%N && nl_eqb a' b' | _, _ => false end.
"""
    cases, what = [], []
    for lab, code in vmodel.LABELS.items():
        cases.append(f'String.eqb (label_string (label_of_code {code})) "{lab}"%string')
        what.append(f"transcript label {lab!r}")
    for lab, code in vmodel.NL.items():
        ctor = {"alpha": "NAlpha", "dL": "NdL", "dR": "NdR", "d": "Nd", "eta": "NEta"}[lab]
        cases.append(f'String.eqb (nlabel_string {ctor}) "{lab}"%string && (nl_code {ctor} =? {code})%N')
        what.append(f"nonce persona {lab!r}")
    for _ in range(12):
        seed = rng.randrange(L)
        j = rng.choice([None, 0, 1, 5, 63, 255, 256, 1000])
        k = rng.choice([0, 1, 5, 255, 256, 1000])
        key = b"\x00" + seed.to_bytes(32, "little") + (b"" if j is None else b"j" + j.to_bytes(4, "little")) + b"k" + k.to_bytes(4, "little")
        cases.append(f"nl_eqb (nonce_key {seed} {coq_opt(None if j is None else str(j) + '%nat')} (Some {k}%nat)) {coq_list([str(x) for x in key])}")
        what.append(f"nonce key layout (j={j}, k={k})")
    cases.append("Nat.eqb MAX_BATCH 256")
    what.append("internal batch size 256")
    badc = coq_eval_bools("c19w", hdr, cases, shards=1)
    run.bump("wire constants of the model", len(cases))
    run.count(["wire-constants"], {"check": "labels, personas, nonce key layout, batch size of the Gallina model vs the harness's decoding tables", "cases": len(cases)})
    for i in badc:
        run.violation(f"the Gallina model's wire constant differs from the one the implementation's logs are decoded with: {what[i]}", {"kind": "wire-constant", "what": what[i], "term": cases[i]}, no_input=True)
    # the released generators of LARGE parameter sets (party indices up to 511) are the documented chains too: a proof over 512 commitments made by 0.4.0
    # uses them
    from lib import gens_hi
    gens_hi.check_high_parties(run, run.tier == "quick", "c19hi")
    return run.finish(
        "proof",
        "20 recorded 0.4.0 vectors over Ristretto (bits 1..64, aggregation 1..32, extension degrees 1..6, seeds, promises, two contexts, capacity = or 2x): commitments, proof bytes "
        "reproduced by the prover, recorded proofs verified in three modes / with a larger verifier capacity, recorded masks recovered, Pedersen generator bytes; fresh configurations: "
        "library prover vs the independent Gallina prover coordinate by coordinate, library verifier vs Gallina verifier scalar by scalar, transcript operations and seed nonces literal; "
        "distinct by (vector id) and (bits, m, T, seeded)",
        ["'independent reference' = the Gallina model evaluated inside Coq; it shares no code with the library"],
        TRUSTED)


def replay(rp):
    return sessions.replay_session(rp)
