"""C12 — proof validity does not depend on generator capacity."""
from lib.common import *
from lib import gen, sessions, pmodel

TRUSTED = [
    "Coq 8.16.1 kernel and vm_compute; Bignums.BigZ only in the executable instance",
    "axioms: none",
    "hand-written prover/verifier models (padding, table owner = first member with maximal bits*m, accumulation into vectors of that length) tied to the code by "
    "differential runs over capacity pairs and mixed-capacity batches",
    "generator (party i, index j) independent of capacity: checked on the implementation's points here, proved for the derivation model in Props/C11",
]


def gen_specs(run):
    rng = run.rng
    quick = run.tier == "quick"
    confs = [(2, 1, 1), (4, 2, 2), (8, 1, 1), (2, 4, 3), (16, 2, 1), (1, 2, 2), (4, 8, 1), (64, 1, 1)]
    extra = gen.lattice(64 if quick else 256)
    rng.shuffle(extra)
    confs += extra[: (4 if quick else 60)]
    specs = []
    sid = 0
    for (b, m, T) in confs:
        caps = [m, 2 * m, 4 * m, 8 * m] if b * m * 8 <= 1024 else [m, 2 * m]
        rs = {"kind": "chacha", "seed": rng.randrange(1 << 32)}
        base = gen.mk_member(rng, b, m, cap=m, T=T, rngspec=rs)
        mems = [dict(base, cap=c) for c in caps]
        verifies, tags = [], []
        for pi, cp in enumerate(caps):
            for cv in caps:
                verifies.append({"mode": "VerifyOnly", "vmembers": [gen.vmember(base, pi, cap=cv)], "log": (cp != cv and (pi + cv) % 3 == 0)})
                tags.append((cp, cv))
        specs.append({"id": f"c12-{sid}", "group": "ristretto" if (sid % 4 == 2 and b * m * 8 <= 256) else "fm", "members": mems, "verifies": verifies, "_tags": tags,
                      "_kind": "pairs", "_conf": [b, m, T], "with_gens": (b * caps[-1] <= 32)})
        sid += 1
    # very large unused capacity (zero padding of thousands of table entries): capacity ratios far beyond 8
    big = [(64, 1, 1, [1, 32, 64], "fm"), (8, 1, 2, [1, 256, 512], "fm"), (1, 2, 1, [2, 2048], "fm"), (16, 2, 1, [2, 128], "fm"), (64, 1, 1, [1, 32], "ristretto")]
    if not quick:
        big += [(64, 4, 2, [4, 64, 128], "fm"), (32, 1, 3, [1, 64, 256], "fm"), (2, 1, 1, [1, 1024, 4096], "fm"), (64, 2, 1, [2, 64], "ristretto"), (8, 1, 1, [1, 256], "ristretto")]
    for (b, m, T, caps, grp) in big:
        rs = {"kind": "chacha", "seed": rng.randrange(1 << 32)}
        base = gen.mk_member(rng, b, m, cap=m, T=T, rngspec=rs, seed=(m == 1))
        mems = [dict(base, cap=c) for c in caps]
        verifies, tags = [], []
        for pi, cp in enumerate(caps):
            for cv in (caps[0], caps[-1]):
                verifies.append({"mode": "RecoverAndVerify" if m == 1 else "VerifyOnly", "vmembers": [gen.vmember(base, pi, cap=cv)], "log": False})
                tags.append((cp, cv))
        specs.append({"id": f"c12-{sid}", "group": grp, "members": mems, "verifies": verifies, "_tags": tags, "_kind": "pairs", "_conf": [b, m, T], "with_gens": False,
                      "log_merlin": False, "log_msm": False})
        sid += 1
    # mixed-capacity batches (members with larger capacity but fewer commitments than others, ties for the maximum, ...)
    for bi in range(8 if quick else 120):
        b = rng.choice([2, 4, 8])
        T = rng.choice([1, 2, 3])
        n = rng.choice([2, 2, 3, 4, 6])
        mems, vms = [], []
        for i in range(n):
            m = rng.choice([1, 2, 4])
            cp = m * rng.choice([1, 2, 4])
            cv = m * rng.choice([1, 2, 4, 8])
            mems.append(gen.mk_member(rng, b, m, cap=cp, T=T, seed=(m == 1 and rng.random() < 0.3)))
            vms.append(gen.vmember(mems[-1], i, cap=cv))
        if bi == 0:
            # the case "larger capacity but fewer commitments": [(m=1, cap=4), (m=2, cap=2)]
            mems = [gen.mk_member(rng, b, 1, cap=4, T=T), gen.mk_member(rng, b, 2, cap=2, T=T)]
            vms = [gen.vmember(mems[0], 0), gen.vmember(mems[1], 1)]
        order = list(range(len(vms)))
        rng.shuffle(order)
        specs.append({"id": f"c12-{sid}", "group": "ristretto" if bi % 4 == 3 else "fm", "members": mems,
                      "verifies": [{"mode": "RecoverAndVerify", "vmembers": vms}, {"mode": "VerifyOnly", "vmembers": [vms[i] for i in order]}],
                      "_kind": "batch", "_conf": [b, T, [(len(v["stmt"]["commit"]), v["stmt"]["cap"]) for v in vms]], "with_gens": False})
        sid += 1
    return specs


def oracle(run, s, o):
    rp = {"kind": "session", "spec": sessions.strip(s)}
    for mo in o["members"]:
        if mo.get("prove") != "ok":
            run.violation(f"prover failed: {mo.get('prove')}", rp)
            return
    if s["_kind"] == "pairs":
        b, m, T = s["_conf"]
        # the proof does not depend on the prover's capacity (same scripted RNG)
        bytes0 = o["members"][0]["proof"]["bytes"]
        for i, mo in enumerate(o["members"]):
            if mo["proof"]["bytes"] != bytes0:
                run.violation(f"the proof depends on the prover's capacity (capacity {s['members'][i]['cap']} vs {s['members'][0]['cap']}; bits={b}, m={m})", rp)
                break
        # generator (party i, index j) is the same point whatever the capacity
        if "gens" in o["members"][0]:
            g0 = o["members"][0]["gens"]
            for i, mo in enumerate(o["members"][1:], 1):
                g = mo["gens"]
                n0 = len(g0["G"])
                if [p["enc"] for p in g["G"][:n0]] != [p["enc"] for p in g0["G"]] or [p["enc"] for p in g["Hv"][:n0]] != [p["enc"] for p in g0["Hv"]]:
                    run.violation(f"vector generators differ between capacities {s['members'][0]['cap']} and {s['members'][i]['cap']}", rp)
        for vi, ((cp, cv), vo) in enumerate(zip(s["_tags"], o["verifies"])):
            run.count(["pair", b, m, T, cp // m, cv // m, vo["result"].split(":")[0]], {"bits": b, "m": m, "T": T, "prover_capacity": cp, "verifier_capacity": cv, "result": vo["result"][:40]})
            run.bump(f"cp/m={cp // m},cv/m={cv // m}")
            if vo["result"] != "ok":
                run.violation(f"proof made with capacity {cp} rejected by a verifier with capacity {cv} (bits={b}, m={m}, T={T}): {vo['result'][:80]}", dict(rp, verify=vi))
    else:
        for vi, vo in enumerate(o["verifies"]):
            run.count(["batch", s["_conf"][0], s["_conf"][1], json.dumps(sorted(s["_conf"][2])), vi], {"batch (m, capacity)": s["_conf"][2], "result": vo["result"][:40]})
            run.bump("batch")
            if vo["result"] != "ok":
                run.violation(f"batch of valid proofs with mixed capacities {s['_conf'][2]} rejected: {vo['result'][:80]}", dict(rp, verify=vi))


class Extra:
    header = pmodel.PHEADER

    def __call__(self, s, o):
        out = []
        if o.get("group") == "fm" and s.get("with_gens") and s["_kind"] == "pairs":
            for i in (0, len(s["members"]) - 1):
                t = pmodel.prove_term(s["members"][i], o["members"][i])
                if t:
                    out.append((t, (s, "prover", i)))
        return out


def run(run: Run):
    run.run_audit()
    specs = gen_specs(run)
    sessions.run_sessions(run, specs, oracle, relevant=1 | 4 | 8, extra_terms=Extra(), prover_relevant=1 | 2 | 4 | 8)
    return run.finish(
        "proof",
        "for each configuration the same witness is proved with capacities m, 2m, 4m, 8m (same scripted RNG: proofs must be byte-identical, generators must be prefixes) "
        "and every proof is verified under every verifier capacity; batches mix members whose prover and verifier capacities differ, including a member with larger "
        "capacity but fewer commitments than another, in two orders; Ristretto and free-module back ends; compared with the Coq prover (padding) and verifier (table owner, "
        "accumulation) models; distinct by (bits, m, T, capacity ratios, outcome)",
        [],
        TRUSTED)


def replay(rp):
    return sessions.replay_session(rp)
