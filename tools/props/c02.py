"""C02 — the verifier enforces exactly the Bulletproofs+ relation."""
from lib.common import *
from lib import gen, sessions, forge

TRUSTED = [
    "Coq 8.16.1 kernel and vm_compute; Bignums.BigZ (primitive 63-bit integers) only in the executable instance",
    "axioms: none",
    "the hand-written verifier model (coq/Model/Verifier.v, VerifyTop.v, Transcript.v), tied to the code by comparing every scalar of the "
    "final multiscalar product, the transcript operations and the verdict on generated inputs",
    "harness: free-module group (every point a visible coefficient vector), instrumented merlin copy, MSM log",
    "NOT proved: knowledge soundness of the weighted-inner-product argument (paper Theorems 3-4) and Merlin as a random oracle",
]


# both verifying modes must enforce the relation (with or without a seed in the statement)
VMODES = ["VerifyOnly", "RecoverAndVerify"]


def gen_specs(run):
    rng = run.rng
    quick = run.tier == "quick"
    confs = gen.lattice(64 if quick else 512)
    rng.shuffle(confs)
    must = [(1, 1, 1), (1, 2, 2), (2, 1, 1), (4, 8, 2), (8, 8, 1), (2, 16, 3), (1, 32, 1), (64, 1, 2), (16, 4, 6), (32, 2, 4)]
    confs = must + confs[: (14 if quick else 150)]
    specs = []
    for i, (b, m, T) in enumerate(confs):
        mem = gen.mk_member(rng, b, m, cap=m * rng.choice([1, 2, 4]), T=T, seed=(m == 1 and rng.random() < 0.4))
        k = max(1, (b * m).bit_length() - 1)
        derived = []
        # random single-element mutations (the verdict must follow the relation, the scalars must follow the model)
        choices = [("scalar_add", "r1"), ("scalar_add", "s1"), ("scalar_add", "d1"), ("point", "a"), ("point", "a1"), ("point", "b"),
                   ("point", "li"), ("point", "ri"), ("swap_lr", None), ("drop_round", None), ("dup_round", None)]
        rng.shuffle(choices)
        for (kind, f) in choices[: (3 if quick else 6)]:
            if kind == "scalar_add":
                derived.append({"from": 0, "ops": [{"op": "scalar_add", "field": f, "idx": rng.randrange(T), "hex": gen.hx(gen.rscalar(rng))}]})
            elif kind == "point":
                to = rng.choice([{"junk": rng.randrange(1 << 30)}, {"addmul": {"base": rng.choice(["H", "Gb", "G", "Hv"]), "i": 0, "hex": gen.hx(gen.rscalar(rng))}},
                                 {"copy": ["a1" if f == "a" else "a", 0]}])
                derived.append({"from": 0, "ops": [{"op": "point_set", "field": f, "idx": rng.randrange(k), "to": to}]})
            else:
                derived.append({"from": 0, "ops": [{"op": kind, "idx": rng.randrange(k)}]})
        verifies = [{"mode": "VerifyOnly", "vmembers": [gen.vmember(mem, 0)]}]
        for di in range(len(derived)):
            verifies.append({"mode": rng.choice(VMODES), "vmembers": [gen.vmember(mem, 1 + di)]})
        # shifted statements under the unchanged proof: V_j + delta*H, promise +/- 1
        j = rng.randrange(m)
        shifted = gen.stmt_of(mem)
        shifted["commit"][j] = {"open": shifted["commit"][j], "shiftH": gen.hx(1)}
        verifies.append({"mode": rng.choice(VMODES), "vmembers": [{"proof": 0, "stmt": shifted, "ctx": mem["ctx"]}], "_expect": "err", "_why": "commitment shifted by H"})
        sp = gen.stmt_of(mem)
        p = sp["promises"][j]
        newp = 1 if p is None else (int(p) + 1 if int(p) + 1 < (1 << b) else int(p) - 1)
        if newp >= 0 and not (p is None and newp == 0) and newp < (1 << b):
            sp["promises"][j] = str(newp)
            verifies.append({"mode": rng.choice(VMODES), "vmembers": [{"proof": 0, "stmt": sp, "ctx": mem["ctx"]}], "_expect": "err", "_why": "promise changed"})
        specs.append({"id": f"c02-{i}", "group": "fm", "members": [mem], "derived": derived, "verifies": verifies, "_conf": [b, m, T]})
    # adversarially structured batches: two cooperating malformed proofs whose defects are equal and opposite on one blinding coordinate
    for bi in range(3 if quick else 30):
        b = rng.choice([2, 4])
        T = 1 + bi % 3
        n = rng.choice([2, 3])
        mems = [gen.mk_member(rng, b, rng.choice([1, 2]), T=T) for _ in range(n)]
        k = rng.randrange(T)
        d = gen.rscalar(rng)
        derived = [{"from": 0, "ops": [{"op": "scalar_add", "field": "d1", "idx": k, "hex": gen.hx(d)}]},
                   {"from": 1, "ops": [{"op": "scalar_add", "field": "d1", "idx": k, "hex": gen.hx(L - d)}]}]
        vm_h = [gen.vmember(mm, i) for i, mm in enumerate(mems)]
        vm_a = list(vm_h)
        vm_a[0] = gen.vmember(mems[0], n)
        vm_a[1] = gen.vmember(mems[1], n + 1)
        specs.append({"id": f"c02-batch-{bi}", "group": "fm", "members": mems, "derived": derived,
                      "verifies": [{"mode": "VerifyOnly", "vmembers": vm_h}, {"mode": rng.choice(VMODES), "vmembers": vm_a, "_expect": "err", "_why": "cooperating +-delta on d1 in one batch"}],
                      "_conf": [b, n, T]})
    # a statement for which NO proof is supplied at all must never end up accepted: surplus statements (with their transcripts) behind a full internal
    # chunk of 256 valid triples, behind two chunks, and inside the first chunk
    memv = gen.mk_member(rng, 2, 1, T=1)
    a = gen.vmember(memv, 0)
    false_stmt = gen.stmt_of(memv)
    false_stmt["commit"] = [{"junk": 77}]
    orphan = {"stmt": false_stmt, "ctx": memv["ctx"]}
    for name, vm in [("257 statements, 256 proofs", [a] * 256 + [orphan]), ("2 statements, 1 proof", [a, orphan])] + \
                    ([] if quick else [("513 statements, 512 proofs", [a] * 512 + [orphan]), ("300 statements, 256 proofs", [a] * 256 + [orphan] * 44)]):
        specs.append({"id": f"c02-orphan-{len(vm)}", "group": "fm", "members": [memv], "with_gens": False, "log_merlin": False, "log_msm": False, "_no_modes": True,
                      "verifies": [{"mode": "VerifyOnly", "vmembers": [a], "log": False}] +
                                  [{"mode": md, "vmembers": vm, "log": False, "_expect": "err", "_why": f"unproven false statement behind valid triples ({name})"} for md in VMODES],
                      "_conf": [2, 1, 1]})
    # the relation is the one of the statement's OWN generators, also for the largest statement of a mixed batch that is not first
    for sp in gen.mixed_generator_batches(rng, quick, "c02g"):
        sp["_conf"] = sp["_conf"][:3]
        for v, (tag, want_ok) in zip(sp["verifies"], sp["_tags"]):
            v["_expect"] = "ok" if want_ok else "err"
            v["_why"] = tag
        specs.append(sp)
    return specs


def oracle(run, s, o):
    b, m, T = s["_conf"]
    mem = o["members"][0]
    if any(mo.get("prove") != "ok" for mo in o["members"]):
        run.violation(f"honest prover failed: {[mo.get('prove') for mo in o['members']]}", {"kind": "session", "spec": sessions.strip(s)})
        return
    for vi, (vs, vo) in enumerate(zip(s["verifies"], o["verifies"])):
        res = vo["result"]
        kind = "honest" if vi == 0 else vs.get("_why", "mutated proof")
        run.count(["c02", b, m, T, kind, res.split(":")[0]], {"bits": b, "m": m, "T": T, "case": kind, "result": res[:60]})
        run.bump(kind)
        if vi == 0 and res != "ok":
            run.violation(f"honest proof rejected (bits={b}, m={m}, T={T}): {res}", {"kind": "session", "spec": sessions.strip(s), "verify": vi})
        if vs.get("_expect") == "ok" and res != "ok":
            run.violation(f"control case refused ({vs['_why']}): {res[:80]}", {"kind": "session", "spec": sessions.strip(s), "verify": vi})
        if vs.get("_expect") == "err" and res == "ok":
            run.violation(f"proof accepted for a statement it was not made for ({vs['_why']}; bits={b}, m={m}, T={T})",
                          {"kind": "session", "spec": sessions.strip(s), "verify": vi})
        same = vi > 0 and "_expect" not in vs and o["derived"][vi - 1].get("bytes") == mem["proof"]["bytes"]
        if vi > 0 and "_expect" not in vs and res == "ok" and not same:
            run.violation(f"mutated proof accepted (bits={b}, m={m}, T={T})", {"kind": "session", "spec": sessions.strip(s), "verify": vi})


def run(run: Run):
    run.run_audit()
    specs = gen_specs(run)
    sessions.run_sessions(run, specs, oracle, relevant=1 | 4 | 8 | 32)
    # an independent prover for the published protocol (tools/lib/forge.py) against the library's verifier: its honest proofs must be accepted,
    # its dishonest ones (non-binary digit, value hidden behind an oversized promise, surplus pair as a free cross-term) refused; the final
    # proofs are also evaluated by the Coq model
    jobs = forge.standard_jobs(run.rng, run.tier == "quick")
    fspecs = forge.forge_all(run.rng, jobs, prefix="c02f")
    forge.report_incomplete(run, jobs)
    sessions.run_sessions(run, fspecs, lambda r, s, o: forge.oracle(r, s, o), relevant=1 | 4 | 8 | 32, name="c02f")
    # soundness inside a batch: a proof must not be acceptable because the batch weights can be known before the responses are chosen.  The adaptive
    # weight attacks of C08 with a small budget: weights read off an honest run, pairs of defects cancelling under them, and "a changed response
    # changes every weight ratio of its proof"
    from props import c08
    c08.adaptive(run, 4 if run.tier == "quick" else 40, prefix="c02w", big=False)
    return run.finish(
        "proof",
        "honest proofs on the configuration lattice, single-element mutations of them (scalars, points, round structure) and statements shifted "
        "under an unchanged proof; each verification is compared with the Coq model scalar by scalar (G_i, H_i, commitments, H, Gb_k, A, A1, B, L_j, R_j) "
        "and by verdict; proofs made by an INDEPENDENT prover of the published protocol (challenges read off the verifier under test): honest ones must be accepted, dishonest ones (non-binary digit, oversized promise, surplus pair as free cross-term) refused, all evaluated by the model too; a case is distinct by (bits, m, T, case kind, outcome)",
        ["challenges and batch weights are taken from the implementation's transcript (oracle outputs); the model recomputes everything downstream",
         "the final product's zero-ness is evaluated by the harness's free-module arithmetic on the logged scalars, which the model has cross-checked"],
        TRUSTED)


def replay(rp):
    return sessions.replay_session(rp)
