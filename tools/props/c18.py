"""C18 — proving and verifying are pure, repeatable and thread-safe."""
import copy
from lib.common import *
from lib import gen, sessions

TRUSTED = [
    "Coq 8.16.1 kernel",
    "axioms: none",
    "coq/Model/Once.v: logical model of the once-initialised statics under arbitrary schedules; every other API call is a state-free Gallina function in the model (purity by construction)",
    "PARTIAL by nature: real thread schedules, memory ordering and data races inside dependencies are runtime behaviour; explored with 16-thread drivers and fresh processes",
    "harness/src/gens.rs (threads / history drivers), session executor (repeat / interleave)",
]


def essential(o):
    """the deterministic observables of a session record"""
    return json.dumps({"members": [(m.get("prove"), (m.get("proof") or {}).get("bytes")) for m in o["members"]],
                       "derived": [d.get("bytes") for d in o.get("derived", [])],
                       "verifies": [(v["result"], v.get("masks")) for v in o["verifies"]]}, sort_keys=True)


def run(run: Run):
    run.run_audit()
    rng = run.rng
    quick = run.tier == "quick"
    # (a) call histories: the same session alone, after unrelated sessions, repeated, in another order, on both back ends
    specs = []
    for i, (b, m, T, grp) in enumerate([(4, 2, 2, "fm"), (8, 1, 1, "ristretto"), (2, 4, 3, "ristretto"), (16, 1, 6, "fm"), (8, 2, 4, "ristretto"), (1, 1, 2, "fm")]):
        mem = gen.mk_member(rng, b, m, cap=m * 2, T=T, seed=(m == 1))
        specs.append({"id": f"c18-{i}", "group": grp, "members": [mem], "log_merlin": False, "log_msm": False, "with_gens": False,
                      "derived": [{"from": 0, "ops": [{"op": "scalar_add", "field": "s1", "hex": gen.hx(1)}]}],
                      "verifies": [{"mode": md, "vmembers": [gen.vmember(mem, p)]} for md in ("RecoverAndVerify", "VerifyOnly", "RecoverOnly") for p in (0, 1)]})
    # the prover is a function of its arguments and of the bytes its RNG returns: with a stuck / constant / periodic external RNG the
    # same call must give the same proof every time (alone, repeated, after other calls)
    for i, (b, m, T, grp, rs) in enumerate([(4, 1, 1, "fm", {"kind": "zero"}), (2, 2, 2, "ristretto", {"kind": "const", "byte": 0x5a}),
                                            (8, 1, 2, "fm", {"kind": "period", "bytes": "01ff"}), (2, 1, 3, "ristretto", {"kind": "const", "byte": 0})]):
        mem = gen.mk_member(rng, b, m, cap=m, T=T, seed=(m == 1 and i % 2 == 0), rngspec=rs)
        specs.append({"id": f"c18-rng-{i}", "group": grp, "members": [mem, copy.deepcopy(mem)], "log_merlin": False, "log_msm": False, "with_gens": False,
                      "verifies": [{"mode": "RecoverAndVerify", "vmembers": [gen.vmember(mem, 0)]}, {"mode": "VerifyOnly", "vmembers": [gen.vmember(mem, 1)]}], "_same_proofs": True})
    # parameter objects with different generators used in one process: nothing derived from one statement's generators may be remembered
    # for the next (the Pedersen generators are public fields of the parameter object, not process-wide constants)
    for i, (b, m, T, grp, over) in enumerate([(4, 1, 1, "fm", {"h_scale": gen.hx(3)}), (2, 2, 2, "ristretto", {"gb_scale": [1, gen.hx(5)]}),
                                              (8, 1, 2, "ristretto", {"h_scale": gen.hx(7)}), (2, 1, 3, "fm", {"gb_scale": [0, gen.hx(2)]}), (4, 2, 1, "fm", {})]):
        mem = dict(gen.mk_member(rng, b, m, cap=m, T=T, seed=(m == 1)), **over)
        specs.append({"id": f"c18-gens-{i}", "group": grp, "members": [mem], "log_merlin": False, "log_msm": False, "with_gens": False,
                      "verifies": [{"mode": md, "vmembers": [gen.vmember(mem, 0)]} for md in ("RecoverAndVerify", "VerifyOnly")], "_must_ok": True})
    # identical calls interleaved with calls that end early with an error (malformed member in the middle of a batch, undecodable point,
    # wrong round count, mismatched statement): the identical calls must keep returning the same result on the same thread
    for i, (b, m, T, grp) in enumerate([(2, 1, 1, "fm"), (4, 2, 2, "ristretto"), (8, 1, 3, "fm")] if quick else
                                       [(2, 1, 1, "fm"), (4, 2, 2, "ristretto"), (8, 1, 3, "fm"), (2, 2, 1, "ristretto"), (16, 1, 2, "ristretto"), (1, 4, 6, "fm")]):
        m0 = gen.mk_member(rng, b, m, cap=m, T=T, seed=(m == 1))
        m1 = gen.mk_member(rng, b, m, cap=2 * m, T=T)
        big = gen.mk_member(rng, b, 2 * m, cap=2 * m, T=T)
        derived = [{"from": 1, "ops": [{"op": "point_set", "field": "a1", "idx": 0, "to": {"undecodable": 7}}]},
                   {"from": 1, "ops": [{"op": "dup_round", "idx": 0}]} if b * m >= 2 else {"from": 1, "ops": [{"op": "scalar_add", "field": "r1", "hex": gen.hx(1)}]},
                   {"from": 0, "ops": [{"op": "scalar_add", "field": "d1", "idx": 0, "hex": gen.hx(1)}]},
                   {"from": 2, "ops": [{"op": "point_set", "field": "b", "idx": 0, "to": {"identity": True}}]}]
        good = {"mode": "RecoverAndVerify", "vmembers": [gen.vmember(m0, 0), gen.vmember(m1, 1)]}
        good2 = {"mode": "VerifyOnly", "vmembers": [gen.vmember(m1, 1), gen.vmember(big, 2), gen.vmember(m0, 0)]}
        bads = [{"mode": "VerifyOnly", "vmembers": [gen.vmember(m0, 0), gen.vmember(m1, 3)]},
                {"mode": "RecoverAndVerify", "vmembers": [gen.vmember(big, 2), gen.vmember(m1, 4), gen.vmember(m0, 0)]},
                {"mode": "VerifyOnly", "vmembers": [gen.vmember(m1, 1), gen.vmember(m0, 5)]},
                {"mode": "VerifyOnly", "vmembers": [gen.vmember(m0, 0), gen.vmember(big, 6), gen.vmember(m1, 1)]},
                {"mode": "VerifyOnly", "vmembers": [gen.vmember(m0, 0), gen.vmember(m1, 1, bits=2 * b if b < 64 else b // 2)]}]
        verifies, same = [], {"good": [], "good2": []}
        for bad in bads:
            for nm, g_ in (("good", good), ("good2", good2)):
                same[nm].append(len(verifies))
                verifies.append(copy.deepcopy(g_))
            verifies.append(bad)
        for nm, g_ in (("good", good), ("good2", good2)):
            same[nm].append(len(verifies))
            verifies.append(copy.deepcopy(g_))
        specs.append({"id": f"c18-err-{i}", "group": grp, "members": [m0, m1, big], "derived": derived, "verifies": verifies, "log_merlin": False, "log_msm": False,
                      "with_gens": False, "_same": same})
    # results must not be remembered across calls under a key that misses part of the input: a statement whose uncompressed commitment point was replaced
    # (public field; the compressed form, which is what the transcript sees, kept) after the genuine triple was verified successfully
    for i, (b, m, T, grp) in enumerate([(2, 1, 1, "fm"), (4, 2, 2, "ristretto")]):
        mem = gen.mk_member(rng, b, m, cap=m, T=T)
        st_bad = gen.stmt_of(mem)
        st_bad["raw_fields"] = {"replace_commitment_point": 0}
        bad = {"proof": 0, "stmt": st_bad, "ctx": mem["ctx"]}
        good = gen.vmember(mem, 0)
        specs.append({"id": f"c18-memo-{i}", "group": grp, "members": [mem], "log_merlin": False, "log_msm": False, "with_gens": False, "_beyond_constructors": True,
                      "verifies": [{"mode": "VerifyOnly", "vmembers": [bad]}, {"mode": "VerifyOnly", "vmembers": [good]}, {"mode": "VerifyOnly", "vmembers": [bad]},
                                   {"mode": "RecoverAndVerify", "vmembers": [good]}, {"mode": "RecoverAndVerify", "vmembers": [bad]}, {"mode": "VerifyOnly", "vmembers": [good, bad]}],
                      "_same": {"replaced point": [0, 2, 4]}, "_same_may_fail": True})
    alone = [run_harness(["session"], [s])[0] for s in specs]           # one fresh process per session
    together = run_harness(["session"], specs + specs)                   # one process: every session twice
    order = list(range(len(specs)))
    rng.shuffle(order)
    shuffled = run_harness(["session"], [specs[i] for i in order] + [specs[i] for i in reversed(order)])
    for i, s in enumerate(specs):
        for nm, idxs in s.get("_same", {}).items():
            for o_, where in ((alone[i], "fresh process"), (together[i], "one process"), (together[len(specs) + i], "one process, second pass")):
                res = [(o_["verifies"][j]["result"], json.dumps(o_["verifies"][j].get("masks"))) for j in idxs]
                run.count(["err-history", s["group"], i, nm, where], {"session": s["id"], "identical calls": len(idxs), "interleaved with": "calls that end with an error", "where": where})
                run.bump("identical calls after error exits", len(idxs))
                if s.get("_same_may_fail"):
                    if len({r_[0].split(":")[0] for r_ in res}) != 1 or res[0][0] == "ok":
                        run.violation(f"a verify_batch call on a statement whose commitment point was replaced gives different answers before and after the genuine triple was verified "
                                      f"in the same process ({[r_[0][:30] for r_ in res]}; {where}; {s['group']})", {"kind": "session", "spec": sessions.strip(s)})
                        break
                    continue
                if len(set(res)) != 1 or res[0][0] != "ok":
                    k_ = next(j for j, r_ in enumerate(res) if r_ != res[0] or r_[0] != "ok")
                    run.violation(f"an identical verify_batch call returned a different result after an earlier call on the same thread ended with an error "
                                  f"(call #{idxs[k_]}: {res[k_][0][:60]} vs first: {res[0][0][:30]}; {s['group']})", {"kind": "session", "spec": sessions.strip(s), "verify": idxs[k_]})
                    break
        if s.get("_same_proofs"):
            for o_, where in ((alone[i], "fresh process"), (together[i], "one process"), (together[len(specs) + i], "one process, second pass")):
                bs = [m_.get("proof", {}).get("bytes") for m_ in o_["members"]]
                run.bump("faulty-RNG proving calls", len(bs))
                if len(set(bs)) != 1 or bs[0] is None:
                    run.violation(f"two identical prove calls with the same (faulty: {s['members'][0]['rng']['kind']}) external RNG stream returned different proofs ({where}; {s['group']})",
                                  {"kind": "session", "spec": sessions.strip(s), "where": where})
                    break
        if s.get("_must_ok"):
            for o_, where in ((alone[i], "fresh process"), (together[i], "after other calls in the same process"), (together[len(specs) + i], "second pass in the same process")):
                bad = [v["result"] for v in o_["verifies"] if v["result"] != "ok"] + ([o_["members"][0].get("prove")] if o_["members"][0].get("prove") != "ok" else [])
                if bad:
                    run.violation(f"prove/verify with a parameter object carrying its own generators failed {where} ({s['group']}): {bad[0][:80]}",
                                  {"kind": "session", "spec": sessions.strip(s), "where": where})
                    break
        ref = essential(alone[i])
        variants = {"repeat in one process (1st)": together[i], "repeat in one process (2nd)": together[len(specs) + i],
                    "shuffled history": shuffled[order.index(i)], "reversed history": shuffled[len(specs) + list(reversed(order)).index(i)]}
        for name, o in variants.items():
            run.count(["history", s["group"], i, name], {"session": s["id"], "group": s["group"], "variant": name})
            run.bump("history variants")
            if essential(o) != ref:
                run.violation(f"a call's result depends on the calls made before it in the process ({name}; {s['group']})", {"kind": "session", "spec": sessions.strip(s), "variant": name})
    # (b) generator requests must not depend on the history of earlier requests
    seqs = [[6], [1, 3], [3, 1], [1, 6, 2], [2, 4, 6], [1, 2, 3, 4, 5, 6], [6, 1], [1, 3, 6, 2], [2, 5], [1, 4, 2, 6, 3], [5, 1, 6], [3, 6]]
    if not quick:
        for _ in range(60):
            seqs.append([rng.randrange(1, 7) for _ in range(rng.randrange(2, 7))])
    hist = run_harness(["gens"], [{"op": "history", "degrees": q} for q in seqs], jobs=len(seqs))   # jobs=len: one fresh process per sequence
    ref6 = hist[0]["calls"][0]
    for q, h in zip(seqs, hist):
        for call in h["calls"]:
            d = call["degree"]
            run.count(["gens-history", json.dumps(q), d], {"request sequence": q, "degree": d} if len(q) <= 3 else None)
            run.bump("generator requests")
            if call["Gb"] != ref6["Gb"][:d] or call["Gb_compressed"] != ref6["Gb"][:d] or call["H"] != ref6["H"] or call["H_compressed"] != ref6["H"]:
                run.violation(f"create_pedersen_gens_with_extension_degree({d}) depends on the history of earlier requests {q}",
                              {"kind": "gens", "spec": {"op": "history", "degrees": q}})
                break
    # (b2) parameter objects of several shapes (large tables included) created, used and DROPPED in varying orders inside one process: a prove +
    # verify task on an object must give what the same task gives in a fresh process that only ever created that one object
    shapes = [(64, 4), (32, 8), (16, 16), (8, 32), (64, 8), (32, 16), (8, 2), (16, 1), (64, 1)]
    names = "abcdefgh"
    hists = []
    for hi in range(6 if quick else 60):
        steps, live, nxt = [], {}, 0
        for _ in range(rng.randrange(8, 16)):
            act = rng.choice(["new", "new", "task", "task", "drop"])
            if act == "new" and nxt < len(names):
                b, c = rng.choice(shapes[:6]) if rng.random() < 0.8 else rng.choice(shapes)
                nm = names[nxt]
                nxt += 1
                live[nm] = (b, c)
                steps.append(["new", nm, b, c, 1])
            elif act == "task" and live:
                nm = rng.choice(sorted(live))
                steps.append(["task", nm, rng.randrange(4)])
            elif act == "drop" and live:
                nm = rng.choice(sorted(live))
                live.pop(nm)
                steps.append(["drop", nm])
        # the pattern that defeats caches keyed by liveness: an early object dropped while two same-sized shapes stay alive, then a re-creation
        if hi % 2 == 0:
            (s1, s2, s3) = rng.sample(shapes[:4], 3)
            steps += [["new", "x", s1[0], s1[1], 1], ["new", "y", s2[0], s2[1], 1], ["new", "z", s3[0], s3[1], 1], ["drop", "x"],
                      ["new", "w", s2[0], s2[1], 1], ["task", "w", 1], ["task", "y", 1], ["task", "z", 2], ["drop", "y"], ["new", "v", s3[0], s3[1], 1], ["task", "v", 2]]
            live.update({"x": s1, "y": s2, "z": s3, "w": s2, "v": s3})
        hists.append(steps)
    # the same pattern alone in a fresh process, for ordered triples of same-sized shapes
    import itertools
    triples = list(itertools.permutations(shapes[:4], 3)) + list(itertools.permutations([(64, 8), (32, 16), (16, 32)], 3))
    rng.shuffle(triples)
    for (s1, s2, s3) in triples[: (10 if quick else len(triples))]:
        hists.append([["new", "x", s1[0], s1[1], 1], ["new", "y", s2[0], s2[1], 1], ["new", "z", s3[0], s3[1], 1], ["task", "y", 0], ["drop", "x"],
                      ["new", "w", s2[0], s2[1], 1], ["task", "w", 1], ["task", "y", 1], ["task", "z", 2], ["drop", "y"], ["drop", "w"], ["new", "v", s3[0], s3[1], 1], ["task", "v", 2],
                      ["new", "u", s2[0], s2[1], 1], ["task", "u", 3]])
    shape_of = lambda steps: {st[1]: (st[2], st[3]) for st in steps if st[0] == "new"}
    wanted = sorted({(shape_of(h)[st[1]], st[2]) for h in hists for st in h if st[0] == "task"})
    base = run_harness(["gens"], [{"op": "churn", "steps": [["new", "a", b, c, 1], ["task", "a", sd]]} for ((b, c), sd) in wanted], jobs=len(wanted))
    baseline = {k: r["steps"][1] for k, r in zip(wanted, base)}
    for k, r in baseline.items():
        if r.get("ok") is not True:
            run.violation(f"prove + verify on a fresh parameter object {k[0]} failed in a fresh process", {"kind": "gens", "spec": {"op": "churn", "steps": [["new", "a", k[0][0], k[0][1], 1], ["task", "a", k[1]]]}})
    for h, r in zip(hists, run_harness(["gens"], [{"op": "churn", "steps": h} for h in hists], jobs=len(hists))):
        sh = shape_of(h)
        run.count(["churn", len(h), len(sh)], {"check": "parameter objects created / used / dropped in one process vs fresh-process baseline", "steps": len(h)})
        for st, got in zip(h, r["steps"]):
            if st[0] != "task":
                continue
            run.bump("tasks under object churn")
            want = baseline[(sh[st[1]], st[2])]
            if got != want:
                run.violation(f"prove/verify on a ({sh[st[1]][0]}, {sh[st[1]][1]}) parameter object gives a different result after other parameter objects were created and dropped "
                              f"in the process ({'panic' if got.get('panic') else 'verified=' + str(got.get('ok'))}; alone: verified={want.get('ok')})",
                              {"kind": "gens", "spec": {"op": "churn", "steps": h}, "step": st})
                break
    # (c) 16 threads sharing parameter objects and the cached tables
    nproc = 3 if quick else 30
    thr = run_harness(["gens"], [{"op": "threads", "threads": 16, "reps": 2 if quick else 6, "bits": rng.choice([8, 16]), "degrees": rng.sample([1, 2, 3, 4, 5, 6], 4)} for _ in range(nproc)], jobs=nproc)
    digests = set()
    for r in thr:
        run.count(["threads", r.get("calls")], {"check": "16 threads x prove/verify/recover/generator construction sharing parameters", "calls": r.get("calls")})
        run.bump("concurrent calls", r.get("calls", 0))
        if r["mismatches"]:
            run.violation(f"concurrent calls returned results different from the single-threaded baseline: {r['mismatches'][:3]}", {"kind": "gens", "spec": {"op": "threads"}, "observed": r["mismatches"][:10]})
    # (c1) whole-batch calls in flight on several threads: a verify_batch result (verdict AND error) is the one the call gives alone, also for batches whose
    # outcome depends on where they are cut into chunks (longer than half a chunk, an algebraically wrong proof first and a statement of another extension
    # degree last; valid proofs of two degrees)
    brs = [{"op": "batch_race", "threads": t_, "reps": 2 if quick else 6, "n": n_, "split": sp_} for (t_, n_, sp_) in ([(2, 150, 128), (4, 150, 64), (8, 100, 32)] if quick else
                                                                                                                    [(2, 150, 128), (4, 150, 64), (8, 100, 32), (3, 260, 86), (16, 300, 16), (2, 257, 129)])]
    for bs_, r in zip(brs, run_harness(["gens"], brs, jobs=len(brs))):
        run.count(["batch-race", bs_["threads"], bs_["n"], bs_["split"]], {"check": "verify_batch on cut-sensitive batches, alone vs several threads at once", "threads": bs_["threads"], "batch": bs_["n"],
                                                                          "alone": r.get("alone"), "calls": r.get("calls")})
        run.bump("concurrent whole-batch calls", r.get("calls", 0))
        if r.get("mismatches"):
            run.violation(f"verify_batch on a batch of {bs_['n']} gives another result while {bs_['threads'] - 1} other thread(s) are verifying than alone: {r['mismatches'][:2]}",
                          {"kind": "gens", "spec": bs_, "observed": r["mismatches"][:10]})
    # (c2) the FIRST use of a fresh parameter object raced by all threads at once (tables or caches built lazily must not be observable), round after round
    shapes2 = [(8, 4, 1), (16, 2, 2), (4, 8, 1)] if quick else [(8, 4, 1), (16, 2, 2), (4, 8, 1), (32, 2, 1), (8, 16, 3), (64, 2, 1)]
    for (b, c, T), r in zip(shapes2, run_harness(["gens"], [{"op": "fresh_race", "threads": 12, "rounds": 12 if quick else 60, "bits": b, "cap": c, "T": T} for (b, c, T) in shapes2], jobs=len(shapes2))):
        run.count(["fresh-race", b, c, T], {"check": "first use of a fresh shared parameter object raced by 12 threads, vs a lone thread", "bits": b, "capacity": c, "T": T, "calls": r.get("calls")})
        run.bump("raced first uses", r.get("calls", 0))
        if r["mismatches"]:
            run.violation(f"prove/verify on a fresh ({b}, {c}) parameter object gives another result when its first use is raced by several threads than for a lone thread: {r['mismatches'][:3]}",
                          {"kind": "gens", "spec": {"op": "fresh_race", "threads": 12, "rounds": 60, "bits": b, "cap": c, "T": T}, "observed": r["mismatches"][:10]})
    # (d) racing first use, fresh processes
    nrace = 8 if quick else 120
    race = run_harness(["gens"], [{"op": "threads", "race_first_use": True, "degrees": rng.sample([1, 2, 3, 4, 5, 6], 6)} for _ in range(nrace)], jobs=nrace)
    for r in race:
        run.count(["race"], {"check": "fresh process, 16 barrier-released threads race the first use of the cached generators"})
        run.bump("first-use races")
        if r["mismatches"] or r["first_use"] != ref6["Gb"][:len(r["first_use"])]:
            run.violation("racing first use of the cached generator tables gave inconsistent results", {"kind": "gens", "spec": {"op": "threads", "race_first_use": True}})
    return run.finish(
        "proof",
        "call histories (each session alone in a fresh process vs repeated / shuffled / reversed inside one process, both back ends), generator request sequences in fresh processes "
        "(result must not depend on earlier requests), parameter objects of several shapes created / used / dropped in varying orders in one process vs a fresh-process baseline, 16 threads sharing parameter objects running prove / verify / recover / generator construction against a single-threaded baseline, "
        "fresh shared parameter objects whose first use is raced by 12 threads round after round, and fresh processes racing the first use of the cached tables; distinct by (kind, session or request sequence, variant)",
        ["schedules are whatever the OS produces on 16 cores; the logical once-cell model covers all schedules"],
        TRUSTED)


def replay(rp):
    r = rp["replay"]
    if r.get("kind") == "gens":
        print(json.dumps(run_harness(["gens"], [r["spec"]])[0])[:2000])
        return 0
    return sessions.replay_session(rp)
