#!/usr/bin/env python3
"""Regenerates MANIFEST.json from the table below (kept in one place so that it stays valid)."""
import json, os
VERIF = os.path.dirname(os.path.dirname(os.path.abspath(__file__)))
props = [json.loads(l) for l in open(os.path.join(VERIF, "properties.jsonl"))]

CLAIMED = {
    "C17": dict(
        text="Every constructor predicate of the Gallina model is proved equivalent to the documented domain for all (unbounded) arguments, "
             "and the model is tied to the code by running the property's complete grid on the implementation and evaluating the model on "
             "every row with coqc/vm_compute (exhaustive correspondence).",
        note="Trusted: Coq kernel + vm_compute; hand-written model coq/Model/Ctor.v validated on the grid only; harness grid driver; "
             "std is_power_of_two taken by its documentation. No axioms.",
        technique="Coq proof (iff-characterisation of each constructor guard) + exhaustive model/implementation correspondence on the property's grid",
        design="5/C17"),
}

def _claim(pid, text, note, technique, design):
    CLAIMED[pid] = dict(text=text, note=note, technique=technique, design=design)

_COMMON_NOTE = ("Trusted: Coq kernel + vm_compute (BigZ/primitive ints only in the executable instance); hand-written Gallina model validated against the code on sampled inputs only; "
                "harness (free-module group, instrumented merlin copy, MSM log); field / vector-space laws are hypotheses; Merlin/Blake2b as random oracles and knowledge soundness of the "
                "inner-product argument are NOT proved. No axioms.")
_claim("C01", "Completeness is a theorem about the model (C01_completeness, closed under the global context): for every bit length, aggregation m = 2^a <= capacity, extension degree, valid witness, nonce assignment and batch weight, the code-shaped prover's output makes the code-shaped verifier's final multiscalar product vanish (non-zero challenges, y <> 1). It composes the textbook weighted-inner-product completeness for any number of rounds, the range reduction with promises, the refinement of the code-shaped folding loop to the textbook prover, and the C02 verifier equivalence. The prover and verifier models are tied to the implementation by comparing every coordinate of every proof element and every scalar of the final check on the configuration lattice over a free-module group, plus prove-then-verify in the three modes over Ristretto and the free-module group. On the executed model: C01_honest_chunk_accepted (one member) and C01_honest_chunk_of_many_accepted (whole chunks of honest members, mixed aggregation, any weights) pass every guard of verify_chunk and end with the identity.", _COMMON_NOTE,
       'Coq proof (completeness of the code-shaped prover against the code-shaped verifier, all sizes) + coordinate-level model/implementation correspondence over a free-module group', "5/C01")
_claim("C02", 'C02_verifier_equiv (closed under the global context): for ARBITRARY proof elements, statement and weight, the multiscalar product the optimised verifier evaluates (s-vector recurrence, running powers, doubling construction of d and its sum, closed-form geometric sum, batched inverses) equals weight * (right-hand side - left-hand side) of the textbook Bulletproofs+ verification equation written without optimisation (Model/RangeSpec.v), for every bit length, aggregation, round count and extension degree; hence it vanishes iff the textbook verifier accepts; C02_accepted_single_means_textbook_accepts carries this to the top of the executed model (a one-member chunk accepted by verify_chunk under a non-zero weight means the textbook verifier accepts the decoded pair). Every scalar the implementation feeds to its final multiscalar check is compared with the model on honest, mutated and structurally odd proofs. Knowledge soundness of the textbook protocol is trusted, not proved.', _COMMON_NOTE,
       'Coq proof (optimised verifier = textbook verifier for arbitrary proofs, all sizes) + scalar-by-scalar correspondence of the final multiscalar product', "5/C02")
_claim("C03", "C03_batch_is_weighted_residuals (closed under the global context): for members of any mixture of aggregation factors sharing the owner's generator table (any capacity), arbitrary proofs and weights, the single multiscalar product a batch ends with equals sum_p w_p * textbook residual_p; hence it vanishes when every member satisfies the textbook equation (C03_batch_accepts_if_all_accept), and a member with a non-zero residual survives for at most one value of its weight (C08_bad_weight_unique; the random-oracle step after that is NOT a theorem). Chunking (cover, order, size), shape refusals and result alignment are theorems about the model of the repaired code. Differential runs: batch verdict vs conjunction of singleton verdicts vs model for sizes around every chunk boundary, eight kinds of invalid member at first/last/boundary/random positions, permutations, mixed capacities, per-member contexts. Deterministic \"only if\" on the executed model: in a chunk whose members are all made by the code-shaped prover except one arbitrary member, acceptance (non-zero weight) means the textbook verifier accepts that member (C03_one_unknown_member_among_honest); C03_embedding_sound: an arbitrary member that passes its own guards contributes w * residual to the product of a chunk of prover-made members, so its verdict inside such a batch is its verdict alone (the soundness of the checks' context-embedding oracle on the model).", _COMMON_NOTE,
       'Coq proof (batch product = weighted sum of textbook residuals; chunk cover; guards) + relational differential testing of batch vs singletons + model correspondence', "5/C03")
_claim("C04", "The list of transcript operations of prover and verifier is a Gallina function of statement and proof. Proved: restricted to the operations that determine a challenge, the prover's list (any witness, seed or not) equals the verifier's up to the final challenge (C04_prover_verifier_same_challenge_inputs), one errs on an identity point exactly when the other does, equal logs force equal statement data and proof points (C04_log_injective), every challenge's input extends the previous one. The list is compared operation by operation with the instrumented merlin log, and for every single-datum perturbation (also inside multi-chunk and mixed-aggregation batches) the recorded challenge bytes must differ from that datum on and agree before it. Merlin as a random oracle is trusted.", _COMMON_NOTE,
       'Coq proof (same challenge inputs for prover and verifier; injectivity of the operation list) + log correspondence + pairwise challenge-dependency runs', "5/C04")
_claim("C05", 'Every position of accepted triples is altered (scalars, points, round structure, tag, commitments, order, promises, bit length, generators, context; also inside multi-chunk and mixed-aggregation batches) and must yield an error; the model predicts the verdict and the scalars. Proved: a changed absorbed component changes the transcript log (C05_absorbed_component_changes_log); an accepted proof with r1, s1 or d1 changed is refused deterministically over linearly independent generators (C05_r1_binding, C05_s1_binding, C05_d1_binding on the textbook equation; C05_altered_r1/s1/d1_refused on the multiscalar product the optimised verifier evaluates, under every non-zero weight; independence a hypothesis); shape mismatches are errors. Rejection after a changed absorbed component is probabilistic (random oracle) and stated as such.', _COMMON_NOTE,
       'Coq proof (deterministic rejections incl. response-scalar binding) + exhaustive position sweep with model correspondence', "5/C05")
_claim("C06", "The prover's guard is a Gallina predicate proved equivalent to the witness relation for all u64 values and bit lengths (C06_witness_valid_iff, C06_shift_guard_64); on every generated (statement, witness) pair — exactly one violation at each position, cancelling two-position violations, boundary values, degenerate valid openings — it is evaluated inside Coq at the concrete field and compared with prove Ok/Err (chk_guard); every Ok is verified; on the model prove_top (guard + proof computation) emits a proof iff the guard holds (C06_prove_emits_iff_witness_valid) and every emitted proof, with the commitments of the statement itself, passes every guard of verify_chunk and ends with the identity (C06_emitted_proof_verifies); with the prover's own error exits in the model (identity points, zero challenges) whatever prove_full returns verifies, without those premises (C06_whatever_the_prover_returns_verifies); valid cases are compared with the prover model coordinate by coordinate.", _COMMON_NOTE,
       'Coq proof (guard = witness relation) + guard model evaluated against prove Ok/Err on single-violation witnesses', "5/C06")
_claim("C07", 'Promise handling (a_L offset, transcript absorption with None = 0, H-scalar term, range guard) modelled and compared. Proved: None = Some 0 in the log, a changed promise changes the log, oversized promises are refused, a promise enters the verification equation only through V_j - p_j H (C07_promise_is_commitment_shift, C07_P0_depends_on_shifted_commitments; part of C02_verifier_equiv), and the enforced relation gives promise <= value, value - promise < 2^bits (C01_range_reduction, C02_relation_implies_range). Promise grids at proving time, single substitutions at verification time, mixed-promise batches, guard order (an oversized promise must be refused before any transcript is touched).', _COMMON_NOTE,
       'Coq proof (promise enters only as a commitment shift; None = 0; guard) + differential promise sweeps with model correspondence', "5/C07")
_claim("C08", 'Weight derivation modelled as transcript operations (all of r1, s1, d1 absorbed; weights drawn after every proof of the chunk; one non-zero weight per proof multiplying every term). Proved: the batch product is sum_p w_p * residual_p (C03), a member with a non-zero residual survives for at most one value of its weight and two non-zero residuals cancel for one ratio only (C08_bad_weight_unique, C08_cancellation_fixes_ratio), the reject-zero loop returns the first n non-zero draws (C08_weights_nonzero). Adaptive cancellation attacks computed from observed weights must be rejected and every response scalar must change the weight ratios; log and scalars compared with the model. Unpredictability of the ratio is the random-oracle assumption.', _COMMON_NOTE,
       'Coq proof (weight-transcript structure, unique cancelling ratio, non-zero weights) + adaptive attack search + log correspondence', "5/C08")
_claim("C09", "C09_prover_mask_recovered (closed under the global context): for one commitment, any bit length / capacity / extension degree / promise / nonces and non-zero challenges, the verifier's recovery formula applied to the responses the code-shaped prover emits, queried with the prover's own (seed-derived) nonces, returns exactly the blinding vector, every component in order; result alignment inside a chunk and across every chunk boundary (C09_batch_results_aligned: an Ok result is exactly map mask_of over the whole batch) and None for unseeded / verify-only are theorems too. Recovered masks are compared with the blinding factors position by position on the implementation for all bit lengths and extension degrees, batches mixing seeded/unseeded/aggregated members.", _COMMON_NOTE,
       'Coq proof (end-to-end recovery identity on prover + verifier models) + differential runs', "5/C09")
_claim("C10", 'Proved: the verdict and every scalar of the final check are independent of seed and verifying mode, RecoverOnly returns the masks RecoverAndVerify returns, and — end to end on the prover and verifier models — a verifier querying another seed oracle recovers r_k plus an explicit combination of nonce differences over e^2 z^2 y^(N+1) (C10_wrong_seed_end_to_end), i.e. the true mask only if that combination vanishes (probability 1/l under the oracle assumption, not a theorem). For whole batches across chunk boundaries: C10_batch_recover_only_same_masks, C10_batch_verdict_independent_of_seed_and_mode. Compared on valid/invalid proofs x seeds (incl. seeds differing in one byte) x modes.', _COMMON_NOTE,
       'Coq proof (non-interference of the seed; explicit wrong-seed offset) + differential runs', "5/C10")
_claim("C12", 'C12_prover_capacity_independent (closed under the global context): generator sets that agree on H, Gb and the first m*bits vector generators give the same proof whatever the capacities and paddings; on the verifier side C12_verifier_capacity_independent: two owner tables that agree on the first max_mn generators give the same final product whatever lies beyond and whatever zero padding is applied. Padding, table owner and accumulation are modelled; every (prover capacity, verifier capacity) pair and mixed-capacity batches run on the code and are compared with the model; proofs must be byte-identical across prover capacities.', _COMMON_NOTE,
       'Coq proof (prover output independent of capacity; padding / prefix lemmas) + capacity-pair sweeps with model correspondence', "5/C12")
_claim("C13", "Source map slot -> (RNG instance, draw) | seed nonce(label, j, k) in Gallina. Proved: no two slots read the same source, the seed key layout is injective and is the documented one, the assignment always has the shape completeness and recovery need (C13_assigned_nonces_well_formed), RNG-sourced nonces go through the reject-zero loop (C13_rng_nonces_nonzero). Every nonce is read off the proof's coordinates over the free-module group and compared; every transcript RNG must be finalised with fresh external bytes; a stuck external RNG must still give pairwise distinct nonces. Value-freshness is the PRF assumption.", _COMMON_NOTE,
       'Coq proof (distinct sources, key-layout injectivity, non-zero draws) + coordinate-level observation of every nonce', "5/C13")
_claim("C14", "Transcript-RNG keying modelled as operations (witness bytes re-keyed into every instance, rebuilt after each update) and compared with the log; RNG fault models x one-datum-different run pairs must "
       "share no RNG-derived nonce.", _COMMON_NOTE, "Coq proof (keying structure, witness serialisation injective) + fault-model run pairs + log correspondence", "5/C14")
_claim("C16", 'A three-valued (value / error / panic) model of verify and verify_batch with every partial machine operation explicit (unchecked usize arithmetic, shifts, ilog2, chunks(0), the two length assertions of the back end) is proved equal to the total model for constructor-built statements and arbitrary proofs, weights, modes and shapes (C16_verify_chunk_checked_is_total_model, C16_verify_batch_checked_is_total_model), hence never panics (C16_verify_batch_never_panics); after the round-count guard no index/shift/subtraction of the per-proof body can fail (C16_proof_body_checked). Guards of decoder and verifier modelled in code order; one lemma per partial operation of the Rust code (s-vector indices, `1 << rounds` only below 64, index into d, ilog2 of a constructor-validated count, non-zero chunk size, back-end length assertion, checked padding); hostile proofs/batches (incl. 512-1024 commitments per statement) in debug and release builds over two back ends must never panic; model predicts Ok/Err. Partial by nature (the list of partial operations is hand-enumerated; panics inside dependencies are runtime behaviour).', _COMMON_NOTE,
       'Coq proof (each enumerated partial operation stays inside its domain) + hostile-input exploration under catch_unwind (debug+release)', "5/C16")
_claim("C11", "Label layout and chain indexing are a Gallina model with injectivity / prefix / table-order theorems; SHAKE256, SHA3-512 and the Ristretto one-way map are re-implemented in Gallina so that the generator BYTES are recomputed inside Coq and compared with the implementation (quick: parties 0-3 and all Pedersen points; thorough: all 4103 points), plus the recorded digest of the release's 4103 encodings, pairwise distinctness and non-identity of all 4103 derived encodings as a theorem by computation on the finite domain (C11_generators_distinct, on the Gallina derivation whose bytes equal the implementation's) and by direct comparison of the implementation's points on every run, table order, capacity independence, racing first use.", "Trusted: Coq kernel + vm_compute + BigZ; Crypto/Keccak.v and Crypto/Ristretto.v model dependencies (validated by byte equality with the Rust crates on every run, not verified); harness gens driver. No axioms declared (Print Assumptions of C11_generators_distinct lists the kernel's PrimInt63 primitives used by BigZ).",
       'Coq proof (label injectivity, chain prefix, table order) + byte-exact correspondence with a Gallina hash-to-group derivation; distinctness of all 4103 derived points a theorem by computation on the finite domain', "5/C11")
_claim("C18", "Purity holds in the model by construction (state-free functions); the once-initialised statics are modelled as a state machine and proved correct under every schedule; histories, request sequences, "
       "16-thread runs against a single-threaded baseline and fresh-process first-use races are explored on the code. Partial by nature (real schedules are runtime behaviour).",
       "Trusted: Coq kernel; Model/Once.v is a logical model; OS scheduling; harness thread/history drivers. No axioms.",
       "Coq proof (once-cell under arbitrary schedules) + schedule / history exploration against a single-threaded baseline", "5/C18")
_claim("C19", "Recorded 0.4.0 vectors (proof bytes reproduced by the prover, recorded proofs verified and masks recovered, generator bytes) plus fresh configurations where the library prover/verifier are compared "
       "with the independent Gallina prover/verifier coordinate by coordinate; wire constants (labels, key layout, byte layout) are literals of the model with theorems about them.",
       _COMMON_NOTE + " STROBE/Blake2b are not re-implemented in Gallina; the recording of the vectors is trusted.",
       "Coq proof (wire-constant layout) + recorded regression vectors + model-vs-implementation correspondence as independent reference", "5/C19")
_claim("C20", 'Discipline model of secret-holding buffers per code path with the theorems that no un-wiped secret is freed, also when the path stops after ANY number of steps (error return / unwinding: C20_early_exit_clean, C20_prover_early_exit_clean for every number of commitments and rounds), the refutation for the unrepaired nonce derivation and for late wrapping; an interposing allocator in an opt-level-0 build scans every freed block for the literal secrets and the bit-decomposition images, incl. spare capacity and a prove that fails half-way. Partial by nature (compiler/allocator behaviour is runtime).', "Trusted: Coq kernel; Model/Heap.v and Model/HeapExit.v are hand-enumerated from the source; allocator harness; zeroize. No axioms.",
       'Coq proof (wipe-before-free discipline under every early return) + allocator interposition exploration', "5/C20")
CLAIMED["C15"] = dict(
    text="The decoder/encoder model is proved, for every byte string of every length, to accept exactly the encodings of well-formed proofs "
         "(tag 1..6, 5+d+2k elements, k>=1, canonical scalars), to be canonical (decode then encode is the identity) and to round-trip "
         "well-formed proofs; the zero-round case is proved NOT to round-trip (known finding). The model is tied to the code by differential "
         "evaluation on structured, random and prover-generated byte strings (from_bytes, to_bytes, bincode/serde).",
    note="Trusted: Coq kernel + vm_compute; hand-written model coq/Model/Codec.v validated on sampled strings only; dalek's canonical-scalar test; "
         "bincode framing. No axioms.",
    technique="Coq proof (exact acceptance set, canonicity, round trip, injectivity) + differential model/implementation correspondence",
    design="5/C15")
NOT_YET = "check not built yet in this round (planned, see DESIGN.md section 10); not claimed until its check exists"

checks = []
for p in props:
    pid = p["id"]
    if pid in CLAIMED:
        c = CLAIMED[pid]
        checks.append({
            "property_id": pid,
            "quick_cmd": f"python3 tools/check.py {pid} --tier quick",
            "thorough_cmd": f"python3 tools/check.py {pid} --tier thorough",
            "evidence_file": f"evidence/{pid}.json",
            "replay_cmd_template": "python3 tools/check.py --replay {path}",
            "engine": "coq-model+correspondence",
            "level_claimed": {"category": "proof", "text": c["text"], "design_ref": c["design"]},
            "level_note": c["note"],
            "technique": c["technique"],
        })
man = {
    "version": 1,
    "setup_cmd": "bash tools/setup.sh",
    "hooks": {
        "guard": "tari_bulletproofs_plus_verif",
        "enable": "none needed: the harness reaches everything through the public generic API (free-module group back end, instrumented merlin via [patch.crates-io])",
        "baseline_off_cmd": "cd /repo && cargo test --workspace --no-fail-fast --offline",
        "source_commits": [],
        "add_only": True,
    },
    "engines": [{
        "name": "coq-model+correspondence",
        "path": "tools/check.py",
        "serves_properties": sorted(CLAIMED),
        "kind_free_text": "Coq 8.16 theorems about a hand-written Gallina model (coq/), tied to /repo by a correspondence check: the Rust harness "
                          "(harness/, path-dependency on /repo, rebuilt every run) and the model (coqc + vm_compute) are run on the same inputs",
    }],
    "checks": checks,
    "not_applicable": [{"property_id": p["id"], "reason": NOT_YET} for p in props if p["id"] not in CLAIMED],
    "notes": "See DESIGN.md. Known findings: known_findings.json.",
}
json.dump(man, open(os.path.join(VERIF, "MANIFEST.json"), "w"), indent=1)
print("claimed:", sorted(CLAIMED))
