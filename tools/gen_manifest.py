#!/usr/bin/env python3
"""Regenerates MANIFEST.json from the table below (kept in one place so that it stays valid)."""
import json, os
VERIF = os.path.dirname(os.path.dirname(os.path.abspath(__file__)))
props = [json.loads(l) for l in open(os.path.join(VERIF, "properties.jsonl"))]

CLAIMED = {
    "C17": dict(
        text="Every constructor predicate of the Gallina model is proved equivalent to the documented domain for all (unbounded) arguments, "
             "and the model is tied to the code by running the property's complete grid on the implementation and evaluating the model on "
             "every row with coqc/vm_compute (exhaustive correspondence).",
        note="Trusted: Coq kernel + vm_compute; hand-written model coq/Model/Ctor.v validated on the grid only; harness grid driver; "
             "std is_power_of_two taken by its documentation. No axioms.",
        technique="Coq proof (iff-characterisation of each constructor guard) + exhaustive model/implementation correspondence on the property's grid",
        design="5/C17"),
}
NOT_YET = "check not built yet in this round (planned, see DESIGN.md section 10); not claimed until its check exists"

checks = []
for p in props:
    pid = p["id"]
    if pid in CLAIMED:
        c = CLAIMED[pid]
        checks.append({
            "property_id": pid,
            "quick_cmd": f"python3 tools/check.py {pid} --tier quick",
            "thorough_cmd": f"python3 tools/check.py {pid} --tier thorough",
            "evidence_file": f"evidence/{pid}.json",
            "replay_cmd_template": "python3 tools/check.py --replay {path}",
            "engine": "coq-model+correspondence",
            "level_claimed": {"category": "proof", "text": c["text"], "design_ref": c["design"]},
            "level_note": c["note"],
            "technique": c["technique"],
        })
man = {
    "version": 1,
    "setup_cmd": "bash tools/setup.sh",
    "hooks": {
        "guard": "tari_bulletproofs_plus_verif",
        "enable": "none needed: the harness reaches everything through the public generic API (free-module group back end, instrumented merlin via [patch.crates-io])",
        "baseline_off_cmd": "cd /repo && cargo test --workspace --no-fail-fast --offline",
        "source_commits": [],
        "add_only": True,
    },
    "engines": [{
        "name": "coq-model+correspondence",
        "path": "tools/check.py",
        "serves_properties": sorted(CLAIMED),
        "kind_free_text": "Coq 8.16 theorems about a hand-written Gallina model (coq/), tied to /repo by a correspondence check: the Rust harness "
                          "(harness/, path-dependency on /repo, rebuilt every run) and the model (coqc + vm_compute) are run on the same inputs",
    }],
    "checks": checks,
    "not_applicable": [{"property_id": p["id"], "reason": NOT_YET} for p in props if p["id"] not in CLAIMED],
    "notes": "See DESIGN.md. Known findings: known_findings.json.",
}
json.dump(man, open(os.path.join(VERIF, "MANIFEST.json"), "w"), indent=1)
print("claimed:", sorted(CLAIMED))
