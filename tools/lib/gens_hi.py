"""Generator chains of parties beyond the first 32 (up to 511): the derivation encodes the party index as LE32, so every byte of it matters.
Shared by C11 (derivation) and C19 (the released generators)."""
from lib.common import run_harness, coq_eval_bools, limbs_of_int, int_of_hex_le, coq_list

HEADER = """From Coq Require Import Arith NArith List Bool Uint63.
From BP Require Import Exec.CasesLib Exec.Limbs Exec.GensExec.
Import ListNotations. Open Scope N_scope.
"""


def check_high_parties(run, quick, name):
    """the (1, 512) parameter set: one generator per party and kind; parties around every byte boundary of the index are recomputed in Coq"""
    rec = run_harness(["gens"], [{"bits": 1, "cap": 512, "T": 1, "table": False}])[0]
    lim = lambda h: limbs_of_int(int_of_hex_le(h), 5)
    parties = [31, 32, 33, 127, 128, 255, 256, 257, 258, 300, 511] if quick else [31, 32, 33, 63, 64, 127, 128, 129, 254, 255, 256, 257, 258, 259, 300, 383, 384, 510, 511]
    cases, meta = [], []
    for i in parties:
        for kc, nm in ((0, "G"), (1, "Hv")):
            cases.append(f"chk_chain {kc} {i} {coq_list([lim(rec[nm][i])])}")
            meta.append((nm, i))
            run.count(["hi-party", nm, i // 128], {"check": "generator of a party index beyond 32 vs the Gallina derivation", "kind": nm, "party": i})
            run.bump("high-party generators")
    if len(set(rec["G"]) | set(rec["Hv"])) != 1024:
        run.violation("two generators of the (1, 512) parameter set coincide", {"kind": "gens", "spec": {"bits": 1, "cap": 512, "T": 1}})
    for idx in coq_eval_bools(name, HEADER, cases, shards=4, per_shard_min=1):
        nm, i = meta[idx]
        run.violation(f"the {nm} generator of party {i} (a 512-party parameter set) is not the documented derivation SHAKE256('GeneratorsChain' || kind || LE32(party))",
                      {"kind": "gens", "spec": {"bits": 1, "cap": 512, "T": 1}, "party": i, "vector": nm})
