"""An INDEPENDENT prover for the published Bulletproofs+ range-proof protocol, written from the paper (not from the crate),
used to search for failing inputs: it talks to the library only through the verifier.

* Points are sparse coefficient vectors over the named generators H, Gb_k, G_i, Hv_i of a parameter set; the harness turns them
  into points of the free-module group (`lincomb` point specs).
* Fiat-Shamir challenges are NOT recomputed here: the prover is a coroutine that hands out the messages it has fixed so far; the driver
  puts them into a proof (placeholders for the rest), has the LIBRARY's verifier process it and reads the next challenge off the
  instrumented merlin log.  The prover therefore stays in step with whatever the verifier under test absorbs, in whatever order.
* Strategies: `honest` (the published prover: its proofs must be ACCEPTED — an independent implementation of the protocol interoperates
  with the crate's verifier), and dishonest ones that must be REFUSED on a sound verifier: a non-binary digit in the bit vector,
  a value beyond the bit length hidden behind an oversized promise, a surplus (L, R) pair used as a free cross-term.

Nothing here is a proof of anything; it produces inputs."""
import copy
from lib.common import L, run_harness
from lib import gen, vmodel

INV = lambda x: pow(x % L, L - 2, L)


# ------------------------------------------------------------------ sparse vectors over named generators
def vadd(a, b):
    r = dict(a)
    for k, v in b.items():
        x = (r.get(k, 0) + v) % L
        if x:
            r[k] = x
        else:
            r.pop(k, None)
    return r


def vscale(c, a):
    c %= L
    return {k: (c * v) % L for k, v in a.items() if (c * v) % L} if c else {}


def vmsm(cs, ps):
    r = {}
    for c, p in zip(cs, ps):
        r = vadd(r, vscale(c, p))
    return r


def vspec(a):
    """point spec for the harness"""
    if not a:
        return {"identity": True}
    return {"lincomb": [[k[0], k[1], gen.hx(v)] for k, v in sorted(a.items())]}


def base(kind, i=0):
    return {(kind, i): 1}


# ------------------------------------------------------------------ instances
class Instance:
    """a statement together with whatever the prover knows about its commitments"""

    def __init__(self, bits, m, T, cap, values, masks, promises, ctx=None):
        self.bits, self.m, self.T, self.cap = bits, m, T, cap
        self.values = [v % L for v in values]          # field elements: may lie far outside [0, 2^bits)
        self.masks = masks                              # m vectors of T field elements
        self.promises = promises                        # u64 or None
        self.ctx = ctx or {"label": "forge"}

    def stmt(self):
        commit = []
        for v, r in zip(self.values, self.masks):
            if v < (1 << 64):
                commit.append({"open": {"v": str(v), "r": [gen.hx(x) for x in r]}})
            else:
                commit.append({"lincomb": [["H", 0, gen.hx(v)]] + [["Gb", k, gen.hx(x)] for k, x in enumerate(r)]})
        return {"bits": self.bits, "cap": self.cap, "T": self.T, "commit": commit,
                "promises": [None if p is None else str(p) for p in self.promises], "seed": None}


def bits_of(x, n):
    return [(x >> i) & 1 for i in range(n)]


# ------------------------------------------------------------------ the prover (a coroutine)
def prover(inst, rng, a_l, surplus=False, argued=None, late=None):
    """yields partial proofs, is sent the challenges drawn after them: (y, z), then one e per (L, R) pair, then the last e.
    `a_l`: the prover's digit vector (bits of value - promise when honest).  `surplus`: spend one extra (L, R) pair as a free
    cross-term (only a verifier that tolerates surplus pairs can be fooled by it)."""
    n, m, T = inst.bits, inst.m, inst.T
    nm = n * m
    H = base("H")
    Gb = [base("Gb", k) for k in range(T)]
    gi = [base("G", i) for i in range(nm)]
    hi = [base("Hv", i) for i in range(nm)]
    rs = lambda: rng.randrange(1, L)
    proof = {"a": None, "li": [], "ri": [], "a1": None, "b": None, "r1": 0, "s1": 0, "d1": [0] * T, "rounds": 0}

    a_r = [(x - 1) % L for x in a_l]
    alpha = [rs() for _ in range(T)]
    proof["a"] = vadd(vadd(vmsm(a_l, gi), vmsm(a_r, hi)), vmsm(alpha, Gb))
    total_rounds = (nm.bit_length() - 1) + (1 if surplus else 0)
    proof["rounds"] = total_rounds
    y, z = yield proof

    ypow = [1]
    for i in range(nm + 1):
        ypow.append(ypow[-1] * y % L)
    z2 = z * z % L
    d, zj = [], 1
    for j in range(m):
        zj = zj * z2 % L
        for i in range(n):
            d.append(zj * pow(2, i, L) % L)
    d_sum = sum(d) % L
    y_sum = sum(ypow[1:nm + 1]) % L
    # known representation of P-hat = <a, G> + <b, Hv> + t_h H + <alpha, Gb>
    a = [(x - z) % L for x in a_l]
    b = [(a_r[i] + d[i] * ypow[nm - i] + z) % L for i in range(nm)]
    t_h = (-(ypow[nm + 1] * z % L * d_sum + (z2 - z) * y_sum)) % L
    zj = 1
    for j in range(m):
        zj = zj * z2 % L
        t_h = (t_h + ypow[nm + 1] * zj % L * ((argued or inst.values)[j] - (inst.promises[j] or 0))) % L
        alpha = [(al + ypow[nm + 1] * zj % L * r) % L for al, r in zip(alpha, inst.masks[j])]
    wip = lambda u, w: sum(u[i] * ypow[i + 1] % L * w[i] for i in range(len(u))) % L

    if surplus:
        # L carries the true weighted inner product on H, R a correction on Hv_0 such that <a, b'>_y is the H coefficient the verifier insists on
        l_t = wip(a, b)
        rho = t_h * INV(a[0] * y) % L
        proof["li"].append(vscale(l_t, H))
        proof["ri"].append(vscale(rho, hi[0]))
        (e0,) = yield proof
        e0i = INV(e0)
        b[0] = (b[0] + e0i * e0i % L * rho) % L
        a = [x * e0 % L for x in a]
        b = [x * e0 % L for x in b]
        gi = [vscale(e0i, p) for p in gi]
        hi = [vscale(e0i, p) for p in hi]

    ln = nm
    while ln > 1:
        ln //= 2
        a_lo, a_hi, b_lo, b_hi = a[:ln], a[ln:], b[:ln], b[ln:]
        g_lo, g_hi, h_lo, h_hi = gi[:ln], gi[ln:], hi[:ln], hi[ln:]
        yn = ypow[ln]
        yni = INV(yn)
        a_lo_off = [x * yni % L for x in a_lo]
        a_hi_off = [x * yn % L for x in a_hi]
        c_l = sum(a_lo[i] * ypow[i + 1] % L * b_hi[i] for i in range(ln)) % L
        c_r = sum(a_hi[i] * ypow[ln + i + 1] % L * b_lo[i] for i in range(ln)) % L
        d_l = [rs() for _ in range(T)]
        d_r = [rs() for _ in range(T)]
        proof["li"].append(vadd(vadd(vadd(vscale(c_l, H), vmsm(a_lo_off, g_hi)), vmsm(b_hi, h_lo)), vmsm(d_l, Gb)))
        proof["ri"].append(vadd(vadd(vadd(vscale(c_r, H), vmsm(a_hi_off, g_lo)), vmsm(b_lo, h_hi)), vmsm(d_r, Gb)))
        (e,) = yield proof
        ei = INV(e)
        gi = [vadd(vscale(ei, g_lo[i]), vscale(e * yni, g_hi[i])) for i in range(ln)]
        hi = [vadd(vscale(e, h_lo[i]), vscale(ei, h_hi[i])) for i in range(ln)]
        a = [(a_lo[i] * e + a_hi_off[i] * ei) % L for i in range(ln)]
        b = [(b_lo[i] * ei + b_hi[i] * e) % L for i in range(ln)]
        alpha = [(dl * e % L * e + al + dr * ei % L * ei) % L for dl, al, dr in zip(d_l, alpha, d_r)]

    r, s = rs(), rs()
    delta = [rs() for _ in range(T)]
    eta = [rs() for _ in range(T)]
    proof["a1"] = vadd(vadd(vadd(vscale(r, gi[0]), vscale(s, hi[0])), vscale((r * y % L * b[0] + s * y % L * a[0]) % L, H)), vmsm(delta, Gb))
    proof["b"] = vadd(vscale(r * y % L * s % L, H), vmsm(eta, Gb))
    (e,) = yield proof
    if late == "B" and argued is not None:
        # the argument was made for other values than the commitments hold; the verification equation is linear in B: move the whole
        # difference e^2 * sum_j z^(2(j+1)) y^(nm+1) (v_j - v'_j) H into B AFTER the last challenge is known.  A verifier whose last
        # challenge depends on B draws another e for the repaired proof and refuses it.
        zj, shift = 1, 0
        for j in range(m):
            zj = zj * z2 % L
            shift = (shift + zj * ypow[nm + 1] % L * (inst.values[j] - argued[j])) % L
        proof["b"] = vadd(proof["b"], vscale((-(e * e % L) * shift) % L, H))
    proof["r1"] = (r + a[0] * e) % L
    proof["s1"] = (s + b[0] * e) % L
    proof["d1"] = [(et + dl * e + al * e % L * e) % L for et, dl, al in zip(eta, delta, alpha)]
    proof["final"] = True
    yield proof


def ops_of(proof, T, salt):
    """session ops turning a template proof into `proof` (placeholders: junk points)"""
    ops = [{"op": "set_d1_len", "n": T}, {"op": "set_rounds", "n": proof["rounds"]}]
    junk = [salt * 1000 + 7]

    def pt(v):
        if v is None:
            junk[0] += 1
            return {"junk": junk[0]}
        return vspec(v)
    ops.append({"op": "point_set", "field": "a", "to": pt(proof["a"])})
    ops.append({"op": "point_set", "field": "a1", "to": pt(proof["a1"])})
    ops.append({"op": "point_set", "field": "b", "to": pt(proof["b"])})
    for j in range(proof["rounds"]):
        ops.append({"op": "point_set", "field": "li", "idx": j, "to": pt(proof["li"][j] if j < len(proof["li"]) else None)})
        ops.append({"op": "point_set", "field": "ri", "idx": j, "to": pt(proof["ri"][j] if j < len(proof["ri"]) else None)})
    ops.append({"op": "scalar_set", "field": "r1", "hex": gen.hx(proof["r1"])})
    ops.append({"op": "scalar_set", "field": "s1", "hex": gen.hx(proof["s1"])})
    for k in range(T):
        ops.append({"op": "scalar_set", "field": "d1", "idx": k, "hex": gen.hx(proof["d1"][k])})
    return ops


def challenges_of(vo):
    per, news, fins = vmodel.split_ops(vo["merlin"])
    tid = vo["tids"][0]
    return [int.from_bytes(x[2], "little") % L for x in per.get(tid, []) if x[0] == "chal"]


def session_of(job, proof, sid, mode="VerifyOnly"):
    inst = job["inst"]
    return {"id": sid, "group": "fm", "members": [job["template"]], "with_gens": False,
            "derived": [{"from": 0, "ops": ops_of(proof, inst.T, job["salt"])}],
            "verifies": [{"mode": mode, "vmembers": [{"proof": 1, "stmt": inst.stmt(), "ctx": inst.ctx}]}]}


def forge_all(rng, jobs, prefix="forge"):
    """jobs: dicts with `inst`, `a_l`, `surplus`, anything else is kept.  Runs every prover in lockstep against the library's verifier.
    Returns the list of final session specs (one per job that completed; jobs whose transcript stopped early carry `_failed`)."""
    for i, job in enumerate(jobs):
        inst = job["inst"]
        job["salt"] = i + 1
        # a template the library itself proves: only its wire layout is used (every field is overwritten)
        job["template"] = gen.mk_member(rng, inst.bits, inst.m, cap=inst.cap, T=inst.T, ctx=inst.ctx)
        job["co"] = prover(inst, rng, job["a_l"], job.get("surplus", False), job.get("argued"), job.get("late"))
        job["proof"] = next(job["co"])
        job["step"] = 0
    live = list(jobs)
    while live:
        specs = [session_of(j, j["proof"], f"{prefix}-step") for j in live]
        obs = run_harness(["session"], specs, jobs=8)
        nxt = []
        for j, o in zip(live, obs):
            vo = o["verifies"][0]
            cs = challenges_of(vo) if "merlin" in vo else []
            # y, z after A; then one e per pair; then the last e
            if j["step"] == 0:
                if len(cs) < 2:
                    j["_failed"] = f"no y, z from the verifier's transcript: {vo['result'][:80]}"
                    continue
                send = (cs[0], cs[1])
            else:
                if len(cs) < 2 + j["step"]:
                    j["_failed"] = f"challenge #{1 + j['step']} not drawn by the verifier: {vo['result'][:80]}"
                    continue
                send = (cs[1 + j["step"]],)
            j["proof"] = j["co"].send(send)
            j["step"] += 1
            if not j["proof"].get("final"):
                nxt.append(j)
        live = nxt
    out = []
    for i, j in enumerate(jobs):
        if "_failed" in j:
            continue
        s = session_of(j, j["proof"], f"{prefix}-{i}")
        s["verifies"].append(copy.deepcopy(s["verifies"][0]))
        s["verifies"][1]["mode"] = "RecoverAndVerify"
        s["_job"] = {k: v for k, v in j.items() if k not in ("co", "proof", "template", "inst")}
        s["_inst"] = j["inst"]
        out.append(s)
    return out


# ------------------------------------------------------------------ families of jobs
def standard_jobs(rng, quick, which=("honest", "digit", "promise", "surplus", "late")):
    """(job list) every job carries `kind` and `expect` ('ok' | 'err') and a description `why`"""
    jobs = []

    def inst_of(b, m, T, vals, proms, cap=None):
        masks = [[rng.randrange(1, L) for _ in range(T)] for _ in range(m)]
        return Instance(b, m, T, cap or m, vals, masks, proms, ctx={"label": "forge", "msgs": [["k", "%02x" % rng.randrange(256)]]})

    def honest_digits(b, vals, proms):
        out = []
        for v, p in zip(vals, proms):
            out += bits_of((v - (p or 0)) % L, b)
        return out
    confs = [(2, 1, 1), (4, 2, 2), (8, 1, 3), (2, 4, 1), (64, 1, 1), (1, 2, 6), (16, 2, 1), (4, 1, 4), (1, 4, 2), (32, 1, 5)]
    if not quick:
        extra = [c for c in gen.lattice(128) if c[0] * c[1] > 1]
        rng.shuffle(extra)
        confs += extra[:60]
    if "honest" in which:
        # the published prover, written independently of the crate: its proofs must be accepted
        for (b, m, T) in confs:
            top = (1 << b) - 1
            proms = [rng.choice([None, 0, rng.randrange(top + 1)]) for _ in range(m)]
            vals = [rng.randrange(p or 0, top + 1) for p in proms]
            jobs.append({"inst": inst_of(b, m, T, vals, proms, cap=m * rng.choice([1, 2])), "a_l": honest_digits(b, vals, proms), "kind": "honest",
                         "expect": "ok", "why": "proof of the independent prover for a valid witness"})
    if "digit" in which:
        # the linear constraint holds (digits recombine to value - promise), one digit is not a bit
        for (b, m, T) in confs[: (4 if quick else 30)]:
            j = rng.randrange(m)
            proms = [rng.choice([None, 1]) for _ in range(m)]
            vals = [(p or 0) + rng.randrange(1 << b) for p in proms]
            case = rng.choice(["2^bits", "minus one"])
            a_l = []
            for jj, (v, p) in enumerate(zip(vals, proms)):
                if jj != j:
                    a_l += bits_of(v - (p or 0), b)
                elif case == "2^bits":
                    vals[jj] = (p or 0) + (1 << b)
                    a_l += [0] * (b - 1) + [2]
                else:
                    vals[jj] = ((p or 0) - 1) % L
                    a_l += [L - 1] + [0] * (b - 1)
            jobs.append({"inst": inst_of(b, m, T, vals, proms), "a_l": a_l, "kind": "digit", "expect": "err",
                         "why": f"value - promise = {case} at position {j}, digit vector with a non-binary entry"})
    if "promise" in which:
        # the offset value - promise is in range but the promise (hence the value) lies beyond the bit length
        for (b, m, T) in [c for c in confs if c[0] < 64][: (4 if quick else 30)]:
            j = rng.choice([0, m - 1])
            proms = [None] * m
            vals = [rng.randrange(1 << b) for _ in range(m)]
            proms[j] = rng.choice([1 << b, (1 << b) + 5, 1 << 20 if b < 20 else 1 << 40, (1 << 63)])
            off = rng.randrange(1 << b)
            vals[j] = proms[j] + off
            a_l = honest_digits(b, vals, proms)
            jobs.append({"inst": inst_of(b, m, T, vals, proms), "a_l": a_l, "kind": "promise", "expect": "err",
                         "why": f"promise {proms[j]} beyond {b} bits at position {j}, value = promise + {off}"})
    if "late" in which:
        # the argument is made for in-range values, the commitments hold others; the difference is moved into the LAST message after the last
        # challenge has been read (only a verifier whose last challenge does not depend on that message accepts)
        for (b, m, T) in confs[: (5 if quick else 30)]:
            top = (1 << b) - 1
            proms = [rng.choice([None, 0, rng.randrange(top + 1)]) for _ in range(m)]
            argued = [rng.randrange(p or 0, top + 1) for p in proms]
            j = rng.randrange(m)
            vals = list(argued)
            vals[j] = rng.choice([argued[j] + (1 << b), (1 << 64) + 5, (argued[j] - (1 << b)) % L, L - 1])
            jobs.append({"inst": inst_of(b, m, T, vals, proms), "a_l": honest_digits(b, argued, proms), "argued": argued, "late": "B", "kind": "late", "expect": "err",
                         "why": f"argument for in-range values, commitment {j} holds another value; the difference repaired in B after the last challenge"})
    if "surplus" in which:
        # one surplus (L, R) pair used as a free cross-term: commitments to values far outside the range
        for (b, m, T) in confs[: (4 if quick else 30)]:
            vals = [rng.choice([1000 + (1 << b), (1 << 64) + 5, L - 1]) for _ in range(m)]
            proms = [rng.choice([None, 1]) for _ in range(m)]
            a_l = [rng.randrange(2) for _ in range(b * m)]
            jobs.append({"inst": inst_of(b, m, T, vals, proms), "a_l": a_l, "surplus": True, "kind": "surplus", "expect": "err",
                         "why": "out-of-range values, one surplus (L, R) pair chosen as a free cross-term"})
        (b, m, T) = confs[1]
        vals = [rng.randrange(1 << b) for _ in range(m)]
        jobs.append({"inst": inst_of(b, m, T, vals, [None] * m), "a_l": honest_digits(b, vals, [None] * m), "surplus": True, "kind": "surplus", "expect": "err",
                     "why": "valid witness, proof with one surplus (L, R) pair"})
    return jobs


def oracle(run, s, o, prop_note=""):
    """direct oracle on a forged session"""
    from lib import sessions
    job, inst = s["_job"], s["_inst"]
    rp = {"kind": "session", "spec": sessions.strip(s)}
    for vi, vo in enumerate(o["verifies"]):
        res = vo["result"]
        run.count(["forge", job["kind"], inst.bits, inst.m, inst.T, res.split(":")[0]],
                  {"independent_prover": job["kind"], "bits": inst.bits, "m": inst.m, "T": inst.T, "why": job["why"][:80], "result": res[:60]})
        run.bump("forge:" + job["kind"])
        if res.startswith("unavailable"):
            run.violation(f"proof of the independent prover does not decode ({job['kind']}; bits={inst.bits}, m={inst.m}, T={inst.T}): {res[:80]}", dict(rp, verify=vi))
        elif job["expect"] == "ok" and res != "ok":
            run.violation(f"the verifier refuses a proof made by an independent implementation of the published prover for a valid witness "
                          f"(bits={inst.bits}, m={inst.m}, T={inst.T}): {res[:80]} — prover and verifier of the crate agree with each other but not with the protocol", dict(rp, verify=vi))
        elif job["expect"] == "err" and res == "ok":
            run.violation(f"proof ACCEPTED for a statement outside the relation{prop_note}: {job['why']} (bits={inst.bits}, m={inst.m}, T={inst.T})", dict(rp, verify=vi))


def report_incomplete(run, jobs):
    """a prover that cannot go on because the verifier stopped before drawing the next challenge: for a dishonest job that IS the refusal"""
    for j in jobs:
        if "_failed" not in j:
            continue
        inst = j["inst"]
        early_refusal = j["expect"] == "err" and ": err:" in j["_failed"]
        run.count(["forge-early", j["kind"], inst.bits, inst.m, inst.T, early_refusal], {"independent_prover": j["kind"], "why": j["why"][:80], "stopped": j["_failed"][:100]})
        run.bump("forge:" + j["kind"] + (":refused before the challenges" if early_refusal else ":incomplete"))
        if not early_refusal:
            run.violation(f"independent prover could not complete ({j['kind']}: {j['why']}): {j['_failed']}",
                          {"kind": "forge", "job": {k: v for k, v in j.items() if k in ("kind", "why", "a_l", "_failed")}, "stmt": inst.stmt(), "ctx": inst.ctx})
