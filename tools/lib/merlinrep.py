"""Replay of instrumented-merlin operation logs inside Coq (Exec/MerlinExec.failing): every challenge and transcript-RNG output of a real
prover / verifier run is recomputed by the Gallina STROBE-128 / Merlin (Crypto/Strobe.v over the Keccak-f of Crypto/Keccak.v) from the
operations before it.  The harness creates the members' transcripts itself (context label + context messages), so those operations are
put in front of the log here."""
from lib.common import *

HEADER = """From Coq Require Import NArith List Uint63.
From BP Require Import Exec.Limbs Exec.MerlinExec.
Import ListNotations. Open Scope N_scope.
"""


def _b(x):
    return "(B " + coq_bytes(x) + ")"


def ctx_ops(tid, ctx):
    ops = [["new", tid, ctx["label"]], ["app", tid, "dom-sep", ctx["label"].encode().hex()]]
    for lab, hx in ctx.get("msgs", []):
        ops.append(["app", tid, lab, hx])
    return ops


def coq_op(o):
    k = o[0]
    if k == "new":
        return f"MNew {o[1]} {_b(o[2].encode())}"
    if k == "clone":
        return f"MClone {o[1]} {o[2]}"
    if k == "app":
        return f"MApp {o[1]} {_b(o[2].encode())} {_b(bytes.fromhex(o[3]))}"
    if k == "chal":
        return f"MChal {o[1]} {_b(o[2].encode())} {_b(bytes.fromhex(o[3]))}"
    if k == "rng":
        return f"MRng {o[1]} {o[2]}"
    if k == "rekey":
        return f"MRekey {o[1]} {_b(o[2].encode())} {_b(bytes.fromhex(o[3]))}"
    if k == "fin":
        return f"MFin {o[1]} {_b(bytes.fromhex(o[2]))}"
    if k == "fill":
        return f"MFill {o[1]} {_b(bytes.fromhex(o[2]))}"
    raise CheckError(f"unknown merlin op {o!r}")


def logs_of(spec, obs, max_ops=400):
    """[(description, ops)] for the prover runs and verifications of one session that carry a merlin log"""
    out = []
    for mi, (ms, mo) in enumerate(zip(spec["members"], obs["members"])):
        if mo.get("merlin") and mo.get("tid") is not None and isinstance(ms.get("ctx"), dict) and len(mo["merlin"]) <= max_ops:
            out.append((f"prover of member {mi}", ctx_ops(mo["tid"], ms["ctx"]) + mo["merlin"]))
    for vi, (vs, vo) in enumerate(zip(spec.get("verifies", []), obs["verifies"])):
        if vo.get("merlin") and vo.get("tids") and len(vo["tids"]) == len(vs["vmembers"]) and len(vo["merlin"]) <= max_ops \
                and all(isinstance(vm.get("ctx"), dict) for vm in vs["vmembers"]):
            pre = []
            for tid, vm in zip(vo["tids"], vs["vmembers"]):
                pre += ctx_ops(tid, vm["ctx"])
            out.append((f"verification {vi}", pre + vo["merlin"]))
    return out


def replay(run, name, logs, shards=8):
    """logs: [(description, ops, replay-info)].  Reports every operation whose observed output the Gallina Merlin does not reproduce."""
    if not logs:
        return 0
    os.makedirs(CASES, exist_ok=True)
    files = []
    for i, (desc, ops, _) in enumerate(logs):
        path = os.path.join(CASES, f"{name}_merlin_{i}.v")
        with open(path, "w") as f:
            f.write(HEADER)
            f.write("Definition ops : list mop := [\n" + ";\n".join(coq_op(o) for o in ops) + "\n].\n")
            f.write("Eval vm_compute in (failing ops).\n")
        files.append(path)

    def one(path):
        r = subprocess.run(["timeout", "900", "coqc", "-noglob", "-Q", COQ, "BP", "-w", "-notation-overridden", path],
                           stdout=subprocess.PIPE, stderr=subprocess.STDOUT, text=True, cwd=CASES)
        if r.returncode != 0:
            raise CheckError(f"coqc failed on {path}: {r.stdout[-1500:]}")
        return parse_N_list(r.stdout)

    with cf.ThreadPoolExecutor(shards) as ex:
        outs = list(ex.map(one, files))
    n_out = 0
    for (desc, ops, info), bad in zip(logs, outs):
        outs_here = len([o for o in ops if o[0] in ("chal", "fill")])
        n_out += outs_here
        run.count(["merlin-replay", len(ops) // 20, outs_here // 4], {"merlin_replay": desc, "operations": len(ops), "outputs_recomputed_in_coq": outs_here})
        if bad:
            o = ops[bad[0]]
            run.violation(f"the Gallina STROBE/Merlin does not reproduce the {o[0]!r} output at operation {bad[0]} of the merlin log of {desc}: the transcript "
                          f"is not being driven through the operations recorded (or merlin changed)", dict(info, kind="merlin-replay", op_index=bad[0], op=o,
                                                                                                         correspondence="Exec/MerlinExec.failing"), no_input=True)
    run.bump("merlin outputs recomputed in Coq (challenges + transcript-RNG draws)", n_out)
    run.bump("merlin logs replayed in Coq", len(logs))
    return n_out


def replay_sessions(run, name, specs, obs, limit):
    """replay the merlin logs of the first `limit` prover runs / verifications of the given sessions"""
    from lib import sessions
    logs = []
    for s, o in zip(specs, obs):
        for d, ops in logs_of(s, o):
            if len(logs) < limit:
                logs.append((f"{d} of session {s.get('id')}", ops, {"spec": sessions.strip(s)}))
    return replay(run, name, logs)


OPS_HEADER = """From Coq Require Import NArith List Uint63 Bool.
From BP Require Import Exec.Limbs Exec.MerlinExec Exec.VerifyExec Exec.MerlinOpsExec Exec.CasesLib.
Import ListNotations. Open Scope N_scope.
"""


def abstract_sessions(run, name, specs, obs, limit):
    """The model's operation lists (Model/Transcript.v `op`, as the per-verification comparison decodes them from the log) interpreted by
    Model/MerlinOps.run_ops over the Gallina Merlin: the challenges it computes must be the bytes the real merlin returned."""
    from lib import vmodel, sessions
    cases, meta = [], []
    for s, o in zip(specs, obs):
        todo = []
        for mi, (ms, mo) in enumerate(zip(s["members"], o["members"])):
            if mo.get("merlin") and mo.get("tid") is not None and isinstance(ms.get("ctx"), dict):
                todo.append((f"prover of member {mi}", mo["merlin"], mo["tid"], ms["ctx"]))
        for vi, (vs, vo) in enumerate(zip(s.get("verifies", []), o["verifies"])):
            if vo.get("merlin") and vo.get("tids") and len(vo["tids"]) == len(vs["vmembers"]):
                for tid, vm in zip(vo["tids"], vs["vmembers"]):
                    if isinstance(vm.get("ctx"), dict):
                        todo.append((f"verification {vi}", vo["merlin"], tid, vm["ctx"]))
        for desc, log, tid, ctx in todo:
            if len(cases) >= limit:
                break
            per, _, _ = vmodel.split_ops(log)
            ops = per.get(tid, [])
            if not ops or len(ops) > 300 or any(x[0] == "app" and x[1] not in vmodel.LABELS for x in ops if not isinstance(x, list)):
                continue
            chal = [x[2] for x in ops if not isinstance(x, list) and x[0] == "chal"]
            if not chal:
                continue
            msgs = coq_list([f"({_b(lab.encode())}, {_b(bytes.fromhex(hx))})" for lab, hx in ctx.get("msgs", [])])
            cases.append(f"chk_ops {_b(ctx['label'].encode())} {msgs} {coq_list(['(' + vmodel.coq_rop(x) + ')' for x in ops])} {coq_list([_b(c) for c in chal])}")
            meta.append((f"{desc} of session {s.get('id')}", len(chal), sessions.strip(s)))
    if not cases:
        return
    bad = coq_eval_bools(name + "_mops", OPS_HEADER, cases, shards=8, per_shard_min=1)
    for d, n, _ in meta:
        run.count(["merlin-ops", n], {"model_operation_list_run_through_gallina_merlin": d, "challenges": n})
    run.bump("model operation lists run through the Gallina Merlin (challenges compared)", len(cases))
    for i in bad:
        run.violation(f"the challenges Model/MerlinOps.run_ops computes from the model's operation list differ from the bytes merlin returned ({meta[i][0]})",
                      {"kind": "merlin-ops", "spec": meta[i][2], "correspondence": "Exec/MerlinOpsExec.chk_ops"}, no_input=True)
