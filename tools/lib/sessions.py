"""Run session specs on the implementation and compare every verification with the Coq verifier model."""
from lib.common import *
import copy
from lib import vmodel


def strip(spec):
    """spec without generator bookkeeping keys (they start with '_')"""
    def clean(x):
        if isinstance(x, dict):
            return {k: clean(v) for k, v in x.items() if not k.startswith("_")}
        if isinstance(x, list):
            return [clean(v) for v in x]
        return x
    return clean(spec)


EMBED_DEFAULT = "1"


def embed_contexts(run, specs):
    """Context embedding: for sessions that verify single (statement, proof, transcript) triples, a few of those triples are verified again
    INSIDE batches of honest proofs — after a larger member, between a smaller and a larger one, before a seeded one, and (when cheap) beyond
    the first internal chunk of 256.  The fillers are honest, so the triple's verdict (and recovered mask) must be what it is alone: a batch is
    accepted iff every member is.  Returns (extended specs, embedding table)."""
    import random as _random
    from lib import gen as _gen
    rng = _random.Random(f"embed:{run.seed}:{run.prop}")
    out, table = [], []
    for s in specs:
        singles = [vi for vi, v in enumerate(s.get("verifies", []))
                   if len(v.get("vmembers", [])) == 1 and all(k in v["vmembers"][0] for k in ("proof", "stmt", "ctx"))]
        ok_shape = singles and s.get("group") in ("fm", "ristretto") and not s.get("_no_embed")
        if ok_shape:
            st0 = s["verifies"][singles[0]]["vmembers"][0]["stmt"]
            bits, T, m = st0["bits"], st0["T"], len(st0["commit"])
            ok_shape = bits * max(2, 2 * m) <= (256 if s.get("group") == "fm" else 64) and not any(k in st0 for k in ("h_scale", "gb_scale", "gb0_eq_cH", "gb_eq"))
        if not ok_shape:
            out.append(s)
            table.append(None)
            continue
        s2 = copy.deepcopy(s)
        old_n = len(s2["members"])
        big = _gen.mk_member(rng, bits, max(2, 2 * m), cap=max(2, 2 * m), T=T, ctx={"label": "embed-big"})
        small = _gen.mk_member(rng, bits, 1, cap=rng.choice([1, 2, 4]), T=T, seed=True, ctx={"label": "embed-small"})
        # degenerate but valid fillers: a zero seed, zero components in the blinding vector, the value 0 — nothing in the protocol excludes them
        variant = rng.choice(["plain", "zero seed", "zero blinding component", "zero blinding vector", "one seed"])
        if variant == "zero seed":
            small["seed"] = _gen.hx(0)
        elif variant == "one seed":
            small["seed"] = _gen.hx(1)
        elif variant == "zero blinding component":
            small["commit"][0]["r"][rng.randrange(T)] = _gen.hx(0)
        elif variant == "zero blinding vector":
            small["commit"][0]["r"] = [_gen.hx(0)] * T
            if int(small["commit"][0]["v"]) == 0 and bits > 0:
                small["commit"][0]["v"] = "1"
                small["promises"][0] = None
        mid = _gen.mk_member(rng, bits, m, cap=2 * m, T=T, ctx={"label": "embed-mid"}, pkinds=["zero" if j % 2 else "rand" for j in range(m)])
        fillers = [big, small, mid]
        seen_ids = set()                     # vmember dicts may be shared between verifications (aliasing survives deepcopy)
        for v in s2["verifies"]:
            for x in v.get("vmembers", []):
                if id(x) in seen_ids:
                    continue
                seen_ids.add(id(x))
                if "proof" in x and x["proof"] >= old_n:
                    x["proof"] += len(fillers)
        for d in s2.get("derived", []):
            if isinstance(d.get("from"), int) and d["from"] >= old_n:      # derived from an earlier derived proof
                d["from"] += len(fillers)
        s2["members"] = s2["members"] + fillers
        fb, fs, fm_ = (_gen.vmember(big, old_n), _gen.vmember(small, old_n + 1), _gen.vmember(mid, old_n + 2))
        emb = []
        # only triples whose statement shares bit length, extension degree and (unaltered) generators with the fillers can sit in one batch with them
        singles = [vi for vi in singles
                   if s2["verifies"][vi]["vmembers"][0]["stmt"]["bits"] == bits and s2["verifies"][vi]["vmembers"][0]["stmt"]["T"] == T
                   and not any(k in s2["verifies"][vi]["vmembers"][0]["stmt"] for k in ("h_scale", "gb_scale", "gb0_eq_cH", "gb_eq"))]
        for vi in rng.sample(singles, min(3, len(singles))):
            v = s2["verifies"][vi]
            t = v["vmembers"][0]
            for cname, before, after in (("after a larger member", [fb], []), ("between a seeded smaller member and a larger one", [fs], [fb]),
                                         ("first, before members of other sizes", [], [fm_, fs]),
                                         ("after a member with spare capacity, before a larger one", [fm_], [fb])):
                emb.append((len(s2["verifies"]), vi, len(before), cname))
                s2["verifies"].append({"mode": v["mode"], "vmembers": before + [t] + after, "log": False})
            if bits * m <= 4 and s.get("group") == "fm" and not emb_has_big(emb):
                emb.append((len(s2["verifies"]), vi, 256, "at position 256 of a batch of 258 (second internal chunk)"))
                s2["verifies"].append({"mode": v["mode"], "vmembers": [fs] * 256 + [t, fm_], "log": False})
        out.append(s2)
        table.append((len(s["verifies"]), emb, old_n, variant))
    return out, table


MODES = ("VerifyOnly", "RecoverAndVerify", "RecoverOnly")


def mode_sweep(run, specs):
    """Mode sweep: a sample of the verifications of every session (and every embedded batch) is run again in the two other modes.  The verdict must be
    the same in the two verifying modes, and whatever recover-and-verify accepts, recover-only must answer with the same results at the same
    positions (C10_batch_verdict_independent_of_seed_and_mode, C10_batch_recover_only_same_masks).  Returns (extended specs, tables)."""
    import random as _random
    rng = _random.Random(f"modes:{run.seed}:{run.prop}")
    out, tables = [], []
    for s in specs:
        vs = s.get("verifies", [])
        cand = [vi for vi, v in enumerate(vs) if v.get("mode") in MODES and 1 <= len(v.get("vmembers", [])) <= 40 and not v.get("_no_modes")
                and all(k in x for x in v["vmembers"] for k in ("proof", "stmt", "ctx"))]
        if not cand or s.get("group") not in ("fm", "ristretto") or s.get("_no_modes"):
            out.append(s)
            tables.append([])
            continue
        late = [vi for vi in cand if vs[vi].get("log") is False]          # embedded batches come last and are unlogged
        pick = sorted(set(rng.sample(cand, min(10, len(cand))) + late[-8:]))
        s2 = dict(s)
        s2["verifies"] = list(vs)
        table = []
        for vi in pick:
            v = vs[vi]
            idx = {v["mode"]: vi}
            for md in MODES:
                if md != v["mode"]:
                    idx[md] = len(s2["verifies"])
                    s2["verifies"].append({"mode": md, "vmembers": v["vmembers"], "log": False})
            if len(v["vmembers"]) >= 2:
                # the same batch once more with the statements that ask for the same parameter set SHARING one parameter object (a caller that builds
                # its parameters once and clones them); results must not depend on object identity
                idx["shared"] = len(s2["verifies"])
                s2["verifies"].append({"mode": v["mode"], "vmembers": v["vmembers"], "log": False, "share_params": True})
                idx["shared_of"] = v["mode"]
            table.append(idx)
        out.append(s2)
        tables.append(table)
    return out, tables


def check_modes(run, s2, o, table):
    for idx in table:
        idx = dict(idx)
        sh, sh_of = idx.pop("shared", None), idx.pop("shared_of", None)
        if sh is not None:
            a, b = o["verifies"][idx[sh_of]], o["verifies"][sh]
            if not a["result"].startswith("unavailable") and not b["result"].startswith("unavailable"):
                run.bump("shared-parameter-object repeats")
                if (a["result"] == "ok") != (b["result"] == "ok") or b["result"].startswith("panic") or (a["result"] == "ok" and a.get("masks") != b.get("masks")):
                    run.violation(f"the result of a batch depends on whether its statements share one parameter object or carry equal ones of their own: "
                                  f"own objects {a['result'][:60]}, shared object {b['result'][:60]}", {"kind": "session", "spec": strip(s2), "verify": sh})
        r = {md: o["verifies"][i] for md, i in idx.items()}
        if any(x["result"].startswith("unavailable") for x in r.values()):
            continue
        run.bump("mode sweeps")
        rp = {"kind": "session", "spec": strip(s2), "verify": idx["RecoverAndVerify"], "same_batch_in_modes": idx}
        for md, x in r.items():
            if x["result"].startswith("panic"):
                run.violation(f"verification panicked in mode {md}: {x['result'][:160]}", dict(rp, verify=idx[md]))
                return
        v_ok, rv_ok, ro_ok = (r[md]["result"] == "ok" for md in MODES)
        if v_ok != rv_ok:
            run.violation(f"the verdict depends on the verifying mode: VerifyOnly {r['VerifyOnly']['result'][:60]}, RecoverAndVerify {r['RecoverAndVerify']['result'][:60]}", rp)
        elif rv_ok and not ro_ok:
            run.violation(f"recover-only returns an error for a batch that recover-and-verify accepts: {r['RecoverOnly']['result'][:80]}", dict(rp, verify=idx["RecoverOnly"]))
        elif rv_ok and r["RecoverOnly"].get("masks") != r["RecoverAndVerify"].get("masks"):
            a, b = r["RecoverAndVerify"].get("masks") or [], r["RecoverOnly"].get("masks") or []
            bad = [i for i in range(max(len(a), len(b))) if (a[i] if i < len(a) else "-") != (b[i] if i < len(b) else "-")]
            run.violation(f"recover-only and recover-and-verify return different results for the same batch (positions {bad[:4]} of {len(a)})", dict(rp, verify=idx["RecoverOnly"]))
        elif v_ok and any(m is not None for m in (r["VerifyOnly"].get("masks") or [])):
            run.violation("verify-only returned a mask", dict(rp, verify=idx["VerifyOnly"]))


def emb_has_big(emb):
    return any(pos == 256 for (_, _, pos, _) in emb)


def check_embeddings(run, s2, o, entry):
    n0, emb, old_n, variant = entry
    for fi, mo in enumerate(o["members"][old_n:old_n + 3]):
        if mo.get("prove") != "ok":
            run.violation(f"the prover refused / failed on a valid witness ({['larger filler', 'seeded filler: ' + variant, 'filler with spare capacity'][fi]}): {str(mo.get('prove'))[:120]}",
                          {"kind": "session", "spec": strip(s2), "member": old_n + fi})
    # the seeded filler is an honest, seeded, non-aggregated member: wherever it sits (embedded batches and their copies in the other modes), a
    # recovering mode that answers Ok must return its blinding vector at its position
    small_mask = s2["members"][old_n + 1]["commit"][0]["r"]
    for xi, (vs_, vo_) in enumerate(zip(s2["verifies"], o["verifies"])):
        if xi < n0 or vo_["result"] != "ok" or vs_.get("mode") == "VerifyOnly":
            continue
        for q, vmq in enumerate(vs_.get("vmembers", [])):
            if vmq.get("proof") == old_n + 1 and vmq.get("stmt", {}).get("seed") and q < len(vo_.get("masks") or []) and vo_["masks"][q] != small_mask:
                run.violation(f"the mask recovered for an honest seeded member ({variant}) at position {q} of a batch of {len(vs_['vmembers'])} (mode {vs_['mode']}) is not its blinding vector",
                              {"kind": "session", "spec": strip(s2), "verify": xi, "position": q})
                return
    for (ei, vi, pos, cname) in emb:
        src, e = o["verifies"][vi], o["verifies"][ei]
        if src["result"].startswith(("unavailable", "panic")) or e["result"].startswith("unavailable"):
            continue
        run.bump("context embeddings")
        a, b = src["result"] == "ok", e["result"] == "ok"
        rp = {"kind": "session", "spec": strip(s2), "verify": ei, "alone": vi, "context": cname}
        if e["result"].startswith("panic"):
            run.violation(f"verification panicked when the triple was verified {cname}: {e['result'][:160]}", rp)
        elif a != b:
            run.violation(f"the verdict on a triple changes when it is verified inside a batch of honest proofs ({cname}): alone {src['result'][:60]}, in the batch {e['result'][:60]}", rp)
        elif a and (e.get("masks") or [None] * (pos + 1))[pos] != (src.get("masks") or [None])[0]:
            run.violation(f"the recovered mask of a triple changes when it is verified inside a batch of honest proofs ({cname})", rp)


def run_sessions(run, specs, oracle=None, relevant=0xFF, model_verify=True, jobs=8, name=None, max_report=6, extra_terms=None, prover_relevant=0xFF):
    """Executes `specs`; calls oracle(run, spec, obs) for the property's direct checks; evaluates the Coq verifier model on every
    FM verification and reports disagreements on the `relevant` code bits.  Returns the observations."""
    name = name or run.prop.lower()
    embed = os.environ.get("VERIF_EMBED", EMBED_DEFAULT) != "0"
    orig_specs = specs
    if embed:
        specs, emb_table = embed_contexts(run, specs)
        specs, mode_table = mode_sweep(run, specs)
    obs = run_harness(["session"], [strip(s) for s in specs], jobs=jobs)
    if embed:
        full_obs = obs
        obs = []
        for s0, s2, o, entry, mt in zip(orig_specs, specs, full_obs, emb_table, mode_table):
            check_modes(run, s2, o, mt)
            if entry is not None:
                check_embeddings(run, s2, o, entry)
            o2 = dict(o)
            o2["verifies"] = o["verifies"][:len(s0.get("verifies", []))]
            o2["members"] = o["members"][:len(s0["members"])]
            obs.append(o2)
        specs = orig_specs
    terms, meta, unknown_masks = [], [], set()
    for s, o in zip(specs, obs):
        if oracle:
            oracle(run, s, o)
        # the parameter set a statement carries must hand out bits * capacity generators per vector (what the constructor was given)
        for mi, (ms, mo) in enumerate(zip(s["members"], o["members"])):
            g = mo.get("gens")
            if g and not s.get("_beyond_constructors") and isinstance(ms.get("bits"), int) and isinstance(ms.get("cap"), int):
                want = ms["bits"] * ms["cap"]
                if len(g["G"]) != want or len(g["Hv"]) != want:
                    run.violation(f"the parameter set carried by the statement of member {mi} hands out {len(g['G'])} / {len(g['Hv'])} vector generators; "
                                  f"bits * capacity = {ms['bits']} * {ms['cap']} = {want} were requested (statement of {len(ms.get('commit') or [])} commitment(s))",
                                  {"kind": "session", "spec": strip(s), "member": mi})
                    break
        # ... and those generators are pairwise distinct points (the premise of binding / soundness: a vector commitment over two equal
        # generators binds only the sum of their coefficients); members whose specs ask for degenerate generators are exempt
        for mi, (ms, mo) in enumerate(zip(s["members"], o["members"])):
            g = mo.get("gens")
            if not g or s.get("_beyond_constructors") or any(ms.get(k) for k in ("h_scale", "gb_scale", "gb0_eq_cH", "gb_eq", "gbc_scale", "hc_scale", "hp_scale", "gbp_scale")):
                continue
            names = ["H"] + [f"Gb[{k}]" for k in range(len(g["Gb"]))] + [f"G[{i}]" for i in range(len(g["G"]))] + [f"H[{i}]" for i in range(len(g["Hv"]))]
            encs = [p_.get("enc") for p_ in [g["H"]] + g["Gb"] + g["G"] + g["Hv"]]
            if None in encs:
                continue
            seen = {}
            for nm, e in zip(names, encs):
                if e in seen:
                    run.violation(f"two generators of the parameter set of member {mi} are the same point: {seen[e]} and {nm} (bits={ms.get('bits')}, capacity={ms.get('cap')}, "
                                  f"T={ms.get('T')}); commitments over them bind only the sum of the two coefficients", {"kind": "session", "spec": strip(s), "member": mi})
                    break
                seen[e] = nm
            else:
                continue
            break
        for vi, v in enumerate(o["verifies"]):
            if v["result"].startswith("panic") and not s.get("_beyond_constructors"):
                run.violation(f"verification panicked: {v['result'][:200]}", {"kind": "session", "spec": strip(s), "verify": vi})
            fins = [x for x in v.get("merlin", []) if x[0] == "fin"]
            if any(x[2] != "00" * 32 for x in fins):
                run.violation("verifier used external randomness (transcript RNG finalised with non-zero bytes)", {"kind": "session", "spec": strip(s), "verify": vi})
        if model_verify and o.get("group") == "fm":
            for vi in range(len(s.get("verifies", []))):
                if s["verifies"][vi].get("log") is False or s.get("log_merlin") is False or s.get("log_msm") is False:
                    continue
                t, info = vmodel.verify_terms(s, o, vi)
                if t is None:
                    continue
                v = o["verifies"][vi]
                # the batch must have gone through all its chunks when it returned Ok
                if v["result"] == "ok" and info["chunks"] != info["chunks_expected"]:
                    run.violation("batch returned Ok without verifying all of its chunks", {"kind": "session", "spec": strip(s), "verify": vi})
                if v["result"] == "ok" and s["verifies"][vi]["mode"] != "RecoverOnly" and (info["started"] != info["chunks_expected"] or not all(info.get("has_msm", [])) or not all(info.get("zero", []))):
                    run.violation("batch returned Ok although a chunk's final multiscalar product was not evaluated or is not the identity",
                                  {"kind": "session", "spec": strip(s), "verify": vi, "info": info})
                for j, tt in enumerate(t):
                    terms.append(tt)
                    meta.append((s, vi, j))
                    if not info["masks_known"][j]:
                        unknown_masks.add(len(terms) - 1)
                if v["result"] == "ok" and len(s["verifies"][vi]["vmembers"]) > 1:
                    n_ = len(s["verifies"][vi]["vmembers"])
                    terms.append(f"(chk_chunks {n_}%nat {coq_list([str(x) + '%nat' for x in info['sizes']])})")
                    meta.append((s, vi, "chunks"))
        if extra_terms:
            for (tt, m) in extra_terms(s, o):
                terms.append(tt)
                meta.append(m)
    bad = vmodel.coq_eval_codes(name, vmodel.VHEADER if not extra_terms else extra_terms.header, terms)
    run.bump("model_evaluations", len(terms))
    nrep = 0
    for i, code in sorted(bad.items()):
        m = meta[i]
        s, vi, j = m
        is_prover = isinstance(vi, str)
        if i in unknown_masks:
            code &= ~2
        code_rel = (code & prover_relevant) if is_prover else (code & relevant)
        if not code_rel:
            continue
        nrep += 1
        if nrep > max_report:
            break
        run.corr_broken.append((s, vi, code_rel))
        if is_prover:
            from lib import pmodel
            what = "prover: " + pmodel.pexplain(code_rel)
            corr = "Exec/ProveExec.chk_prove"
        else:
            what = vmodel.explain(code_rel)
            corr = "Exec/VerifyExec.chk_verify"
        run.violation(f"model and implementation disagree on: {what} (session {s.get('id')}, {'member' if is_prover else 'verification'} {j if is_prover else vi})",
                      {"kind": "session", "spec": strip(s), "verify": vi, "code": code, "correspondence": corr},
                      no_input=True)
    return obs


def replay_session(rp):
    r = rp["replay"]
    if r.get("kind") == "forge":
        # an independent-prover run that stopped: show what the verifier says to a library-made proof under that statement
        from lib import gen
        import random
        st = r["stmt"]
        mem = gen.mk_member(random.Random(1), st["bits"], len(st["commit"]), cap=st["cap"], T=st["T"], ctx=r["ctx"])
        spec = {"id": "replay", "group": "fm", "members": [mem], "with_gens": False,
                "verifies": [{"mode": "VerifyOnly", "vmembers": [{"proof": 0, "stmt": st, "ctx": r["ctx"]}]}]}
        rec = run_harness(["session"], [spec])[0]
        print("recorded:", r["job"])
        print("verifier on this statement with an unrelated proof:", rec["verifies"][0]["result"])
        return 0
    rec = run_harness(["session"], [r["spec"]], profile=r.get("profile", "release"))[0]
    for i, m in enumerate(rec["members"]):
        print(f"member {i}: statement={m.get('statement')} witness={m.get('witness')} prove={m.get('prove')}")
    for i, d in enumerate(rec.get("derived", [])):
        print(f"derived {i}: decode={d.get('decode')}")
    for i, v in enumerate(rec["verifies"]):
        print(f"verify {i}: {v['result']} masks={v.get('masks')}")
    return 0
