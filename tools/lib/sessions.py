"""Run session specs on the implementation and compare every verification with the Coq verifier model."""
from lib.common import *
from lib import vmodel


def strip(spec):
    """spec without generator bookkeeping keys (they start with '_')"""
    def clean(x):
        if isinstance(x, dict):
            return {k: clean(v) for k, v in x.items() if not k.startswith("_")}
        if isinstance(x, list):
            return [clean(v) for v in x]
        return x
    return clean(spec)


def run_sessions(run, specs, oracle=None, relevant=0xFF, model_verify=True, jobs=8, name=None, max_report=6, extra_terms=None, prover_relevant=0xFF):
    """Executes `specs`; calls oracle(run, spec, obs) for the property's direct checks; evaluates the Coq verifier model on every
    FM verification and reports disagreements on the `relevant` code bits.  Returns the observations."""
    name = name or run.prop.lower()
    obs = run_harness(["session"], [strip(s) for s in specs], jobs=jobs)
    terms, meta, unknown_masks = [], [], set()
    for s, o in zip(specs, obs):
        if oracle:
            oracle(run, s, o)
        for vi, v in enumerate(o["verifies"]):
            if v["result"].startswith("panic"):
                run.violation(f"verification panicked: {v['result'][:200]}", {"kind": "session", "spec": strip(s), "verify": vi})
            fins = [x for x in v.get("merlin", []) if x[0] == "fin"]
            if any(x[2] != "00" * 32 for x in fins):
                run.violation("verifier used external randomness (transcript RNG finalised with non-zero bytes)", {"kind": "session", "spec": strip(s), "verify": vi})
        if model_verify and o.get("group") == "fm":
            for vi in range(len(s.get("verifies", []))):
                if s["verifies"][vi].get("log") is False or s.get("log_merlin") is False or s.get("log_msm") is False:
                    continue
                t, info = vmodel.verify_terms(s, o, vi)
                if t is None:
                    continue
                v = o["verifies"][vi]
                # the batch must have gone through all its chunks when it returned Ok
                if v["result"] == "ok" and info["chunks"] != info["chunks_expected"]:
                    run.violation("batch returned Ok without verifying all of its chunks", {"kind": "session", "spec": strip(s), "verify": vi})
                if v["result"] == "ok" and s["verifies"][vi]["mode"] != "RecoverOnly" and (info["started"] != info["chunks_expected"] or not all(info.get("has_msm", [])) or not all(info.get("zero", []))):
                    run.violation("batch returned Ok although a chunk's final multiscalar product was not evaluated or is not the identity",
                                  {"kind": "session", "spec": strip(s), "verify": vi, "info": info})
                for j, tt in enumerate(t):
                    terms.append(tt)
                    meta.append((s, vi, j))
                    if not info["masks_known"][j]:
                        unknown_masks.add(len(terms) - 1)
                if v["result"] == "ok" and len(s["verifies"][vi]["vmembers"]) > 1:
                    n_ = len(s["verifies"][vi]["vmembers"])
                    terms.append(f"(chk_chunks {n_}%nat {coq_list([str(x) + '%nat' for x in info['sizes']])})")
                    meta.append((s, vi, "chunks"))
        if extra_terms:
            for (tt, m) in extra_terms(s, o):
                terms.append(tt)
                meta.append(m)
    bad = vmodel.coq_eval_codes(name, vmodel.VHEADER if not extra_terms else extra_terms.header, terms)
    run.bump("model_evaluations", len(terms))
    nrep = 0
    for i, code in sorted(bad.items()):
        m = meta[i]
        s, vi, j = m
        is_prover = isinstance(vi, str)
        if i in unknown_masks:
            code &= ~2
        code_rel = (code & prover_relevant) if is_prover else (code & relevant)
        if not code_rel:
            continue
        nrep += 1
        if nrep > max_report:
            break
        run.corr_broken.append((s, vi, code_rel))
        if is_prover:
            from lib import pmodel
            what = "prover: " + pmodel.pexplain(code_rel)
            corr = "Exec/ProveExec.chk_prove"
        else:
            what = vmodel.explain(code_rel)
            corr = "Exec/VerifyExec.chk_verify"
        run.violation(f"model and implementation disagree on: {what} (session {s.get('id')}, {'member' if is_prover else 'verification'} {j if is_prover else vi})",
                      {"kind": "session", "spec": strip(s), "verify": vi, "code": code, "correspondence": corr},
                      no_input=True)
    return obs


def replay_session(rp):
    r = rp["replay"]
    rec = run_harness(["session"], [r["spec"]])[0]
    for i, m in enumerate(rec["members"]):
        print(f"member {i}: statement={m.get('statement')} witness={m.get('witness')} prove={m.get('prove')}")
    for i, d in enumerate(rec.get("derived", [])):
        print(f"derived {i}: decode={d.get('decode')}")
    for i, v in enumerate(rec["verifies"]):
        print(f"verify {i}: {v['result']} masks={v.get('masks')}")
    return 0
