"""Run session specs on the implementation and compare every verification with the Coq verifier model."""
from lib.common import *
import copy
from lib import vmodel


def strip(spec):
    """spec without generator bookkeeping keys (they start with '_')"""
    def clean(x):
        if isinstance(x, dict):
            return {k: clean(v) for k, v in x.items() if not k.startswith("_")}
        if isinstance(x, list):
            return [clean(v) for v in x]
        return x
    return clean(spec)


EMBED_DEFAULT = "1"


def embed_contexts(run, specs):
    """Context embedding: for sessions that verify single (statement, proof, transcript) triples, a few of those triples are verified again
    INSIDE batches of honest proofs — after a larger member, between a smaller and a larger one, before a seeded one, and (when cheap) beyond
    the first internal chunk of 256.  The fillers are honest, so the triple's verdict (and recovered mask) must be what it is alone: a batch is
    accepted iff every member is.  Returns (extended specs, embedding table)."""
    import random as _random
    from lib import gen as _gen
    rng = _random.Random(f"embed:{run.seed}:{run.prop}")
    out, table = [], []
    for s in specs:
        singles = [vi for vi, v in enumerate(s.get("verifies", []))
                   if len(v.get("vmembers", [])) == 1 and all(k in v["vmembers"][0] for k in ("proof", "stmt", "ctx"))]
        ok_shape = singles and s.get("group") in ("fm", "ristretto") and not s.get("_no_embed")
        if ok_shape:
            st0 = s["verifies"][singles[0]]["vmembers"][0]["stmt"]
            bits, T, m = st0["bits"], st0["T"], len(st0["commit"])
            ok_shape = bits * max(2, 2 * m) <= (256 if s.get("group") == "fm" else 64) and not any(k in st0 for k in ("h_scale", "gb_scale", "gb0_eq_cH", "gb_eq"))
        if not ok_shape:
            out.append(s)
            table.append(None)
            continue
        s2 = copy.deepcopy(s)
        old_n = len(s2["members"])
        big = _gen.mk_member(rng, bits, max(2, 2 * m), cap=max(2, 2 * m), T=T, ctx={"label": "embed-big"})
        small = _gen.mk_member(rng, bits, 1, cap=1, T=T, seed=True, ctx={"label": "embed-small"})
        mid = _gen.mk_member(rng, bits, m, cap=2 * m, T=T, ctx={"label": "embed-mid"}, pkinds=["zero" if j % 2 else "rand" for j in range(m)])
        fillers = [big, small, mid]
        seen_ids = set()                     # vmember dicts may be shared between verifications (aliasing survives deepcopy)
        for v in s2["verifies"]:
            for x in v.get("vmembers", []):
                if id(x) in seen_ids:
                    continue
                seen_ids.add(id(x))
                if "proof" in x and x["proof"] >= old_n:
                    x["proof"] += len(fillers)
        for d in s2.get("derived", []):
            if isinstance(d.get("from"), int) and d["from"] >= old_n:      # derived from an earlier derived proof
                d["from"] += len(fillers)
        s2["members"] = s2["members"] + fillers
        fb, fs, fm_ = (_gen.vmember(big, old_n), _gen.vmember(small, old_n + 1), _gen.vmember(mid, old_n + 2))
        emb = []
        # only triples whose statement shares bit length, extension degree and (unaltered) generators with the fillers can sit in one batch with them
        singles = [vi for vi in singles
                   if s2["verifies"][vi]["vmembers"][0]["stmt"]["bits"] == bits and s2["verifies"][vi]["vmembers"][0]["stmt"]["T"] == T
                   and not any(k in s2["verifies"][vi]["vmembers"][0]["stmt"] for k in ("h_scale", "gb_scale", "gb0_eq_cH", "gb_eq"))]
        for vi in rng.sample(singles, min(3, len(singles))):
            v = s2["verifies"][vi]
            t = v["vmembers"][0]
            for cname, before, after in (("after a larger member", [fb], []), ("between a seeded smaller member and a larger one", [fs], [fb]),
                                         ("first, before members of other sizes", [], [fm_, fs])):
                emb.append((len(s2["verifies"]), vi, len(before), cname))
                s2["verifies"].append({"mode": v["mode"], "vmembers": before + [t] + after, "log": False})
            if bits * m <= 4 and s.get("group") == "fm" and not emb_has_big(emb):
                emb.append((len(s2["verifies"]), vi, 256, "at position 256 of a batch of 258 (second internal chunk)"))
                s2["verifies"].append({"mode": v["mode"], "vmembers": [fs] * 256 + [t, fm_], "log": False})
        out.append(s2)
        table.append((len(s["verifies"]), emb))
    return out, table


def emb_has_big(emb):
    return any(pos == 256 for (_, _, pos, _) in emb)


def check_embeddings(run, s2, o, entry):
    n0, emb = entry
    for (ei, vi, pos, cname) in emb:
        src, e = o["verifies"][vi], o["verifies"][ei]
        if src["result"].startswith(("unavailable", "panic")) or e["result"].startswith("unavailable"):
            continue
        run.bump("context embeddings")
        a, b = src["result"] == "ok", e["result"] == "ok"
        rp = {"kind": "session", "spec": strip(s2), "verify": ei, "alone": vi, "context": cname}
        if e["result"].startswith("panic"):
            run.violation(f"verification panicked when the triple was verified {cname}: {e['result'][:160]}", rp)
        elif a != b:
            run.violation(f"the verdict on a triple changes when it is verified inside a batch of honest proofs ({cname}): alone {src['result'][:60]}, in the batch {e['result'][:60]}", rp)
        elif a and (e.get("masks") or [None] * (pos + 1))[pos] != (src.get("masks") or [None])[0]:
            run.violation(f"the recovered mask of a triple changes when it is verified inside a batch of honest proofs ({cname})", rp)


def run_sessions(run, specs, oracle=None, relevant=0xFF, model_verify=True, jobs=8, name=None, max_report=6, extra_terms=None, prover_relevant=0xFF):
    """Executes `specs`; calls oracle(run, spec, obs) for the property's direct checks; evaluates the Coq verifier model on every
    FM verification and reports disagreements on the `relevant` code bits.  Returns the observations."""
    name = name or run.prop.lower()
    embed = os.environ.get("VERIF_EMBED", EMBED_DEFAULT) != "0"
    orig_specs = specs
    if embed:
        specs, emb_table = embed_contexts(run, specs)
    obs = run_harness(["session"], [strip(s) for s in specs], jobs=jobs)
    if embed:
        full_obs = obs
        obs = []
        for s0, s2, o, entry in zip(orig_specs, specs, full_obs, emb_table):
            if entry is None:
                obs.append(o)
                continue
            check_embeddings(run, s2, o, entry)
            o2 = dict(o)
            o2["verifies"] = o["verifies"][:entry[0]]
            o2["members"] = o["members"][:len(s0["members"])]
            obs.append(o2)
        specs = orig_specs
    terms, meta, unknown_masks = [], [], set()
    for s, o in zip(specs, obs):
        if oracle:
            oracle(run, s, o)
        for vi, v in enumerate(o["verifies"]):
            if v["result"].startswith("panic"):
                run.violation(f"verification panicked: {v['result'][:200]}", {"kind": "session", "spec": strip(s), "verify": vi})
            fins = [x for x in v.get("merlin", []) if x[0] == "fin"]
            if any(x[2] != "00" * 32 for x in fins):
                run.violation("verifier used external randomness (transcript RNG finalised with non-zero bytes)", {"kind": "session", "spec": strip(s), "verify": vi})
        if model_verify and o.get("group") == "fm":
            for vi in range(len(s.get("verifies", []))):
                if s["verifies"][vi].get("log") is False or s.get("log_merlin") is False or s.get("log_msm") is False:
                    continue
                t, info = vmodel.verify_terms(s, o, vi)
                if t is None:
                    continue
                v = o["verifies"][vi]
                # the batch must have gone through all its chunks when it returned Ok
                if v["result"] == "ok" and info["chunks"] != info["chunks_expected"]:
                    run.violation("batch returned Ok without verifying all of its chunks", {"kind": "session", "spec": strip(s), "verify": vi})
                if v["result"] == "ok" and s["verifies"][vi]["mode"] != "RecoverOnly" and (info["started"] != info["chunks_expected"] or not all(info.get("has_msm", [])) or not all(info.get("zero", []))):
                    run.violation("batch returned Ok although a chunk's final multiscalar product was not evaluated or is not the identity",
                                  {"kind": "session", "spec": strip(s), "verify": vi, "info": info})
                for j, tt in enumerate(t):
                    terms.append(tt)
                    meta.append((s, vi, j))
                    if not info["masks_known"][j]:
                        unknown_masks.add(len(terms) - 1)
                if v["result"] == "ok" and len(s["verifies"][vi]["vmembers"]) > 1:
                    n_ = len(s["verifies"][vi]["vmembers"])
                    terms.append(f"(chk_chunks {n_}%nat {coq_list([str(x) + '%nat' for x in info['sizes']])})")
                    meta.append((s, vi, "chunks"))
        if extra_terms:
            for (tt, m) in extra_terms(s, o):
                terms.append(tt)
                meta.append(m)
    bad = vmodel.coq_eval_codes(name, vmodel.VHEADER if not extra_terms else extra_terms.header, terms)
    run.bump("model_evaluations", len(terms))
    nrep = 0
    for i, code in sorted(bad.items()):
        m = meta[i]
        s, vi, j = m
        is_prover = isinstance(vi, str)
        if i in unknown_masks:
            code &= ~2
        code_rel = (code & prover_relevant) if is_prover else (code & relevant)
        if not code_rel:
            continue
        nrep += 1
        if nrep > max_report:
            break
        run.corr_broken.append((s, vi, code_rel))
        if is_prover:
            from lib import pmodel
            what = "prover: " + pmodel.pexplain(code_rel)
            corr = "Exec/ProveExec.chk_prove"
        else:
            what = vmodel.explain(code_rel)
            corr = "Exec/VerifyExec.chk_verify"
        run.violation(f"model and implementation disagree on: {what} (session {s.get('id')}, {'member' if is_prover else 'verification'} {j if is_prover else vi})",
                      {"kind": "session", "spec": strip(s), "verify": vi, "code": code, "correspondence": corr},
                      no_input=True)
    return obs


def replay_session(rp):
    r = rp["replay"]
    if r.get("kind") == "forge":
        # an independent-prover run that stopped: show what the verifier says to a library-made proof under that statement
        from lib import gen
        import random
        st = r["stmt"]
        mem = gen.mk_member(random.Random(1), st["bits"], len(st["commit"]), cap=st["cap"], T=st["T"], ctx=r["ctx"])
        spec = {"id": "replay", "group": "fm", "members": [mem], "with_gens": False,
                "verifies": [{"mode": "VerifyOnly", "vmembers": [{"proof": 0, "stmt": st, "ctx": r["ctx"]}]}]}
        rec = run_harness(["session"], [spec])[0]
        print("recorded:", r["job"])
        print("verifier on this statement with an unrelated proof:", rec["verifies"][0]["result"])
        return 0
    rec = run_harness(["session"], [r["spec"]])[0]
    for i, m in enumerate(rec["members"]):
        print(f"member {i}: statement={m.get('statement')} witness={m.get('witness')} prove={m.get('prove')}")
    for i, d in enumerate(rec.get("derived", [])):
        print(f"derived {i}: decode={d.get('decode')}")
    for i, v in enumerate(rec["verifies"]):
        print(f"verify {i}: {v['result']} masks={v.get('masks')}")
    return 0
