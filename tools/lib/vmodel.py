"""Translate an observed verification (harness session record) into terms for the Coq checker
Exec/VerifyExec.chk_verify, one per chunk of 256 members."""
import hashlib
from lib.common import *

LABELS = {"dom-sep": 0, "H": 1, "G": 2, "N": 3, "T": 4, "M": 5, "Ci": 6, "vi - minimum_value": 7, "A": 8, "y": 9, "z": 10,
          "L": 11, "R": 12, "e": 13, "A1": 14, "B": 15, "r1": 16, "s1": 17, "d1": 18, "proof": 19}
NL = {"alpha": 0, "dL": 1, "dR": 2, "d": 3, "eta": 4}
MODES = {"VerifyOnly": 0, "RecoverAndVerify": 1, "RecoverOnly": 2}

VHEADER = """From Coq Require Import ZArith NArith List Uint63 Bool.
From BP Require Import Exec.CasesLib Exec.Limbs Exec.Zl Exec.VerifyExec.
Import ListNotations. Open Scope N_scope.
"""


def nonce(seed_bytes, label, j, k):
    """independent re-implementation of the documented seed-nonce derivation (src/utils/generic.rs:30-60)"""
    key = b"\x00" + seed_bytes
    if j is not None:
        key += b"j" + int(j).to_bytes(4, "little")
    if k is not None:
        key += b"k" + int(k).to_bytes(4, "little")
    d = hashlib.blake2b(b"", key=key, person=label.encode(), digest_size=64).digest()
    return int.from_bytes(d, "little") % L


def nonce_table(seed_hex, T, rounds):
    sb = bytes.fromhex(seed_hex)
    rows = []
    for k in range(T):
        for lab in ("alpha", "d", "eta"):
            rows.append((lab, None, k, nonce(sb, lab, None, k)))
        for j in range(rounds):
            rows.append(("dL", j, k, nonce(sb, "dL", j, k)))
            rows.append(("dR", j, k, nonce(sb, "dR", j, k)))
    return rows


def coq_nonces(rows):
    return coq_list([f"({NL[l]}%N, {coq_opt(None if j is None else str(j) + '%nat')}, {k}%nat, {sc(v)})" for (l, j, k, v) in rows])


def lim(hexstr, n=5):
    return limbs_of_int(int_of_hex_le(hexstr), n)


def split_ops(ops):
    """group a merlin op log by transcript: returns {tid: [normalised ops]}, plus rid->tid and the `new` order"""
    rid2tid, per, news, fin_random = {}, {}, [], []
    for o in ops:
        k = o[0]
        if k == "new":
            news.append((o[1], o[2]))
            per.setdefault(o[1], [])
        elif k == "app":
            per.setdefault(o[1], []).append(("app", o[2], bytes.fromhex(o[3])))
        elif k == "chal":
            per.setdefault(o[1], []).append(("chal", o[2], bytes.fromhex(o[3])))
        elif k == "rng":
            rid2tid[o[2]] = o[1]
            per.setdefault(o[1], []).append(["rng", None, None])
        elif k == "rekey":
            t = rid2tid[o[1]]
            # attach to the most recent rng op of that transcript
            for x in reversed(per[t]):
                if isinstance(x, list) and x[0] == "rng":
                    x[1] = bytes.fromhex(o[3])
                    x[2] = o[2]
                    break
        elif k == "fin":
            fin_random.append((rid2tid[o[1]], bytes.fromhex(o[2])))
        elif k == "fill":
            per.setdefault(rid2tid[o[1]], []).append(("fill", None, bytes.fromhex(o[2])))
        elif k == "clone":
            pass
    return per, news, fin_random


def coq_rop(o):
    k = o[0]
    if k == "app":
        code = LABELS.get(o[1], 20)
        n = len(o[2])
        return f"mkRop 0 {code} {n}%nat {limbs_of_int(int.from_bytes(o[2], 'little'), max(1, (8 * n + 59) // 60))}"
    if k == "chal":
        return f"mkRop 1 {LABELS.get(o[1], 20)} {len(o[2])}%nat []%uint63"
    if k == "rng":
        if o[1] is None:
            return "mkRop 2 0 0%nat []%uint63"
        n = len(o[1])
        return f"mkRop 2 0 {n}%nat {limbs_of_int(int.from_bytes(o[1], 'little'), max(1, (8 * n + 59) // 60))}"
    return f"mkRop 3 0 {len(o[2])}%nat []%uint63"


def proof_points(pj):
    """(name, enc hex, undecodable?) of a proof's points in the model's dynamic order after the commitments"""
    out = [("A1", pj["a1"]), ("B", pj["b"]), ("A", pj["a"])]
    out += [(f"L{j}", p) for j, p in enumerate(pj["li"])]
    out += [(f"R{j}", p) for j, p in enumerate(pj["ri"])]
    return out


def coq_rmember(stm, vm_spec, commit_encs, pj, chal, nonces, ops):
    """stm: harness `stmts` entry; vm_spec: the vmember's stmt spec; pj: proof json; chal: list of 64-byte challenge outputs"""
    rounds = len(pj["li"])
    want = 3 + rounds
    ch = [int.from_bytes(c, "little") for c in chal] + [0] * (want - len(chal))
    y, z, es, e = ch[0], ch[1], ch[2:2 + rounds], ch[2 + rounds]
    undec = any(p.get("undecodable") for p in [pj["a"], pj["a1"], pj["b"]] + pj["li"] + pj["ri"])
    promises = (vm_spec.get("raw_fields") or {}).get("promises", vm_spec["promises"])        # statements written through their public fields
    prom = coq_list([coq_opt(None if p is None else str(int(p)) + "%N") for p in promises])
    w = lambda x: limbs_of_int(x, 9)
    return ("(mkR " + " ".join([
        f"{stm['bits']}%nat", f"{stm['cap']}%nat", f"{stm['T']}%nat",
        lim(stm["H"]), coq_list([lim(g) for g in stm["Gb"]]), "0%N",
        coq_list([lim(c) for c in commit_encs]), prom, coq_bool(vm_spec.get("seed") is not None),
        f"{pj['tag']}%N", coq_list([lim(d) for d in pj["d1"]]), lim(pj["a"]["enc"]), lim(pj["a1"]["enc"]), lim(pj["b"]["enc"]),
        lim(pj["r1"]), lim(pj["s1"]), coq_list([lim(p["enc"]) for p in pj["li"]]), coq_list([lim(p["enc"]) for p in pj["ri"]]),
        coq_bool(undec), w(y), w(z), coq_list([w(x) for x in es]), w(e),
        coq_nonces(nonces), coq_list([coq_rop(o) for o in ops]),
    ]) + ")")


def pool_proof(obs, idx):
    nm = len(obs["members"])
    if idx < nm:
        return obs["members"][idx].get("proof")
    return obs["derived"][idx - nm].get("proof")


def verify_terms(spec, obs, vi):
    """Coq terms (one per chunk) checking verification #vi of a session; returns (terms, info) or (None, reason)"""
    v = spec["verifies"][vi]
    o = obs["verifies"][vi]
    res = o["result"]
    panicked = res.startswith("panic")
    if res.startswith("unavailable") or (panicked and not spec.get("_beyond_constructors")):
        return None, res
    vms = v["vmembers"]
    n = len(vms)
    if not (all("proof" in m and "stmt" in m and "ctx" in m for m in vms)):
        return None, "length-mismatch batch (checked by the shape oracle, not the chunk model)"
    per, news, fin_random = split_ops(o["merlin"])
    tids = o["tids"]
    wtids = [t for (t, lab) in news if lab == "Bulletproofs+ verifier weights"]
    msms = o["msm"]
    ok = res == "ok"
    masks = o.get("masks") if ok else None
    terms, info = [], {"chunks": 0, "zero_fin": all(r == bytes(32) for (_, r) in fin_random)}
    nchunks = (n + 255) // 256
    started = len(wtids)
    mi = 0  # index into msm calls
    for c in range(nchunks):
        lo, hi = 256 * c, min(n, 256 * (c + 1))
        if c >= max(1, started) and not ok:
            break  # the implementation stopped before this chunk
        last_started = (c == started - 1) or started == 0
        chunk_ok = ok or not last_started
        rms, dyn_encs = [], []
        for i in range(lo, hi):
            vm = vms[i]
            pj = pool_proof(obs, vm["proof"])
            stm = o["stmts"][i]
            cenc = [c_["enc"] for c_ in o["commitments"][i]]
            tid = tids[i]
            ops = [x for x in per.get(tid, [])]
            chal = [x[2] for x in ops if x[0] == "chal"]
            rounds = len(pj["li"])
            nonces = nonce_table(vm["stmt"]["seed"], stm["T"], rounds) if vm["stmt"].get("seed") else []
            rms.append(coq_rmember(stm, vm["stmt"], cenc, pj, chal, nonces, ops))
            dyn_encs += cenc + [p["enc"] for (_, p) in proof_points(pj)]
        st0 = o["stmts"][lo]
        dyn_encs += st0["Gb"] + [st0["H"]]
        wops = per.get(wtids[c], []) if c < len(wtids) else []
        draws = [x[2] for x in wops if x[0] == "fill"]
        u64s = [int.from_bytes(x[2], "little") for x in wops if x[0] == "app" and x[1] == "proof"]
        # the MSM call of this chunk (absent if the chunk stopped early or in RecoverOnly)
        has_msm = (v["mode"] != "RecoverOnly") and mi < len(msms) and (chunk_ok or (last_started and len(draws) >= 1 and len(msms) > mi))
        call = None
        if v["mode"] != "RecoverOnly" and mi < len(msms):
            # an MSM call belongs to this chunk iff all of the chunk's weights were drawn
            if len([d for d in draws if int.from_bytes(d, "little") % L != 0]) >= hi - lo:
                call = msms[mi]
                mi += 1
        if call is not None:
            static = [lim(s) for s in call["static"]]
            tot = {}
            for s_, p_ in zip(call["dyn"], call["dyn_points"]):
                tot[p_] = (tot.get(p_, 0) + int_of_hex_le(s_)) % L
            groups, seen = [], {}
            for pos, e_ in enumerate(dyn_encs):
                if e_ not in seen:
                    seen[e_] = len(groups)
                    groups.append([])
                groups[seen[e_]].append(pos)
            obs_dyn = [tot.get(e_, 0) for e_ in seen]
            for e_ in tot:
                if e_ not in seen:
                    groups.append([])
                    obs_dyn.append(tot[e_])
            zero = call["zero"]
        else:
            static, groups, obs_dyn, zero = [], [], [], False
        if chunk_ok and masks is not None:
            cm = masks[lo:hi]
        else:
            cm = []
        coq_masks = coq_list([coq_opt(None if m is None else coq_list([lim(x) for x in m])) for m in cm])
        terms.append("(chk_verify " + " ".join([
            f"{MODES[v['mode']]}%N", coq_list(rms), coq_list([limbs_of_int(int.from_bytes(d, 'little'), 9) for d in draws]),
            coq_list([f"{u}%N" for u in u64s]), coq_list([coq_rop(x) for x in wops]), coq_bool(zero), coq_bool(chunk_ok), coq_bool(panicked and last_started), coq_masks,
            coq_list(static), coq_list(["[" + ";".join(f"{p}%nat" for p in g) + "]" for g in groups]),
            coq_list([sc(x) for x in obs_dyn]),
        ]) + ")")
        info["chunks"] += 1
        # the masks of a chunk that passed are not observable when a LATER chunk fails (verify_batch then returns only the error)
        info.setdefault("masks_known", []).append(not (chunk_ok and masks is None))
        info.setdefault("zero", []).append(zero)
        info.setdefault("has_msm", []).append(call is not None)
    # chunk sizes as the implementation went through them: members absorbed by each weight transcript
    info["sizes"] = [len([x for x in per.get(t, []) if x[0] == "app" and x[1] == "proof"]) for t in wtids]
    info["chunks_expected"] = nchunks
    info["started"] = started
    return terms, info


def coq_eval_codes(name, header, cases, shards=8, timeout=3000, per_shard_min=2):
    """cases: Coq terms of type N (0 = agreement).  Returns {index: code} for the non-zero ones."""
    os.makedirs(CASES, exist_ok=True)
    n = len(cases)
    if n == 0:
        return {}
    shards = max(1, min(shards, (n + per_shard_min - 1) // per_shard_min))
    bounds = [(i * n) // shards for i in range(shards + 1)]
    files = []
    for s in range(shards):
        lo, hi = bounds[s], bounds[s + 1]
        path = os.path.join(CASES, f"{name}_{s}.v")
        with open(path, "w") as f:
            f.write(header + "\n")
            f.write("Definition results : list N := [\n" + ";\n".join(cases[lo:hi]) + "\n].\n")
            f.write("Eval vm_compute in (nonzero_codes 0%N results).\n")
        files.append((path, lo))

    def one(arg):
        path, lo = arg
        r = subprocess.run(["timeout", str(timeout), "coqc", "-noglob", "-Q", COQ, "BP", "-w", "-notation-overridden", path],
                           stdout=subprocess.PIPE, stderr=subprocess.STDOUT, text=True, cwd=CASES)
        if r.returncode != 0:
            raise CheckError(f"coqc failed on {path}: {r.stdout[-2000:]}")
        m = re.findall(r"=\s*\[(.*?)\]\s*:\s*list", r.stdout, re.S)
        if not m:
            if re.search(r"=\s*nil", r.stdout):
                return {}
            raise CheckError("cannot parse coqc output: " + r.stdout[-1500:])
        body = m[-1].strip()
        out = {}
        for a, b in re.findall(r"\(\s*(\d+)(?:%N)?\s*,\s*(\d+)(?:%N)?\s*\)", body):
            out[lo + int(a)] = int(b)
        return out

    with cf.ThreadPoolExecutor(shards) as ex:
        outs = list(ex.map(one, files))
    res = {}
    for o in outs:
        res.update(o)
    return res


CODE_BITS = {1: "Ok/Err class", 2: "recovered masks", 4: "G_i/H_i (static) scalars", 8: "dynamic-point scalars",
             16: "per-proof transcript operations before the last challenge", 32: "weight-transcript operations",
             64: "guard order (the model refuses the batch at the statement/generator consistency checks, the implementation went on to the transcripts)",
             128: "per-proof transcript operations (incl. response scalars bound for the batch weight)",
             256: "chunking of the batch (sizes of the internal chunks vs Model/VerifyTop.chunks_of)",
             1024: "value / error / panic outcome of the three-valued model (Model/CheckedTop.verify_chunk_chk)"}


def explain(code):
    return ", ".join(v for k, v in CODE_BITS.items() if code & k)
