"""Generators of session specs (see harness/src/session.rs) shared by the property checks."""
import copy
from lib.common import L


def hx(x, n=32):
    return int(x).to_bytes(n, "little").hex()


def rscalar(rng, nonzero=True):
    while True:
        x = rng.randrange(L)
        if x or not nonzero:
            return x


def pick_value(rng, bits, promise=None, kind=None):
    top = (1 << bits) - 1
    lo = promise or 0
    kinds = ["zero", "max", "eq", "eq1", "half", "tophalf", "rand"]
    kind = kind or rng.choice(kinds)
    # the witness relation is promise <= v and v - promise < 2^bits (v itself < 2^bits is checked too)
    if kind == "zero":
        v = lo
    elif kind == "max":
        v = top
    elif kind == "eq":
        v = lo
    elif kind == "eq1":
        v = min(top, lo + 1)
    elif kind == "half":
        v = max(lo, 1 << (bits - 1))
    elif kind == "tophalf":
        v = rng.randrange(max(lo, 1 << (bits - 1)), top + 1)
    else:
        v = rng.randrange(lo, top + 1)
    return v, kind


def pick_promise(rng, bits, kind=None):
    top = (1 << bits) - 1
    kind = kind or rng.choice(["none", "none", "zero", "mid", "max", "rand"])
    if kind == "none":
        return None, kind
    if kind == "zero":
        return 0, kind
    if kind == "mid":
        return top // 2, kind
    if kind == "max":
        return top, kind
    return rng.randrange(top + 1), kind


def mk_member(rng, bits, m, cap=None, T=1, seed=False, ctx=None, rngspec=None, pkinds=None, vkinds=None, distinct_r=True):
    """A valid (statement, witness) member spec."""
    cap = cap or m
    commit, promises, pk, vk = [], [], [], []
    for j in range(m):
        p, k1 = pick_promise(rng, bits, pkinds[j] if pkinds else None)
        v, k2 = pick_value(rng, bits, p, vkinds[j] if vkinds else None)
        r = [rscalar(rng) for _ in range(T)]
        commit.append({"v": str(v), "r": [hx(x) for x in r]})
        promises.append(None if p is None else str(p))
        pk.append(k1)
        vk.append(k2)
    return {
        "bits": bits, "cap": cap, "T": T, "commit": commit, "promises": promises,
        "seed": hx(rscalar(rng)) if seed else None,
        "ctx": ctx or {"label": "bpv-ctx"},
        "rng": rngspec or {"kind": "chacha", "seed": rng.randrange(1 << 32)},
        "_kinds": {"promise": pk, "value": vk},
    }


def stmt_of(member, **over):
    """the verification-side statement spec of a member (optionally overriding fields)"""
    s = {k: copy.deepcopy(member[k]) for k in ("bits", "cap", "T", "commit", "promises", "seed") if k in member}
    for k in ("gb0_eq_cH", "h_scale", "gb_scale"):
        if k in member:
            s[k] = member[k]
    s.update(over)
    return s


def vmember(member, proof_index, **over):
    ctx = over.pop("ctx", member["ctx"])
    return {"proof": proof_index, "stmt": stmt_of(member, **over), "ctx": ctx}


BITS = [1, 2, 4, 8, 16, 32, 64]


def lattice(max_N, Ts=(1, 2, 3, 4, 5, 6), ms=(1, 2, 4, 8, 16, 32), bits=BITS):
    out = []
    for b in bits:
        for m in ms:
            if b * m <= max_N:
                for T in Ts:
                    out.append((b, m, T))
    return out
