"""Generators of session specs (see harness/src/session.rs) shared by the property checks."""
import copy
from lib.common import L


def hx(x, n=32):
    return int(x).to_bytes(n, "little").hex()


def rscalar(rng, nonzero=True):
    while True:
        x = rng.randrange(L)
        if x or not nonzero:
            return x


def pick_value(rng, bits, promise=None, kind=None):
    top = (1 << bits) - 1
    lo = promise or 0
    kinds = ["zero", "max", "eq", "eq1", "half", "tophalf", "rand"]
    kind = kind or rng.choice(kinds)
    # the witness relation is promise <= v and v - promise < 2^bits (v itself < 2^bits is checked too)
    if kind == "zero":
        v = lo
    elif kind == "max":
        v = top
    elif kind == "eq":
        v = lo
    elif kind == "eq1":
        v = min(top, lo + 1)
    elif kind == "half":
        v = max(lo, 1 << (bits - 1))
    elif kind == "tophalf":
        v = rng.randrange(max(lo, 1 << (bits - 1)), top + 1)
    else:
        v = rng.randrange(lo, top + 1)
    return v, kind


def pick_promise(rng, bits, kind=None):
    top = (1 << bits) - 1
    kind = kind or rng.choice(["none", "none", "zero", "mid", "max", "rand"])
    if kind == "none":
        return None, kind
    if kind == "zero":
        return 0, kind
    if kind == "mid":
        return top // 2, kind
    if kind == "max":
        return top, kind
    return rng.randrange(top + 1), kind


def mk_member(rng, bits, m, cap=None, T=1, seed=False, ctx=None, rngspec=None, pkinds=None, vkinds=None, distinct_r=True):
    """A valid (statement, witness) member spec."""
    cap = cap or m
    commit, promises, pk, vk = [], [], [], []
    for j in range(m):
        p, k1 = pick_promise(rng, bits, pkinds[j] if pkinds else None)
        v, k2 = pick_value(rng, bits, p, vkinds[j] if vkinds else None)
        r = [rscalar(rng) for _ in range(T)]
        commit.append({"v": str(v), "r": [hx(x) for x in r]})
        promises.append(None if p is None else str(p))
        pk.append(k1)
        vk.append(k2)
    return {
        "bits": bits, "cap": cap, "T": T, "commit": commit, "promises": promises,
        "seed": hx(rscalar(rng)) if seed else None,
        "ctx": ctx or {"label": "bpv-ctx"},
        "rng": rngspec or {"kind": "chacha", "seed": rng.randrange(1 << 32)},
        "_kinds": {"promise": pk, "value": vk},
    }


def stmt_of(member, **over):
    """the verification-side statement spec of a member (optionally overriding fields)"""
    s = {k: copy.deepcopy(member[k]) for k in ("bits", "cap", "T", "commit", "promises", "seed") if k in member}
    for k in ("gb0_eq_cH", "h_scale", "gb_scale", "gb_eq", "gbc_scale", "hc_scale", "hp_scale", "gbp_scale"):
        if k in member:
            s[k] = member[k]
    s.update(over)
    return s


def vmember(member, proof_index, **over):
    ctx = over.pop("ctx", member["ctx"])
    return {"proof": proof_index, "stmt": stmt_of(member, **over), "ctx": ctx}


BITS = [1, 2, 4, 8, 16, 32, 64]


def lattice(max_N, Ts=(1, 2, 3, 4, 5, 6), ms=(1, 2, 4, 8, 16, 32), bits=BITS):
    out = []
    for b in bits:
        for m in ms:
            if b * m <= max_N:
                for T in Ts:
                    out.append((b, m, T))
    return out


def mixed_generator_batches(rng, quick, prefix):
    """Batches of mixed aggregation factors in which ONE member's statement carries a different H or Gb_k while its commitments are the
    same points (`open_std`): verify() takes H, Gb and the tables from particular members (the first, the largest), so such a statement
    must be refused whatever its position and size.  Returns session specs with `_tags` = [(description, must_be_accepted)]."""
    shapes = [[1, 2], [2, 1], [1, 2, 1], [1, 2, 4]] if quick else [[1, 2], [2, 1], [1, 2, 1], [1, 2, 4], [4, 2, 1], [2, 2], [1, 1, 2], [2, 4, 4], [1, 4, 2], [2, 1, 4]]
    specs = []
    for si, shape in enumerate(shapes):
        b, T = rng.choice([1, 2, 4]), rng.choice([1, 2, 3])
        mems = [mk_member(rng, b, mm, cap=mm, T=T, ctx={"label": f"{prefix}-{i}"}) for i, mm in enumerate(shape)]
        base_vm = [vmember(mems[i], i) for i in range(len(shape))]
        verifies, tags = [{"mode": "VerifyOnly", "vmembers": base_vm}], [("base", True)]

        def std_stmt(i, **over):
            st = stmt_of(mems[i], **over)
            st["commit"] = [{"open_std": c} for c in st["commit"]]
            return {"proof": i, "stmt": st, "ctx": mems[i]["ctx"]}
        vm = list(base_vm)
        vm[len(shape) - 1] = std_stmt(len(shape) - 1)
        verifies.append({"mode": "VerifyOnly", "vmembers": vm})
        tags.append(("control: same commitments given as points (must stay accepted)", True))
        for i in range(len(shape)):
            for tag, over in [("H", {"h_scale": hx(2)})] + [(f"Gb{kk}", {"gb_scale": [kk, hx(3)]}) for kk in sorted({0, T - 1})]:
                vm = list(base_vm)
                vm[i] = std_stmt(i, **over)
                verifies.append({"mode": rng.choice(["VerifyOnly", "RecoverAndVerify"]), "vmembers": vm})
                tags.append((f"mixed batch m={shape}: {tag} of member {i} altered", False))
        specs.append({"id": f"{prefix}-mixed-{si}", "group": "fm", "members": mems, "verifies": verifies, "_tags": tags, "_shape": shape,
                      "_conf": [b, max(shape), T], "with_gens": False})
    return specs
