"""Shared machinery of the /verif checks: harness build/run, Coq proof audit, sharded evaluation of the
Gallina model on generated cases (coqc + vm_compute), evidence and violation reporting."""
import concurrent.futures as cf
import hashlib
import json
import os
import random
import re
import subprocess
import sys
import time

VERIF = os.path.dirname(os.path.dirname(os.path.dirname(os.path.abspath(__file__))))
REPO = "/repo"
BUILD = os.path.join(VERIF, ".build")
COQ = os.path.join(VERIF, "coq")
CASES = os.path.join(BUILD, "cases")
HARNESS = os.path.join(VERIF, "harness")
L = 2 ** 252 + 27742317777372353535851937790883648493

ENV = dict(os.environ)
ENV.update({"CARGO_NET_OFFLINE": "true", "CARGO_TARGET_DIR": os.path.join(BUILD, "target")})

ALLOWED_AXIOMS = {
    # standard-library axioms that may appear (none expected); primitive-integer constants are not axioms
}


class CheckError(Exception):
    """The machinery itself could not run (not a verdict about the property)."""


def log(*a):
    print(*a, file=sys.stderr, flush=True)


# ----------------------------------------------------------------------------------------- harness
_built = {}


def build_harness(profile="release", rustflags=None):
    key = (profile, rustflags)
    if key in _built:
        return _built[key]
    os.makedirs(BUILD, exist_ok=True)
    lock = os.path.join(HARNESS, "Cargo.lock")
    if not os.path.exists(lock):
        subprocess.run(["cp", os.path.join(REPO, "Cargo.lock"), lock], check=True)
    cmd = ["cargo", "build", "--offline", "--manifest-path", os.path.join(HARNESS, "Cargo.toml")]
    if profile == "release":
        cmd.append("--release")
    env = dict(ENV)
    if rustflags:
        env["RUSTFLAGS"] = rustflags
    t0 = time.time()
    r = subprocess.run(cmd, env=env, stdout=subprocess.PIPE, stderr=subprocess.STDOUT, text=True, cwd=HARNESS)
    if r.returncode != 0:
        log(r.stdout[-4000:])
        raise CheckError("harness does not build against /repo's working tree (cargo build failed)")
    path = os.path.join(BUILD, "target", "release" if profile == "release" else "debug", "bpv-harness")
    if not os.path.exists(path):
        raise CheckError("harness binary missing after build")
    log(f"[harness] built {profile} in {time.time() - t0:.1f}s")
    _built[key] = path
    return path


def run_harness(args, lines=None, profile="release", timeout=3600, jobs=1):
    """Run the harness; `lines` (list of JSON-serialisable objects) go to stdin, one per line.
    Returns the parsed JSON lines of stdout.  With jobs>1 the input is split round-robin over processes
    and outputs are re-assembled in input order."""
    exe = build_harness(profile)
    if lines is None:
        r = subprocess.run([exe] + args, stdout=subprocess.PIPE, stderr=subprocess.PIPE, text=True, timeout=timeout, env=ENV)
        if r.returncode != 0:
            raise CheckError(f"harness {args} failed: {r.stderr[-2000:]}")
        return [json.loads(x) for x in r.stdout.splitlines() if x.strip()]
    jobs = max(1, min(jobs, len(lines)))
    chunks = [lines[i::jobs] for i in range(jobs)]

    def one(chunk):
        inp = "\n".join(json.dumps(x) for x in chunk) + "\n"
        r = subprocess.run([exe] + args, input=inp, stdout=subprocess.PIPE, stderr=subprocess.PIPE, text=True, timeout=timeout, env=ENV)
        if r.returncode != 0:
            raise CheckError(f"harness {args} failed (rc={r.returncode}): {r.stderr[-2000:]}")
        return [json.loads(x) for x in r.stdout.splitlines() if x.strip()]

    with cf.ThreadPoolExecutor(jobs) as ex:
        outs = list(ex.map(one, chunks))
    res = [None] * len(lines)
    for j, o in enumerate(outs):
        if len(o) != len(chunks[j]):
            raise CheckError("harness returned a different number of records than specs")
        for k, rec in enumerate(o):
            res[j + k * jobs] = rec
    return res


# ----------------------------------------------------------------------------------------- Coq
def coq_make():
    """(Re)build the Coq development if needed; a failure here is a broken proof obligation."""
    mk = os.path.join(COQ, "Makefile")
    if not os.path.exists(mk) or os.path.getmtime(mk) < os.path.getmtime(os.path.join(COQ, "_CoqProject")):
        subprocess.run(["coq_makefile", "-f", "_CoqProject", "-o", "Makefile"], cwd=COQ, check=True, stdout=subprocess.DEVNULL)
    r = subprocess.run(["timeout", "3000", "make", "-j16"], cwd=COQ, stdout=subprocess.PIPE, stderr=subprocess.STDOUT, text=True)
    return r.returncode == 0, r.stdout


FORBIDDEN = re.compile(r"\b(Admitted|admit|Axiom|Axioms|Parameter|Parameters|Conjecture|Abort All|bypass_check|Unset Guard Checking|Unset Positivity Checking|Unset Universe Checking|type-in-type|impredicative-set)\b")


def strip_comments(src):
    out, depth, i = [], 0, 0
    while i < len(src):
        if src.startswith("(*", i):
            depth += 1
            i += 2
        elif src.startswith("*)", i) and depth > 0:
            depth -= 1
            i += 2
        else:
            if depth == 0:
                out.append(src[i])
            i += 1
    return "".join(out)


def coq_sources():
    res = []
    for line in open(os.path.join(COQ, "_CoqProject")):
        line = line.strip()
        if line.endswith(".v"):
            res.append(line)
    return res


def audit(prop_id):
    """Proof audit for one property: build, forbidden-word scan, Print Assumptions of Props/<id>.v."""
    t0 = time.time()
    ok, out = coq_make()
    res = {"make_ok": ok, "theorems": [], "open": [], "forbidden": [], "partial": []}
    if not ok:
        res["make_log"] = out[-3000:]
        return res
    for f in coq_sources():
        src = strip_comments(open(os.path.join(COQ, f)).read())
        for m in FORBIDDEN.finditer(src):
            res["forbidden"].append(f"{f}: {m.group(0)}")
        depth = 0
        for ln in src.splitlines():
            if re.match(r"^\s*Section\s+\w+\s*\.", ln):
                depth += 1
            elif re.match(r"^\s*End\s+\w+\s*\.", ln):
                depth -= 1
            elif depth <= 0 and re.match(r"^\s*(Variable|Variables|Hypothesis|Hypotheses|Context)\b", ln):
                res["forbidden"].append(f"{f}: {ln.strip()[:60]} outside a section")
    pf = os.path.join(COQ, "Props", f"{prop_id}.v")
    os.makedirs(os.path.join(BUILD, "audit"), exist_ok=True)
    r = subprocess.run(
        ["timeout", "900", "coqc", "-Q", ".", "BP", "-w", "-notation-overridden", "-o", os.path.join(BUILD, "audit", f"{prop_id}.vo"), pf],
        cwd=COQ, stdout=subprocess.PIPE, stderr=subprocess.STDOUT, text=True)
    res["props_ok"] = r.returncode == 0
    if r.returncode != 0:
        res["make_ok"] = False
        res["make_log"] = r.stdout[-3000:]
        return res
    src = strip_comments(open(pf).read())
    names = re.findall(r"^\s*Theorem\s+(\w+)", src, re.M)
    printed = re.findall(r"^\s*Print Assumptions\s+(\w+)\s*\.", src, re.M)
    # split coqc output into one block per Print Assumptions (in order)
    blocks = re.split(r"(?=^Closed under the global context|^Axioms:|^Section Variables:)", r.stdout, flags=re.M)
    blocks = [b for b in blocks if b.startswith(("Closed", "Axioms", "Section"))]
    for i, n in enumerate(printed):
        b = blocks[i] if i < len(blocks) else "MISSING"
        closed = b.startswith("Closed under the global context")
        axioms = []
        if not closed:
            axioms = re.findall(r"^(\S+)\s*:", b, re.M)
            axioms = [a for a in axioms if a not in ("Axioms",)]
        # kernel primitives of 63-bit machine integers (Bignums.BigZ arithmetic under vm_compute) are not axioms of the development:
        # Print Assumptions lists them because they have no Gallina body; they are named in the trusted base of the theorems that use them
        bad = [a for a in axioms if a not in ALLOWED_AXIOMS and not a.startswith("PrimInt63.")]
        res["theorems"].append({"name": n, "closed": closed, "axioms": axioms})
        if bad or b == "MISSING":
            res["open"].append(n)
        if n.endswith("_partial"):
            res["partial"].append(n)
    for n in names:
        if n not in printed:
            res["open"].append(n + " (no Print Assumptions)")
    res["secs"] = time.time() - t0
    return res


def coqchk(prop_id):
    r = subprocess.run(["timeout", "3000", "coqchk", "-silent", "-o", "-Q", ".", "BP", f"BP.Props.{prop_id}"], cwd=COQ,
                       stdout=subprocess.PIPE, stderr=subprocess.STDOUT, text=True)
    return r.returncode == 0, r.stdout[-3000:]


def parse_N_list(out):
    """Parse the last `= [ ... ] : list N` printed by coqc."""
    m = re.findall(r"=\s*\[(.*?)\]\s*:\s*list", out, re.S)
    if not m:
        m2 = re.findall(r"=\s*nil\s*:\s*list", out)
        if m2:
            return []
        raise CheckError("cannot parse coqc output: " + out[-1500:])
    body = m[-1].strip()
    if not body:
        return []
    return [int(x.strip().replace("%N", "")) for x in body.replace("\n", " ").split(";") if x.strip()]


def coq_eval_bools(name, header, cases, shards=8, timeout=3000, per_shard_min=4):
    """cases: list of Coq terms of type bool.  Evaluates them with vm_compute in `shards` coqc processes and
    returns the list of failing case indices.  Raises CheckError if coqc itself fails."""
    os.makedirs(CASES, exist_ok=True)
    n = len(cases)
    if n == 0:
        return []
    shards = max(1, min(shards, (n + per_shard_min - 1) // per_shard_min))
    bounds = [(i * n) // shards for i in range(shards + 1)]
    files = []
    for s in range(shards):
        lo, hi = bounds[s], bounds[s + 1]
        path = os.path.join(CASES, f"{name}_{s}.v")
        with open(path, "w") as f:
            f.write(header + "\n")
            f.write("Definition results : list bool := [\n" + ";\n".join(cases[lo:hi]) + "\n].\n")
            f.write("Eval vm_compute in (failing 0%N results).\n")
        files.append((path, lo))

    def one(arg):
        path, lo = arg
        r = subprocess.run(["timeout", str(timeout), "coqc", "-noglob", "-Q", COQ, "BP", "-w", "-notation-overridden", path],
                           stdout=subprocess.PIPE, stderr=subprocess.STDOUT, text=True, cwd=CASES)
        if r.returncode != 0:
            raise CheckError(f"coqc failed on {path}: {r.stdout[-2000:]}")
        return [lo + i for i in parse_N_list(r.stdout)]

    with cf.ThreadPoolExecutor(shards) as ex:
        outs = list(ex.map(one, files))
    return sorted(i for o in outs for i in o)


def coq_eval_print(name, header, term, timeout=600):
    """Evaluate one term and return coqc's printed output (for diagnostics of failing cases)."""
    os.makedirs(CASES, exist_ok=True)
    path = os.path.join(CASES, f"{name}_detail.v")
    with open(path, "w") as f:
        f.write(header + "\n")
        f.write(f"Eval vm_compute in ({term}).\n")
    r = subprocess.run(["timeout", str(timeout), "coqc", "-noglob", "-Q", COQ, "BP", "-w", "-notation-overridden", path],
                       stdout=subprocess.PIPE, stderr=subprocess.STDOUT, text=True, cwd=CASES)
    return r.stdout


# ----------------------------------------------------------------------------------------- literals
def limbs_of_int(x, nlimbs):
    """x as `nlimbs` 60-bit primitive-integer literals (little-endian limbs), a Coq list."""
    parts = []
    for _ in range(nlimbs):
        parts.append(str(x & ((1 << 60) - 1)))
        x >>= 60
    assert x == 0
    return "[" + ";".join(parts) + "]%uint63"


def sc(x):
    """a scalar / 256-bit value as a limb literal wrapped for the Exec conversion functions"""
    return limbs_of_int(x, 5)


def int_of_hex_le(h):
    return int.from_bytes(bytes.fromhex(h), "little")


def coq_bytes(b):
    """byte string as (length, list of 7-byte limbs) literal"""
    limbs = []
    for i in range(0, len(b), 7):
        limbs.append(str(int.from_bytes(b[i:i + 7], "little")))
    return f"({len(b)}%N, [" + ";".join(limbs) + "]%uint63)"


def coq_list(xs):
    return "[" + "; ".join(xs) + "]"


def coq_opt(x):
    return "None" if x is None else f"(Some {x})"


def coq_bool(b):
    return "true" if b else "false"


# ----------------------------------------------------------------------------------------- reporting
def known_findings():
    p = os.path.join(VERIF, "known_findings.json")
    if not os.path.exists(p):
        return {"findings": [], "fixed": []}
    return json.load(open(p))


class Run:
    """One invocation of one property's check."""

    def __init__(self, prop_id, tier, seed):
        self.prop = prop_id
        self.tier = tier
        self.seed = seed
        self.rng = random.Random(f"{prop_id}:{seed}")
        self.t0 = time.time()
        self.violations = []
        self.known = []
        self.evaluations = 0
        self.classes = set()
        self.samples = []
        self.hist = {}
        self.notes = []
        self.audit = None
        self.corr_broken = []

    def count(self, cls, sample=None, n=1):
        """record `n` evaluated cases of equivalence class `cls` (non-trivial by the property's rule)"""
        self.evaluations += n
        if cls is not None:
            k = json.dumps(cls, sort_keys=True)
            if k not in self.classes:
                self.classes.add(k)
                if sample is not None and len(self.samples) < 12:
                    self.samples.append(sample)

    def trivial(self, n=1):
        self.evaluations += n

    def bump(self, key, n=1):
        self.hist[key] = self.hist.get(key, 0) + n

    def violation(self, what, replay, no_input=False):
        os.makedirs(os.path.join(VERIF, "replays"), exist_ok=True)
        h = hashlib.sha1(json.dumps(replay, sort_keys=True, default=str).encode()).hexdigest()[:10]
        path = os.path.join(VERIF, "replays", f"{self.prop}-{h}.json")
        with open(path, "w") as f:
            json.dump({"property": self.prop, "what": what, "tier": self.tier, "seed": self.seed,
                       "no_failing_input_found": no_input, "replay": replay}, f, indent=1, default=str)
        self.violations.append((what, path, no_input))

    def known_finding(self, what):
        if what not in self.known:
            self.known.append(what)

    def finish(self, level, rule, assumptions, trusted_base, extra=None, level_text=None):
        a = self.audit or {"theorems": [], "open": ["audit not run"], "make_ok": False, "forbidden": [], "partial": []}
        obligations = len(a["theorems"])
        discharged = len([t for t in a["theorems"] if t["name"] not in a["open"] and not t["name"].endswith("_partial")])
        cov = {
            "obligations": obligations,
            "discharged": discharged,
            "checker_cmd": f"make -C coq && coqc -Q coq BP coq/Props/{self.prop}.v  (Print Assumptions under every theorem)",
            "trusted_base": trusted_base,
            "theorems": a["theorems"],
            "partial_theorems": a.get("partial", []),
            "evaluations": self.evaluations,
            "distinct_nontrivial": len(self.classes),
            "rule": rule,
            "samples": self.samples if self.samples else [{"note": "no correspondence cases in this run"}],
            "input_distribution": self.hist,
            "notes": self.notes,
            "known_findings_reported": self.known,
        }
        if extra:
            cov.update(extra)
        ev = {
            "property_id": self.prop,
            "tier": self.tier,
            "seed": self.seed,
            "level": level,
            "coverage": cov,
            "assumptions": assumptions,
            "wall_s": round(time.time() - self.t0, 2),
            "violations": len(self.violations),
        }
        os.makedirs(os.path.join(VERIF, "evidence"), exist_ok=True)
        with open(os.path.join(VERIF, "evidence", f"{self.prop}.json"), "w") as f:
            json.dump(ev, f, indent=1, default=str)
        for k in self.known:
            print(f"KNOWN-FINDING: property={self.prop} {k}")
        for what, path, no_input in self.violations:
            log(f"[{self.prop}] violation: {what}")
            print(f"VIOLATION property={self.prop} replay={path}" + (" no-failing-input-found" if no_input else ""))
        sys.stdout.flush()
        return 1 if self.violations else 0

    def run_audit(self):
        a = audit(self.prop)
        self.audit = a
        if not a["make_ok"]:
            self.violation("Coq development does not build: a proof obligation is broken", {"log": a.get("make_log", "")}, no_input=True)
        if a["forbidden"]:
            self.violation("forbidden construct in the Coq development", {"forbidden": a["forbidden"]}, no_input=True)
        if a["open"]:
            self.violation("theorem not closed under the global context", {"open": a["open"], "theorems": a["theorems"]}, no_input=True)
        return a
