"""Translate an observed proving run into a term for Exec/ProveExec.chk_prove."""
from lib.common import *
from lib import vmodel
from lib.vmodel import lim, coq_rop, coq_nonces, nonce_table, split_ops

PHEADER = """From Coq Require Import ZArith NArith List Uint63 Bool.
From BP Require Import Exec.CasesLib Exec.Limbs Exec.Zl Exec.VerifyExec Exec.ProveExec.
Import ListNotations. Open Scope N_scope.
"""
PCODE = {1: "coordinates of A", 2: "coordinates of L_j / R_j", 4: "coordinates of A1 / B", 8: "response scalars r1, s1, d1",
         16: "prover transcript / RNG operations", 32: "prover guard verdict (the witness relation of Model/Prover.v witness_valid vs prove Ok/Err)"}


def guard_term(mspec, prove_ok):
    """Exec/ProveExec.chk_guard for one member spec: statement openings `commit`, witness openings `witness` (default: the same)."""
    st = mspec["commit"]
    wt = mspec.get("witness", st)
    if not all("v" in c and "r" in c for c in st):
        return None
    lims = lambda os: coq_list([coq_list([limbs_of_int(int_of_hex_le(x), 5) for x in o["r"]]) for o in os])
    vals = lambda os: coq_list([f"{int(o['v'])}%N" for o in os])
    prom = coq_list([coq_opt(None if p is None else str(int(p)) + "%N") for p in mspec["promises"]])
    return f"(chk_guard {mspec['bits']}%nat {mspec['cap']}%nat {mspec['T']}%nat {vals(st)} {lims(st)} {prom} {vals(wt)} {lims(wt)} {coq_bool(prove_ok)})"


def pexplain(code):
    return ", ".join(v for k, v in PCODE.items() if code & k)


def dense(point, index, dim):
    v = [0] * dim
    extra = []
    for bid, hexv in point.get("coef", []):
        if bid in index:
            v[index[bid]] = int_of_hex_le(hexv)
        else:
            extra.append(int_of_hex_le(hexv))
    return v + extra


def cvec(v):
    # trailing zeros carry no information (vectors are implicitly zero-extended)
    while v and v[-1] == 0:
        v = v[:-1]
    return coq_list([sc(x) for x in v])


def prove_term(mspec, mobs):
    """mspec: member spec; mobs: member observation (needs gens, merlin, proof).  Returns a Coq term or None."""
    if mobs.get("prove") != "ok" or "gens" not in mobs:
        return None
    bits, cap, T = mspec["bits"], mspec["cap"], mspec["T"]
    g = mobs["gens"]
    n = bits * cap
    index = {}
    def unit(p):
        c = p["coef"]
        return c[0][0] if len(c) == 1 else None
    index[unit(g["H"])] = 0
    for k, p in enumerate(g["Gb"]):
        index[unit(p)] = 1 + k
    for i, p in enumerate(g["G"]):
        index[unit(p)] = 1 + T + i
    for i, p in enumerate(g["Hv"]):
        index[unit(p)] = 1 + T + n + i
    if None in index or len(index) != 1 + T + 2 * n:
        return None  # degenerate generators (e.g. Gb_0 = c*H): coordinates are not unique
    dim = 1 + T + 2 * n
    pj = mobs["proof"]
    wspec = mspec.get("witness") or mspec["commit"]
    values = [int(o["v"]) for o in wspec]
    blind = [[int_of_hex_le(r) for r in o["r"]] for o in wspec]
    per, news, fins = split_ops(mobs["merlin"])
    tid = mobs["tid"]
    ops = per.get(tid, [])
    chal = [int.from_bytes(x[2], "little") for x in ops if x[0] == "chal"]
    rounds = len(pj["li"])
    if len(chal) != 3 + rounds:
        return None
    # draws per RNG instance, in creation order
    draws, cur = [], None
    for x in ops:
        if isinstance(x, list) and x[0] == "rng":
            cur = []
            draws.append(cur)
        elif x[0] == "fill":
            cur.append(int.from_bytes(x[2], "little"))
    seeded = mspec.get("seed") is not None
    nonces = nonce_table(mspec["seed"], T, rounds) if seeded else []
    w9 = lambda x: limbs_of_int(x, 9)
    prom = coq_list([coq_opt(None if p is None else str(int(p)) + "%N") for p in mspec["promises"]])
    pf = ("(mkR 0%nat 0%nat 0%nat []%uint63 [] 0%N [] [] false " + f"{pj['tag']}%N " + coq_list([lim(d) for d in pj["d1"]]) + " "
          + " ".join([lim(pj["a"]["enc"]), lim(pj["a1"]["enc"]), lim(pj["b"]["enc"]), lim(pj["r1"]), lim(pj["s1"]),
                      coq_list([lim(p["enc"]) for p in pj["li"]]), coq_list([lim(p["enc"]) for p in pj["ri"]])])
          + " false []%uint63 []%uint63 [] []%uint63 [] [])")
    return ("(chk_prove " + " ".join([
        f"{bits}%nat {cap}%nat {T}%nat", coq_list([f"{v}%N" for v in values]), prom,
        coq_list([coq_list([sc(r) for r in rs]) for rs in blind]), coq_bool(seeded), coq_nonces(nonces),
        coq_list([coq_list([w9(d) for d in ds]) for ds in draws]),
        w9(chal[0]), w9(chal[1]), coq_list([w9(c) for c in chal[2:2 + rounds]]), w9(chal[2 + rounds]),
        cvec(dense(pj["a"], index, dim)), coq_list([cvec(dense(p, index, dim)) for p in pj["li"]]),
        coq_list([cvec(dense(p, index, dim)) for p in pj["ri"]]), cvec(dense(pj["a1"], index, dim)), cvec(dense(pj["b"], index, dim)),
        lim(pj["r1"]), lim(pj["s1"]), coq_list([lim(d) for d in pj["d1"]]),
        lim(g["H"]["enc"]), coq_list([lim(p["enc"]) for p in g["Gb"]]), coq_list([lim(c["enc"]) for c in mobs["commitments"]]),
        pf, coq_list([coq_rop(o) for o in ops]),
    ]) + ")")
