"""tiny exact LLL (rows = basis vectors), for the promise-substitution attack of C07"""
from fractions import Fraction


def lll(B, delta=Fraction(3, 4)):
    B = [list(r) for r in B]
    n = len(B)

    def dot(a, b):
        return sum(x * y for x, y in zip(a, b))

    def gso():
        Bs, mu = [], [[Fraction(0)] * n for _ in range(n)]
        for i in range(n):
            v = [Fraction(x) for x in B[i]]
            for j in range(i):
                d = dot(Bs[j], Bs[j])
                mu[i][j] = dot([Fraction(x) for x in B[i]], Bs[j]) / d if d else Fraction(0)
                v = [a - mu[i][j] * b for a, b in zip(v, Bs[j])]
            Bs.append(v)
        return Bs, mu
    Bs, mu = gso()
    k = 1
    while k < n:
        for j in range(k - 1, -1, -1):
            q = round(mu[k][j])
            if q:
                B[k] = [a - q * b for a, b in zip(B[k], B[j])]
                Bs, mu = gso()
        if dot(Bs[k], Bs[k]) >= (delta - mu[k][k - 1] ** 2) * dot(Bs[k - 1], Bs[k - 1]):
            k += 1
        else:
            B[k], B[k - 1] = B[k - 1], B[k]
            Bs, mu = gso()
            k = max(k - 1, 1)
    return B


def short_relation(cs, modulus):
    """a short non-zero integer vector d with sum d_j * cs_j = 0 (mod modulus)"""
    m = len(cs)
    K = 1 << 300
    B = [[1 if i == j else 0 for j in range(m)] + [K * (cs[i] % modulus)] for i in range(m)] + [[0] * m + [K * modulus]]
    R = lll(B)
    best = None
    for r in R:
        if r[m] == 0 and any(r[:m]):
            if best is None or max(abs(x) for x in r[:m]) < max(abs(x) for x in best):
                best = r[:m]
    return best


if __name__ == "__main__":
    import random, time
    L = 2 ** 252 + 27742317777372353535851937790883648493
    rng = random.Random(1)
    z = rng.randrange(L)
    cs = [pow(z, 2 * (j + 1), L) for j in range(8)]
    t = time.time()
    d = short_relation(cs, L)
    print(d, sum(a * b for a, b in zip(d, cs)) % L, max(abs(x) for x in d).bit_length(), time.time() - t)
