#!/usr/bin/env python3
"""Regenerates the machine-written appendices of DESIGN.md (between the BEGIN/END GENERATED markers):
theorem inventory per property (from coq/Props/*.v) and the seeded-change detection matrix (from seeded/)."""
import json, os, re
VERIF = os.path.dirname(os.path.dirname(os.path.abspath(__file__)))


def strip_comments(src):
    out, depth, i = [], 0, 0
    while i < len(src):
        if src.startswith("(*", i):
            depth += 1; i += 2
        elif src.startswith("*)", i) and depth > 0:
            depth -= 1; i += 2
        else:
            if depth == 0:
                out.append(src[i])
            i += 1
    return "".join(out)


lines = ["## Appendix B. Theorem inventory (as built; generated from `coq/Props/*.v`)", "",
         "Every theorem below is closed by `exact <lemma>` (or a two-line composition) in `coq/Props/Cxx.v`, is followed by `Print Assumptions`, and prints",
         "`Closed under the global context` on every run of the property's check (the check fails otherwise).", ""]
total = 0
for i in range(1, 21):
    pid = f"C{i:02d}"
    src = strip_comments(open(os.path.join(VERIF, "coq", "Props", pid + ".v")).read())
    names = re.findall(r"^\s*Theorem\s+(\w+)", src, re.M)
    ex = re.findall(r"^\s*Example\s+(\w+)", src, re.M)
    total += len(names)
    lines.append(f"* **{pid}** ({len(names)}): " + ", ".join(f"`{n}`" for n in names) + (f"; examples: " + ", ".join(f"`{n}`" for n in ex) if ex else ""))
lines += ["", f"Total: {total} property theorems.", ""]

lines += ["## Appendix C. Seeded changes and which checks catch them (generated from `seeded/`)", "",
          "Each change was written by a fresh sub-agent that saw only the property text and its own scratch worktree; each was confirmed by `tools/confirm_seed.sh`",
          "(original suite passes with it; its demonstration fails with it and passes without it). `detected` = the property's own quick check printed a VIOLATION line",
          "with the change applied to /repo; `input` = at least one VIOLATION came with a concrete failing input (not only a broken correspondence).", "",
          "| seed | needs to manifest | detected | input | first report |", "|---|---|---|---|---|"]
matrix = json.load(open(os.path.join(VERIF, "seeded", "matrix.json")))
for sd in sorted(os.listdir(os.path.join(VERIF, "seeded"))):
    mp = os.path.join(VERIF, "seeded", sd, "meta.json")
    if not os.path.exists(mp):
        continue
    meta = json.load(open(mp))
    own = matrix.get(sd, {}).get(sd[:3], {})
    lines.append(f"| {sd} | {meta['needs_to_manifest'][:230].replace('|', '/')} | {'yes' if own.get('detected') else 'NO'} | {'yes' if own.get('with_failing_input') else 'no'} | {own.get('first', '')[:150].replace('|', '/')} |")
lines.append("")
block = "\n".join(lines)
p = os.path.join(VERIF, "DESIGN.md")
s = open(p).read()
B, E = "<!-- BEGIN GENERATED -->", "<!-- END GENERATED -->"
if B in s:
    s = s[:s.index(B)] + B + "\n" + block + "\n" + E + s[s.index(E) + len(E):]
else:
    s = s.rstrip("\n") + "\n\n" + B + "\n" + block + "\n" + E + "\n"
open(p, "w").write(s)
print("appendices regenerated:", total, "theorems")
