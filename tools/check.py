#!/usr/bin/env python3
"""Entry point of every registered check:  check.py <property id> --tier quick|thorough
                                           check.py --replay <path>"""
import argparse
import importlib
import json
import os
import sys

sys.path.insert(0, os.path.dirname(os.path.abspath(__file__)))
from lib.common import CheckError, Run, log  # noqa: E402


def main():
    ap = argparse.ArgumentParser()
    ap.add_argument("prop", nargs="?")
    ap.add_argument("--tier", default=os.environ.get("VERIF_TIER", "quick"))
    ap.add_argument("--replay")
    a = ap.parse_args()
    seed = int(os.environ.get("VERIF_SEED", "1"))
    if a.replay:
        rp = json.load(open(a.replay))
        mod = importlib.import_module("props." + rp["property"].lower())
        sys.exit(mod.replay(rp))
    mod = importlib.import_module("props." + a.prop.lower())
    run = Run(a.prop, a.tier, seed)
    try:
        rc = mod.run(run)
    except CheckError as e:
        log(f"[{a.prop}] CHECK ERROR: {e}")
        # the machinery could not decide: the property is no longer shown to hold
        run.violation(f"check could not run: {e}", {"error": str(e)}, no_input=True)
        rc = run.finish("proof", "check aborted", [], [])
    sys.exit(rc)


if __name__ == "__main__":
    main()
