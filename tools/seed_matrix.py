#!/usr/bin/env python3
"""Apply each seeded change to /repo, run the given checks (default: the seed's own property), undo, and record which checks report a violation.
usage: seed_matrix.py [--checks own|all|C01,C02] [seed ids...]      writes seeded/matrix.json"""
import json, os, subprocess, sys, time
VERIF = os.path.dirname(os.path.dirname(os.path.abspath(__file__)))
args = sys.argv[1:]
mode = "own"
out_name = "matrix.json"
while args and args[0] in ("--checks", "--out"):
    if args[0] == "--checks":
        mode = args[1]
    else:
        out_name = args[1]
    args = args[2:]
seeds = args or sorted(d for d in os.listdir(os.path.join(VERIF, "seeded")) if os.path.isdir(os.path.join(VERIF, "seeded", d)))
allp = [f"C{i:02d}" for i in range(1, 21)]
mpath = os.path.join(VERIF, "seeded", out_name)
matrix = json.load(open(mpath)) if os.path.exists(mpath) else {}
assert subprocess.run(["git", "-C", "/repo", "status", "--porcelain", "--untracked-files=no"], capture_output=True, text=True).stdout.strip() == "", "/repo not clean"
for sd in seeds:
    checks = [sd[:3]] if mode == "own" else allp if mode == "all" else mode.split(",")
    patch = os.path.join(VERIF, "seeded", sd, "patch.diff")
    subprocess.run(["git", "-C", "/repo", "apply", patch], check=True)
    try:
        for c in checks:
            t0 = time.time()
            r = subprocess.run(["python3", "tools/check.py", c, "--tier", "quick"], cwd=VERIF, capture_output=True, text=True)
            vio = [l for l in r.stdout.splitlines() if l.startswith("VIOLATION")]
            why = [l for l in r.stderr.splitlines() if "violation:" in l]
            with_input = [l for l in vio if not l.endswith("no-failing-input-found")]
            matrix.setdefault(sd, {})[c] = {"detected": bool(vio), "with_failing_input": bool(with_input), "violations": len(vio), "first": (why[0].split("violation:", 1)[1].strip()[:220] if why else ""),
                                           "secs": round(time.time() - t0, 1)}
            print(sd, c, matrix[sd][c]["detected"], matrix[sd][c]["with_failing_input"], matrix[sd][c]["first"][:100], flush=True)
    finally:
        subprocess.run(["git", "-C", "/repo", "checkout", "--", "."], check=True)
    json.dump(matrix, open(mpath, "w"), indent=1, sort_keys=True)
# leave no replay files from seeded runs behind
for f in os.listdir(os.path.join(VERIF, "replays")):
    os.remove(os.path.join(VERIF, "replays", f))
# the checks rewrite evidence/<id>.json on every run; runs against seeded changes must not leave their evidence behind: restore the committed files
subprocess.run(["git", "-C", VERIF, "checkout", "--", "evidence"], check=False)
