#!/bin/bash
# import a round-4 seeded change: /tmp/seedout4/<prop>/ -> /verif/seeded/<prop>d/ and confirm it
p=$1; id=${p}d
mkdir -p /verif/seeded/$id
cp /tmp/seedout4/$p/patch.diff /tmp/seedout4/$p/seeded_demo.rs /tmp/seedout4/$p/notes.md /verif/seeded/$id/
git -C /repo worktree remove --force /tmp/wt/r4-$p 2>/dev/null
bash /verif/tools/confirm_seed.sh $id
