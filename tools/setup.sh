#!/bin/bash
# Build the framework from files on disk only (offline): Coq development + Rust harness.
set -e
cd "$(dirname "$0")/.."
export CARGO_NET_OFFLINE=true
mkdir -p .build
( cd coq && coq_makefile -f _CoqProject -o Makefile >/dev/null && timeout 7000 make -j16 >../.build/coq-make.log 2>&1 ) || { tail -50 .build/coq-make.log; exit 1; }
cp /repo/Cargo.lock harness/Cargo.lock
( cd harness && cargo build --offline --release ) 2>&1 | tail -3
echo "setup done"
