#!/bin/bash
# import a round-8 seeded change: /tmp/seedout8/<prop>/ -> /verif/seeded/<prop>d/ and confirm it
p=$1; id=${p}h
mkdir -p /verif/seeded/$id
cp /tmp/seedout8/$p/patch.diff /tmp/seedout8/$p/seeded_demo.rs /tmp/seedout8/$p/notes.md /verif/seeded/$id/
git -C /repo worktree remove --force /tmp/wt/r8-$p 2>/dev/null
bash /verif/tools/confirm_seed.sh $id
