#!/bin/bash
# import a round-9 seeded change: /tmp/seedout9/<prop>/ -> /verif/seeded/<prop>i/ and confirm it
p=$1; id=${p}i
mkdir -p /verif/seeded/$id
cp /tmp/seedout9/$p/patch.diff /tmp/seedout9/$p/seeded_demo.rs /tmp/seedout9/$p/notes.md /verif/seeded/$id/
git -C /repo worktree remove --force /tmp/wt/r9-$p 2>/dev/null
bash /verif/tools/confirm_seed.sh $id
