#!/bin/bash
# import a round-2 seeded change produced by a sub-agent: /tmp/seedout2/<prop>/ -> /verif/seeded/<prop>b/ and confirm it
p=$1; id=${p}b
mkdir -p /verif/seeded/$id
cp /tmp/seedout2/$p/patch.diff /tmp/seedout2/$p/seeded_demo.rs /tmp/seedout2/$p/notes.md /verif/seeded/$id/
bash /verif/tools/confirm_seed.sh $id
