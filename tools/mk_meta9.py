#!/usr/bin/env python3
"""meta.json for the round-9 seeded changes (from the sub-agents' reports, the confirmation logs and the two measurements)."""
import json, os
V = os.path.dirname(os.path.dirname(os.path.abspath(__file__)))
NEEDS = {
 "C01": "bit length 1 with a single commitment (zero folding rounds): the per-round product that replaced the closed-form sum y + ... + y^(nm) has no base case for zero rounds, so every honest proof of that shape is refused in the verifying modes",
 "C02": "a batch of >= 2 members whose d1 are altered together in exactly the ratio of the batch weights: to_verifier_rng returns the RNG built BEFORE r1/s1/d1 were absorbed (mem::replace returns the old one), so the weights can be computed before the responses are chosen",
 "C03": "a batch of k > 256 members with k not a multiple of 256: statements and proofs are chunked by a balanced chunk size, transcripts by 256; the zipped loops truncate, tail members are never checked (k = 300: index >= 194 accepted, 194 results)",
 "C04": "extension degree 6 and a consistent perturbation of the last blinding generator G_5: the generator encodings are staged into an array of ExtensionDegree::COUNT = 6 slots, H plus six G's are seven, the zip drops the seventh; G_5 is neither absorbed nor identity-checked",
 "C05": "verification in mode RecoverAndVerify of a triple whose statement has no seed (every aggregated statement): an early-out pushes None and skips the member, which never enters the final equation; any alteration of it is accepted",
 "C06": "bit length < 64, a value >= 2^bits and a promise with value - 2^bits < promise <= value on the same position: the range guard was moved behind the offset and tests value - promise, so the prover emits a proof for a witness it must refuse",
 "C07": "a promise more than 2^63 above its value (e.g. u64::MAX): the up-front check uses the sign bit of the wrapping difference as borrow, the later subtraction wraps; the prover returns Ok instead of refusing value < promise",
 "C08": "extension degree >= 2, a batch of >= 2 individually invalid proofs with defects confined to d1[k], k >= 1, in the ratio of the weights: to_verifier_rng zips three labels with r1, s1, d1..., only d1[0] is absorbed",
 "C09": "a recovering batch with an unseeded single-commitment member somewhere before a seeded one ([unseeded, seeded]): the batch-inverted recovery denominators are collected per single-commitment member but consumed per seeded member, later members read the inverses of an earlier proof and return a wrong mask",
 "C10": "parameters with capacity >= 2, a one-commitment statement with a seed on them, a recovering mode: a guard 'mask recovery is not supported with an aggregated statement' tests the generators' capacity instead of the commitment count; the verdict depends on seed and mode",
 "C11": "max_aggregation_factor == 32 exactly: parties are derived on 4 threads over chunks of capacity/4 but labelled from worker * 4; party positions 8..15 repeat the labels 4..11 (duplicate generators), labels 20..31 are never used; capacity 16 is exact",
 "C12": "a mixed-capacity batch in which the longest proof's parameters have spare capacity and another member's tables are exactly as long as the longest proof: max_statement is re-bound to the exact-fit member but the padding still uses its commitment count; dalek's length assertion panics on a valid batch",
 "C13": "a statement with a seed and two prover runs with different RNG streams: r and s of the final round go through the same closure as d and eta and become nonce(seed, 'r'), nonce(seed, 's'); repeated across proofs under one seed",
 "C14": "generators whose h_base was overwritten without refreshing the cached encoding, a zero-value commitment and a repeating external RNG: the prover absorbs the cached bytes of H instead of the point it computes with, two statements differing only in H key the hedged RNG identically",
 "C15": "an otherwise decodable byte string with bit 255 set in a point element: from_fixed_bytes clears the bit, the decoded proof does not re-encode to its input (2^(3+2k) encodings per proof) and the normalised proof verifies",
 "C16": "mode RecoverAndVerify, a single-commitment statement WITHOUT a seed and a proof that passes the round and decompression checks: two extra inversions are pushed when aggregation == 1 but popped when a seed is present; the surplus scalars trip dalek's length assertion (panic)",
 "C17": "RangeStatement::init with MORE promises than commitments (1 commitment, 2 promises): the explicit count check was folded into a zip that stops at the shorter side; init returns Ok and keeps the surplus promises",
 "C18": "the same prove call with the same RNG stream in two different OS processes: the prover's transcript RNG is also keyed with std::process::id(); proofs differ across processes, identical within one",
 "C19": "any aggregated statement (>= 2 commitments) checked against something outside this build (recorded vector, reference implementation): the commitments are absorbed as ONE 'Ci' message over the concatenation instead of one per commitment",
 "C20": "a history on the public openings field: move an opening out of a witness (pop / remove / drain) after use, then drop the witness: ZeroizeOnDrop was removed from RangeWitness, the vector's spare slot keeps a copy of the secret value and is freed un-wiped",
}
first = json.load(open(os.path.join(V, "seeded", "matrix_round9_first_measurement.json")))
final = json.load(open(os.path.join(V, "seeded", "matrix.json")))
for p, needs in NEEDS.items():
    sd = p + "i"
    d = os.path.join(V, "seeded", sd)
    conf = open(os.path.join(d, "confirm.log")).read().strip().splitlines()[-1]
    f1 = first.get(sd, {}).get(p, {})
    fin = final.get(sd, {})
    meta = {"property": p, "breaks": p, "round": 9, "needs_to_manifest": needs,
            "origin": f"fresh sub-agent given only the property text and its own scratch worktree (/tmp/wt/r9-{p}), told to avoid the earlier ideas for this property",
            "confirmed_by": {"command": f"tools/confirm_seed.sh {sd}  (scratch worktree /tmp/wt/confirm-{sd}, removed afterwards)", "result": conf,
                             "original_suite_with_change": "pass", "demonstration_with_change": "fails", "demonstration_without_change": "passes"},
            "check_strengthened_before_measuring": False,
            "detected_at_first_measurement": bool(f1.get("detected")),
            "first_measurement": {k: f1.get(k) for k in ("detected", "first", "with_failing_input")},
            "detected_by": {c: {k: r.get(k) for k in ("detected", "first", "with_failing_input")} for c, r in fin.items()}}
    json.dump(meta, open(os.path.join(d, "meta.json"), "w"), indent=1)
print("meta written")
