#!/bin/bash
# import a round-3 seeded change: /tmp/seedout3/<prop>/ -> /verif/seeded/<prop>c/ and confirm it
p=$1; id=${p}c
mkdir -p /verif/seeded/$id
cp /tmp/seedout3/$p/patch.diff /tmp/seedout3/$p/seeded_demo.rs /tmp/seedout3/$p/notes.md /verif/seeded/$id/
git -C /repo worktree remove --force /tmp/wt/r3-$p 2>/dev/null
bash /verif/tools/confirm_seed.sh $id
