#!/bin/bash
# import a round-7 seeded change: /tmp/seedout7/<prop>/ -> /verif/seeded/<prop>d/ and confirm it
p=$1; id=${p}g
mkdir -p /verif/seeded/$id
cp /tmp/seedout7/$p/patch.diff /tmp/seedout7/$p/seeded_demo.rs /tmp/seedout7/$p/notes.md /verif/seeded/$id/
git -C /repo worktree remove --force /tmp/wt/r7-$p 2>/dev/null
bash /verif/tools/confirm_seed.sh $id
