#!/bin/bash
# import a round-5 seeded change: /tmp/seedout5/<prop>/ -> /verif/seeded/<prop>d/ and confirm it
p=$1; id=${p}e
mkdir -p /verif/seeded/$id
cp /tmp/seedout5/$p/patch.diff /tmp/seedout5/$p/seeded_demo.rs /tmp/seedout5/$p/notes.md /verif/seeded/$id/
git -C /repo worktree remove --force /tmp/wt/r5-$p 2>/dev/null
bash /verif/tools/confirm_seed.sh $id
