#!/usr/bin/env python3
"""Record additional wire vectors from /repo's CURRENT tree (must be clean: the pinned release 6415632 plus the two fix: commits, which do
not touch the wire format — the existing vectors reproducing byte for byte is the evidence of that) and append them to vectors/wire_vectors.json.
Used once to add vectors with degenerate but valid openings (zero blinding vectors, identity commitments)."""
import json, os, subprocess, sys
sys.path.insert(0, os.path.dirname(os.path.abspath(__file__)))
from lib.common import *
from lib import gen

assert subprocess.run(["git", "-C", "/repo", "status", "--porcelain", "--untracked-files=no"], capture_output=True, text=True).stdout.strip() == "", "/repo not clean"
head = subprocess.run(["git", "-C", "/repo", "log", "--format=%h", "-3"], capture_output=True, text=True).stdout.split()
assert head == ["0dc17ce", "36c6ad6", "6415632"], head
path = os.path.join(VERIF, "vectors", "wire_vectors.json")
V = json.load(open(path))
Z = gen.hx(0)
new = [
    ("wire-20", {"bits": 8, "cap": 1, "T": 1, "commit": [{"v": "0", "r": [Z]}], "promises": [None], "seed": gen.hx(0x1234567890abcdef1122334455667788), "ctx": {"label": "wire-compat"}, "rng": {"kind": "chacha", "seed": 2000}}),
    ("wire-21", {"bits": 4, "cap": 2, "T": 2, "commit": [{"v": "9", "r": [gen.hx(77), gen.hx(78)]}, {"v": "0", "r": [Z, Z]}], "promises": ["3", "0"], "seed": None, "ctx": {"label": "wire-compat", "msgs": [["extra", "0102"]]}, "rng": {"kind": "chacha", "seed": 2001}}),
    ("wire-22", {"bits": 64, "cap": 1, "T": 3, "commit": [{"v": "12345678901234567890", "r": [Z, Z, Z]}], "promises": [None], "seed": gen.hx(99), "ctx": {"label": "wire-compat"}, "rng": {"kind": "chacha", "seed": 2002}}),
]
have = {v["id"] for v in V["vectors"]}
for vid, mem in new:
    if vid in have:
        continue
    spec = {"id": vid, "group": "ristretto", "members": [mem], "log_merlin": False, "log_msm": False, "with_gens": False,
            "verifies": [{"mode": "RecoverAndVerify", "vmembers": [gen.vmember(mem, 0)]}]}
    o = run_harness(["session"], [spec])[0]
    mo, vo = o["members"][0], o["verifies"][0]
    assert mo["prove"] == "ok" and vo["result"] == "ok", (mo.get("prove"), vo["result"])
    V["vectors"].append({"id": vid, "member": mem, "proof": mo["proof"]["bytes"], "commitments": [c["enc"] for c in mo["commitments"]], "masks": vo["masks"],
                         "H": vo["stmts"][0]["H"], "Gb": vo["stmts"][0]["Gb"]})
    print("recorded", vid, len(mo["proof"]["bytes"]) // 2, "bytes; commitments", [c["enc"][:8] for c in mo["commitments"]])
V["recorded_from"] = V["recorded_from"].split(" ; ")[0] + " ; wire-20..22 (degenerate openings: identity commitment, zero blinding vectors) added later from the same tree"
json.dump(V, open(path, "w"), indent=1)
