#!/bin/bash
# import a round-6 seeded change: /tmp/seedout6/<prop>/ -> /verif/seeded/<prop>d/ and confirm it
p=$1; id=${p}f
mkdir -p /verif/seeded/$id
cp /tmp/seedout6/$p/patch.diff /tmp/seedout6/$p/seeded_demo.rs /tmp/seedout6/$p/notes.md /verif/seeded/$id/
git -C /repo worktree remove --force /tmp/wt/r6-$p 2>/dev/null
bash /verif/tools/confirm_seed.sh $id
