#!/bin/bash
# Confirm one seeded change in a scratch worktree: (1) the original suite passes with it, (2) the demonstration fails with it, (3) the demonstration passes without it.
# usage: confirm_seed.sh <id>     writes /verif/seeded/<id>/confirm.log and prints a one-line summary
id=$1
wt=/tmp/wt/confirm-$id
out=/verif/seeded/$id/confirm.log
export CARGO_NET_OFFLINE=true
rm -rf $wt; git -C /repo worktree add --detach $wt HEAD -q || exit 2
cd $wt
git apply /verif/seeded/$id/patch.diff || { echo "$id: patch does not apply"; git -C /repo worktree remove --force $wt; exit 2; }
{
echo "== original suite WITH the change"; cargo test --offline 2>&1 | grep -E "^test result|FAILED|error(\[|:)" ; s1=${PIPESTATUS[0]}
cp /verif/seeded/$id/seeded_demo.rs tests/seeded_demo.rs
echo "== demonstration WITH the change"; cargo test --offline --test seeded_demo 2>&1 | grep -E "^test result|^test .*FAILED|panicked|error(\[|:)" | head -12; d1=${PIPESTATUS[0]}
git apply -R /verif/seeded/$id/patch.diff
echo "== demonstration WITHOUT the change"; cargo test --offline --test seeded_demo 2>&1 | grep -E "^test result|^test .*FAILED|panicked|error(\[|:)" | head -12; d0=${PIPESTATUS[0]}
echo "suite_with=$s1 demo_with=$d1 demo_without=$d0"
} > $out 2>&1
tail -1 $out | sed "s/^/$id: /"
cd /; git -C /repo worktree remove --force $wt
