//! Abstraction over the two group back ends the harness runs the (generic) library over.
use std::ops::{Add, Mul};

use curve25519_dalek::{
    ristretto::{CompressedRistretto, RistrettoPoint},
    scalar::Scalar,
    traits::{Identity, IsIdentity, MultiscalarMul},
};
use serde_json::{json, Value};
use sha3::{Digest, Sha3_512};
use tari_bulletproofs_plus::{
    generators::pedersen_gens::ExtensionDegree,
    protocols::curve_point_protocol::CurvePointProtocol,
    ristretto,
    traits::{Compressable, Decompressable, FixedBytesRepr, FromUniformBytes, Precomputable},
    PedersenGens,
};

use crate::fm::{FMc, FM};

pub fn hex(b: &[u8]) -> String {
    let mut s = String::with_capacity(b.len() * 2);
    for x in b {
        s.push_str(&format!("{:02x}", x));
    }
    s
}
pub fn unhex(s: &str) -> Vec<u8> {
    (0..s.len() / 2).map(|i| u8::from_str_radix(&s[2 * i..2 * i + 2], 16).unwrap()).collect()
}
pub fn sc_hex(s: &Scalar) -> String {
    hex(s.as_bytes())
}
pub fn sc_unhex(s: &str) -> Scalar {
    let v = unhex(s);
    let mut b = [0u8; 32];
    b.copy_from_slice(&v);
    Scalar::from_bytes_mod_order(b)
}

pub fn ext_degree(t: usize) -> ExtensionDegree {
    use std::convert::TryFrom;
    ExtensionDegree::try_from(t).expect("bad extension degree in spec")
}

pub trait Grp:
    CurvePointProtocol + Precomputable + MultiscalarMul<Point = Self> + FromUniformBytes + Clone + PartialEq + Send + Sync + 'static
where
    for<'p> &'p Self: Mul<Scalar, Output = Self>,
    for<'p> &'p Self: Add<Output = Self>,
    Self::Compressed: FixedBytesRepr + IsIdentity + Identity,
{
    const NAME: &'static str;
    /// Pedersen generators of extension degree `t`
    fn pedersen(t: usize) -> PedersenGens<Self>;
    /// description of a point for the observation record
    fn describe(p: &Self) -> Value;
    /// a decodable point unrelated to everything else, derived from `tag`
    fn junk(tag: u64) -> Self {
        let mut h = Sha3_512::new();
        h.update(b"bpv-junk-point");
        h.update(tag.to_le_bytes());
        let out: [u8; 64] = h.finalize().into();
        Self::from_uniform_bytes(&out)
    }
    /// 32 bytes that do not decode to a point
    fn undecodable(tag: u64) -> [u8; 32];
}

impl Grp for FM {
    const NAME: &'static str = "fm";

    fn pedersen(t: usize) -> PedersenGens<FM> {
        let mk = |label: &str| {
            let mut h = Sha3_512::new();
            h.update(label.as_bytes());
            let out: [u8; 64] = h.finalize().into();
            FM::from_uniform_bytes(&out)
        };
        let h_base = mk("FM_VALUE_BASEPOINT");
        let g: Vec<FM> = (0..t).map(|i| mk(&format!("FM_MASKING_BASEPOINT_{}", i + 1))).collect();
        PedersenGens {
            h_base_compressed: h_base.compress(),
            h_base,
            g_base_compressed_vec: g.iter().map(|p| p.compress()).collect(),
            g_base_vec: g,
            extension_degree: ext_degree(t),
        }
    }

    fn describe(p: &FM) -> Value {
        let coef: Vec<Value> = p.0.iter().map(|(k, v)| json!([k, sc_hex(v)])).collect();
        json!({"enc": hex(&p.compress().0), "coef": coef})
    }

    fn undecodable(tag: u64) -> [u8; 32] {
        let mut h = Sha3_512::new();
        h.update(b"bpv-undecodable");
        h.update(tag.to_le_bytes());
        let out: [u8; 64] = h.finalize().into();
        let mut b = [0u8; 32];
        b.copy_from_slice(&out[..32]);
        assert!(FMc(b).decompress().is_none());
        b
    }
}

impl Grp for RistrettoPoint {
    const NAME: &'static str = "ristretto";

    fn pedersen(t: usize) -> PedersenGens<RistrettoPoint> {
        ristretto::create_pedersen_gens_with_extension_degree(ext_degree(t))
    }

    fn describe(p: &RistrettoPoint) -> Value {
        json!({"enc": hex(p.compress().as_bytes())})
    }

    fn undecodable(tag: u64) -> [u8; 32] {
        let mut t = tag;
        loop {
            let mut h = Sha3_512::new();
            h.update(b"bpv-undecodable");
            h.update(t.to_le_bytes());
            let out: [u8; 64] = h.finalize().into();
            let mut b = [0u8; 32];
            b.copy_from_slice(&out[..32]);
            if CompressedRistretto(b).decompress().is_none() {
                return b;
            }
            t = t.wrapping_add(0x9e3779b97f4a7c15);
        }
    }
}
