//! C15: byte codec observations (from_bytes / to_bytes / serde via bincode), under catch_unwind.
use std::panic::{catch_unwind, AssertUnwindSafe};

use curve25519_dalek::ristretto::RistrettoPoint;
use serde_json::{json, Value};
use tari_bulletproofs_plus::range_proof::RangeProof;

use crate::{
    fm::FM,
    grp::{hex, unhex},
    session::{err_name, LAST_PANIC},
};

pub fn run(spec: &Value) -> Value {
    let bytes = unhex(spec["hex"].as_str().unwrap());
    let mut rec = json!({"id": spec["id"]});
    // Ristretto instance
    let r = catch_unwind(AssertUnwindSafe(|| RangeProof::<RistrettoPoint>::from_bytes(&bytes)));
    match r {
        Ok(Ok(p)) => {
            rec["decode"] = json!("ok");
            rec["reenc"] = json!(hex(&p.to_bytes()));
            rec["tag"] = json!(p.extension_degree() as u8);
            // decode again and compare (PartialEq on proofs)
            let p2 = RangeProof::<RistrettoPoint>::from_bytes(&p.to_bytes());
            rec["redecode_eq"] = json!(matches!(p2, Ok(ref q) if *q == p));
            match bincode::serialize(&p) {
                Ok(ser) => rec["bincode_ser"] = json!(hex(&ser)),
                Err(_) => rec["bincode_ser"] = json!("err"),
            }
        },
        Ok(Err(e)) => rec["decode"] = json!(format!("err:{}", err_name(&e))),
        Err(_) => rec["decode"] = json!(format!("panic:{}", LAST_PANIC.with(|p| p.borrow().clone()))),
    }
    // the free-module instance must agree (the codec is group independent)
    let r2 = catch_unwind(AssertUnwindSafe(|| RangeProof::<FM>::from_bytes(&bytes)));
    rec["decode_fm"] = match r2 {
        Ok(Ok(p)) => json!(format!("ok:{}", hex(&p.to_bytes()))),
        Ok(Err(_)) => json!("err"),
        Err(_) => json!("panic"),
    };
    // serde: bincode frames a byte string as LE64 length followed by the bytes
    let mut framed = (bytes.len() as u64).to_le_bytes().to_vec();
    framed.extend_from_slice(&bytes);
    let r3 = catch_unwind(AssertUnwindSafe(|| bincode::deserialize::<RangeProof<RistrettoPoint>>(&framed)));
    rec["bincode_de"] = match r3 {
        Ok(Ok(p)) => json!(format!("ok:{}", hex(&p.to_bytes()))),
        Ok(Err(_)) => json!("err"),
        Err(_) => json!("panic"),
    };
    // the same serde form read from an io::Read (bincode then hands the visitor owned / transient bytes, not a borrowed slice)
    let r5 = catch_unwind(AssertUnwindSafe(|| bincode::deserialize_from::<_, RangeProof<RistrettoPoint>>(std::io::Cursor::new(framed.clone()))));
    rec["bincode_de_reader"] = match r5 {
        Ok(Ok(p)) => json!(format!("ok:{}", hex(&p.to_bytes()))),
        Ok(Err(_)) => json!("err"),
        Err(_) => json!("panic"),
    };
    let r4 = catch_unwind(AssertUnwindSafe(|| RangeProof::<RistrettoPoint>::extension_degree_from_proof_bytes(&bytes)));
    rec["tag_from_bytes"] = match r4 {
        Ok(Ok(d)) => json!(d as u8),
        Ok(Err(_)) => json!("err"),
        Err(_) => json!("panic"),
    };
    rec
}
