//! C20: interposing global allocator.  While armed, every block handed to `dealloc` (and, through the
//! default `realloc`, every block that is reallocated) is copied into an arena; afterwards the copies are
//! scanned for the byte patterns of the secrets.  Built at opt-level 0 (dev profile): optimised builds
//! elide some of the temporaries the property is about.
use std::{
    alloc::{GlobalAlloc, Layout, System},
    sync::atomic::{AtomicBool, AtomicUsize, Ordering},
};

use curve25519_dalek::{ristretto::RistrettoPoint, scalar::Scalar};
use merlin::Transcript;
use rand_chacha::ChaCha12Rng;
use rand_core::{RngCore, SeedableRng};
use serde_json::{json, Value};
use tari_bulletproofs_plus::{
    commitment_opening::CommitmentOpening,
    extended_mask::ExtendedMask,
    generators::pedersen_gens::ExtensionDegree,
    range_parameters::RangeParameters,
    range_proof::{RangeProof, VerifyAction},
    range_statement::RangeStatement,
    range_witness::RangeWitness,
    ristretto,
};

const ARENA: usize = 1 << 27;
static mut BUF: [u8; ARENA] = [0u8; ARENA];
const MAXREC: usize = 1 << 20;
static mut RECS: [(usize, usize); MAXREC] = [(0, 0); MAXREC];
static POS: AtomicUsize = AtomicUsize::new(0);
static NREC: AtomicUsize = AtomicUsize::new(0);
static ARMED: AtomicBool = AtomicBool::new(false);
static OVERFLOW: AtomicBool = AtomicBool::new(false);

struct Spy;
unsafe impl GlobalAlloc for Spy {
    unsafe fn alloc(&self, l: Layout) -> *mut u8 {
        System.alloc(l)
    }

    unsafe fn dealloc(&self, p: *mut u8, l: Layout) {
        if ARMED.load(Ordering::Relaxed) {
            let n = l.size();
            let at = POS.fetch_add(n, Ordering::Relaxed);
            let r = NREC.fetch_add(1, Ordering::Relaxed);
            if at + n <= ARENA && r < MAXREC {
                std::ptr::copy_nonoverlapping(p, (&raw mut BUF as *mut u8).add(at), n);
                (*(&raw mut RECS))[r] = (at, n);
            } else {
                OVERFLOW.store(true, Ordering::Relaxed);
            }
        }
        System.dealloc(p, l)
    }
}
#[global_allocator]
static A: Spy = Spy;

fn arm() {
    POS.store(0, Ordering::Relaxed);
    NREC.store(0, Ordering::Relaxed);
    ARMED.store(true, Ordering::SeqCst);
}

/// disarm and scan the recorded blocks for each named pattern
fn disarm_scan(patterns: &[(String, Vec<u8>)]) -> Value {
    ARMED.store(false, Ordering::SeqCst);
    let n = NREC.load(Ordering::Relaxed).min(MAXREC);
    let mut hits = vec![];
    let mut blocks = 0usize;
    for r in 0..n {
        let (at, len) = unsafe { (*(&raw const RECS))[r] };
        if at + len > ARENA {
            continue;
        }
        blocks += 1;
        let b = unsafe { std::slice::from_raw_parts((&raw const BUF as *const u8).add(at), len) };
        for (name, pat) in patterns {
            if pat.len() <= len && b.windows(pat.len()).any(|w| w == &pat[..]) {
                hits.push(json!({"secret": name, "block_size": len}));
            }
        }
    }
    json!({"freed_blocks": blocks, "dirty": hits, "overflow": OVERFLOW.load(Ordering::Relaxed)})
}

fn ext(t: usize) -> ExtensionDegree {
    use std::convert::TryFrom;
    ExtensionDegree::try_from(t).unwrap()
}

fn run_case(bits: usize, m: usize, t: usize, seeded: bool, rseed: u64) -> Value {
    let mut rng = ChaCha12Rng::seed_from_u64(rseed);
    let pc = ristretto::create_pedersen_gens_with_extension_degree(ext(t));
    let params = RangeParameters::<RistrettoPoint>::init(bits, m, pc).unwrap();
    // secrets (harness-owned copies stay alive, and are never freed, while armed)
    let mut values = vec![];
    let mut blindings: Vec<Vec<Scalar>> = vec![];
    for _ in 0..m {
        let v = if bits == 64 { rng.next_u64() | (1 << 63) | 0x0101_0101_0101_0101 } else { rng.next_u64() >> (64 - bits) };
        values.push(v);
        blindings.push((0..t).map(|_| Scalar::random(&mut rng)).collect());
    }
    let seed = Scalar::random(&mut rng);
    let mut patterns: Vec<(String, Vec<u8>)> = vec![];
    if seeded {
        patterns.push(("seed".into(), seed.as_bytes().to_vec()));
    }
    for (j, bl) in blindings.iter().enumerate() {
        for (k, b) in bl.iter().enumerate() {
            patterns.push((format!("blinding[{}][{}]", j, k), b.as_bytes().to_vec()));
        }
    }
    if bits == 64 {
        for (j, v) in values.iter().enumerate() {
            patterns.push((format!("value[{}]", j), v.to_le_bytes().to_vec()));
        }
    }
    // derived images: the bit decomposition the prover commits to (a_L: one scalar 0/1 per bit; a_R = a_L - 1), per commitment
    if bits >= 16 {
        for (j, v) in values.iter().enumerate() {
            let mut al = vec![];
            let mut ar = vec![];
            for i in 0..bits {
                let b = Scalar::from((v >> i) & 1);
                al.extend_from_slice(b.as_bytes());
                ar.extend_from_slice((b - Scalar::ONE).as_bytes());
            }
            patterns.push((format!("a_L bits of value[{}]", j), al));
            patterns.push((format!("a_R bits of value[{}]", j), ar));
        }
    }
    let commitments: Vec<RistrettoPoint> =
        values.iter().zip(blindings.iter()).map(|(v, r)| params.pc_gens().commit(&Scalar::from(*v), r).unwrap()).collect();
    let promises = vec![None; m];
    let statement = RangeStatement::init(params.clone(), commitments.clone(), promises.clone(), if seeded { Some(seed) } else { None }).unwrap();
    let openings: Vec<CommitmentOpening> = values.iter().zip(blindings.iter()).map(|(v, r)| CommitmentOpening::new(*v, r.clone())).collect();
    let witness = RangeWitness::init(openings).unwrap();
    let mut out = json!({"bits": bits, "m": m, "T": t, "seeded": seeded});

    // phase 1: prove
    let mut tr = Transcript::new(b"bpv-alloc");
    let mut prng = ChaCha12Rng::seed_from_u64(rseed ^ 0xabcdef);
    arm();
    let proof = RangeProof::<RistrettoPoint>::prove_with_rng(&mut tr, &statement, &witness, &mut prng);
    out["prove"] = disarm_scan(&patterns);
    let proof = proof.unwrap();

    // phase 2: verify with recovery
    let mut trs = vec![Transcript::new(b"bpv-alloc")];
    let sts = vec![statement.clone()];
    let prs = vec![proof.clone()];
    arm();
    let res = RangeProof::<RistrettoPoint>::verify_batch(&mut trs, &sts, &prs, VerifyAction::RecoverAndVerify);
    let scan = disarm_scan(&patterns);
    out["verify_recover"] = scan;
    let masks = res.unwrap();
    out["recovered"] = json!(masks.iter().map(|m| m.is_some()).collect::<Vec<_>>());

    // phase 2b: a recovering verification that FAILS after the masks were recovered (a later member of the batch is invalid): nothing freed on
    // the error path may hold what was recovered
    if seeded {
        let mut bad = proof.clone().to_bytes();
        let n = bad.len();
        bad[n - 40] ^= 1;                                         // inside the last R: still a canonical point or not, the batch must fail
        let other = RangeProof::<RistrettoPoint>::from_bytes(&bad);
        let mut bad2 = proof.to_bytes();
        bad2[1 + 32 * t + 32 * 3 + 1] ^= 1;                      // r1 changed: decodes, does not verify
        let other2 = RangeProof::<RistrettoPoint>::from_bytes(&bad2);
        for (name, second) in [("verify_fails_after_recovery_a", other.ok()), ("verify_fails_after_recovery_b", other2.ok())] {
            if let Some(p2) = second {
                let st_plain = RangeStatement::init(params.clone(), commitments.clone(), promises.clone(), None).unwrap();
                let mut trs = vec![Transcript::new(b"bpv-alloc"), Transcript::new(b"bpv-alloc")];
                let sts = vec![statement.clone(), st_plain];
                let prs = vec![proof.clone(), p2];
                for mode in [VerifyAction::RecoverAndVerify] {
                    arm();
                    let res = RangeProof::<RistrettoPoint>::verify_batch(&mut trs, &sts, &prs, mode);
                    let scan = disarm_scan(&patterns);
                    out[name] = scan;
                    out[format!("{}_is_err", name)] = json!(res.is_err());
                }
            }
        }
    }

    // phase 3: drop of the recovered masks (they hold the blinding factors)
    arm();
    drop(masks);
    out["drop_masks"] = disarm_scan(&patterns);

    // phase 4: drops of the owning types
    let w2 = witness.clone();
    arm();
    drop(w2);
    out["drop_witness"] = disarm_scan(&patterns);
    let o2 = CommitmentOpening::new(values[0], blindings[0].clone());
    arm();
    drop(o2);
    out["drop_opening"] = disarm_scan(&patterns);
    let em = ExtendedMask::assign(ext(t), blindings[0].clone()).unwrap();
    arm();
    drop(em);
    out["drop_mask"] = disarm_scan(&patterns);
    let st2 = statement.clone();
    arm();
    drop(st2);
    out["drop_statement"] = disarm_scan(&patterns);

    // phase 4b: statements that live on the heap (a Vec / Box of statements, as handed to verify_batch), built on parameter objects whose
    // capacity exceeds the statement's aggregation factor: the seed sits inline in the freed block
    if seeded && m == 1 {
        for cap in [1usize, 2, 4] {
            let pc2 = ristretto::create_pedersen_gens_with_extension_degree(ext(t));
            let params2 = RangeParameters::<RistrettoPoint>::init(bits, cap, pc2).unwrap();
            let st = RangeStatement::init(params2, vec![commitments[0]], vec![None], Some(seed)).unwrap();
            let heap = vec![st.clone(), st.clone(), st.clone()];
            let boxed = Box::new(st);
            arm();
            drop(heap);
            drop(boxed);
            out[format!("drop_statements_on_heap_cap{}", cap)] = disarm_scan(&patterns);
        }
    }

    // phase 4c: a witness REFRESHED in place from a larger one (Clone::clone_from): whatever the old object held must be wiped before any of its
    // blocks is released, also when the openings vector has to grow
    {
        let mut small = RangeWitness::init(vec![CommitmentOpening::new(values[0], blindings[0].clone())]).unwrap();
        let mut ops2: Vec<CommitmentOpening> = values.iter().zip(blindings.iter()).map(|(v, r)| CommitmentOpening::new(*v, r.clone())).collect();
        ops2.push(CommitmentOpening::new(values[0], blindings[0].clone()));
        if ops2.len() % 2 == 1 {
            ops2.push(CommitmentOpening::new(values[0], blindings[0].clone()));
        }
        let big = RangeWitness::init(ops2).unwrap();
        arm();
        small.clone_from(&big);
        out["witness_clone_from"] = disarm_scan(&patterns);
        arm();
        drop(small);
        drop(big);
        out["drop_after_clone_from"] = disarm_scan(&patterns);
    }

    // phase 5: owning types built from vectors whose spare capacity still holds secrets (truncate / drain leave stale copies behind):
    // the whole buffer that held secrets must be wiped, not only its live elements
    let spare: Vec<Scalar> = (0..2).map(|_| Scalar::random(&mut rng)).collect();
    let mut pat2 = patterns.clone();
    for (i, x) in spare.iter().enumerate() {
        pat2.push((format!("spare[{}]", i), x.as_bytes().to_vec()));
    }
    let mk_trunc = |bl: &Vec<Scalar>| {
        let mut r = Vec::with_capacity(bl.len() + 4);
        r.extend_from_slice(bl);
        r.extend_from_slice(&spare);
        r.truncate(bl.len());
        r
    };
    let mk_drain = |bl: &Vec<Scalar>| {
        let mut r = Vec::with_capacity(bl.len() + 4);
        r.extend_from_slice(&spare);
        r.extend_from_slice(bl);
        r.drain(..2);
        r
    };
    let o3 = CommitmentOpening::new(values[0], mk_trunc(&blindings[0]));
    let o4 = CommitmentOpening::new(values[0], mk_drain(&blindings[0]));
    arm();
    drop(o3);
    drop(o4);
    out["drop_opening_spare"] = disarm_scan(&pat2);
    let em3 = ExtendedMask::assign(ext(t), mk_trunc(&blindings[0])).unwrap();
    let em4 = ExtendedMask::assign(ext(t), mk_drain(&blindings[0])).unwrap();
    arm();
    drop(em3);
    drop(em4);
    out["drop_mask_spare"] = disarm_scan(&pat2);
    let ops3: Vec<CommitmentOpening> =
        values.iter().zip(blindings.iter()).enumerate().map(|(j, (v, r))| CommitmentOpening::new(*v, if j % 2 == 0 { mk_trunc(r) } else { mk_drain(r) })).collect();
    let w3 = RangeWitness::init(ops3).unwrap();
    let mut tr3 = Transcript::new(b"bpv-alloc");
    arm();
    let p3 = RangeProof::<RistrettoPoint>::prove_with_rng(&mut tr3, &statement, &w3, &mut prng);
    drop(w3);
    out["prove_drop_witness_spare"] = disarm_scan(&pat2);
    out["prove_spare_ok"] = json!(p3.is_ok());
    // phase 6: a prove that FAILS half-way (a later member's promise exceeds its value): whatever was built from the earlier members'
    // secrets before the error return must be wiped too
    if m >= 2 {
        let mut bad_promises: Vec<Option<u64>> = vec![None; m];
        bad_promises[m - 1] = values[m - 1].checked_add(1).filter(|p| bits == 64 || *p < (1u64 << bits));
        if bad_promises[m - 1].is_some() {
            let st_bad = RangeStatement::init(params.clone(), commitments.clone(), bad_promises, None).unwrap();
            let mut trb = Transcript::new(b"bpv-alloc");
            arm();
            let pb = RangeProof::<RistrettoPoint>::prove_with_rng(&mut trb, &st_bad, &witness, &mut prng);
            out["prove_fails"] = disarm_scan(&patterns);
            out["prove_fails_is_err"] = json!(pb.is_err());
        }
    }
    // phase 7: a prove the library REFUSES because a value does not fit the bit length: neither the error it returns nor anything freed on
    // the way may hold the value, as bytes or as text (decimal / hex), once dropped
    if bits < 64 {
        let big_v: u64 = (1u64 << 40) | (rng.next_u64() >> 26) | 0x0101_0000;
        let j = m - 1;
        let mut vals2 = values.clone();
        vals2[j] = big_v;
        let comm2: Vec<RistrettoPoint> =
            vals2.iter().zip(blindings.iter()).map(|(v, r)| params.pc_gens().commit(&Scalar::from(*v), r).unwrap()).collect();
        let st2 = RangeStatement::init(params.clone(), comm2, vec![None; m], None).unwrap();
        let ops2: Vec<CommitmentOpening> = vals2.iter().zip(blindings.iter()).map(|(v, r)| CommitmentOpening::new(*v, r.clone())).collect();
        let w2 = RangeWitness::init(ops2).unwrap();
        let mut pat4 = patterns.clone();
        pat4.push(("refused value (LE bytes)".into(), big_v.to_le_bytes().to_vec()));
        pat4.push(("refused value (decimal text)".into(), format!("{}", big_v).into_bytes()));
        pat4.push(("refused value (hex text)".into(), format!("{:x}", big_v).into_bytes()));
        pat4.push(("refused value (HEX text)".into(), format!("{:X}", big_v).into_bytes()));
        let mut tr7 = Transcript::new(b"bpv-alloc");
        arm();
        let r7 = RangeProof::<RistrettoPoint>::prove_with_rng(&mut tr7, &st2, &w2, &mut prng);
        let is_err = r7.is_err();
        drop(r7);
        out["prove_refused"] = disarm_scan(&pat4);
        out["prove_refused_is_err"] = json!(is_err);
        drop(w2);
    }
    // the vector of openings itself: an opening that was pushed and popped again leaves its bytes (value, pointer) in the spare capacity
    let extra_v: u64 = rng.next_u64() | (1 << 63) | 0x0101_0101_0101_0101;
    let mut ops4: Vec<CommitmentOpening> = Vec::with_capacity(m + 2);
    for (v, r) in values.iter().zip(blindings.iter()) {
        ops4.push(CommitmentOpening::new(*v, r.clone()));
    }
    ops4.push(CommitmentOpening::new(extra_v, blindings[0].clone()));
    let popped = ops4.pop();
    drop(popped);
    let w4 = RangeWitness::init(ops4).unwrap();
    let mut pat3 = patterns.clone();
    pat3.push(("popped_opening_value".into(), extra_v.to_le_bytes().to_vec()));
    arm();
    drop(w4);
    out["drop_witness_vec_spare"] = disarm_scan(&pat3);

    // the inline seed of a statement is cleared by its Drop
    if seeded {
        let mut md = std::mem::ManuallyDrop::new(statement.clone());
        let p: *const Option<Scalar> = &md.seed_nonce;
        unsafe {
            std::mem::ManuallyDrop::drop(&mut md);
            let after = std::ptr::read_volatile(p as *const [u8; std::mem::size_of::<Option<Scalar>>()]);
            let sb = seed.as_bytes();
            out["inline_seed_cleared"] = json!(!after.windows(32).any(|w| w == &sb[..]));
        }
    }
    drop(sts);
    drop(prs);
    out
}

fn main() {
    // cases: "bits m T seeded rseed" per stdin line
    use std::io::BufRead;
    for line in std::io::stdin().lock().lines() {
        let line = line.unwrap();
        let f: Vec<&str> = line.split_whitespace().collect();
        if f.len() < 5 {
            continue;
        }
        let v = run_case(f[0].parse().unwrap(), f[1].parse().unwrap(), f[2].parse().unwrap(), f[3] == "1", f[4].parse().unwrap());
        println!("{}", v);
    }
}
