//! Free-module group `FM`: every element is a visible sparse coefficient vector over formal basis
//! generators.  `from_uniform_bytes` interns its 64-byte input as a fresh basis vector, so every
//! generator the library derives is an independent formal generator.  Every multiscalar
//! multiplication through the precomputation trait is logged (thread-local).
//!
//! The length assertions of curve25519-dalek 4.1.3 are replicated so that a length mismatch that
//! would abort on Ristretto aborts here as well.
use std::{
    borrow::Borrow,
    cell::{Cell, RefCell},
    collections::{BTreeMap, HashMap},
    ops::{Add, AddAssign, Mul},
    sync::Mutex,
};

use curve25519_dalek::{
    scalar::Scalar,
    traits::{Identity, MultiscalarMul, VartimeMultiscalarMul, VartimePrecomputedMultiscalarMul},
};
use once_cell::sync::Lazy;
use sha3::{Digest, Sha3_256};
use subtle::{Choice, ConstantTimeEq};
use tari_bulletproofs_plus::{
    protocols::curve_point_protocol::CurvePointProtocol,
    traits::{Compressable, Decompressable, FixedBytesRepr, FromUniformBytes, Precomputable},
};

#[derive(Clone, Debug, PartialEq, Eq, Default)]
pub struct FM(pub BTreeMap<u32, Scalar>);

#[derive(Clone, Copy, Debug, PartialEq, Eq, Hash)]
pub struct FMc(pub [u8; 32]);

struct Interner {
    by_bytes: HashMap<[u8; 64], u32>,
    bytes: Vec<[u8; 64]>,
}
static BASIS: Lazy<Mutex<Interner>> = Lazy::new(|| Mutex::new(Interner { by_bytes: HashMap::new(), bytes: Vec::new() }));
static DECOMP: Lazy<Mutex<HashMap<[u8; 32], FM>>> = Lazy::new(|| Mutex::new(HashMap::new()));

pub fn basis_bytes(id: u32) -> [u8; 64] {
    BASIS.lock().unwrap().bytes[id as usize]
}
pub fn basis_count() -> usize {
    BASIS.lock().unwrap().bytes.len()
}

impl FM {
    pub fn basis(id: u32) -> FM {
        let mut m = BTreeMap::new();
        m.insert(id, Scalar::ONE);
        FM(m)
    }
    pub fn zero() -> FM {
        FM(BTreeMap::new())
    }
    pub fn is_zero(&self) -> bool {
        self.0.is_empty()
    }
    pub fn add_scaled(&mut self, s: &Scalar, p: &FM) {
        if *s == Scalar::ZERO {
            return;
        }
        for (k, v) in &p.0 {
            let e = self.0.entry(*k).or_insert(Scalar::ZERO);
            *e += s * v;
            if *e == Scalar::ZERO {
                self.0.remove(k);
            }
        }
    }
    /// the id if this element is exactly one basis vector
    pub fn as_basis(&self) -> Option<u32> {
        if self.0.len() == 1 {
            let (k, v) = self.0.iter().next().unwrap();
            if *v == Scalar::ONE {
                return Some(*k);
            }
        }
        None
    }
    pub fn coef(&self, id: u32) -> Scalar {
        self.0.get(&id).copied().unwrap_or(Scalar::ZERO)
    }
}

impl Identity for FM {
    fn identity() -> Self {
        FM::zero()
    }
}
impl Add<FM> for FM {
    type Output = FM;
    fn add(mut self, rhs: FM) -> FM {
        self.add_scaled(&Scalar::ONE, &rhs);
        self
    }
}
impl<'a> Add<&'a FM> for &'a FM {
    type Output = FM;
    fn add(self, rhs: &FM) -> FM {
        let mut r = self.clone();
        r.add_scaled(&Scalar::ONE, rhs);
        r
    }
}
impl AddAssign<FM> for FM {
    fn add_assign(&mut self, rhs: FM) {
        self.add_scaled(&Scalar::ONE, &rhs);
    }
}
impl<'a> Mul<Scalar> for &'a FM {
    type Output = FM;
    fn mul(self, s: Scalar) -> FM {
        let mut r = FM::zero();
        r.add_scaled(&s, self);
        r
    }
}

impl FromUniformBytes for FM {
    fn from_uniform_bytes(bytes: &[u8; 64]) -> Self {
        let mut b = BASIS.lock().unwrap();
        let id = if let Some(id) = b.by_bytes.get(bytes) {
            *id
        } else {
            let id = b.bytes.len() as u32;
            b.bytes.push(*bytes);
            b.by_bytes.insert(*bytes, id);
            id
        };
        FM::basis(id)
    }
}

impl Compressable for FM {
    type Compressed = FMc;
    fn compress(&self) -> FMc {
        if self.is_zero() {
            return FMc([0u8; 32]);
        }
        // canonical across processes: basis vectors are identified by their 64 uniform bytes, not by the
        // order in which they were interned
        let mut h = Sha3_256::new();
        h.update(b"FM-compress");
        let mut entries: Vec<([u8; 64], &Scalar)> = {
            let b = BASIS.lock().unwrap();
            self.0.iter().map(|(k, v)| (b.bytes[*k as usize], v)).collect()
        };
        entries.sort_by(|a, b| a.0.cmp(&b.0));
        for (k, v) in &entries {
            h.update(k);
            h.update(v.as_bytes());
        }
        let out: [u8; 32] = h.finalize().into();
        DECOMP.lock().unwrap().entry(out).or_insert_with(|| self.clone());
        FMc(out)
    }
}
impl Decompressable for FMc {
    type Decompressed = FM;
    fn decompress(&self) -> Option<FM> {
        if self.0 == [0u8; 32] {
            return Some(FM::zero());
        }
        DECOMP.lock().unwrap().get(&self.0).cloned()
    }
}
impl FixedBytesRepr for FMc {
    fn as_fixed_bytes(&self) -> &[u8; 32] {
        &self.0
    }
    fn from_fixed_bytes(bytes: [u8; 32]) -> Self {
        FMc(bytes)
    }
}
impl Identity for FMc {
    fn identity() -> Self {
        FMc([0u8; 32])
    }
}
impl ConstantTimeEq for FMc {
    fn ct_eq(&self, other: &Self) -> Choice {
        self.0.ct_eq(&other.0)
    }
}
impl CurvePointProtocol for FM {}

// ---------------------------------------------------------------- MSM + log
#[derive(Clone, Debug)]
pub struct MsmCall {
    pub kind: &'static str,
    pub static_len: usize,
    pub static_scalars: Vec<Scalar>,
    pub dyn_scalars: Vec<Scalar>,
    pub dyn_points: Vec<FM>,
    pub result: FM,
}
thread_local! {
    static MSM_LOG: RefCell<Vec<MsmCall>> = RefCell::new(Vec::new());
    /// 0 = off, 1 = precomputed (mixed) calls only, 2 = all calls
    static MSM_LEVEL: Cell<u8> = Cell::new(0);
    static MSM_COUNT: Cell<u64> = Cell::new(0);
}
pub fn msm_log_level(l: u8) {
    MSM_LEVEL.with(|e| e.set(l));
}
pub fn msm_take() -> Vec<MsmCall> {
    MSM_LOG.with(|l| std::mem::take(&mut *l.borrow_mut()))
}
pub fn msm_count_take() -> u64 {
    MSM_COUNT.with(|c| c.replace(0))
}

fn plain_msm<I, J>(kind: &'static str, scalars: I, points: J) -> Option<FM>
where
    I: IntoIterator,
    I::Item: Borrow<Scalar>,
    J: IntoIterator<Item = Option<FM>>,
{
    let mut scalars = scalars.into_iter();
    let mut points = points.into_iter();
    // curve25519-dalek (edwards.rs, VartimeMultiscalarMul / MultiscalarMul): the size hints must be
    // exact and equal.
    let (s_lo, s_hi) = scalars.by_ref().size_hint();
    let (p_lo, p_hi) = points.by_ref().size_hint();
    assert_eq!(s_lo, p_lo);
    assert_eq!(s_hi, Some(s_lo));
    assert_eq!(p_hi, Some(p_lo));
    let ss: Vec<Scalar> = scalars.map(|s| *s.borrow()).collect();
    let ps: Vec<FM> = points.collect::<Option<Vec<_>>>()?;
    let mut r = FM::zero();
    for (s, p) in ss.iter().zip(ps.iter()) {
        r.add_scaled(s, p);
    }
    MSM_COUNT.with(|c| c.set(c.get() + 1));
    if MSM_LEVEL.with(|e| e.get()) >= 2 {
        MSM_LOG.with(|l| {
            l.borrow_mut().push(MsmCall {
                kind,
                static_len: 0,
                static_scalars: vec![],
                dyn_scalars: ss,
                dyn_points: ps,
                result: r.clone(),
            })
        });
    }
    Some(r)
}

impl MultiscalarMul for FM {
    type Point = FM;
    fn multiscalar_mul<I, J>(scalars: I, points: J) -> FM
    where
        I: IntoIterator,
        I::Item: Borrow<Scalar>,
        J: IntoIterator,
        J::Item: Borrow<FM>,
    {
        plain_msm("ct", scalars, points.into_iter().map(|p| Some(p.borrow().clone()))).unwrap()
    }
}
impl VartimeMultiscalarMul for FM {
    type Point = FM;
    fn optional_multiscalar_mul<I, J>(scalars: I, points: J) -> Option<FM>
    where
        I: IntoIterator,
        I::Item: Borrow<Scalar>,
        J: IntoIterator<Item = Option<FM>>,
    {
        plain_msm("vartime", scalars, points)
    }
}

pub struct FMPrecomp {
    pub static_points: Vec<FM>,
}
impl VartimePrecomputedMultiscalarMul for FMPrecomp {
    type Point = FM;
    fn new<I>(static_points: I) -> Self
    where
        I: IntoIterator,
        I::Item: Borrow<FM>,
    {
        FMPrecomp { static_points: static_points.into_iter().map(|p| p.borrow().clone()).collect() }
    }
    fn optional_mixed_multiscalar_mul<I, J, K>(&self, static_scalars: I, dynamic_scalars: J, dynamic_points: K) -> Option<FM>
    where
        I: IntoIterator,
        I::Item: Borrow<Scalar>,
        J: IntoIterator,
        J::Item: Borrow<Scalar>,
        K: IntoIterator<Item = Option<FM>>,
    {
        let ss: Vec<Scalar> = static_scalars.into_iter().map(|s| *s.borrow()).collect();
        let ds: Vec<Scalar> = dynamic_scalars.into_iter().map(|s| *s.borrow()).collect();
        let dp: Vec<FM> = dynamic_points.into_iter().collect::<Option<Vec<_>>>()?;
        // curve25519-dalek precomputed_straus.rs: assert_eq!(sp, static_nafs.len()); assert_eq!(dp, dynamic_nafs.len());
        assert_eq!(self.static_points.len(), ss.len());
        assert_eq!(dp.len(), ds.len());
        let mut r = FM::zero();
        for (s, p) in ss.iter().zip(self.static_points.iter()) {
            r.add_scaled(s, p);
        }
        for (s, p) in ds.iter().zip(dp.iter()) {
            r.add_scaled(s, p);
        }
        MSM_COUNT.with(|c| c.set(c.get() + 1));
        if MSM_LEVEL.with(|e| e.get()) >= 1 {
            MSM_LOG.with(|l| {
                l.borrow_mut().push(MsmCall {
                    kind: "mixed",
                    static_len: self.static_points.len(),
                    static_scalars: ss,
                    dyn_scalars: ds,
                    dyn_points: dp,
                    result: r.clone(),
                })
            });
        }
        Some(r)
    }
}
impl Precomputable for FM {
    type Precomputation = FMPrecomp;
}
