//! C17: the complete constructor grid, run on the implementation under catch_unwind.
//! Result codes: 1 = Ok with stored values equal to the arguments, 3 = Ok but a stored value differs
//! (silent adjustment), 0 = Err, 2 = panic.
use std::{
    convert::TryFrom,
    io::Write,
    panic::{catch_unwind, AssertUnwindSafe},
};

use curve25519_dalek::{ristretto::RistrettoPoint, scalar::Scalar};
use serde_json::{json, Value};
use tari_bulletproofs_plus::{
    commitment_opening::CommitmentOpening,
    extended_mask::ExtendedMask,
    generators::pedersen_gens::ExtensionDegree,
    range_parameters::RangeParameters,
    range_statement::RangeStatement,
    range_witness::RangeWitness,
    traits::Compressable,
};

use crate::{fm::FM, grp::Grp};

fn code<T>(r: std::thread::Result<Result<T, tari_bulletproofs_plus::errors::ProofError>>, same: impl FnOnce(&T) -> bool) -> u8 {
    match r {
        Ok(Ok(v)) => {
            if same(&v) {
                1
            } else {
                3
            }
        },
        Ok(Err(_)) => 0,
        Err(_) => 2,
    }
}

pub fn run<W: Write>(out: &mut W) {
    // (a) parameters: bits x capacity, FM
    let mut rows = vec![];
    for bits in 0usize..=130 {
        for cap in 0usize..=130 {
            for t in [1usize, 6] {
                let pc = FM::pedersen(t);
                let pc2 = pc.clone();
                let r = catch_unwind(AssertUnwindSafe(|| RangeParameters::<FM>::init(bits, cap, pc)));
                let c = code(r, |p| {
                    p.bit_length() == bits &&
                        p.max_aggregation_factor() == cap &&
                        p.extension_degree() as usize == t &&
                        p.pc_gens() == &pc2 &&
                        p.gi_base_iter().count() == bits * cap &&
                        p.hi_base_iter().count() == bits * cap
                });
                rows.push(json!([bits, cap, t, c]));
            }
        }
    }
    writeln!(out, "{}", json!({"family": "params", "rows": rows})).unwrap();

    // (a') Ristretto sub-grid
    let mut rows = vec![];
    for bits in [0usize, 1, 2, 3, 4, 8, 12, 16, 32, 63, 64, 65, 128] {
        for cap in [0usize, 1, 2, 3, 4, 5, 8] {
            let pc = RistrettoPoint::pedersen(2);
            let r = catch_unwind(AssertUnwindSafe(|| RangeParameters::<RistrettoPoint>::init(bits, cap, pc)));
            let c = code(r, |p| p.bit_length() == bits && p.max_aggregation_factor() == cap && p.gi_base_iter().count() == bits * cap);
            rows.push(json!([bits, cap, 2, c]));
        }
    }
    writeln!(out, "{}", json!({"family": "params_ristretto", "rows": rows})).unwrap();

    // (b) statements: commitment count x promise count x seed x capacity
    let mut rows = vec![];
    for cap in [1usize, 2, 4, 8, 16, 32] {
        let params = RangeParameters::<FM>::init(8, cap, FM::pedersen(2)).unwrap();
        for count in 0usize..=17 {
            for pcount in 0usize..=18 {
                for seed in [false, true] {
                    let commitments: Vec<FM> = (0..count)
                        .map(|j| params.pc_gens().commit(&Scalar::from(j as u64 + 1), &[Scalar::from(3u64 + j as u64)]).unwrap())
                        .collect();
                    let promises: Vec<Option<u64>> = (0..pcount).map(|j| if j % 2 == 0 { None } else { Some(j as u64) }).collect();
                    let sd = if seed { Some(Scalar::from(99u64)) } else { None };
                    let (c2, p2) = (commitments.clone(), promises.clone());
                    let r = catch_unwind(AssertUnwindSafe(|| RangeStatement::<FM>::init(params.clone(), commitments, promises, sd)));
                    let c = code(r, |s| {
                        s.commitments == c2 &&
                            s.minimum_value_promises == p2 &&
                            s.seed_nonce == sd &&
                            s.commitments_compressed.len() == c2.len() &&
                            s.commitments_compressed.iter().zip(c2.iter()).all(|(a, b)| *a == b.compress()) &&
                            s.generators.max_aggregation_factor() == cap &&
                            s.generators.bit_length() == 8
                    });
                    rows.push(json!([cap, count, pcount, seed as u8, c]));
                }
            }
        }
    }
    // ... and promise VALUES: the constructor's verdict depends on the counts only, whatever the promises are (0, around 2^bits, around 2^32, u64::MAX),
    // for every bit length (the documented domain of RangeStatement::init says nothing about promise values)
    for bits in [1usize, 2, 4, 8, 16, 32, 64] {
        for cap in [1usize, 4] {
            let params = RangeParameters::<FM>::init(bits, cap, FM::pedersen(1)).unwrap();
            for count in [1usize, 2, 4, 3] {
                let top: u64 = if bits == 64 { u64::MAX } else { (1u64 << bits) - 1 };
                for pv in [0u64, 1, top, top.wrapping_add(1), top.wrapping_add(2), (1u64 << 32).wrapping_add(1), u64::MAX - 1, u64::MAX] {
                    for seed in [false, true] {
                        let commitments: Vec<FM> = (0..count).map(|j| params.pc_gens().commit(&Scalar::from(j as u64 + 1), &[Scalar::from(3u64 + j as u64)]).unwrap()).collect();
                        let promises: Vec<Option<u64>> = (0..count).map(|j| if j == count - 1 { Some(pv) } else { None }).collect();
                        let sd = if seed { Some(Scalar::from(99u64)) } else { None };
                        let (c2, p2) = (commitments.clone(), promises.clone());
                        let r = catch_unwind(AssertUnwindSafe(|| RangeStatement::<FM>::init(params.clone(), commitments, promises, sd)));
                        let c = code(r, |s| s.commitments == c2 && s.minimum_value_promises == p2 && s.seed_nonce == sd && s.generators.bit_length() == bits);
                        rows.push(json!([cap, count, count, seed as u8, c]));
                    }
                }
            }
        }
    }
    // ... and seed VALUES: the verdict depends on the PRESENCE of a seed only, whatever scalar it is (0, 1, -1, 2^252, a square, ...)
    for cap in [1usize, 2, 8] {
        let params = RangeParameters::<FM>::init(4, cap, FM::pedersen(1)).unwrap();
        for count in [1usize, 2, 4, 8, 3] {
            let seeds = [
                ("seed=0", Scalar::ZERO),
                ("seed=1", Scalar::ONE),
                ("seed=-1", -Scalar::ONE),
                ("seed=2^252", (0..252).fold(Scalar::ONE, |a, _| a + a)),
                ("seed=square", Scalar::from(0x9e3779b97f4a7c15u64) * Scalar::from(0x9e3779b97f4a7c15u64)),
            ];
            for (sname, sdv) in seeds {
                let commitments: Vec<FM> = (0..count).map(|j| params.pc_gens().commit(&Scalar::from(j as u64 + 1), &[Scalar::from(3u64 + j as u64)]).unwrap()).collect();
                let promises: Vec<Option<u64>> = vec![None; count];
                let sd = Some(sdv);
                let (c2, p2) = (commitments.clone(), promises.clone());
                let r = catch_unwind(AssertUnwindSafe(|| RangeStatement::<FM>::init(params.clone(), commitments, promises, sd)));
                let c = code(r, |s| s.commitments == c2 && s.minimum_value_promises == p2 && s.seed_nonce == sd && s.generators.bit_length() == 4);
                rows.push(json!([cap, count, count, 1u8, c, sname]));
            }
        }
    }
    writeln!(out, "{}", json!({"family": "statement", "rows": rows})).unwrap();

    // (c) witnesses: shapes of blinding counts
    let mut shapes: Vec<Vec<usize>> = vec![vec![]];
    for a in 0..=8 {
        shapes.push(vec![a]);
        for b in 0..=8 {
            shapes.push(vec![a, b]);
            for c in 0..=8 {
                shapes.push(vec![a, b, c]);
            }
        }
    }
    for n in [4usize, 5, 8, 16] {
        for a in 0..=8 {
            shapes.push(vec![a; n]);
            let mut s = vec![a; n];
            s[n - 1] = (a + 1) % 9;
            shapes.push(s);
        }
    }
    let mut rows = vec![];
    for sh in &shapes {
        let openings: Vec<CommitmentOpening> = sh
            .iter()
            .enumerate()
            .map(|(j, &c)| CommitmentOpening::new(j as u64, (0..c).map(|k| Scalar::from((k + 1) as u64)).collect()))
            .collect();
        let n = sh.len();
        let first = sh.first().copied().unwrap_or(0);
        let r = catch_unwind(AssertUnwindSafe(|| RangeWitness::init(openings)));
        let c = code(r, |w| w.openings.len() == n && w.extension_degree as usize == first);
        rows.push(json!([sh, c]));
    }
    writeln!(out, "{}", json!({"family": "witness", "rows": rows})).unwrap();

    // (c') opening length accessor
    let mut rows = vec![];
    for c in 0usize..=8 {
        let o = CommitmentOpening::new(5, (0..c).map(|k| Scalar::from(k as u64)).collect());
        let r = catch_unwind(AssertUnwindSafe(|| o.r_len()));
        rows.push(json!([c, code(r, |l| *l == c)]));
    }
    writeln!(out, "{}", json!({"family": "r_len", "rows": rows})).unwrap();

    // (d) extension degree encodings
    let mut rows = vec![];
    for x in 0u16..=255 {
        let x8 = x as u8;
        let r = catch_unwind(AssertUnwindSafe(|| ExtensionDegree::try_from(x8)));
        rows.push(json!([x, code(r, |d| *d as u8 == x8)]));
    }
    writeln!(out, "{}", json!({"family": "deg_u8", "rows": rows})).unwrap();
    let mut rows = vec![];
    let mut xs: Vec<usize> = (0usize..=300).collect();
    xs.extend_from_slice(&[
        256 + 1,
        256 + 6,
        512 + 3,
        65536 + 2,
        (1usize << 32),
        (1usize << 32) + 1,
        (1usize << 32) + 6,
        usize::MAX,
        usize::MAX - 5,
        (1usize << 63) + 1,
    ]);
    for x in xs {
        let r = catch_unwind(AssertUnwindSafe(|| ExtensionDegree::try_from(x)));
        rows.push(json!([x.to_string(), code(r, |d| *d as usize == x)]));
    }
    writeln!(out, "{}", json!({"family": "deg_usize", "rows": rows})).unwrap();

    // (e) masks
    let mut rows = vec![];
    for len in 0usize..=8 {
        for t in 1usize..=6 {
            let bl: Vec<Scalar> = (0..len).map(|k| Scalar::from(k as u64 + 11)).collect();
            let bl2 = bl.clone();
            let r = catch_unwind(AssertUnwindSafe(|| ExtendedMask::assign(crate::grp::ext_degree(t), bl)));
            rows.push(json!([len, t, code(r, |m| m.blindings().map(|b| b == bl2).unwrap_or(false))]));
        }
    }
    // ... the same for vectors whose ALLOCATION differs from their length (built by push, with_capacity, truncate, drain): the verdict is about
    // the number of elements only
    for len in 0usize..=8 {
        for t in 1usize..=6 {
            for style in 0..4 {
                let mut bl: Vec<Scalar> = match style {
                    0 => Vec::with_capacity(16),
                    1 => Vec::new(),
                    2 => Vec::with_capacity(t),
                    _ => Vec::with_capacity(len + 1),
                };
                for k in 0..len {
                    bl.push(Scalar::from(k as u64 + 11));
                }
                if style == 3 {
                    bl.push(Scalar::from(99u64));
                    bl.truncate(len);
                }
                let bl2 = bl.clone();
                let r = catch_unwind(AssertUnwindSafe(|| ExtendedMask::assign(crate::grp::ext_degree(t), bl)));
                rows.push(json!([len, t, code(r, |m| m.blindings().map(|b| b == bl2).unwrap_or(false))]));
            }
        }
    }
    writeln!(out, "{}", json!({"family": "mask", "rows": rows})).unwrap();

    // (f) commit
    let mut rows = vec![];
    for len in 0usize..=8 {
        for t in 1usize..=6 {
            let pc = FM::pedersen(t);
            let bl: Vec<Scalar> = (0..len).map(|k| Scalar::from(k as u64 + 21)).collect();
            let v = Scalar::from(1234u64);
            let r = catch_unwind(AssertUnwindSafe(|| pc.commit(&v, &bl)));
            let c = code(r, |p| {
                let mut e = FM::zero();
                e.add_scaled(&v, pc.h_base());
                for (b, g) in bl.iter().zip(pc.g_base_vec.iter()) {
                    e.add_scaled(b, g);
                }
                *p == e
            });
            rows.push(json!([len, t, c]));
        }
    }
    // the same rule on hand-assembled generator objects (the fields are public): a set that CARRIES more base points than its
    // extension degree says (built from the degree-6 set by changing only `extension_degree`) must still bound the blinding count by the degree
    for len in 0usize..=8 {
        for t in 1usize..=6 {
            let six = FM::pedersen(6);
            let mut pc = six.clone();
            pc.extension_degree = FM::pedersen(t).extension_degree;
            let bl: Vec<Scalar> = (0..len).map(|k| Scalar::from(k as u64 + 21)).collect();
            let v = Scalar::from(1234u64);
            let r = catch_unwind(AssertUnwindSafe(|| pc.commit(&v, &bl)));
            let c = code(r, |p| {
                let mut e = FM::zero();
                e.add_scaled(&v, pc.h_base());
                for (b, g) in bl.iter().zip(pc.g_base_vec.iter()) {
                    e.add_scaled(b, g);
                }
                *p == e
            });
            rows.push(json!([len, t, c]));
        }
    }
    writeln!(out, "{}", json!({"family": "commit", "rows": rows})).unwrap();
    let _: Option<Value> = None;
}
