//! bpv-harness: runs the library from /repo (path dependency, rebuilt from the working tree) and
//! writes observation records as JSON lines.  Subcommands:
//!   session <fm|ristretto>   specs on stdin -> observations on stdout
//!   codec                    {"id","hex"} lines -> decode / re-encode / bincode observations
//!   ctor                     the constructor grid of C17
mod codec;
mod ctor;
mod fm;
mod gens;
mod grp;
mod session;

use std::io::{BufRead, Write};

use curve25519_dalek::ristretto::RistrettoPoint;
use serde_json::Value;

fn main() {
    let args: Vec<String> = std::env::args().collect();
    session::install_panic_hook();
    let stdin = std::io::stdin();
    let stdout = std::io::stdout();
    let mut out = std::io::BufWriter::new(stdout.lock());
    match args.get(1).map(|s| s.as_str()) {
        Some("session") => {
            let group = args.get(2).map(|s| s.as_str()).unwrap_or("fm");
            for line in stdin.lock().lines() {
                let line = line.unwrap();
                if line.trim().is_empty() {
                    continue;
                }
                let spec: Value = serde_json::from_str(&line).expect("bad spec json");
                let g = spec["group"].as_str().unwrap_or(group).to_string();
                let rec = if g == "fm" {
                    session::run_session::<fm::FM>(&spec)
                } else {
                    session::run_session::<RistrettoPoint>(&spec)
                };
                writeln!(out, "{}", rec).unwrap();
            }
        },
        Some("codec") => {
            for line in stdin.lock().lines() {
                let line = line.unwrap();
                if line.trim().is_empty() {
                    continue;
                }
                let spec: Value = serde_json::from_str(&line).expect("bad spec json");
                writeln!(out, "{}", codec::run(&spec)).unwrap();
            }
        },
        Some("gens") => {
            for line in stdin.lock().lines() {
                let line = line.unwrap();
                if line.trim().is_empty() {
                    continue;
                }
                let spec: Value = serde_json::from_str(&line).expect("bad spec json");
                let rec = match spec["op"].as_str().unwrap_or("describe") {
                    "threads" => gens::threads(&spec),
                    "history" => gens::history(&spec),
                    "churn" => gens::churn(&spec),
                    "fresh_race" => gens::fresh_race(&spec),
                    "batch_race" => gens::batch_race(&spec),
                    "iter_api" => gens::iter_api(spec["bits"].as_u64().unwrap() as usize, spec["cap"].as_u64().unwrap() as usize),
                    _ => gens::describe_via(
                        spec["bits"].as_u64().unwrap() as usize,
                        spec["cap"].as_u64().unwrap() as usize,
                        spec["T"].as_u64().unwrap_or(6) as usize,
                        spec["table"].as_bool().unwrap_or(false),
                        spec["via_statement"].as_u64().map(|m| m as usize),
                    ),
                };
                writeln!(out, "{}", rec).unwrap();
            }
        },
        Some("ctor") => {
            ctor::run(&mut out);
        },
        _ => {
            eprintln!("usage: bpv-harness session <fm|ristretto> | codec | ctor");
            std::process::exit(2);
        },
    }
    out.flush().unwrap();
}
