//! C11 / C18: generator observations over Ristretto.
use std::sync::{Arc, Barrier};

use curve25519_dalek::{
    ristretto::RistrettoPoint,
    scalar::Scalar,
    traits::{Identity, VartimePrecomputedMultiscalarMul},
};
use merlin::Transcript;
use rand_chacha::ChaCha12Rng;
use rand_core::SeedableRng;
use serde_json::{json, Value};
use sha3::{Digest, Sha3_256};
use tari_bulletproofs_plus::{
    commitment_opening::CommitmentOpening,
    range_parameters::RangeParameters,
    range_proof::{RangeProof, VerifyAction},
    range_statement::RangeStatement,
    range_witness::RangeWitness,
    ristretto,
};

use crate::grp::{ext_degree, hex};

fn penc(p: &RistrettoPoint) -> String {
    hex(p.compress().as_bytes())
}

/// every generator of a parameter set, as bytes
pub fn describe(bits: usize, cap: usize, t: usize, with_table: bool) -> Value {
    describe_via(bits, cap, t, with_table, None)
}

/// `via_statement = Some(m)`: the parameter set is observed after a round trip through a statement of `m` commitments
/// (`RangeStatement::init(params, ..).generators`), which is the object prover and verifier actually read
pub fn describe_via(bits: usize, cap: usize, t: usize, with_table: bool, via_statement: Option<usize>) -> Value {
    let pc = ristretto::create_pedersen_gens_with_extension_degree(ext_degree(t));
    let params = match RangeParameters::<RistrettoPoint>::init(bits, cap, pc) {
        Ok(p) => p,
        Err(_) => return json!({"error": "init"}),
    };
    let params = match via_statement {
        None => params,
        Some(m) => {
            let r: Vec<Scalar> = (0..t).map(|i| Scalar::from(7u64 + i as u64)).collect();
            let cs: Vec<RistrettoPoint> = (0..m).map(|j| params.pc_gens().commit(&Scalar::from(j as u64), &r).unwrap()).collect();
            match RangeStatement::init(params, cs, vec![None; m], None) {
                Ok(st) => st.generators.clone(),
                Err(_) => return json!({"error": "statement"}),
            }
        },
    };
    let g: Vec<String> = params.gi_base_iter().map(penc).collect();
    let h: Vec<String> = params.hi_base_iter().map(penc).collect();
    let mut rec = json!({
        "bits": bits, "cap": cap, "T": t,
        "G": g, "Hv": h,
        "H": penc(params.h_base()),
        "H_compressed": hex(params.h_base_compressed().as_bytes()),
        "Gb": params.g_bases().iter().map(penc).collect::<Vec<_>>(),
        "Gb_compressed": params.g_bases_compressed().iter().map(|c| hex(c.as_bytes())).collect::<Vec<_>>(),
    });
    if with_table {
        // read the precomputed table out by unit-vector multiscalar multiplications
        let n = 2 * bits * cap;
        let pre = params.precomp();
        let mut tab = Vec::with_capacity(n);
        for i in 0..n {
            // the back end asserts that the table has as many rows as scalars: a short table must be reported, not abort the run
            let r = std::panic::catch_unwind(std::panic::AssertUnwindSafe(|| {
                let scalars = (0..n).map(|j| if j == i { Scalar::ONE } else { Scalar::ZERO });
                pre.vartime_mixed_multiscalar_mul(scalars, std::iter::empty::<Scalar>(), std::iter::empty::<RistrettoPoint>())
            }));
            match r {
                Ok(p) => tab.push(penc(&p)),
                Err(_) => {
                    rec["table_panic"] = json!(i);
                    break;
                },
            }
        }
        rec["table"] = json!(tab);
    }
    rec
}

fn digest(v: &Value) -> String {
    let mut h = Sha3_256::new();
    h.update(v.to_string().as_bytes());
    hex(&h.finalize())
}

/// a deterministic prove + verify task; returns the proof bytes and the verdict
fn task(params: &RangeParameters<RistrettoPoint>, seed: u64) -> Value {
    let bits = params.bit_length();
    let t = params.extension_degree() as usize;
    let mut rng = ChaCha12Rng::seed_from_u64(seed);
    let v = if bits == 64 { seed.wrapping_mul(0x9e3779b97f4a7c15) } else { seed % (1u64 << bits) };
    let r: Vec<Scalar> = (0..t).map(|_| Scalar::random(&mut rng)).collect();
    let c = params.pc_gens().commit(&Scalar::from(v), &r).unwrap();
    let sd = Scalar::random(&mut rng);
    let st = RangeStatement::init(params.clone(), vec![c], vec![None], Some(sd)).unwrap();
    let w = RangeWitness::init(vec![CommitmentOpening::new(v, r.clone())]).unwrap();
    let mut tr = Transcript::new(b"c18");
    let proof = RangeProof::<RistrettoPoint>::prove_with_rng(&mut tr, &st, &w, &mut rng).unwrap();
    let mut trs = vec![Transcript::new(b"c18")];
    let res = RangeProof::<RistrettoPoint>::verify_batch(&mut trs, &[st], &[proof.clone()], VerifyAction::RecoverAndVerify);
    let ok = match res {
        Ok(m) => m[0].as_ref().map(|x| x.blindings().unwrap() == r).unwrap_or(false),
        Err(_) => false,
    };
    json!({"proof": hex(&proof.to_bytes()), "ok": ok})
}

/// C18: many threads sharing one parameter object (and the lazily initialised statics) run the same tasks
/// concurrently; every result must equal the single-threaded baseline.
pub fn threads(spec: &Value) -> Value {
    let nthreads = spec["threads"].as_u64().unwrap_or(16) as usize;
    let reps = spec["reps"].as_u64().unwrap_or(4);
    let bits = spec["bits"].as_u64().unwrap_or(8) as usize;
    let degrees: Vec<usize> = spec["degrees"].as_array().map(|a| a.iter().map(|x| x.as_u64().unwrap() as usize).collect()).unwrap_or(vec![1, 3, 2, 6]);
    let race_first = spec["race_first_use"].as_bool().unwrap_or(false);
    let mut mismatches = vec![];
    let barrier = Arc::new(Barrier::new(nthreads));
    if race_first {
        // nothing has touched the cached statics yet: all threads race their first use
        let hs: Vec<_> = (0..nthreads)
            .map(|i| {
                let b = barrier.clone();
                let d = degrees[i % degrees.len()];
                std::thread::spawn(move || {
                    b.wait();
                    let pc = ristretto::create_pedersen_gens_with_extension_degree(ext_degree(d));
                    (d, pc.g_base_vec.iter().map(penc).collect::<Vec<_>>(), pc.g_base_compressed_vec.iter().map(|c| hex(c.as_bytes())).collect::<Vec<_>>())
                })
            })
            .collect();
        let outs: Vec<_> = hs.into_iter().map(|h| h.join().unwrap()).collect();
        let mut full: Vec<String> = vec![];
        for (_, g, _) in &outs {
            if g.len() > full.len() {
                full = g.clone();
            }
        }
        for (d, g, gc) in &outs {
            if g[..] != full[..*d] || gc[..] != full[..*d] {
                mismatches.push(json!({"kind": "race_first_use", "degree": d}));
            }
        }
        return json!({"mismatches": mismatches, "first_use": full});
    }
    // baseline, single threaded
    let params: Vec<RangeParameters<RistrettoPoint>> = degrees
        .iter()
        .map(|d| RangeParameters::init(bits, 2, ristretto::create_pedersen_gens_with_extension_degree(ext_degree(*d))).unwrap())
        .collect();
    let ntasks = 6u64;
    let baseline: Vec<Vec<Value>> = params.iter().map(|p| (0..ntasks).map(|s| task(p, s)).collect()).collect();
    let gens_base = digest(&describe(bits, 2, 6, false));
    let params = Arc::new(params);
    let baseline = Arc::new(baseline);
    let hs: Vec<_> = (0..nthreads)
        .map(|i| {
            let b = barrier.clone();
            let params = params.clone();
            let baseline = baseline.clone();
            let gens_base = gens_base.clone();
            std::thread::spawn(move || {
                let mut bad = vec![];
                b.wait();
                for rep in 0..reps {
                    for k in 0..ntasks {
                        // a different interleaving per thread
                        let pi = ((i as u64 + k + rep) % params.len() as u64) as usize;
                        let s = (k * 7 + i as u64 * 3 + rep) % ntasks;
                        let r = task(&params[pi], s);
                        if r != baseline[pi][s as usize] {
                            bad.push(json!({"kind": "task", "thread": i, "rep": rep, "params": pi, "seed": s}));
                        }
                        if (k + i as u64) % 5 == 0 {
                            // an unrelated call in between: construct generators again
                            if digest(&describe(bits, 2, 6, false)) != gens_base {
                                bad.push(json!({"kind": "gens", "thread": i, "rep": rep}));
                            }
                        }
                    }
                }
                bad
            })
        })
        .collect();
    for h in hs {
        mismatches.extend(h.join().unwrap());
    }
    let _ = RistrettoPoint::identity();
    json!({"mismatches": mismatches, "calls": nthreads as u64 * reps * ntasks, "baseline_digest": digest(&json!(*baseline))})
}

/// C18: the result of one `verify_batch` call does not depend on what other threads are doing.  Batches longer than half an internal chunk whose
/// verdict or error depends on where the batch is cut (an algebraically wrong proof first, a statement of another extension degree last; valid
/// proofs of two extension degrees) are verified alone, then by several threads at once; every result must be the one obtained alone.
pub fn batch_race(spec: &Value) -> Value {
    let nthreads = spec["threads"].as_u64().unwrap_or(4) as usize;
    let reps = spec["reps"].as_u64().unwrap_or(3);
    let n = spec["n"].as_u64().unwrap_or(150) as usize;
    let split = spec["split"].as_u64().unwrap_or(128) as usize;
    let mk = |t: usize, seed: u64| {
        let params = RangeParameters::<RistrettoPoint>::init(2, 1, ristretto::create_pedersen_gens_with_extension_degree(ext_degree(t))).unwrap();
        let mut rng = ChaCha12Rng::seed_from_u64(seed);
        let v = seed % 4;
        let r: Vec<Scalar> = (0..t).map(|_| Scalar::random(&mut rng)).collect();
        let c = params.pc_gens().commit(&Scalar::from(v), &r).unwrap();
        let st = RangeStatement::init(params, vec![c], vec![None], None).unwrap();
        let w = RangeWitness::init(vec![CommitmentOpening::new(v, r)]).unwrap();
        let mut tr = Transcript::new(b"c18-batch");
        let proof = RangeProof::<RistrettoPoint>::prove_with_rng(&mut tr, &st, &w, &mut rng).unwrap();
        (st, proof)
    };
    // batch A: proof 0 belongs to another statement (refused by the final check only); the last statement has another extension degree
    let mut a: Vec<(RangeStatement<RistrettoPoint>, RangeProof<RistrettoPoint>)> = (0..n - 1).map(|i| mk(1, i as u64)).collect();
    let p1 = a[1].1.clone();
    a[0].1 = p1;
    a.push(mk(2, 9999));
    // batch B: valid proofs, extension degree 1 up to `split`, degree 2 after it
    let b: Vec<(RangeStatement<RistrettoPoint>, RangeProof<RistrettoPoint>)> = (0..n).map(|i| mk(if i < split { 1 } else { 2 }, 20_000 + i as u64)).collect();
    let run = |batch: &Vec<(RangeStatement<RistrettoPoint>, RangeProof<RistrettoPoint>)>| -> String {
        let sts: Vec<_> = batch.iter().map(|x| x.0.clone()).collect();
        let prs: Vec<_> = batch.iter().map(|x| x.1.clone()).collect();
        let mut trs = vec![Transcript::new(b"c18-batch"); batch.len()];
        match std::panic::catch_unwind(std::panic::AssertUnwindSafe(|| RangeProof::<RistrettoPoint>::verify_batch(&mut trs, &sts, &prs, VerifyAction::VerifyOnly))) {
            Ok(Ok(_)) => "ok".to_string(),
            Ok(Err(e)) => format!("err:{}", e),
            Err(_) => "panic".to_string(),
        }
    };
    let alone = [run(&a), run(&b)];
    let batches = Arc::new([a, b]);
    let alone_arc = Arc::new(alone.clone());
    let barrier = Arc::new(Barrier::new(nthreads));
    let hs: Vec<_> = (0..nthreads)
        .map(|i| {
            let (bar, batches, alone) = (barrier.clone(), batches.clone(), alone_arc.clone());
            std::thread::spawn(move || {
                let run = |batch: &Vec<(RangeStatement<RistrettoPoint>, RangeProof<RistrettoPoint>)>| -> String {
                    let sts: Vec<_> = batch.iter().map(|x| x.0.clone()).collect();
                    let prs: Vec<_> = batch.iter().map(|x| x.1.clone()).collect();
                    let mut trs = vec![Transcript::new(b"c18-batch"); batch.len()];
                    match std::panic::catch_unwind(std::panic::AssertUnwindSafe(|| RangeProof::<RistrettoPoint>::verify_batch(&mut trs, &sts, &prs, VerifyAction::VerifyOnly))) {
                        Ok(Ok(_)) => "ok".to_string(),
                        Ok(Err(e)) => format!("err:{}", e),
                        Err(_) => "panic".to_string(),
                    }
                };
                let mut bad = vec![];
                bar.wait();
                for rep in 0..reps {
                    for k in 0..2usize {
                        let which = (k + i) % 2;
                        let r = run(&batches[which]);
                        if r != alone[which] {
                            bad.push(json!({"thread": i, "rep": rep, "batch": if which == 0 { "A" } else { "B" }, "alone": alone[which], "concurrent": r}));
                        }
                    }
                }
                bad
            })
        })
        .collect();
    let mut mismatches = vec![];
    for h in hs {
        mismatches.extend(h.join().unwrap());
    }
    json!({"alone": alone, "mismatches": mismatches, "calls": nthreads as u64 * reps * 2, "n": n, "split": split})
}

/// C18: the result of requesting Pedersen generators must not depend on the history of earlier requests
pub fn history(spec: &Value) -> Value {
    let seq: Vec<usize> = spec["degrees"].as_array().unwrap().iter().map(|x| x.as_u64().unwrap() as usize).collect();
    let mut out = vec![];
    for d in seq {
        let pc = ristretto::create_pedersen_gens_with_extension_degree(ext_degree(d));
        out.push(json!({"degree": d, "H": penc(&pc.h_base), "H_compressed": hex(pc.h_base_compressed.as_bytes()),
            "Gb": pc.g_base_vec.iter().map(penc).collect::<Vec<_>>(),
            "Gb_compressed": pc.g_base_compressed_vec.iter().map(|c| hex(c.as_bytes())).collect::<Vec<_>>()}));
    }
    json!({"calls": out})
}

/// C18: parameter objects of several shapes are created and dropped in some order, with deterministic prove + verify tasks in between;
/// every task result must be what the same task gives in a process that only ever created that one object
pub fn churn(spec: &Value) -> Value {
    use std::collections::HashMap;
    let mut slots: HashMap<String, RangeParameters<RistrettoPoint>> = HashMap::new();
    let mut out = vec![];
    for st in spec["steps"].as_array().unwrap() {
        let kind = st[0].as_str().unwrap();
        let slot = st[1].as_str().unwrap().to_string();
        match kind {
            "new" => {
                let bits = st[2].as_u64().unwrap() as usize;
                let cap = st[3].as_u64().unwrap() as usize;
                let t = st[4].as_u64().unwrap_or(1) as usize;
                let r = std::panic::catch_unwind(|| RangeParameters::<RistrettoPoint>::init(bits, cap, ristretto::create_pedersen_gens_with_extension_degree(ext_degree(t))));
                match r {
                    Ok(Ok(p)) => {
                        slots.insert(slot, p);
                        out.push(json!({"new": "ok"}));
                    },
                    Ok(Err(_)) => out.push(json!({"new": "err"})),
                    Err(_) => out.push(json!({"new": "panic"})),
                }
            },
            "drop" => {
                slots.remove(&slot);
                out.push(json!({"drop": true}));
            },
            "task" => {
                let seed = st[2].as_u64().unwrap();
                match slots.get(&slot) {
                    Some(p) => {
                        let p2 = p.clone();
                        let r = std::panic::catch_unwind(std::panic::AssertUnwindSafe(|| task(&p2, seed)));
                        out.push(r.unwrap_or_else(|_| json!({"panic": true})));
                    },
                    None => out.push(json!({"missing": true})),
                }
            },
            _ => out.push(json!({"bad": kind})),
        }
    }
    json!({"steps": out})
}

/// C11: every way of walking the generator accessors must hand out the same points as a plain `collect()`:
/// positioned access (`nth`, `skip`, `step_by`, `last`, `count`) on fresh and on partially consumed iterators
pub fn iter_api(bits: usize, cap: usize) -> Value {
    let pc = ristretto::create_pedersen_gens_with_extension_degree(ext_degree(1));
    let params = match RangeParameters::<RistrettoPoint>::init(bits, cap, pc) {
        Ok(p) => p,
        Err(_) => return json!({"error": "init"}),
    };
    let mut bad = vec![];
    for which in ["G", "Hv"] {
        let all: Vec<RistrettoPoint> = if which == "G" { params.gi_base_iter().cloned().collect() } else { params.hi_base_iter().cloned().collect() };
        let n = all.len();
        macro_rules! it {
            () => {{
                let b: Box<dyn Iterator<Item = &RistrettoPoint> + '_> = if which == "G" { Box::new(params.gi_base_iter()) } else { Box::new(params.hi_base_iter()) };
                b
            }};
        }
        if it!().count() != n {
            bad.push(json!({"vector": which, "api": "count"}));
        }
        if it!().last() != all.last() {
            bad.push(json!({"vector": which, "api": "last"}));
        }
        for a in [0usize, 1, bits.saturating_sub(1), bits, bits + 1, 2 * bits] {
            for k in [0usize, 1, 2, 3, bits.saturating_sub(1), bits, bits + 1, 2 * bits + 1] {
                if a > n {
                    continue;
                }
                // consume `a` elements, then jump
                let mut i1 = it!();
                for _ in 0..a {
                    i1.next();
                }
                let got = i1.nth(k);
                let want = all.get(a + k);
                if got != want {
                    bad.push(json!({"vector": which, "api": "nth", "consumed": a, "k": k}));
                }
                let mut i2 = it!();
                let head: Vec<&RistrettoPoint> = i2.by_ref().take(a).collect();
                if head.len() != a.min(n) || head.iter().zip(all.iter()).any(|(x, y)| *x != y) {
                    bad.push(json!({"vector": which, "api": "by_ref.take", "consumed": a}));
                }
                let rest: Vec<&RistrettoPoint> = i2.skip(k).collect();
                let want_rest: Vec<&RistrettoPoint> = all.iter().skip(a + k).collect();
                if rest != want_rest {
                    bad.push(json!({"vector": which, "api": "skip", "consumed": a, "k": k}));
                }
                if k >= 1 {
                    let mut i3 = it!();
                    for _ in 0..a {
                        i3.next();
                    }
                    let st: Vec<&RistrettoPoint> = i3.step_by(k).collect();
                    let want_st: Vec<&RistrettoPoint> = all.iter().skip(a).step_by(k).collect();
                    if st != want_st {
                        bad.push(json!({"vector": which, "api": "step_by", "consumed": a, "k": k}));
                    }
                }
            }
        }
    }
    json!({"bits": bits, "cap": cap, "mismatches": bad})
}

/// C18: FRESH parameter objects whose FIRST use is raced: in every round one new object (capacity above the statement's aggregation factor)
/// is shared by all threads, which are released together and each prove + verify at once; every result must equal what a lone thread gets
/// from an object of its own
pub fn fresh_race(spec: &Value) -> Value {
    let nthreads = spec["threads"].as_u64().unwrap_or(8) as usize;
    let rounds = spec["rounds"].as_u64().unwrap_or(20);
    let bits = spec["bits"].as_u64().unwrap_or(8) as usize;
    let cap = spec["cap"].as_u64().unwrap_or(4) as usize;
    let t = spec["T"].as_u64().unwrap_or(1) as usize;
    let lone = RangeParameters::<RistrettoPoint>::init(bits, cap, ristretto::create_pedersen_gens_with_extension_degree(ext_degree(t))).unwrap();
    let baseline: Vec<Value> = (0..4u64).map(|s| task(&lone, s)).collect();
    let baseline = Arc::new(baseline);
    let mut mismatches = vec![];
    for round in 0..rounds {
        let params = Arc::new(RangeParameters::<RistrettoPoint>::init(bits, cap, ristretto::create_pedersen_gens_with_extension_degree(ext_degree(t))).unwrap());
        let barrier = Arc::new(Barrier::new(nthreads));
        let hs: Vec<_> = (0..nthreads)
            .map(|i| {
                let (p, b, base) = (params.clone(), barrier.clone(), baseline.clone());
                std::thread::spawn(move || {
                    b.wait();
                    let s = (i as u64 + round) % 4;
                    let r = std::panic::catch_unwind(std::panic::AssertUnwindSafe(|| task(&p, s))).unwrap_or_else(|_| json!({"panic": true}));
                    if r != base[s as usize] {
                        Some(json!({"round": round, "thread": i, "seed": s, "ok": r["ok"], "panic": r["panic"]}))
                    } else {
                        None
                    }
                })
            })
            .collect();
        for h in hs {
            if let Some(m) = h.join().unwrap() {
                mismatches.push(m);
            }
        }
    }
    json!({"mismatches": mismatches, "calls": rounds * nthreads as u64})
}
