//! Generic scenario executor: prove / mutate / verify sessions described in JSON, run against the
//! library from /repo over a chosen group back end, every observable written out as JSON.
use std::{
    cell::RefCell,
    convert::TryFrom,
    ops::{Add, Mul},
    panic::{catch_unwind, AssertUnwindSafe},
};

use curve25519_dalek::{
    scalar::Scalar,
    traits::{Identity, IsIdentity},
};
use merlin::{verif_log, Transcript};
use rand_chacha::ChaCha12Rng;
use rand_core::{CryptoRng, RngCore, SeedableRng};
use serde_json::{json, Value};
use tari_bulletproofs_plus::{
    commitment_opening::CommitmentOpening,
    errors::ProofError,
    range_parameters::RangeParameters,
    range_proof::{RangeProof, VerifyAction},
    range_statement::RangeStatement,
    range_witness::RangeWitness,
    traits::{Compressable, Decompressable, FixedBytesRepr},
};

use crate::{
    fm,
    grp::{hex, sc_hex, sc_unhex, unhex, Grp},
};

thread_local! {
    pub static LAST_PANIC: RefCell<String> = RefCell::new(String::new());
}

pub fn install_panic_hook() {
    std::panic::set_hook(Box::new(|info| {
        let msg = format!("{}", info);
        LAST_PANIC.with(|p| *p.borrow_mut() = msg);
    }));
}

pub fn err_name(e: &ProofError) -> String {
    match e {
        ProofError::VerificationFailed(s) => format!("VerificationFailed:{}", s),
        ProofError::InvalidArgument(s) => format!("InvalidArgument:{}", s),
        ProofError::InvalidLength(s) => format!("InvalidLength:{}", s),
        ProofError::InvalidBlake2b => "InvalidBlake2b".to_string(),
        ProofError::SizeOverflow => "SizeOverflow".to_string(),
    }
}

// ------------------------------------------------------------------ scripted RNG
pub enum ScriptRng {
    ChaCha(ChaCha12Rng),
    Period(Vec<u8>, usize),
}
impl ScriptRng {
    pub fn from_spec(v: &Value) -> ScriptRng {
        match v["kind"].as_str().unwrap_or("chacha") {
            "chacha" => ScriptRng::ChaCha(ChaCha12Rng::seed_from_u64(v["seed"].as_u64().unwrap_or(0))),
            "zero" => ScriptRng::Period(vec![0u8], 0),
            "const" => ScriptRng::Period(vec![v["byte"].as_u64().unwrap_or(0x5a) as u8], 0),
            "period" => ScriptRng::Period(unhex(v["bytes"].as_str().unwrap()), 0),
            k => panic!("unknown rng kind {}", k),
        }
    }
}
impl RngCore for ScriptRng {
    fn next_u32(&mut self) -> u32 {
        rand_core::impls::next_u32_via_fill(self)
    }
    fn next_u64(&mut self) -> u64 {
        rand_core::impls::next_u64_via_fill(self)
    }
    fn fill_bytes(&mut self, dest: &mut [u8]) {
        match self {
            ScriptRng::ChaCha(r) => r.fill_bytes(dest),
            ScriptRng::Period(b, pos) => {
                for d in dest.iter_mut() {
                    *d = b[*pos % b.len()];
                    *pos += 1;
                }
            },
        }
    }
    fn try_fill_bytes(&mut self, dest: &mut [u8]) -> Result<(), rand_core::Error> {
        self.fill_bytes(dest);
        Ok(())
    }
}
impl CryptoRng for ScriptRng {}

// ------------------------------------------------------------------ helpers
fn leak(s: &[u8]) -> &'static [u8] {
    Box::leak(s.to_vec().into_boxed_slice())
}

pub fn make_transcript(ctx: &Value) -> Transcript {
    let label = ctx["label"].as_str().unwrap_or("bpv");
    let mut t = Transcript::new(leak(label.as_bytes()));
    if let Some(msgs) = ctx["msgs"].as_array() {
        for m in msgs {
            t.append_message(leak(m[0].as_str().unwrap().as_bytes()), &unhex(m[1].as_str().unwrap()));
        }
    }
    t
}

pub fn ops_json(ops: &[verif_log::Op]) -> Value {
    let l = |b: &Vec<u8>| String::from_utf8_lossy(b).to_string();
    Value::Array(
        ops.iter()
            .map(|o| match o {
                verif_log::Op::New { tid, label } => json!(["new", tid, l(label)]),
                verif_log::Op::Append { tid, label, data } => json!(["app", tid, l(label), hex(data)]),
                verif_log::Op::Challenge { tid, label, out } => json!(["chal", tid, l(label), hex(out)]),
                verif_log::Op::BuildRng { tid, rid } => json!(["rng", tid, rid]),
                verif_log::Op::Rekey { rid, label, witness } => json!(["rekey", rid, l(label), hex(witness)]),
                verif_log::Op::Finalize { rid, random } => json!(["fin", rid, hex(random)]),
                verif_log::Op::Fill { rid, out } => json!(["fill", rid, hex(out)]),
                verif_log::Op::CloneT { from, to } => json!(["clone", from, to]),
            })
            .collect(),
    )
}

fn u64_of(v: &Value) -> u64 {
    if let Some(u) = v.as_u64() {
        u
    } else {
        v.as_str().expect("u64 as number or decimal string").parse::<u64>().unwrap()
    }
}

fn opening_of(v: &Value) -> (u64, Vec<Scalar>) {
    (
        u64_of(&v["v"]),
        v["r"].as_array().unwrap().iter().map(|s| sc_unhex(s.as_str().unwrap())).collect(),
    )
}

/// parsed wire form of a proof
#[derive(Clone, Debug)]
pub struct Wire {
    pub tag: u8,
    pub d1: Vec<[u8; 32]>,
    pub a: [u8; 32],
    pub a1: [u8; 32],
    pub b: [u8; 32],
    pub r1: [u8; 32],
    pub s1: [u8; 32],
    pub li: Vec<[u8; 32]>,
    pub ri: Vec<[u8; 32]>,
}
impl Wire {
    /// parse bytes produced by `to_bytes` (trusted layout; `nd1` = number of d1 elements)
    pub fn parse(bytes: &[u8], nd1: usize) -> Wire {
        let tag = bytes[0];
        let el = |i: usize| {
            let mut b = [0u8; 32];
            b.copy_from_slice(&bytes[1 + 32 * i..1 + 32 * (i + 1)]);
            b
        };
        let total = (bytes.len() - 1) / 32;
        let d1 = (0..nd1).map(el).collect();
        let a = el(nd1);
        let a1 = el(nd1 + 1);
        let b = el(nd1 + 2);
        let r1 = el(nd1 + 3);
        let s1 = el(nd1 + 4);
        let mut li = vec![];
        let mut ri = vec![];
        let mut i = nd1 + 5;
        while i + 1 < total {
            li.push(el(i));
            ri.push(el(i + 1));
            i += 2;
        }
        Wire { tag, d1, a, a1, b, r1, s1, li, ri }
    }
    pub fn bytes(&self) -> Vec<u8> {
        let mut v = vec![self.tag];
        for d in &self.d1 {
            v.extend_from_slice(d);
        }
        v.extend_from_slice(&self.a);
        v.extend_from_slice(&self.a1);
        v.extend_from_slice(&self.b);
        v.extend_from_slice(&self.r1);
        v.extend_from_slice(&self.s1);
        for (l, r) in self.li.iter().zip(self.ri.iter()) {
            v.extend_from_slice(l);
            v.extend_from_slice(r);
        }
        v
    }
}

fn sc32(b: &[u8; 32]) -> Scalar {
    Scalar::from_bytes_mod_order(*b)
}

pub struct ParamSet<P: Grp>
where
    for<'p> &'p P: Mul<Scalar, Output = P>,
    for<'p> &'p P: Add<Output = P>,
    P::Compressed: FixedBytesRepr + IsIdentity + Identity,
{
    pub params: RangeParameters<P>,
}

fn build_params<P: Grp>(spec: &Value) -> Result<RangeParameters<P>, String>
where
    for<'p> &'p P: Mul<Scalar, Output = P>,
    for<'p> &'p P: Add<Output = P>,
    P::Compressed: FixedBytesRepr + IsIdentity + Identity,
{
    let bits = spec["bits"].as_u64().unwrap() as usize;
    let cap = spec["cap"].as_u64().unwrap() as usize;
    let t = spec["T"].as_u64().unwrap() as usize;
    let mut pc = P::pedersen(t);
    if let Some(c) = spec["h_scale"].as_str() {
        // a different value generator: H' = c * H
        let c = sc_unhex(c);
        pc.h_base = &pc.h_base * c;
        pc.h_base_compressed = pc.h_base.compress();
    }
    if let Some(arr) = spec["gb_scale"].as_array() {
        // a different blinding generator: Gb_k' = c * Gb_k
        let k = arr[0].as_u64().unwrap() as usize;
        let c = sc_unhex(arr[1].as_str().unwrap());
        if k < pc.g_base_vec.len() {
            pc.g_base_vec[k] = &pc.g_base_vec[k] * c;
            pc.g_base_compressed_vec[k] = pc.g_base_vec[k].compress();
        }
    }
    if let Some(arr) = spec["gbc_scale"].as_array() {
        // only the COMPRESSED form of a blinding generator is another point (public fields of PedersenGens): what the transcript is handed differs
        // from the point the equation uses
        let k = arr[0].as_u64().unwrap() as usize;
        let c = sc_unhex(arr[1].as_str().unwrap());
        if k < pc.g_base_vec.len() {
            pc.g_base_compressed_vec[k] = (&pc.g_base_vec[k] * c).compress();
        }
    }
    if let Some(c) = spec["hc_scale"].as_str() {
        let c = sc_unhex(c);
        pc.h_base_compressed = (&pc.h_base * c).compress();
    }
    if let Some(c) = spec["hp_scale"].as_str() {
        // only the POINT of the value generator is another one; the cached encoding is left stale (public fields of PedersenGens)
        let c = sc_unhex(c);
        pc.h_base = &pc.h_base * c;
    }
    if let Some(arr) = spec["gbp_scale"].as_array() {
        // only the POINT of a blinding generator is another one; the cached encoding is left stale
        let k = arr[0].as_u64().unwrap() as usize;
        let c = sc_unhex(arr[1].as_str().unwrap());
        if k < pc.g_base_vec.len() {
            pc.g_base_vec[k] = &pc.g_base_vec[k] * c;
        }
    }
    if let Some(c) = spec["gb0_eq_cH"].as_str() {
        // degenerate Pedersen generators: Gb_0 = c * H (two openings can then share one commitment)
        let c = sc_unhex(c);
        pc.g_base_vec[0] = &pc.h_base * c;
        pc.g_base_compressed_vec[0] = pc.g_base_vec[0].compress();
    }
    if let Some(arr) = spec["gb_eq"].as_array() {
        // degenerate Pedersen generators: Gb_j = Gb_i (openings differing by +d on r_i and -d on r_j then share one commitment)
        let i = arr[0].as_u64().unwrap() as usize;
        let j = arr[1].as_u64().unwrap() as usize;
        if i < pc.g_base_vec.len() && j < pc.g_base_vec.len() {
            pc.g_base_vec[j] = pc.g_base_vec[i].clone();
            pc.g_base_compressed_vec[j] = pc.g_base_vec[j].compress();
        }
    }
    RangeParameters::init(bits, cap, pc).map_err(|e| err_name(&e))
}

/// sum_i c_i * base_i over named generators of a parameter set: [["H"|"Gb"|"G"|"Hv", index, scalar_hex], ...]
fn lincomb_point<P: Grp>(arr: &[Value], params: &RangeParameters<P>) -> Result<P, String>
where
    for<'p> &'p P: Mul<Scalar, Output = P>,
    for<'p> &'p P: Add<Output = P>,
    P::Compressed: FixedBytesRepr + IsIdentity + Identity,
{
    let gi: Vec<&P> = params.gi_base_iter().collect();
    let hi: Vec<&P> = params.hi_base_iter().collect();
    let mut acc = P::identity();
    for t in arr {
        let i = t[1].as_u64().unwrap_or(0) as usize;
        let c = sc_unhex(t[2].as_str().ok_or("lincomb scalar")?);
        let base: &P = match t[0].as_str().ok_or("lincomb base")? {
            "H" => params.h_base(),
            "Gb" => params.g_bases().get(i).ok_or("Gb idx")?,
            "G" => gi.get(i).ok_or("G idx")?,
            "Hv" => hi.get(i).ok_or("Hv idx")?,
            _ => return Err("bad base".into()),
        };
        acc += base * c;
    }
    Ok(acc)
}

fn point_of_spec<P: Grp>(spec: &Value, params: &RangeParameters<P>) -> Result<P, String>
where
    for<'p> &'p P: Mul<Scalar, Output = P>,
    for<'p> &'p P: Add<Output = P>,
    P::Compressed: FixedBytesRepr + IsIdentity + Identity,
{
    let mut p = if !spec["open"].is_null() {
        let (v, r) = opening_of(&spec["open"]);
        params.pc_gens().commit(&Scalar::from(v), &r).map_err(|e| err_name(&e))?
    } else if !spec["open_std"].is_null() {
        // the commitment under the STANDARD Pedersen generators of this extension degree, whatever generators the statement carries
        let (v, r) = opening_of(&spec["open_std"]);
        let std = P::pedersen(params.g_bases().len());
        std.commit(&Scalar::from(v), &r).map_err(|e| err_name(&e))?
    } else if let Some(arr) = spec["lincomb"].as_array() {
        lincomb_point::<P>(arr, params)?
    } else if let Some(tag) = spec["junk"].as_u64() {
        P::junk(tag)
    } else if !spec["identity"].is_null() {
        P::identity()
    } else {
        return Err("bad point spec".into());
    };
    if let Some(d) = spec["shiftH"].as_str() {
        p += params.h_base() * sc_unhex(d);
    }
    if let Some(arr) = spec["shiftGb"].as_array() {
        let k = arr[0].as_u64().unwrap() as usize;
        p += &params.g_bases()[k] * sc_unhex(arr[1].as_str().unwrap());
    }
    Ok(p)
}

fn build_statement<P: Grp>(spec: &Value) -> Result<(RangeParameters<P>, RangeStatement<P>), String>
where
    for<'p> &'p P: Mul<Scalar, Output = P>,
    for<'p> &'p P: Add<Output = P>,
    P::Compressed: FixedBytesRepr + IsIdentity + Identity,
{
    build_statement_with::<P>(spec, None)
}

/// the key under which two statement specs ask for the same parameter set
fn params_key(spec: &Value) -> String {
    format!(
        "{}|{}|{}|{}|{}|{}|{}",
        spec["bits"], spec["cap"], spec["T"], spec["h_scale"], spec["gb_scale"], spec["gb0_eq_cH"], spec["gb_eq"]
    ) + &format!("|{}|{}|{}|{}", spec["gbc_scale"], spec["hc_scale"], spec["hp_scale"], spec["gbp_scale"])
}

/// with a cache: statements asking for the same parameter set share ONE parameter object (clones of it: same generator tables behind the
/// same Arc), as a caller does who builds its parameters once
fn build_statement_with<P: Grp>(spec: &Value, cache: Option<&mut std::collections::HashMap<String, RangeParameters<P>>>) -> Result<(RangeParameters<P>, RangeStatement<P>), String>
where
    for<'p> &'p P: Mul<Scalar, Output = P>,
    for<'p> &'p P: Add<Output = P>,
    P::Compressed: FixedBytesRepr + IsIdentity + Identity,
{
    let params = match cache {
        Some(c) => {
            let k = params_key(spec);
            match c.get(&k) {
                Some(p) => p.clone(),
                None => {
                    let p = build_params::<P>(spec)?;
                    c.insert(k, p.clone());
                    p
                },
            }
        },
        None => build_params::<P>(spec)?,
    };
    let mut commitments = vec![];
    for c in spec["commit"].as_array().unwrap() {
        // a bare opening {"v","r"} or a point spec {"open":..,"shiftH":..} / {"junk":..}
        let ps = if c["v"].is_null() { c.clone() } else { json!({"open": c}) };
        commitments.push(point_of_spec::<P>(&ps, &params)?);
    }
    let promises: Vec<Option<u64>> = spec["promises"]
        .as_array()
        .unwrap()
        .iter()
        .map(|p| if p.is_null() { None } else { Some(u64_of(p)) })
        .collect();
    let seed = spec["seed"].as_str().map(sc_unhex);
    let mut st = RangeStatement::init(params.clone(), commitments, promises, seed).map_err(|e| err_name(&e))?;
    // statements written through their PUBLIC FIELDS after construction (outside what the validating constructors can produce):
    // used only to compare the panic branch of the checked model with the code
    if let Some(rf) = spec["raw_fields"].as_object() {
        if let Some(ps) = rf.get("promises").and_then(|x| x.as_array()) {
            st.minimum_value_promises = ps.iter().map(|p| if p.is_null() { None } else { Some(u64_of(p)) }).collect();
        }
        if let Some(j) = rf.get("replace_commitment_point").and_then(|x| x.as_u64()) {
            // the uncompressed point is replaced, its compressed form (what the transcript absorbs) is kept
            if let Some(c) = st.commitments.get_mut(j as usize) {
                *c = P::junk(4242);
            }
        }
        if let Some(n) = rf.get("truncate_commitments").and_then(|x| x.as_u64()) {
            st.commitments.truncate(n as usize);
            st.commitments_compressed.truncate(n as usize);
        }
    }
    Ok((params, st))
}

fn gens_json<P: Grp>(params: &RangeParameters<P>) -> Value
where
    for<'p> &'p P: Mul<Scalar, Output = P>,
    for<'p> &'p P: Add<Output = P>,
    P::Compressed: FixedBytesRepr + IsIdentity + Identity,
{
    json!({
        "H": P::describe(params.h_base()),
        "Gb": params.g_bases().iter().map(P::describe).collect::<Vec<_>>(),
        "G": params.gi_base_iter().map(P::describe).collect::<Vec<_>>(),
        "Hv": params.hi_base_iter().map(P::describe).collect::<Vec<_>>(),
    })
}

fn describe_enc<P: Grp>(b: &[u8; 32]) -> Value
where
    for<'p> &'p P: Mul<Scalar, Output = P>,
    for<'p> &'p P: Add<Output = P>,
    P::Compressed: FixedBytesRepr + IsIdentity + Identity,
{
    match P::Compressed::from_fixed_bytes(*b).decompress() {
        Some(p) => {
            let mut d = P::describe(&p);
            d["enc"] = json!(hex(b));
            d
        },
        None => json!({"enc": hex(b), "undecodable": true}),
    }
}

fn proof_json<P: Grp>(proof: &RangeProof<P>) -> Value
where
    for<'p> &'p P: Mul<Scalar, Output = P>,
    for<'p> &'p P: Add<Output = P>,
    P::Compressed: FixedBytesRepr + IsIdentity + Identity,
{
    let bytes = proof.to_bytes();
    let nd1 = proof.extension_degree() as usize;
    // d1 length is not observable directly; for prover outputs and decoded proofs it equals the tag
    let w = Wire::parse(&bytes, nd1);
    let serde_form = match catch_unwind(AssertUnwindSafe(|| bincode::serialize(proof))) {
        Ok(Ok(b)) => hex(&b),
        Ok(Err(_)) => "err".to_string(),
        Err(_) => "panic".to_string(),
    };
    json!({
        "bytes": hex(&bytes),
        "serde": serde_form,
        "tag": w.tag,
        "d1": w.d1.iter().map(|b| hex(b)).collect::<Vec<_>>(),
        "r1": hex(&w.r1), "s1": hex(&w.s1),
        "a": describe_enc::<P>(&w.a), "a1": describe_enc::<P>(&w.a1), "b": describe_enc::<P>(&w.b),
        "li": w.li.iter().map(|b| describe_enc::<P>(b)).collect::<Vec<_>>(),
        "ri": w.ri.iter().map(|b| describe_enc::<P>(b)).collect::<Vec<_>>(),
    })
}

fn apply_ops<P: Grp>(w: &mut Wire, ops: &Value, params: Option<&RangeParameters<P>>) -> Result<Option<Vec<u8>>, String>
where
    for<'p> &'p P: Mul<Scalar, Output = P>,
    for<'p> &'p P: Add<Output = P>,
    P::Compressed: FixedBytesRepr + IsIdentity + Identity,
{
    let mut raw: Option<Vec<u8>> = None;
    for op in ops.as_array().unwrap() {
        let name = op["op"].as_str().unwrap();
        let idx = op["idx"].as_u64().unwrap_or(0) as usize;
        match name {
            "scalar_set" | "scalar_add" => {
                let f = op["field"].as_str().unwrap();
                let slot: &mut [u8; 32] = match f {
                    "r1" => &mut w.r1,
                    "s1" => &mut w.s1,
                    "d1" => w.d1.get_mut(idx).ok_or("d1 idx")?,
                    _ => return Err("bad scalar field".into()),
                };
                if name == "scalar_set" {
                    // raw bytes (possibly non-canonical)
                    let v = unhex(op["hex"].as_str().unwrap());
                    slot.copy_from_slice(&v);
                } else {
                    let s = sc32(slot) + sc_unhex(op["hex"].as_str().unwrap());
                    *slot = s.to_bytes();
                }
            },
            "scalar_plus_l" => {
                // the same residue written non-canonically: s + k*l as a 256-bit little-endian integer (k = 1..7 keeps the top bit clear for most s)
                let f = op["field"].as_str().unwrap();
                let k = op["k"].as_u64().unwrap_or(1);
                let slot: &mut [u8; 32] = match f {
                    "r1" => &mut w.r1,
                    "s1" => &mut w.s1,
                    "d1" => w.d1.get_mut(idx).ok_or("d1 idx")?,
                    _ => return Err("bad scalar field".into()),
                };
                const L: [u8; 32] = [
                    0xed, 0xd3, 0xf5, 0x5c, 0x1a, 0x63, 0x12, 0x58, 0xd6, 0x9c, 0xf7, 0xa2, 0xde, 0xf9, 0xde, 0x14, 0, 0, 0, 0, 0, 0, 0, 0, 0, 0, 0, 0, 0, 0, 0, 0x10,
                ];
                for _ in 0..k {
                    let mut carry = 0u16;
                    for i in 0..32 {
                        let t = slot[i] as u16 + L[i] as u16 + carry;
                        slot[i] = (t & 0xff) as u8;
                        carry = t >> 8;
                    }
                }
            },
            "point_set" => {
                let f = op["field"].as_str().unwrap();
                let to = &op["to"];
                let newb: [u8; 32] = if !to["identity"].is_null() {
                    [0u8; 32]
                } else if let Some(t) = to["junk"].as_u64() {
                    *P::junk(t).compress().as_fixed_bytes()
                } else if let Some(t) = to["undecodable"].as_u64() {
                    P::undecodable(t)
                } else if let Some(c) = to["copy"].as_array() {
                    let cf = c[0].as_str().unwrap();
                    let ci = c[1].as_u64().unwrap_or(0) as usize;
                    match cf {
                        "a" => w.a,
                        "a1" => w.a1,
                        "b" => w.b,
                        "li" => *w.li.get(ci).ok_or("copy idx")?,
                        "ri" => *w.ri.get(ci).ok_or("copy idx")?,
                        _ => return Err("bad copy field".into()),
                    }
                } else if let Some(am) = to["addmul"].as_object() {
                    // current point + delta * named generator
                    let params = params.ok_or("addmul needs params")?;
                    let cur = match f {
                        "a" => w.a,
                        "a1" => w.a1,
                        "b" => w.b,
                        "li" => *w.li.get(idx).ok_or("idx")?,
                        "ri" => *w.ri.get(idx).ok_or("idx")?,
                        _ => return Err("bad field".into()),
                    };
                    let p = P::Compressed::from_fixed_bytes(cur).decompress().ok_or("addmul on undecodable")?;
                    let gi = am["i"].as_u64().unwrap_or(0) as usize;
                    let base: P = match am["base"].as_str().unwrap() {
                        "H" => params.h_base().clone(),
                        "Gb" => params.g_bases().get(gi).ok_or("Gb idx")?.clone(),
                        "G" => params.gi_base_iter().nth(gi).ok_or("G idx")?.clone(),
                        "Hv" => params.hi_base_iter().nth(gi).ok_or("Hv idx")?.clone(),
                        _ => return Err("bad base".into()),
                    };
                    let q = &p + &(&base * sc_unhex(am["hex"].as_str().unwrap()));
                    *q.compress().as_fixed_bytes()
                } else if let Some(arr) = to["lincomb"].as_array() {
                    let params = params.ok_or("lincomb needs params")?;
                    *lincomb_point::<P>(arr, params)?.compress().as_fixed_bytes()
                } else if let Some(h) = to["hex"].as_str() {
                    let v = unhex(h);
                    let mut b = [0u8; 32];
                    b.copy_from_slice(&v);
                    b
                } else {
                    return Err("bad point target".into());
                };
                match f {
                    "a" => w.a = newb,
                    "a1" => w.a1 = newb,
                    "b" => w.b = newb,
                    "li" => *w.li.get_mut(idx).ok_or("li idx")? = newb,
                    "ri" => *w.ri.get_mut(idx).ok_or("ri idx")? = newb,
                    _ => return Err("bad point field".into()),
                }
            },
            "swap_lr" => {
                let (l, r) = (*w.li.get(idx).ok_or("idx")?, *w.ri.get(idx).ok_or("idx")?);
                w.li[idx] = r;
                w.ri[idx] = l;
            },
            "swap_rounds" => {
                let j = op["idx2"].as_u64().unwrap() as usize;
                if idx >= w.li.len() || j >= w.li.len() {
                    return Err("idx".into());
                }
                w.li.swap(idx, j);
                w.ri.swap(idx, j);
            },
            "drop_round" => {
                if w.li.is_empty() {
                    return Err("no round".into());
                }
                let i = idx.min(w.li.len() - 1);
                w.li.remove(i);
                w.ri.remove(i);
            },
            "dup_round" => {
                if w.li.is_empty() {
                    return Err("no round".into());
                }
                let i = idx.min(w.li.len() - 1);
                let (l, r) = (w.li[i], w.ri[i]);
                w.li.insert(i, l);
                w.ri.insert(i, r);
            },
            "set_rounds" => {
                let n = op["n"].as_u64().unwrap() as usize;
                while w.li.len() > n {
                    w.li.pop();
                    w.ri.pop();
                }
                let mut t = 1000u64;
                while w.li.len() < n {
                    w.li.push(*P::junk(t).compress().as_fixed_bytes());
                    w.ri.push(*P::junk(t + 1).compress().as_fixed_bytes());
                    t += 2;
                }
            },
            "set_tag" => {
                w.tag = op["tag"].as_u64().unwrap() as u8;
            },
            "set_d1_len" => {
                // change the number of d1 elements together with the tag
                let n = op["n"].as_u64().unwrap() as usize;
                while w.d1.len() > n {
                    w.d1.pop();
                }
                while w.d1.len() < n {
                    w.d1.push(Scalar::from(7u64 + w.d1.len() as u64).to_bytes());
                }
                w.tag = n as u8;
            },
            "raw" => {
                raw = Some(unhex(op["hex"].as_str().unwrap()));
            },
            _ => return Err(format!("unknown op {}", name)),
        }
    }
    Ok(raw)
}

fn mode_of(s: &str) -> VerifyAction {
    match s {
        "VerifyOnly" => VerifyAction::VerifyOnly,
        "RecoverAndVerify" => VerifyAction::RecoverAndVerify,
        "RecoverOnly" => VerifyAction::RecoverOnly,
        _ => panic!("bad mode"),
    }
}

fn msm_json(calls: &[fm::MsmCall]) -> Value {
    Value::Array(
        calls
            .iter()
            .filter(|c| c.kind == "mixed")
            .map(|c| {
                json!({
                    "static_len": c.static_len,
                    "static": c.static_scalars.iter().map(sc_hex).collect::<Vec<_>>(),
                    "dyn": c.dyn_scalars.iter().map(sc_hex).collect::<Vec<_>>(),
                    "dyn_points": c.dyn_points.iter().map(|p| hex(&p.compress().0)).collect::<Vec<_>>(),
                    "zero": c.result.is_zero(),
                })
            })
            .collect(),
    )
}

/// Run one session and return its observation record.
pub fn run_session<P: Grp>(spec: &Value) -> Value
where
    for<'p> &'p P: Mul<Scalar, Output = P>,
    for<'p> &'p P: Add<Output = P>,
    P::Compressed: FixedBytesRepr + IsIdentity + Identity,
{
    let log_merlin = spec["log_merlin"].as_bool().unwrap_or(true);
    let log_msm = spec["log_msm"].as_bool().unwrap_or(true);
    let with_gens = spec["with_gens"].as_bool().unwrap_or(P::NAME == "fm");
    let mut pool: Vec<Option<RangeProof<P>>> = vec![];
    let mut pool_params: Vec<Option<RangeParameters<P>>> = vec![];
    let mut out_members = vec![];
    // witness objects of earlier members, kept for members that REUSE one of them after replacing its openings in place (public field)
    let mut witness_pool: Vec<Option<RangeWitness>> = vec![];

    for m in spec["members"].as_array().unwrap_or(&vec![]) {
        let mut rec = json!({});
        let built = build_statement::<P>(m);
        let (params, st) = match built {
            Ok(x) => x,
            Err(e) => {
                rec["statement"] = json!(format!("err:{}", e));
                pool.push(None);
                pool_params.push(None);
                witness_pool.push(None);
                out_members.push(rec);
                continue;
            },
        };
        rec["statement"] = json!("ok");
        if with_gens {
            // the generators the STATEMENT carries (what prover and verifier use), not the object handed to its constructor
            rec["gens"] = gens_json::<P>(&st.generators);
        }
        rec["commitments"] = Value::Array(st.commitments.iter().map(P::describe).collect());
        let wspec = if m["witness"].is_null() { &m["commit"] } else { &m["witness"] };
        let openings: Vec<CommitmentOpening> = wspec
            .as_array()
            .unwrap()
            .iter()
            .map(|o| {
                let (v, r) = opening_of(o);
                CommitmentOpening::new(v, r)
            })
            .collect();
        let reused = m["reuse_witness_of"].as_u64().and_then(|k| witness_pool.get(k as usize).cloned().flatten()).or_else(|| {
            // ... or a witness object built from a TEMPLATE list of openings (which fixes its recorded extension degree) before the real ones are written in
            m["witness_template"].as_array().and_then(|t| {
                RangeWitness::init(
                    t.iter()
                        .map(|o| {
                            let (v, r) = opening_of(o);
                            CommitmentOpening::new(v, r)
                        })
                        .collect(),
                )
                .ok()
            })
        });
        let witness = match reused {
            Some(mut w) if w.openings.len() == openings.len() => {
                // the caller keeps ONE witness object and writes the new openings into it, element by element
                for (slot, o) in w.openings.iter_mut().zip(openings.into_iter()) {
                    *slot = o;
                }
                w
            },
            _ => match RangeWitness::init(openings) {
                Ok(w) => w,
                Err(e) => {
                    rec["witness"] = json!(format!("err:{}", err_name(&e)));
                    pool.push(None);
                    pool_params.push(Some(params));
                    witness_pool.push(None);
                    out_members.push(rec);
                    continue;
                },
            },
        };
        witness_pool.push(Some(witness.clone()));
        rec["witness"] = json!("ok");
        if m["prove"].as_bool().unwrap_or(true) {
            let mut rng = ScriptRng::from_spec(&m["rng"]);
            verif_log::take();
            let mut tr = make_transcript(&m["ctx"]);
            verif_log::enable(log_merlin);
            let res = if m["use_os_rng"].as_bool().unwrap_or(false) {
                // the crate's own entry point with the operating system's generator
                catch_unwind(AssertUnwindSafe(|| RangeProof::<P>::prove(&mut tr, &st, &witness)))
            } else {
                catch_unwind(AssertUnwindSafe(|| RangeProof::<P>::prove_with_rng(&mut tr, &st, &witness, &mut rng)))
            };
            verif_log::enable(false);
            let ops = verif_log::take();
            rec["tid"] = json!(ops.iter().find_map(|o| if let verif_log::Op::Append { tid, .. } = o { Some(*tid) } else { None }));
            rec["merlin"] = ops_json(&ops);
            match res {
                Ok(Ok(p)) => {
                    rec["prove"] = json!("ok");
                    rec["proof"] = proof_json::<P>(&p);
                    pool.push(Some(p));
                },
                Ok(Err(e)) => {
                    rec["prove"] = json!(format!("err:{}", err_name(&e)));
                    pool.push(None);
                },
                Err(_) => {
                    rec["prove"] = json!(format!("panic:{}", LAST_PANIC.with(|p| p.borrow().clone())));
                    pool.push(None);
                },
            }
        } else {
            pool.push(None);
        }
        pool_params.push(Some(params));
        out_members.push(rec);
    }

    // derived (mutated) proofs
    let mut out_derived = vec![];
    for d in spec["derived"].as_array().unwrap_or(&vec![]) {
        let mut rec = json!({});
        let from = d["from"].as_u64().map(|x| x as usize);
        let base: Option<Wire> = match from {
            Some(i) => pool.get(i).and_then(|p| p.as_ref()).map(|p| Wire::parse(&p.to_bytes(), p.extension_degree() as usize)),
            None => None,
        };
        let params = from.and_then(|i| pool_params.get(i).and_then(|p| p.as_ref()));
        let bytes: Result<Vec<u8>, String> = match (base, from) {
            (Some(mut w), _) => apply_ops::<P>(&mut w, &d["ops"], params).map(|raw| raw.unwrap_or_else(|| w.bytes())),
            (None, None) => {
                // no base: must be a raw op
                let mut w = Wire { tag: 1, d1: vec![], a: [0; 32], a1: [0; 32], b: [0; 32], r1: [0; 32], s1: [0; 32], li: vec![], ri: vec![] };
                apply_ops::<P>(&mut w, &d["ops"], None).and_then(|raw| raw.ok_or("raw op required".to_string()))
            },
            (None, Some(_)) => Err("base proof unavailable".into()),
        };
        match bytes {
            Ok(b) => {
                rec["bytes"] = json!(hex(&b));
                let r = catch_unwind(AssertUnwindSafe(|| RangeProof::<P>::from_bytes(&b)));
                match r {
                    Ok(Ok(p)) => {
                        rec["decode"] = json!("ok");
                        rec["proof"] = proof_json::<P>(&p);
                        pool.push(Some(p));
                    },
                    Ok(Err(e)) => {
                        rec["decode"] = json!(format!("err:{}", err_name(&e)));
                        pool.push(None);
                    },
                    Err(_) => {
                        rec["decode"] = json!(format!("panic:{}", LAST_PANIC.with(|p| p.borrow().clone())));
                        pool.push(None);
                    },
                }
            },
            Err(e) => {
                rec["decode"] = json!(format!("unavailable:{}", e));
                pool.push(None);
            },
        }
        pool_params.push(None);
        out_derived.push(rec);
    }

    // verifications
    let mut out_verifies = vec![];
    for v in spec["verifies"].as_array().unwrap_or(&vec![]) {
        let mut rec = json!({});
        let mode = mode_of(v["mode"].as_str().unwrap_or("VerifyOnly"));
        let mut statements = vec![];
        let share_params = v["share_params"].as_bool().unwrap_or(false);
        let mut params_cache: std::collections::HashMap<String, RangeParameters<P>> = std::collections::HashMap::new();
        let mut proofs = vec![];
        let mut transcripts = vec![];
        let mut vgens = vec![];
        let mut vcommit = vec![];
        let mut vstm = vec![];
        let mut unavailable: Option<String> = None;
        verif_log::take();
        verif_log::enable(true);
        for vm in v["vmembers"].as_array().unwrap() {
            if let Some(pi) = vm["proof"].as_u64() {
                match pool.get(pi as usize).and_then(|p| p.as_ref()) {
                    Some(p) => proofs.push(p.clone()),
                    None => {
                        unavailable = Some(format!("proof {} unavailable", pi));
                        break;
                    },
                }
            }
            if !vm["stmt"].is_null() {
                let built = if share_params { build_statement_with::<P>(&vm["stmt"], Some(&mut params_cache)) } else { build_statement::<P>(&vm["stmt"]) };
                match built {
                    Ok((params, st)) => {
                        if with_gens && v["with_gens"].as_bool().unwrap_or(false) {
                            vgens.push(gens_json::<P>(&st.generators));
                        }
                        vcommit.push(Value::Array(st.commitments.iter().map(P::describe).collect()));
                        vstm.push(json!({
                            "H": hex(params.h_base_compressed().as_fixed_bytes()),
                            "Gb": params.g_bases_compressed().iter().map(|c| hex(c.as_fixed_bytes())).collect::<Vec<_>>(),
                            "bits": params.bit_length(), "cap": params.max_aggregation_factor(), "T": params.extension_degree() as usize,
                        }));
                        statements.push(st);
                    },
                    Err(e) => {
                        unavailable = Some(format!("statement err:{}", e));
                        break;
                    },
                }
            }
            if !vm["ctx"].is_null() {
                transcripts.push(make_transcript(&vm["ctx"]));
            }
        }
        verif_log::enable(false);
        if let Some(u) = unavailable {
            verif_log::take();
            rec["result"] = json!(format!("unavailable:{}", u));
            out_verifies.push(rec);
            continue;
        }
        rec["tids"] = Value::Array(
            // the harness-created transcripts, in order: each `new` op
            verif_log::take()
                .iter()
                .filter_map(|o| if let verif_log::Op::New { tid, .. } = o { Some(json!(tid)) } else { None })
                .collect(),
        );
        rec["commitments"] = Value::Array(vcommit);
        rec["stmts"] = Value::Array(vstm);
        if !vgens.is_empty() {
            rec["gens"] = Value::Array(vgens);
        }
        let vlog = v["log"].as_bool().unwrap_or(true);
        fm::msm_take();
        fm::msm_log_level(if log_msm && vlog { 1 } else { 0 });
        verif_log::enable(log_merlin && vlog);
        let t0 = std::time::Instant::now();
        let res = catch_unwind(AssertUnwindSafe(|| RangeProof::<P>::verify_batch(&mut transcripts, &statements, &proofs, mode)));
        let dt = t0.elapsed().as_secs_f64();
        verif_log::enable(false);
        fm::msm_log_level(0);
        rec["secs"] = json!(dt);
        rec["merlin"] = ops_json(&verif_log::take());
        rec["msm"] = msm_json(&fm::msm_take());
        match res {
            Ok(Ok(masks)) => {
                rec["result"] = json!("ok");
                rec["masks"] = Value::Array(
                    masks
                        .iter()
                        .map(|m| match m {
                            None => Value::Null,
                            Some(em) => match em.blindings() {
                                Ok(b) => Value::Array(b.iter().map(|s| json!(sc_hex(s))).collect()),
                                Err(_) => json!("empty"),
                            },
                        })
                        .collect(),
                );
            },
            Ok(Err(e)) => {
                rec["result"] = json!(format!("err:{}", err_name(&e)));
            },
            Err(_) => {
                rec["result"] = json!(format!("panic:{}", LAST_PANIC.with(|p| p.borrow().clone())));
            },
        }
        out_verifies.push(rec);
    }
    let _ = u8::try_from(0usize);
    json!({"id": spec["id"], "group": P::NAME, "members": out_members, "derived": out_derived, "verifies": out_verifies})
}
