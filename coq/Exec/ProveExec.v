(** Correspondence checker for the prover: Model/Prover.v + Model/Nonce.v at the concrete field, points as
    dense coefficient vectors over the formal generators [H, Gb_0.., G_0.., Hv_0..] of the harness's
    free-module group.  Result code: 0 = agreement; otherwise a sum of 1 (A), 2 (L_j / R_j), 4 (A1 / B),
    8 (r1, s1, d1), 16 (transcript and RNG operations). *)
From Coq Require Import ZArith NArith List Uint63 Bool.
From Bignums Require Import BigZ.
From BP Require Import Base.Field Model.Codec Model.Transcript Model.Verifier Model.Prover Model.Nonce
     Exec.Zl Exec.Limbs Exec.VerifyExec.
Import ListNotations.

(** dense vectors, implicitly zero-extended *)
Fixpoint vl_add (a b : list bigZ) : list bigZ :=
  match a, b with
  | x :: a', y :: b' => zl_add x y :: vl_add a' b'
  | [], _ => b
  | _, [] => a
  end.
Definition vl_smul (c : bigZ) (a : list bigZ) : list bigZ := if BigZ.eqb c 0 then [] else map (zl_mul c) a.
Fixpoint vl_is_zero (a : list bigZ) : bool := match a with [] => true | x :: a' => BigZ.eqb x 0 && vl_is_zero a' end.
Fixpoint vl_eqb (a b : list bigZ) : bool :=
  match a, b with
  | x :: a', y :: b' => BigZ.eqb x y && vl_eqb a' b'
  | [], _ => vl_is_zero b
  | _, [] => vl_is_zero a
  end.
Definition Vl : Mod Kl := mkMod Kl (list bigZ) [] vl_add vl_smul vl_eqb.

Definition unit_vec (i : nat) : list bigZ := repeat 0%bigZ i ++ [1%bigZ].

(** formal generators for (bits, capacity, T) *)
Definition fm_gens (bits cap T : nat) : gens Kl Vl :=
  let n := (bits * cap)%nat in
  mkGens Kl Vl (unit_vec 0) (map (fun k => unit_vec (1 + k)) (seq 0 T))
         (map (fun i => unit_vec (1 + T + i)) (seq 0 n)) (map (fun i => unit_vec (1 + T + n + i)) (seq 0 n)).

Definition pflag (b : bool) (c : N) : N := if b then 0%N else c.

Fixpoint vlist_eqb (a : list (list bigZ)) (b : list (list bigZ)) : bool :=
  match a, b with
  | [], [] => true
  | x :: a', y :: b' => vl_eqb x y && vlist_eqb a' b'
  | _, _ => false
  end.

Definition chk_prove (bits cap T : nat) (values : list N) (promises : list (option N)) (blindings : list (list (list int)))
    (seeded : bool) (ntable : list (N * option nat * nat * list int)) (draws : list (list (list int)))
    (y z : list int) (es : list (list int)) (e : list int)
    (oA : list (list int)) (oL oR : list (list (list int))) (oA1 oB : list (list int))
    (or1 os1 : list int) (od1 : list (list int))
    (Henc : list int) (Gbenc Venc : list (list int)) (pf : rmember) (obs_ops : list rop) : N :=
  let rounds := length es in
  let bl := map (map k_of_limbs) blindings in
  let rng i := take_nonzero 1000 (map k_of_limbs (nth i draws [])) in
  let nn := assign Kl (nonce_of ntable) rng seeded T rounds in
  let ch := mkPchals Kl (k_of_limbs y) (k_of_limbs z) (map k_of_limbs es) (k_of_limbs e) in
  let g := fm_gens bits cap T in
  let commitments := map (fun vr => commit Kl Vl g (fofN Kl (fst vr)) (snd vr)) (combine values bl) in
  let wT := match bl with [] => O | r :: _ => length r end in
  let kv := map k_of_limbs in
  let ts := mkTstmt (N.of_nat bits) (N.of_nat T) (n_of_limbs Henc) (map n_of_limbs Gbenc) (map n_of_limbs Venc) promises in
  let w := witness_arg values (map (map (fun l => n_of_k (k_of_limbs l))) blindings) in
  let c16 := pflag (match prover_ops ts seeded (proof_of pf) w with
                    | Some ops => ops_eqb ops (map op_of_rop obs_ops)
                    | None => false
                    end) 16 in
  (* the whole prover entry point of the model: guard, then proof computation; the implementation returned a proof *)
  match prove_top Kl Vl bits cap T g commitments promises values bl wT nn ch with
  | None => (15 + c16)%N
  | Some p =>
  let c1 := pflag (vl_eqb (pp_A p) (kv oA)) 1 in
  let c2 := pflag (vlist_eqb (pp_L p) (map kv oL) && vlist_eqb (pp_R p) (map kv oR)) 2 in
  let c4 := pflag (vl_eqb (pp_A1 p) (kv oA1) && vl_eqb (pp_B p) (kv oB)) 4 in
  let c8 := pflag (BigZ.eqb (pp_r1 p) (k_of_limbs or1) && BigZ.eqb (pp_s1 p) (k_of_limbs os1)
                   && klist_eqb (pp_d1 p) (kv od1)) 8 in
  (c1 + c2 + c4 + c8 + c16)%N
  end.

(** the prover's guard (Model/Prover.v [witness_valid]: opening count, extension degree, value capacity,
    re-commitment, promise <= value) at the concrete instance: the statement's commitments are built from
    the statement's openings, the witness may differ.  Result code 32 = the model's verdict differs from
    the implementation's prove Ok/Err. *)
Definition chk_guard (bits cap T : nat) (svals : list N) (sbl : list (list (list int))) (promises : list (option N))
    (wvals : list N) (wbl : list (list (list int))) (obs_ok : bool) : N :=
  let g := fm_gens bits cap T in
  let commitments := map (fun vr => commit Kl Vl g (k_of_N (fst vr)) (map k_of_limbs (snd vr))) (combine svals sbl) in
  let wT := match wbl with [] => O | r :: _ => length r end in
  pflag (Bool.eqb (witness_valid Kl Vl bits T k_of_N g commitments promises wvals (map (map k_of_limbs) wbl) wT) obs_ok) 32.
