(** Conversion of the literal formats used in generated case files (lists of primitive 63-bit integers)
    into the model's data.  Scalars / 256-bit values: five 60-bit limbs, little endian.  Byte strings:
    (length, 7-byte limbs). *)
From Coq Require Import NArith ZArith List Bool Uint63.
Import ListNotations.
Open Scope N_scope.

Definition n_of_int (i : int) : N := Z.to_N (Uint63.to_Z i).

Fixpoint n_of_limbs (ls : list int) : N :=
  match ls with [] => 0 | l :: r => n_of_int l + 1152921504606846976 * n_of_limbs r end.

Fixpoint bytes_of_n (k : nat) (x : N) : list N :=
  match k with O => [] | S k' => (x mod 256) :: bytes_of_n k' (x / 256) end.

Fixpoint bytes_of_limbs (len : nat) (ls : list int) : list N :=
  match ls with
  | [] => []
  | l :: r => bytes_of_n (Nat.min 7 len) (n_of_int l) ++ bytes_of_limbs (len - 7) r
  end.

Definition bytes_of (p : N * list int) : list N := bytes_of_limbs (N.to_nat (fst p)) (snd p).

Fixpoint list_eqb (a b : list N) : bool :=
  match a, b with
  | [], [] => true
  | x :: a', y :: b' => (x =? y) && list_eqb a' b'
  | _, _ => false
  end.
