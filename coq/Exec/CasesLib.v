(** Helpers shared by the generated correspondence-case files. *)
From Coq Require Import NArith List Bool.
Import ListNotations.
Open Scope N_scope.

(** indices (from [i]) of the [false] entries *)
Fixpoint failing (i : N) (l : list bool) : list N :=
  match l with
  | [] => []
  | b :: l' => if b then failing (i + 1) l' else i :: failing (i + 1) l'
  end.
