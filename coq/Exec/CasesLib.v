(** Helpers shared by the generated correspondence-case files. *)
From Coq Require Import NArith List Bool.
Import ListNotations.
Open Scope N_scope.

(** indices (from [i]) of the [false] entries *)
Fixpoint failing (i : N) (l : list bool) : list N :=
  match l with
  | [] => []
  | b :: l' => if b then failing (i + 1) l' else i :: failing (i + 1) l'
  end.

(** (index, code) of the non-zero entries *)
Fixpoint nonzero_codes (i : N) (l : list N) : list (N * N) :=
  match l with
  | [] => []
  | c :: l' => if c =? 0 then nonzero_codes (i + 1) l' else (i, c) :: nonzero_codes (i + 1) l'
  end.
