(** Replay of an instrumented-merlin operation log inside Coq: every challenge and every transcript-RNG output the real
    merlin produced during a prover / verifier run is recomputed by the Gallina STROBE/Merlin of Crypto/Strobe.v from the
    operations before it and compared byte for byte.  [failing] returns the positions of the operations that disagree. *)
From Coq Require Import Arith NArith List Bool Uint63.
From BP Require Import Crypto.Keccak Crypto.Strobe Exec.Limbs.
Import ListNotations.
Open Scope N_scope.

Inductive mop :=
  | MNew (tid : N) (label : list N)
  | MClone (from to : N)
  | MApp (tid : N) (label msg : list N)
  | MChal (tid : N) (label out : list N)
  | MRng (tid rid : N)
  | MRekey (rid : N) (label w : list N)
  | MFin (rid : N) (random : list N)
  | MFill (rid : N) (out : list N).

Definition smap := list (N * strobe).
Fixpoint find (k : N) (m : smap) : option strobe :=
  match m with [] => None | (k', v) :: t => if k =? k' then Some v else find k t end.
Definition put (k : N) (v : strobe) (m : smap) : smap := (k, v) :: m.

(** state: transcripts, rngs; result: new state and whether the operation's observed output was reproduced *)
Definition mstep (ts rs : smap) (o : mop) : smap * smap * bool :=
  match o with
  (* the instrumented Transcript::new logs [New] and then, from its own call of append_message, the [Append] of the label under
     "dom-sep": the log entry [MNew] therefore stands for the bare STROBE object only ([t_new] = [MNew] followed by that [MApp]) *)
  | MNew tid label => (put tid (strobe_new MERLIN_LABEL) ts, rs, true)
  | MClone from to => match find from ts with Some s => (put to s ts, rs, true) | None => (ts, rs, false) end
  | MApp tid label msg => match find tid ts with Some s => (put tid (t_append label msg s) ts, rs, true) | None => (ts, rs, false) end
  | MChal tid label out =>
      match find tid ts with
      | Some s => let '(s', got) := t_challenge label (length out) s in (put tid s' ts, rs, list_eqb got out)
      | None => (ts, rs, false)
      end
  | MRng tid rid => match find tid ts with Some s => (ts, put rid s rs, true) | None => (ts, rs, false) end
  | MRekey rid label w => match find rid rs with Some s => (ts, put rid (r_rekey label w s) rs, true) | None => (ts, rs, false) end
  | MFin rid random => match find rid rs with Some s => (ts, put rid (r_finalize random s) rs, true) | None => (ts, rs, false) end
  | MFill rid out =>
      match find rid rs with
      | Some s => let '(s', got) := r_fill (length out) s in (ts, put rid s' rs, list_eqb got out)
      | None => (ts, rs, false)
      end
  end.

Fixpoint mrun (i : N) (ts rs : smap) (ops : list mop) : list N :=
  match ops with
  | [] => []
  | o :: rest => let '(ts', rs', ok) := mstep ts rs o in (if ok then [] else [i]) ++ mrun (i + 1) ts' rs' rest
  end.

Definition failing (ops : list mop) : list N := mrun 0 [] [] ops.

(** how many outputs (challenges, RNG fills) the replay actually compared *)
Definition outputs (ops : list mop) : N :=
  N.of_nat (length (filter (fun o => match o with MChal _ _ _ | MFill _ _ => true | _ => false end) ops)).

(** literal format of the generated case files: byte strings as (length, 7-byte limbs) *)
Definition B (p : N * list int) : list N := bytes_of p.
