(** Concrete scalar field for running the model: integers modulo the Ristretto group order on
    [Bignums.BigZ] (about 25 us per modular multiplication under vm_compute). *)
From Coq Require Import ZArith NArith List Uint63 Bool.
From Bignums Require Import BigZ.
From BP Require Import Base.Field Model.RejectZero.
Import ListNotations.

Definition lZ : Z := (2 ^ 252 + 27742317777372353535851937790883648493)%Z.
Definition lB : bigZ := BigZ.of_Z lZ.
Definition lm2 : positive := Z.to_pos (lZ - 2).

Local Open Scope bigZ_scope.
Definition zl_add (a b : bigZ) : bigZ := (a + b) mod lB.
Definition zl_mul (a b : bigZ) : bigZ := (a * b) mod lB.
Definition zl_sub (a b : bigZ) : bigZ := (a - b) mod lB.
Definition zl_opp (a : bigZ) : bigZ := (lB - a) mod lB.
Fixpoint zl_powp (a : bigZ) (e : positive) : bigZ :=
  match e with
  | xH => a
  | xO e' => let t := zl_powp a e' in zl_mul t t
  | xI e' => let t := zl_powp a e' in zl_mul (zl_mul t t) a
  end.
(** inverse by Fermat; [zl_inv 0 = 0] like curve25519-dalek's [Scalar::invert] *)
Definition zl_inv (a : bigZ) : bigZ := zl_powp a lm2.
Definition zl_div (a b : bigZ) : bigZ := zl_mul a (zl_inv b).

Definition Kl : Fld := mkFld bigZ 0 1 zl_add zl_mul zl_sub zl_opp zl_div zl_inv BigZ.eqb.

(** literals: little-endian 60-bit limbs *)
Definition b_of_int (i : int) : bigZ := BigZ.of_Z (Uint63.to_Z i).
Definition B60 : bigZ := 1152921504606846976.
Fixpoint b_of_limbs (ls : list int) : bigZ :=
  match ls with [] => 0 | l :: r => b_of_int l + B60 * b_of_limbs r end.
(** a scalar given by limbs (any width), reduced *)
Definition k_of_limbs (ls : list int) : bigZ := b_of_limbs ls mod lB.
Definition k_of_N (n : N) : bigZ := BigZ.of_Z (Z.of_N n) mod lB.
Definition n_of_k (k : bigZ) : N := Z.to_N (BigZ.to_Z k).

Fixpoint klist_eqb (a b : list bigZ) : bool :=
  match a, b with
  | [], [] => true
  | x :: a', y :: b' => BigZ.eqb x y && klist_eqb a' b'
  | _, _ => false
  end.

(** [Scalar::random_not_zero] over a stream of draws: the first [n] non-zero values — the generic
    Model/RejectZero.v function (the subject of C08_weights_nonzero / C13_rng_nonces_nonzero) at this field *)
Definition take_nonzero (n : nat) (draws : list bigZ) : list bigZ := RejectZero.take_nonzero Kl n draws.
