(** Correspondence checkers for C11: generator bytes of the implementation vs the Gallina derivation. *)
From Coq Require Import Arith NArith List Bool Uint63.
From BP Require Import Model.Gens Exec.Limbs.
Import ListNotations.
Open Scope N_scope.

Definition kind_of (c : N) : gkind := if c =? 0 then KG else KH.

(** the first [length obs] generators of chain (kind, party) *)
Definition chk_chain (kind party : N) (obs : list (list int)) : bool :=
  list_eqb (chain_points (kind_of kind) party (length obs)) (map n_of_limbs obs).

(** blinding generators 1..length obs and the value generator *)
Definition chk_pedersen (obsH : list int) (obsGb : list (list int)) : bool :=
  (n_of_limbs obsH =? BASEPOINT_ENC)
  && list_eqb (map (fun k => blinding_point (N.of_nat k)) (seq 1 (length obsGb))) (map n_of_limbs obsGb).

(** the precomputed table is the interleaving of the G and H vectors *)
Definition chk_table (g h tab : list (list int)) : bool :=
  list_eqb (interleaveN (map n_of_limbs g) (map n_of_limbs h)) (map n_of_limbs tab).
