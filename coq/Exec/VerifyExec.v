(** Correspondence checker for the verifier: the model (coq/Model/VerifyTop.v, Verifier.v, Transcript.v)
    is run at the concrete field on the data of one observed verification (single chunk) and compared
    with what the implementation did.  Result code: 0 = agreement; otherwise a sum of
    1 (Ok/Err class), 2 (masks), 4 (static scalars), 8 (dynamic scalars), 16 (per-proof transcript
    operations up to the last challenge), 128 (all per-proof transcript operations), 32 (weight transcript operations), 64 (number of weight draws). *)
From Coq Require Import ZArith NArith List Uint63 Bool.
From Bignums Require Import BigZ.
From BP Require Import Base.Field Model.Codec Model.Transcript Model.Verifier Model.VerifyTop Model.Checked Model.CheckedTop Exec.Zl Exec.Limbs.
Import ListNotations.

Record rop := mkRop { ro_kind : N; ro_label : N; ro_len : nat; ro_val : list int }.

Definition label_of_code (c : N) : label :=
  match find (fun l => (label_code l =? c)%N) all_labels with Some l => l | None => LOther end.

Definition op_of_rop (r : rop) : op :=
  match ro_kind r with
  | 0%N => OApp (label_of_code (ro_label r)) (ro_len r) (n_of_limbs (ro_val r))
  | 1%N => OChal (label_of_code (ro_label r)) (ro_len r)
  | 2%N => ORng (if Nat.eqb (ro_len r) 0 then None else Some (ro_len r, n_of_limbs (ro_val r)))
  | _ => OFill (ro_len r)
  end.

Record rmember := mkR {
  r_bits : nat; r_cap : nat; r_T : nat;
  r_Henc : list int; r_Gbenc : list (list int); r_gens : N;
  r_Venc : list (list int); r_prom : list (option N); r_seeded : bool;
  r_tag : N; r_d1 : list (list int); r_a : list int; r_a1 : list int; r_b : list int;
  r_r1 : list int; r_s1 : list int; r_li : list (list int); r_ri : list (list int);
  r_undec : bool;
  r_y : list int; r_z : list int; r_es : list (list int); r_e : list int;
  r_nonces : list (N * option nat * nat * list int);
  r_ops : list rop }.

Definition nl_code (l : nlabel) : N := match l with NAlpha => 0 | NdL => 1 | NdR => 2 | Nd => 3 | NEta => 4 end%N.
Definition onat_eqb (a b : option nat) : bool :=
  match a, b with None, None => true | Some x, Some y => Nat.eqb x y | _, _ => false end.
Definition nonce_of (tbl : list (N * option nat * nat * list int)) (l : nlabel) (j : option nat) (k : nat) : bigZ :=
  match find (fun e => let '(c, j', k', _) := e in (c =? nl_code l)%N && onat_eqb j j' && Nat.eqb k k') tbl with
  | Some (_, _, _, v) => k_of_limbs v
  | None => 0%bigZ
  end.

Definition proof_of (r : rmember) : proof :=
  mkProof (r_tag r) (map n_of_limbs (r_d1 r)) (n_of_limbs (r_a r)) (n_of_limbs (r_a1 r)) (n_of_limbs (r_b r))
          (n_of_limbs (r_r1 r)) (n_of_limbs (r_s1 r)) (map n_of_limbs (r_li r)) (map n_of_limbs (r_ri r)).

Definition member_of (r : rmember) : member Kl :=
  mkMember Kl (r_bits r) (r_cap r) (r_T r) (n_of_limbs (r_Henc r)) (map n_of_limbs (r_Gbenc r)) (r_gens r)
    (map n_of_limbs (r_Venc r)) (r_prom r) (r_seeded r) (proof_of r) (r_undec r)
    (mkChals Kl (k_of_limbs (r_y r)) (k_of_limbs (r_z r)) (map k_of_limbs (r_es r)) (k_of_limbs (r_e r)))
    (nonce_of (r_nonces r)).

Definition mode_of_code (c : N) : vmode := match c with 0%N => VerifyOnly | 1%N => RecoverAndVerify | _ => RecoverOnly end.

Definition omask_eqb (a : option (list bigZ)) (b : option (list (list int))) : bool :=
  match a, b with
  | None, None => true
  | Some x, Some y => klist_eqb x (map k_of_limbs y)
  | _, _ => false
  end.
Fixpoint masks_eqb (a : list (option (list bigZ))) (b : list (option (list (list int)))) : bool :=
  match a, b with
  | [], [] => true
  | x :: a', y :: b' => omask_eqb x y && masks_eqb a' b'
  | _, _ => false
  end.

Definition group_total (dyn : list bigZ) (g : list nat) : bigZ :=
  fold_right (fun i acc => zl_add (nth i dyn 0%bigZ) acc) 0%bigZ g.

Definition flag (b : bool) (c : N) : N := if b then 0%N else c.

(** per-member transcript operations: exact when the run got through the transcript phase, else a prefix
    relation (the implementation stopped at the first error) *)
Definition ops_check (complete : bool) (r : rmember) : bool :=
  let m := member_of r in
  let obs := map op_of_rop (r_ops r) in
  match verifier_ops (tstmt_of Kl m) (mb_proof Kl m) with
  | Some ops => if complete then ops_eqb ops obs else ops_prefixb obs ops
  | None => negb complete
  end.

(** the same, restricted to the operations up to and including the last challenge (what C04 is about) *)
Definition ops_check_chal (complete : bool) (r : rmember) : bool :=
  let m := member_of r in
  let obs := map op_of_rop (r_ops r) in
  let p := mb_proof Kl m in
  match verifier_ops (tstmt_of Kl m) p with
  | Some ops =>
      let n := (length ops - length (ops_verifier_rng (p_r1 p) (p_s1 p) (p_d1 p)))%nat in
      if complete then ops_eqb (firstn n ops) (firstn n obs) else ops_prefixb (firstn n obs) ops
  | None => negb complete
  end.

Definition chk_verify (mode_c : N) (rs : list rmember) (draws : list (list int)) (u64s : list N)
    (wops : list rop) (msm_zero : bool)
    (obs_ok obs_panic : bool) (obs_masks : list (option (list (list int))))
    (obs_static : list (list int)) (groups : list (list nat)) (obs_dyn : list (list int)) : N :=
  let mode := mode_of_code mode_c in
  let ms := map member_of rs in
  let ws := take_nonzero (length rs) (map k_of_limbs draws) in
  let '(res, sc) := verify_chunk Kl k_of_N mode ms ws msm_zero in
  let phase1 := match consistency Kl ms with Some _ => forallb (transcript_phase_ok Kl) ms | None => false end in
  let c_res := match res with
               | Ok masks => flag obs_ok 1 + flag (negb obs_ok || masks_eqb masks obs_masks) 2
               | Err => flag (negb obs_ok) 1
               end%N in
  let c_sc := match sc with
              | Some (st, dyn) =>
                  (flag (klist_eqb st (map k_of_limbs obs_static)) 4
                   + flag (klist_eqb (map (group_total dyn) groups) (map k_of_limbs obs_dyn)) 8)%N
              | None => flag (match obs_static with [] => true | _ => false end) 4
              end in
  let consistent := match consistency Kl ms with Some _ => true | None => false end in
  let c_ops := if consistent then (flag (forallb (ops_check_chal phase1) rs) 16 + flag (forallb (ops_check phase1) rs) 128)%N else 0%N in
  let c_w := if phase1
             then (flag (ops_prefixb (map op_of_rop wops) (weight_ops u64s (length draws))
                         && ops_prefixb (weight_ops u64s 0) (map op_of_rop wops)) 32)%N
             else 0%N in
  (* guard order: a batch the consistency checks refuse must be refused BEFORE any transcript is touched
     (no proof-transcript operation, no weight transcript) *)
  let c_stage := if consistent then 0%N
                 else flag (forallb (fun r => match r_ops r with [] => true | _ => false end) rs
                            && match wops with [] => true | _ => false end) 64 in
  (* the three-valued model (Model/CheckedTop.v): value / error / panic must be the implementation's Ok / Err / panic — also on statements
     written through their public fields, where the back end's length assertions do fire *)
  let c_tri := match verify_chunk_chk Kl k_of_N mode ms ws msm_zero with
               | Val _ => flag (obs_ok && negb obs_panic) 1024
               | Fail => flag (negb obs_ok && negb obs_panic) 1024
               | Panic => flag obs_panic 1024
               end in
  (c_res + c_sc + c_ops + c_w + c_stage + c_tri)%N.

(** chunking of a batch (Model/VerifyTop.v [chunks_of] with [MAX_BATCH]): the sizes of the chunks the
    implementation went through (one weight transcript per chunk, one absorbed value per member), for an
    accepted batch of [n] members.  Result code 256 = they differ. *)
Fixpoint nat_list_eqb (a b : list nat) : bool :=
  match a, b with [] , [] => true | x :: a', y :: b' => Nat.eqb x y && nat_list_eqb a' b' | _, _ => false end.
Definition chk_chunks (n : nat) (obs : list nat) : N :=
  flag (nat_list_eqb (map (@length unit) (chunks_of n MAX_BATCH (repeat tt n))) obs) 256.

(** the entry guards of [verify_batch] (Model/VerifyTop.v): an empty or length-mismatched triple of
    slices is refused before anything else.  Result code 512 = the model refuses, the implementation does not. *)
Definition chk_shape (ns np nt : nat) (obs_ok : bool) : N :=
  match verify_batch Kl k_of_N VerifyOnly ns np nt [] [] with
  | Err => flag (negb obs_ok) 512
  | Ok _ => 0%N
  end.
