(** Correspondence checkers for C17: compare the implementation's observed result code with the model.
    Codes (harness/src/ctor.rs): 1 = Ok and stored values equal the arguments, 3 = Ok but adjusted,
    0 = Err, 2 = panic.  The model predicts 1 or 0 only. *)
From Coq Require Import NArith List Bool.
From BP Require Import Model.Ctor.
Import ListNotations.
Open Scope N_scope.

Definition code_of {A} (o : option A) : N := match o with Some _ => 1 | None => 0 end.
Definition code_ofb (b : bool) : N := if b then 1 else 0.

Definition chk_params (r : N * N * N) : bool := let '(bits, cap, c) := r in code_of (params_init bits cap) =? c.
Definition chk_statement (r : N * N * N * N * N) : bool :=
  let '(cap, count, pcount, seed, c) := r in code_of (statement_init cap count pcount (seed =? 1)) =? c.
Definition chk_witness (r : list N * N) : bool := let '(shape, c) := r in code_of (witness_init shape) =? c.
Definition chk_rlen (r : N * N) : bool := let '(n, c) := r in code_of (r_len n) =? c.
Definition chk_deg_u8 (r : N * N) : bool := let '(x, c) := r in code_of (degree_of_u8 x) =? c.
Definition chk_deg_usize (r : N * N) : bool := let '(x, c) := r in code_of (degree_of_usize x) =? c.
Definition chk_mask (r : N * N * N) : bool := let '(len, deg, c) := r in code_ofb (mask_assign deg len) =? c.
Definition chk_commit (r : N * N * N) : bool := let '(len, deg, c) := r in code_ofb (commit_ok deg len) =? c.
