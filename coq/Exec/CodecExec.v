(** Correspondence checker for C15. *)
From Coq Require Import NArith List Bool Uint63.
From BP Require Import Model.Codec Exec.Limbs.
Import ListNotations.
Open Scope N_scope.

(** observed: decode_ok = implementation's from_bytes succeeded; reenc = its re-encoding (when ok);
    tag = the result of extension_degree_from_proof_bytes (0 = error) *)
Definition chk_codec (inp : N * list int) (decode_ok : bool) (reenc : N * list int) (tag : N) : bool :=
  let bs := bytes_of inp in
  (match from_bytes bs with
   | Some p => decode_ok && list_eqb (to_bytes p) (bytes_of reenc) && list_eqb (to_bytes p) bs
   | None => negb decode_ok
   end)
  && (match tag_from_bytes bs with Some t => t =? tag | None => tag =? 0 end).
