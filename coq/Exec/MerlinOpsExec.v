(** The model's own notion of a transcript (the operation lists of Model/Transcript.v) run through the Gallina Merlin
    (Model/MerlinOps.run_ops) and compared with the challenge bytes the real merlin handed out for the same operations. *)
From Coq Require Import Arith NArith List Bool Uint63.
From BP Require Import Model.Codec Model.Transcript Crypto.Keccak Crypto.Strobe Model.MerlinOps Exec.Limbs Exec.MerlinExec Exec.VerifyExec.
Import ListNotations.
Open Scope N_scope.

Fixpoint lists_eqb (a b : list (list N)) : bool :=
  match a, b with
  | [], [] => true
  | x :: a', y :: b' => list_eqb x y && lists_eqb a' b'
  | _, _ => false
  end.

(** [ctx_label], [ctx_msgs]: what the caller did to the transcript before handing it over; [rops]: the operations recorded afterwards *)
Definition chk_ops (ctx_label : list N) (ctx_msgs : list (list N * list N)) (rops : list rop) (observed : list (list N)) : bool :=
  let s0 := fold_left (fun s lm => t_append (fst lm) (snd lm) s) ctx_msgs (t_new ctx_label) in
  lists_eqb (snd (run_ops s0 (map op_of_rop rops))) observed.
