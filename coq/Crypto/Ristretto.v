(** Ristretto255 one-way map (Elligator), Edwards addition and canonical encoding over BigZ, following RFC 9496.  These model a
    DEPENDENCY of /repo (curve25519-dalek): validated by known answers (Crypto/KAT.v) and by byte equality with dalek on every C11 run. *)
From Coq Require Import ZArith List NArith.
From Bignums Require Import BigZ.
Import ListNotations.
Local Open Scope bigZ_scope.
Definition p : bigZ := 2^255 - 19.
Definition fe (x : bigZ) : bigZ := x mod p.
Definition fadd a b := fe (a + b). Definition fsub a b := fe (a - b). Definition fmul a b := fe (a * b).
Definition fneg a := fe (- a). Definition fsq a := fmul a a.
Fixpoint fpow_pos (x : bigZ) (e : positive) : bigZ :=
  match e with xH => x | xO e' => fsq (fpow_pos x e') | xI e' => fmul x (fsq (fpow_pos x e')) end.
Definition fpow x (e : Z) := match e with Zpos q => fpow_pos x q | _ => 1 end.
Definition pZ : Z := (2^255 - 19)%Z.
Definition finv x := fpow x (pZ - 2)%Z.
Definition is_neg (x : bigZ) : bool := BigZ.eqb (x mod 2) 1.
Definition fabs x := if is_neg x then fneg x else x.
Definition D : bigZ := fmul (fneg 121665) (finv 121666).
Definition SQRT_M1 : bigZ := fpow 2 ((pZ - 1) / 4)%Z.
Definition sqrt_ratio (u v : bigZ) : bool * bigZ :=
  let v3 := fmul (fsq v) v in let v7 := fmul (fsq v3) v in
  let r := fmul (fmul u v3) (fpow (fmul u v7) ((pZ - 5) / 8)%Z) in
  let check := fmul v (fsq r) in
  let correct := BigZ.eqb check u in
  let flipped := BigZ.eqb check (fneg u) in
  let flipped_i := BigZ.eqb check (fmul (fneg u) SQRT_M1) in
  let r := if orb flipped flipped_i then fmul SQRT_M1 r else r in
  (orb correct flipped, fabs r).
Definition ONE_MINUS_D_SQ := fsub 1 (fsq D).
Definition D_MINUS_ONE_SQ := fsq (fsub D 1).
Definition AMD := fsub (fneg 1) D.                       (* a - d = a*d - 1 = -1 - d *)
Definition INVSQRT_A_MINUS_D := snd (sqrt_ratio 1 AMD).
Definition SQRT_AD_MINUS_ONE_RFC : bigZ := 25063068953384623474111414158702152701244531502492656460079210482610430750235.
Definition SQRT_AD_MINUS_ONE := SQRT_AD_MINUS_ONE_RFC.

Definition pt := (bigZ * bigZ * bigZ * bigZ)%type.
Definition elligator (t : bigZ) : pt :=
  let r := fmul SQRT_M1 (fsq t) in
  let u := fmul (fadd r 1) ONE_MINUS_D_SQ in
  let v := fmul (fsub (fneg 1) (fmul r D)) (fadd r D) in
  let '(sq, s) := sqrt_ratio u v in
  let s_prime := fneg (fabs (fmul s t)) in
  let s := if sq then s else s_prime in
  let c := if sq then fneg 1 else r in
  let N := fsub (fmul (fmul c (fsub r 1)) D_MINUS_ONE_SQ) v in
  let w0 := fmul 2 (fmul s v) in let w1 := fmul N SQRT_AD_MINUS_ONE in
  let w2 := fsub 1 (fsq s) in let w3 := fadd 1 (fsq s) in
  (fmul w0 w3, fmul w2 w1, fmul w1 w3, fmul w0 w2).
Definition padd (P Q : pt) : pt :=
  let '(X1, Y1, Z1, T1) := P in let '(X2, Y2, Z2, T2) := Q in
  let A := fmul (fsub Y1 X1) (fsub Y2 X2) in let B := fmul (fadd Y1 X1) (fadd Y2 X2) in
  let C := fmul (fmul T1 (fmul 2 D)) T2 in let Dd := fmul (fmul Z1 2) Z2 in
  let E := fsub B A in let Ff := fsub Dd C in let G := fadd Dd C in let H := fadd B A in
  (fmul E Ff, fmul G H, fmul Ff G, fmul E H).
Definition encode (P : pt) : bigZ :=
  let '(X, Y, Z, T) := P in
  let u1 := fmul (fadd Z Y) (fsub Z Y) in let u2 := fmul X Y in
  let invsqrt := snd (sqrt_ratio 1 (fmul u1 (fsq u2))) in
  let den1 := fmul invsqrt u1 in let den2 := fmul invsqrt u2 in
  let z_inv := fmul (fmul den1 den2) T in
  let ix := fmul X SQRT_M1 in let iy := fmul Y SQRT_M1 in
  let ench := fmul den1 INVSQRT_A_MINUS_D in
  let rotate := is_neg (fmul T z_inv) in
  let x := if rotate then iy else X in let y := if rotate then ix else Y in
  let den_inv := if rotate then ench else den2 in
  let y := if is_neg (fmul x z_inv) then fneg y else y in
  fabs (fmul den_inv (fsub Z y)).
(* bytes are given as little-endian integers *)
Definition mask255 (x : bigZ) : bigZ := x mod 2^255.
Definition one_way (lo hi : bigZ) : bigZ := encode (padd (elligator (fe (mask255 lo))) (elligator (fe (mask255 hi)))).
