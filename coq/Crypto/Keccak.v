(** Keccak-f[1600], SHAKE256 and SHA3-512 in Gallina on 64-bit [N] lanes (FIPS 202).  These model a DEPENDENCY of /repo (the sha3
    crate): they are validated by known-answer examples (Crypto/KAT.v) and by byte equality with the Rust crate on every
    C11 run, not verified. *)
From Coq Require Import Arith NArith List.
Import ListNotations.
Local Open Scope N_scope.
Definition m64 : N := 18446744073709551615.
Definition rotl (x r : N) : N := if N.eqb r 0 then x else N.lor (N.land (N.shiftl x r) m64) (N.shiftr x (64 - r)).
Definition lane (s : list N) (i : nat) : N := nth i s 0.
Definition RC : list N := [1; 32898; 9223372036854808714; 9223372039002292224; 32907; 2147483649;
  9223372039002292353; 9223372036854808585; 138; 136; 2147516425; 2147483658; 2147516555;
  9223372036854775947; 9223372036854808713; 9223372036854808579; 9223372036854808578;
  9223372036854775936; 32778; 9223372039002259466; 9223372039002292353; 9223372036854808704;
  2147483649; 9223372039002292232].
(* rotation offsets indexed by x + 5y *)
Definition ROT : list N := [0; 1; 62; 28; 27; 36; 44; 6; 55; 20; 3; 10; 43; 25; 39; 41; 45; 15; 21; 8; 18; 2; 61; 56; 14].
Definition idx (x y : nat) : nat := ((x mod 5) + 5 * (y mod 5))%nat.
Definition xs5 := [0;1;2;3;4]%nat.
Definition round (s : list N) (rc : N) : list N :=
  let C := map (fun x => N.lxor (N.lxor (N.lxor (N.lxor (lane s (idx x 0)) (lane s (idx x 1))) (lane s (idx x 2))) (lane s (idx x 3))) (lane s (idx x 4))) xs5 in
  let D := map (fun x => N.lxor (nth ((x + 4) mod 5)%nat C 0) (rotl (nth ((x + 1) mod 5)%nat C 0) 1)) xs5 in
  let A := map (fun i => N.lxor (lane s i) (nth (i mod 5)%nat D 0)) (seq 0 25) in
  (* B[y, 2x+3y] = rot(A[x,y]) ; compute B by destination index: for dest (X,Y): x = (X + 3Y) mod 5 ... use source enumeration *)
  let B := map (fun d => let X := (d mod 5)%nat in let Y := (d / 5)%nat in
                         (* source (x,y) with y = X and 2x+3y = Y (mod 5) -> x = (X + 3Y) mod 5 *)
                         let x := ((X + 3 * Y) mod 5)%nat in let y := X in
                         rotl (lane A (idx x y)) (nth (idx x y) ROT 0)) (seq 0 25) in
  let E := map (fun d => let X := (d mod 5)%nat in let Y := (d / 5)%nat in
                         N.lxor (lane B d) (N.land (N.lxor (lane B (idx (X + 1)%nat Y)) m64) (lane B (idx (X + 2)%nat Y)))) (seq 0 25) in
  match E with e0 :: t => N.lxor e0 rc :: t | [] => [] end.
Definition keccak_f (s : list N) : list N := fold_left round RC s.
Fixpoint le_lane (bs : list N) : N := match bs with [] => 0 | b :: t => b + 256 * le_lane t end.
Fixpoint chunks8 (n : nat) (bs : list N) : list N :=
  match n with O => [] | S k => le_lane (firstn 8 bs) :: chunks8 k (skipn 8 bs) end.
Fixpoint xor_in (s blk : list N) : list N :=
  match s, blk with a :: s', b :: blk' => N.lxor a b :: xor_in s' blk' | _, [] => s | [], _ => [] end.
Definition lane_bytes (x : N) : list N := map (fun i => N.land (N.shiftr x (8 * N.of_nat i)) 255) (seq 0 8).
Definition pad (rate : nat) (dom : N) (msg : list N) : list N :=
  let q := (rate - (length msg mod rate))%nat in
  if Nat.eqb q 1 then msg ++ [N.lor dom 128]
  else msg ++ [dom] ++ repeat 0 (q - 2) ++ [128].
Fixpoint absorb (fuel rate : nat) (s : list N) (bs : list N) : list N :=
  match fuel with O => s | S k =>
    match bs with [] => s | _ => absorb k rate (keccak_f (xor_in s (chunks8 (rate / 8)%nat (firstn rate bs)))) (skipn rate bs) end end.
Fixpoint squeeze (blocks rate : nat) (s : list N) : list N :=
  match blocks with O => [] | S k => firstn rate (flat_map lane_bytes s) ++ squeeze k rate (keccak_f s) end.
Definition sponge (rate : nat) (dom : N) (msg : list N) (outlen : nat) : list N :=
  let p := pad rate dom msg in
  let s := absorb (S (length p / rate)%nat) rate (repeat 0 25) p in
  firstn outlen (squeeze (S (outlen / rate)%nat) rate s).
Definition shake256 msg n := sponge 136 31 msg n.
Definition sha3_512 msg := sponge 72 6 msg 64.

