(** STROBE-128/1600 as used by merlin 3.0.0 (src/strobe.rs) and the Merlin transcript / transcript-RNG operations built on it
    (src/transcript.rs), in Gallina on byte lists, on top of the Keccak-f[1600] of Crypto/Keccak.v.
    These model a DEPENDENCY of /repo: they are validated by replaying the instrumented merlin's operation log of real
    prover / verifier runs inside Coq and comparing every challenge and every transcript-RNG output byte for byte
    (Exec/MerlinExec.v, run by the C04 and C19 checks), not verified.  The [cur_flags] field of the Rust struct only feeds
    debug assertions about [more = true] continuations and is not modelled. *)
From Coq Require Import Arith NArith List.
From BP Require Import Crypto.Keccak.
Import ListNotations.
Local Open Scope N_scope.

Record strobe := mkStrobe { st : list N (* 200 bytes *); pos : nat; pos_begin : nat }.

Definition STROBE_R : nat := 166.

Fixpoint upd (i : nat) (f : N -> N) (l : list N) : list N :=
  match l, i with
  | [], _ => []
  | x :: t, O => f x :: t
  | x :: t, S j => x :: upd j f t
  end.

Definition permute (bytes : list N) : list N := flat_map lane_bytes (keccak_f (chunks8 25 bytes)).

Definition run_f (s : strobe) : strobe :=
  let b := upd (pos s) (N.lxor (N.of_nat (pos_begin s))) (st s) in
  let b := upd (S (pos s)) (N.lxor 4) b in
  let b := upd (S STROBE_R) (N.lxor 128) b in
  mkStrobe (permute b) 0 0.

Definition advance (bytes : list N) (s : strobe) : strobe :=
  let s' := mkStrobe bytes (S (pos s)) (pos_begin s) in
  if Nat.eqb (pos s') STROBE_R then run_f s' else s'.

Definition absorb1 (s : strobe) (b : N) : strobe := advance (upd (pos s) (N.lxor b) (st s)) s.
Definition overwrite1 (s : strobe) (b : N) : strobe := advance (upd (pos s) (fun _ => b) (st s)) s.
Definition squeeze1 (s : strobe) : strobe * N := (advance (upd (pos s) (fun _ => 0) (st s)) s, nth (pos s) (st s) 0).

Definition absorb (s : strobe) (data : list N) : strobe := fold_left absorb1 data s.
Definition overwrite (s : strobe) (data : list N) : strobe := fold_left overwrite1 data s.
Fixpoint squeeze (n : nat) (s : strobe) : strobe * list N :=
  match n with
  | O => (s, [])
  | S k => let '(s1, b) := squeeze1 s in let '(s2, r) := squeeze k s1 in (s2, b :: r)
  end.

(** flags: I = 1, A = 2, C = 4, T = 8, M = 16, K = 32 *)
Definition begin_op (flags : N) (s : strobe) : strobe :=
  let old := pos_begin s in
  let s2 := absorb (mkStrobe (st s) (pos s) (S (pos s))) [N.of_nat old; flags] in
  if N.land flags 36 =? 0 then s2 else if Nat.eqb (pos s2) 0 then s2 else run_f s2.

Definition meta_ad (data : list N) (more : bool) (s : strobe) : strobe := absorb (if more then s else begin_op 18 s) data.
Definition ad (data : list N) (s : strobe) : strobe := absorb (begin_op 2 s) data.
Definition prf (n : nat) (s : strobe) : strobe * list N := squeeze n (begin_op 7 s).
Definition key (data : list N) (s : strobe) : strobe := overwrite (begin_op 6 s) data.

(** "STROBEv1.0.2" *)
Definition STROBE_VERSION : list N := [83; 84; 82; 79; 66; 69; 118; 49; 46; 48; 46; 50].
Definition strobe_new (protocol_label : list N) : strobe :=
  meta_ad protocol_label false
    (mkStrobe (permute ([1; N.of_nat STROBE_R + 2; 1; 0; 1; 96] ++ STROBE_VERSION ++ repeat 0 182)) 0 0).

(** ** Merlin *)
Fixpoint le_bytes (k : nat) (x : N) : list N :=
  match k with O => [] | S k' => (x mod 256) :: le_bytes k' (x / 256) end.
Definition le32 (n : nat) : list N := le_bytes 4 (N.of_nat n).

(** "Merlin v1.0", "dom-sep", "rng" *)
Definition MERLIN_LABEL : list N := [77; 101; 114; 108; 105; 110; 32; 118; 49; 46; 48].
Definition DOMSEP_LABEL : list N := [100; 111; 109; 45; 115; 101; 112].
Definition RNG_LABEL : list N := [114; 110; 103].

Definition t_append (label msg : list N) (s : strobe) : strobe :=
  ad msg (meta_ad (le32 (length msg)) true (meta_ad label false s)).
Definition t_new (label : list N) : strobe := t_append DOMSEP_LABEL label (strobe_new MERLIN_LABEL).
Definition t_challenge (label : list N) (n : nat) (s : strobe) : strobe * list N :=
  prf n (meta_ad (le32 n) true (meta_ad label false s)).
Definition r_rekey (label w : list N) (s : strobe) : strobe :=
  key w (meta_ad (le32 (length w)) true (meta_ad label false s)).
Definition r_finalize (random : list N) (s : strobe) : strobe := key random (meta_ad RNG_LABEL false s).
Definition r_fill (n : nat) (s : strobe) : strobe * list N := prf n (meta_ad (le32 n) false s).
