(** Reflective normaliser for identities in an abstract vector space ([module_eq]) and the basic
    multiscalar-multiplication lemmas. *)
From Coq Require Import List Arith Lia Field Ring.
From BP Require Import Base.Field Proofs.FieldP.
Import ListNotations.

Section Reflect.
Variable K : Fld.
Hypothesis Kok : FldOk K.
Add Field Kf : (Fth K Kok).
Variable M : Mod K.
Hypothesis Mok : ModOk K M.
Local Open Scope F_scope.
Notation "0" := (f0 K). Notation "1" := (f1 K).
Infix "+v" := (vadd M) (at level 50, left associativity).
Infix "*v" := (smul M) (at level 40).

Lemma vadd0r (a : M) : a +v v0 M = a. Proof. now rewrite (vaddC K M Mok), (vadd0 K M Mok). Qed.
Lemma smul_v0 (c : K) : c *v v0 M = v0 M.
Proof. rewrite <- (smul_0 K M Mok (v0 M)), <- (smul_mul K M Mok). replace (c * 0) with 0 by ring. reflexivity. Qed.

Inductive vexp := VZ | VAt (i : nat) | VAdd (a b : vexp) | VSm (c : K) (a : vexp).
Fixpoint veval (atoms : list M) (e : vexp) : M :=
  match e with
  | VZ => v0 M | VAt i => nth i atoms (v0 M)
  | VAdd a b => veval atoms a +v veval atoms b | VSm c a => c *v veval atoms a
  end.
Fixpoint unitv (n i : nat) : list K :=
  match n with O => [] | S n' => match i with O => 1 :: repeat 0 n' | S i' => 0 :: unitv n' i' end end.
Fixpoint zipadd (a b : list K) : list K :=
  match a, b with x :: a', y :: b' => (x + y) :: zipadd a' b' | _, _ => [] end.
Fixpoint vcoef (n : nat) (e : vexp) : list K :=
  match e with
  | VZ => repeat 0 n | VAt i => unitv n i
  | VAdd a b => zipadd (vcoef n a) (vcoef n b) | VSm c a => map (fmul K c) (vcoef n a)
  end.

Lemma vcoef_length n e : length (vcoef n e) = n.
Proof.
  induction e as [| i | a IHa b IHb | c a IHa]; cbn [vcoef].
  - apply repeat_length.
  - revert i; induction n as [|n IH]; intros [|i]; cbn [unitv length]; try reflexivity; [now rewrite repeat_length | now rewrite IH].
  - revert IHa IHb. generalize (vcoef n a) (vcoef n b). clear. intros l1 l2 H1 H2. subst n.
    revert l2 H2; induction l1 as [|x l1 IH]; intros [|y l2] H; cbn in *; try discriminate; try reflexivity. f_equal. apply IH. lia.
  - now rewrite map_length.
Qed.
Lemma msm_zero n (p : list M) : msm (repeat 0 n) p = v0 M.
Proof. revert p; induction n as [|n IH]; intros [|q p]; cbn [repeat msm]; try reflexivity. now rewrite IH, (smul_0 K M Mok), (vadd0 K M Mok). Qed.
Lemma msm_unit : forall (p : list M) i, msm (unitv (length p) i) p = nth i p (v0 M).
Proof.
  induction p as [|q p IH]; intros [|i]; cbn [length unitv msm nth]; try reflexivity.
  - now rewrite msm_zero, (smul_1 K M Mok), vadd0r.
  - now rewrite (smul_0 K M Mok), (vadd0 K M Mok), IH.
Qed.
Lemma msm_zipadd : forall a b (p : list M), length a = length b -> msm (zipadd a b) p = msm a p +v msm b p.
Proof.
  induction a as [|x a IH]; intros [|y b] p H; cbn [zipadd msm] in *; try discriminate; [now rewrite (vadd0 K M Mok)|].
  destruct p as [|q p]; [now rewrite (vadd0 K M Mok)|]. cbn [length] in H. rewrite IH by lia. rewrite (smul_add_l K M Mok).
  rewrite <- !(vaddA K M Mok). f_equal. rewrite !(vaddA K M Mok). f_equal. apply (vaddC K M Mok).
Qed.
Lemma msm_map_mul c : forall a (p : list M), msm (map (fmul K c) a) p = c *v msm a p.
Proof.
  induction a as [|x a IH]; intros [|q p]; cbn [map msm]; try (now rewrite smul_v0).
  now rewrite IH, (smul_add_r K M Mok), (smul_mul K M Mok).
Qed.
Lemma veval_msm atoms e : veval atoms e = msm (vcoef (length atoms) e) atoms.
Proof.
  induction e as [| i | a IHa b IHb | c a IHa]; cbn [veval vcoef].
  - now rewrite msm_zero.
  - now rewrite msm_unit.
  - rewrite msm_zipadd by (now rewrite !vcoef_length). now rewrite IHa, IHb.
  - now rewrite msm_map_mul, IHa.
Qed.
Lemma vreflect atoms e1 e2 : vcoef (length atoms) e1 = vcoef (length atoms) e2 -> veval atoms e1 = veval atoms e2.
Proof. intros H. now rewrite !veval_msm, H. Qed.
Lemma cons_eq (x y : K) l l' : x = y -> l = l' -> x :: l = y :: l'. Proof. now intros -> ->. Qed.
End Reflect.

Arguments VZ {K}. Arguments VAt {K}. Arguments VAdd {K}. Arguments VSm {K}.

Ltac inl x l := lazymatch l with nil => constr:(false) | cons x _ => constr:(true) | cons _ ?t => inl x t end.
Ltac adda x l := let b := inl x l in lazymatch b with true => l | false => constr:(l ++ (cons x nil)) end.
Ltac atoms_of e l :=
  lazymatch e with
  | vadd _ ?a ?b => let l1 := atoms_of a l in atoms_of b l1
  | smul _ _ ?a => atoms_of a l
  | v0 _ => l
  | _ => let l' := eval cbn [app] in l in adda e l'
  end.
Ltac idx x l := lazymatch l with cons x _ => constr:(O) | cons _ ?t => let n := idx x t in constr:(S n) end.
Ltac reifyv K e l :=
  lazymatch e with
  | vadd _ ?a ?b => let ra := reifyv K a l in let rb := reifyv K b l in constr:(@VAdd K ra rb)
  | smul _ ?c ?a => let ra := reifyv K a l in constr:(@VSm K c ra)
  | v0 _ => constr:(@VZ K)
  | _ => let i := idx e l in constr:(@VAt K i)
  end.
(** Closes a goal [lhs = rhs] between vector-space expressions by comparing the coefficient of every
    atom with [ring] / [field].  Needs [Kok : FldOk K], [Mok : ModOk K M] in the context and the field
    declared ([Add Field]) in the current section. *)
Ltac module_eq :=
  lazymatch goal with
  | Kok : FldOk ?K, Mok : ModOk ?K ?M |- ?lhs = ?rhs =>
      let l0 := atoms_of lhs (@nil (V K M)) in let l0 := eval cbn [app] in l0 in
      let l1 := atoms_of rhs l0 in let l1 := eval cbn [app] in l1 in
      let e1 := reifyv K lhs l1 in let e2 := reifyv K rhs l1 in
      change (veval K M l1 e1 = veval K M l1 e2); apply (vreflect K Kok M Mok);
      cbn [length vcoef unitv zipadd map repeat]; repeat (apply cons_eq); try reflexivity; try ring; try (field; auto)
  end.

Section MsmLemmas.
Variable K : Fld.
Hypothesis Kok : FldOk K.
Add Field Kf2 : (Fth K Kok).
Variable M : Mod K.
Hypothesis Mok : ModOk K M.
Local Open Scope F_scope.
Notation "0" := (f0 K). Notation "1" := (f1 K).
Infix "+v" := (vadd M) (at level 50, left associativity).
Infix "*v" := (smul M) (at level 40).

(** smoke test of the tactic *)
Goal forall (a b : K) (X Y : M), a <> 0 -> a *v (X +v b *v Y) +v / a *v (a *v X) = (a + 1) *v X +v (a * b) *v Y.
Proof. intros. module_eq. Qed.

Lemma msm_app : forall a1 a2 (G1 G2 : list M), length a1 = length G1 ->
  msm (a1 ++ a2) (G1 ++ G2) = msm a1 G1 +v msm a2 G2.
Proof.
  induction a1 as [|x a1 IH]; intros a2 [|g G1] G2 H; cbn [app msm length] in *; try discriminate; [now rewrite (vadd0 K M Mok)|].
  rewrite IH by lia. module_eq.
Qed.

Lemma msm_scale_l c : forall a (G : list M), msm (map (fmul K c) a) G = c *v msm a G.
Proof. exact (msm_map_mul K Kok M Mok c). Qed.

Lemma msm_nil_r (a : list K) : msm a (@nil M) = v0 M.
Proof. destruct a; reflexivity. Qed.

Lemma msm_fold_bilinear (p q r s : K) : forall a1 a2 (G1 G2 : list M),
  length a1 = length a2 -> length G1 = length a1 -> length G2 = length a1 ->
  msm (map2 (fun x y => p * x + q * y) a1 a2) (map2 (fun g h => r *v g +v s *v h) G1 G2)
  = (p * r) *v msm a1 G1 +v (p * s) *v msm a1 G2 +v (q * r) *v msm a2 G1 +v (q * s) *v msm a2 G2.
Proof.
  induction a1 as [|x a1 IH]; intros [|y a2] [|g G1] [|h G2] H1 H2 H3; cbn [map2 msm length] in *; try discriminate.
  - module_eq.
  - rewrite IH by lia. module_eq.
Qed.

Lemma msm_add_scalars : forall s t (p : list M), length s = length t -> msm (map2 (fadd K) s t) p = msm s p +v msm t p.
Proof.
  induction s as [|x s IH]; intros [|z t] p Hl; cbn [map2 msm length] in *; try discriminate; [now rewrite (vadd0 K M Mok)|].
  destruct p as [|q p]; cbn [msm]; [now rewrite (vadd0 K M Mok)|]. rewrite IH by lia. module_eq.
Qed.
End MsmLemmas.
