(** The verifier's s-vector: the index recurrence of the code equals the recursive (folding) form
    (src/range_proof.rs:968-983). *)
From Coq Require Import List Arith Lia PeanoNat.
From BP Require Import Base.Field Model.Verifier Proofs.FieldP.
Import ListNotations.

Section S.
Variable K : Fld.
Notation "0" := (f0 K).

(** paper-shaped: s(e::es) = s(es) ++ map (times e^2) s(es)   (first challenge = top bit) *)
Fixpoint s_rec (s0 : K) (esq : list K) : list K :=
  match esq with
  | [] => [s0]
  | e :: es => let t := s_rec s0 es in t ++ map (fun x => fmul K x e) t
  end.

Lemma s_rec_length s0 esq : length (s_rec s0 esq) = 2 ^ length esq.
Proof. induction esq as [|e es IH]; cbn [s_rec length Nat.pow]; [reflexivity|]. rewrite app_length, map_length, IH. lia. Qed.

Lemma s_rec_nth s0 e es i : i < 2 ^ S (length es) ->
  nth i (s_rec s0 (e :: es)) 0 =
  if i <? 2 ^ length es then nth i (s_rec s0 es) 0 else fmul K (nth (i - 2 ^ length es) (s_rec s0 es) 0) e.
Proof.
  intros Hi. cbn [s_rec]. destruct (Nat.ltb_spec i (2 ^ length es)) as [H|H].
  - rewrite app_nth1; [reflexivity| now rewrite s_rec_length].
  - rewrite app_nth2 by (rewrite s_rec_length; lia). rewrite s_rec_length.
    set (t := s_rec s0 es).
    assert (Hl : i - 2 ^ length es < length t) by (unfold t; rewrite s_rec_length; cbn [Nat.pow] in Hi; lia).
    rewrite (nth_indep _ 0 (fmul K 0 e)) by (rewrite map_length; exact Hl).
    change (fmul K 0 e) with ((fun x => fmul K x e) 0). apply map_nth.
Qed.

Lemma s_rec_recurrence : forall esq s0 i, 1 <= i < 2 ^ length esq ->
  nth i (s_rec s0 esq) 0 =
  fmul K (nth (i - 2 ^ Nat.log2 i) (s_rec s0 esq) 0) (nth (length esq - Nat.log2 i - 1) esq 0).
Proof.
  induction esq as [|e es IH]; intros s0 i Hi; cbn [length] in *.
  - cbn in Hi. lia.
  - assert (Hlt : i < 2 ^ S (length es)) by lia.
    rewrite s_rec_nth by exact Hlt.
    assert (Hlog : Nat.log2 i < S (length es)) by (apply Nat.log2_lt_pow2; lia).
    destruct (Nat.ltb_spec i (2 ^ length es)) as [H|H].
    + assert (Hl2 : Nat.log2 i < length es) by (apply Nat.log2_lt_pow2; lia).
      rewrite IH by lia.
      assert (Hsub : i - 2 ^ Nat.log2 i < 2 ^ S (length es)) by lia.
      rewrite (s_rec_nth s0 e es (i - 2 ^ Nat.log2 i)) by exact Hsub.
      destruct (Nat.ltb_spec (i - 2 ^ Nat.log2 i) (2 ^ length es)); [|lia].
      replace (S (length es) - Nat.log2 i - 1) with (S (length es - Nat.log2 i - 1)) by lia.
      reflexivity.
    + assert (Hl2 : Nat.log2 i = length es).
      { apply Nat.log2_unique; [lia|]. split; [exact H| cbn [Nat.pow] in Hlt; cbn [Nat.pow]; lia]. }
      rewrite Hl2.
      assert (Hsub : i - 2 ^ length es < 2 ^ S (length es)) by lia.
      rewrite (s_rec_nth s0 e es (i - 2 ^ length es)) by exact Hsub.
      destruct (Nat.ltb_spec (i - 2 ^ length es) (2 ^ length es)); [|cbn [Nat.pow] in Hlt; lia].
      replace (S (length es) - length es - 1) with O by lia. reflexivity.
Qed.

Lemma s_loop_aux_prefix : forall fuel i esq s0 acc,
  1 <= i -> i + fuel = 2 ^ length esq ->
  acc = firstn i (s_rec s0 esq) ->
  s_loop_aux K fuel i (length esq) esq acc = s_rec s0 esq.
Proof.
  induction fuel as [|fuel IH]; intros i esq s0 acc Hi Hsum Hacc; cbn [s_loop_aux].
  - subst acc. rewrite firstn_all2; [reflexivity| rewrite s_rec_length; lia].
  - apply IH; [lia|lia|].
    assert (Hlen : i < length (s_rec s0 esq)) by (rewrite s_rec_length; lia).
    assert (Hpos : 2 ^ Nat.log2 i <= i) by (apply Nat.log2_spec; lia).
    assert (Hp0 : 0 < 2 ^ Nat.log2 i) by (apply Nat.neq_0_lt_0, Nat.pow_nonzero; lia).
    subst acc.
    rewrite (nth_firstn_lt (s_rec s0 esq) i (i - 2 ^ Nat.log2 i)) by lia.
    rewrite <- s_rec_recurrence by (rewrite <- Hsum; lia).
    apply firstn_snoc; exact Hlen.
Qed.

Lemma s_rec_head s0 esq : firstn 1 (s_rec s0 esq) = [s0].
Proof.
  induction esq as [|e es IH]; cbn [s_rec]; [reflexivity|].
  destruct (s_rec s0 es) as [|x l]; cbn in *; [discriminate|exact IH].
Qed.

(** When the number of rounds matches the vector length (the guard 2^rounds = bits*m), the loop of the
    code builds exactly the recursive s-vector. *)
Theorem s_loop_eq_s_rec full_length s0 esq : full_length = 2 ^ length esq ->
  s_loop K full_length s0 esq = s_rec s0 esq.
Proof.
  intros ->. unfold s_loop.
  assert (0 < 2 ^ length esq) by (apply Nat.neq_0_lt_0, Nat.pow_nonzero; lia).
  apply s_loop_aux_prefix; [lia|lia|]. symmetry; apply s_rec_head.
Qed.
End S.
