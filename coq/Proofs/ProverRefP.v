(** C01, prover refinement: the code-shaped folding loop of Model/Prover.v (table of powers of y,
    split_at, in-place folding, zip truncations) emits exactly the messages of the textbook prover of
    Model/Spec.v and ends in the textbook final state. *)
From Coq Require Import List Arith NArith Lia Field Ring PeanoNat.
From BP Require Import Base.Field Model.Verifier Model.Prover Model.Spec Model.RangeSpec
     Proofs.FieldP Proofs.ModuleP Proofs.WipP Proofs.ClosedP Proofs.FoldP Proofs.VerifierEquivP.
Import ListNotations.

Section PR.
Variable K : Fld.
Hypothesis Kok : FldOk K.
Add Field Kf : (Fth K Kok).
Variable M : Mod K.
Hypothesis Mok : ModOk K M.
Local Open Scope F_scope.
Notation "0" := (f0 K). Notation "1" := (f1 K).
Infix "+v" := (vadd M) (at level 50, left associativity).
Infix "*v" := (smul M) (at level 40).
Notation fpow := (fpow K).

Variable g : gens K M.
Notation H := (g_H g). Notation Gb := (g_Gb g).
Variable y : K.
Hypothesis Hy : y <> 0.

(** ** the table of powers *)
Lemma wip3_powers : forall a b c n, length a <= n -> wip3 K a (powers_from K c y n) b = wipk K c y a b.
Proof.
  induction a as [|x a IH]; intros [|t b] c [|n] Hl; cbn [length] in Hl; try lia; cbn [wip3 powers_from wipk]; try reflexivity.
  all: try (rewrite IH by lia; reflexivity).
  all: destruct (powers_from K c y n); reflexivity.
Qed.

Lemma skipn_powers_from : forall k c n, k <= n -> skipn k (powers_from K c y n) = powers_from K (c * fpow y k) y (n - k).
Proof.
  induction k as [|k IH]; intros c n Hk; cbn [skipn Field.fpow].
  - rewrite Nat.sub_0_r. f_equal. ring.
  - destruct n as [|n]; [lia|]. cbn [powers_from Nat.sub]. rewrite IH by lia. f_equal. ring.
Qed.

(** ** one round *)
Definition rounds_of := fix go (es : list K) (dLs dRs : list (list K)) : list (round_in K) :=
  match es, dLs, dRs with
  | e :: es', dL :: dLs', dR :: dRs' => mkRound K e dL dR :: go es' dLs' dRs'
  | _, _, _ => []
  end.

Lemma halves_eq {A} (l : list A) n : length l = (2 * n)%nat -> halves l = (firstn n l, skipn n l).
Proof. intros Hl. unfold halves. rewrite Hl. replace (2 * n / 2)%nat with n by (rewrite Nat.mul_comm, Nat.div_mul; lia). reflexivity. Qed.

Lemma msm4 (c : K) (dL a b : list K) (G2 H2 : list M) : length dL = length Gb -> length a = length G2 ->
  msm ([c] ++ dL ++ a ++ b) ([H] ++ Gb ++ G2 ++ H2) = c *v H +v msm dL Gb +v msm a G2 +v msm b H2.
Proof.
  intros L1 L2. rewrite (msm_app K Kok M Mok) by reflexivity. rewrite (msm_app K Kok M Mok) by exact L1.
  rewrite (msm_app K Kok M Mok) by exact L2. cbn [msm]. module_eq.
Qed.

Lemma alpha_go_spec e : forall (al dl dr : list K), length dl = length al -> length dr = length al ->
  (fix go (al dl dr : list K) : list K :=
     match al, dl, dr with
     | a :: al', l :: dl', r :: dr' => (a + (l * (e * e) + r * (/ e * / e))) :: go al' dl' dr'
     | _, _, _ => al
     end) al dl dr = fold_alpha K e al dl dr.
Proof.
  unfold fold_alpha.
  induction al as [|a al IH]; intros [|l dl] [|r dr] L1 L2; cbn [length] in *; try discriminate; cbn [map map2]; [reflexivity|].
  rewrite IH by lia. f_equal. ring.
Qed.

Lemma round_spec (N h : nat) (st : pstate K M) (dL dR : list K) (e : K) :
  length (ps_a K M st) = (2 * h)%nat -> length (ps_b K M st) = (2 * h)%nat ->
  length (ps_G K M st) = (2 * h)%nat -> length (ps_Hv K M st) = (2 * h)%nat ->
  2 * h <= N -> length dL = length Gb -> length dR = length Gb -> length (ps_alpha K M st) = length Gb ->
  round K M g (powers K y (N + 2)) st dL dR e =
  (mk_L K M H Gb y (ps_a K M st) (ps_b K M st) dL (ps_G K M st) (ps_Hv K M st),
   mk_R K M H Gb y (ps_a K M st) (ps_b K M st) dR (ps_G K M st) (ps_Hv K M st),
   mkPstate K M (fold_a K y e (ps_a K M st)) (fold_b K e (ps_b K M st)) (fold_G K M y e (ps_G K M st))
            (fold_H K M e (ps_Hv K M st)) (fold_alpha K e (ps_alpha K M st) dL dR)).
Proof.
  destruct st as [a b G Hs alpha]. cbn [ps_a ps_b ps_G ps_Hv ps_alpha]. intros La Lb LG LH HN LdL LdR Lal.
  unfold round, split_at. cbn [ps_a ps_b ps_G ps_Hv ps_alpha].
  replace (length a / 2)%nat with h by (rewrite La, Nat.mul_comm, Nat.div_mul; lia).
  unfold mk_L, mk_R, fold_a, fold_b, fold_G, fold_H.
  rewrite (halves_eq a h La), (halves_eq b h Lb), (halves_eq G h LG), (halves_eq Hs h LH).
  assert (Lfa : length (firstn h a) = h) by (rewrite firstn_length; lia).
  assert (Lsa : length (skipn h a) = h) by (rewrite skipn_length; lia).
  assert (LfG : length (firstn h G) = h) by (rewrite firstn_length; lia).
  assert (LsG : length (skipn h G) = h) by (rewrite skipn_length; lia).
  rewrite Lfa.
  rewrite (powers_nth K Kok) by lia.
  set (yh := fpow y h).
  unfold powers. rewrite !skipn_powers_from by lia.
  rewrite !wip3_powers by lia.
  replace (1 * fpow y 1) with y by (cbn; ring).
  replace (1 * fpow y (h + 1)) with (y * yh) by (unfold yh; rewrite (fpow_add K Kok); cbn; ring).
  rewrite !msm4 by (rewrite ?map_length; congruence).
  rewrite alpha_go_spec by congruence.
  f_equal; [f_equal|].
  - f_equal. f_equal. f_equal. apply map_ext. intros x. ring.
  - f_equal. f_equal. f_equal. apply map_ext. intros x. ring.
  - f_equal.
    + unfold fmap2. rewrite (map2_map_both (fun lo hi => lo * e + hi * / e) (fun x : K => x) (fun s => s * yh)) with (a := firstn h a) (b := skipn h a) || idtac.
      transitivity (map2 (fun lo hi => lo * e + hi * yh * / e) (firstn h a) (skipn h a)).
      { generalize (firstn h a) (skipn h a). intros u v. revert v. induction u as [|x u IH]; intros [|t v]; cbn [map map2]; try reflexivity. now rewrite IH. }
      apply map2_ext. intros x t. ring.
    + unfold fmap2. apply map2_ext. intros x t. ring.
    + rewrite LfG. reflexivity.
Qed.

(** ** all rounds *)
Lemma pow2_ge1 k : 1 <= 2 ^ k. Proof. apply Nat.neq_0_lt_0, Nat.pow_nonzero. lia. Qed.

Theorem rounds_loop_spec (N : nat) : forall es dLs dRs (st : pstate K M),
  length dLs = length es -> length dRs = length es ->
  Forall (fun d => length d = length Gb) dLs -> Forall (fun d => length d = length Gb) dRs ->
  length (ps_a K M st) = 2 ^ length es -> length (ps_b K M st) = 2 ^ length es ->
  length (ps_G K M st) = 2 ^ length es -> length (ps_Hv K M st) = 2 ^ length es ->
  2 ^ length es <= N -> length (ps_alpha K M st) = length Gb -> Forall (fun c => c <> 0) es ->
  let rs := rounds_of es dLs dRs in
  let msgs := prover_msgs K M H Gb y rs (ps_a K M st) (ps_b K M st) (ps_alpha K M st) (ps_G K M st) (ps_Hv K M st) in
  let '(af, bf, alf) := final_state K y rs (ps_a K M st) (ps_b K M st) (ps_alpha K M st) in
  rounds_loop K M g (powers K y (N + 2)) st dLs dRs es =
  (map fst msgs, map snd msgs, mkPstate K M af bf (fold_Gs K M y es (ps_G K M st)) (fold_Hs K M es (ps_Hv K M st)) alf)
  /\ map (@r_e K) rs = es /\ length rs = length es /\ Forall (wf_round K (length Gb)) rs.
Proof.
  induction es as [|e es IH]; intros [|dL dLs] [|dR dRs] st L1 L2 F1 F2 La Lb LG LH HN Lal Hnz; cbn [length] in *; try discriminate.
  - cbn [rounds_of prover_msgs final_state rounds_loop map fold_Gs fold_Hs]. destruct st; cbn. repeat split; constructor.
  - cbn [rounds_of prover_msgs final_state map fold_Gs fold_Hs r_e r_dL r_dR].
    inversion F1 as [|? ? FdL F1']; inversion F2 as [|? ? FdR F2']; inversion Hnz as [|? ? He Hnz']; subst.
    cbn [Nat.pow] in La, Lb, LG, LH, HN.
    pose proof (pow2_ge1 (length es)) as Hp.
    cbn [rounds_loop].
    destruct (Nat.leb_spec (length (ps_a K M st)) 1) as [Hle|_]; [lia|].
    rewrite (round_spec N (2 ^ length es) st dL dR e) by (try assumption; lia).
    set (st' := mkPstate K M (fold_a K y e (ps_a K M st)) (fold_b K e (ps_b K M st)) (fold_G K M y e (ps_G K M st))
                          (fold_H K M e (ps_Hv K M st)) (fold_alpha K e (ps_alpha K M st) dL dR)).
    assert (Lh : forall (A B C : Type) (f : A -> B -> C) (u : list A) (v : list B), length u = (2 * 2 ^ length es)%nat -> length v = (2 * 2 ^ length es)%nat ->
                 length (map2 f (fst (halves u)) (snd (halves v))) = 2 ^ length es).
    { intros A B C f u v Hu Hv. rewrite (halves_eq u _ Hu), (halves_eq v _ Hv). cbn [fst snd].
      apply map2_len; [rewrite firstn_length|rewrite skipn_length]; lia. }
    specialize (IH dLs dRs st' ltac:(lia) ltac:(lia) F1' F2').
    assert (La' : length (ps_a K M st') = 2 ^ length es).
    { unfold st'. cbn [ps_a]. unfold fold_a. specialize (Lh _ _ _ (fun x z => e * x + / e * fpow y (length (fst (halves (ps_a K M st)))) * z) _ _ La La).
      destruct (halves (ps_a K M st)) as [lo hi]. exact Lh. }
    assert (Lb' : length (ps_b K M st') = 2 ^ length es).
    { unfold st'. cbn [ps_b]. unfold fold_b. specialize (Lh _ _ _ (fun x z => / e * x + e * z) _ _ Lb Lb).
      destruct (halves (ps_b K M st)) as [lo hi]. exact Lh. }
    assert (LG' : length (ps_G K M st') = 2 ^ length es).
    { unfold st'. cbn [ps_G]. unfold fold_G. specialize (Lh _ _ _ (fun g0 k => / e *v g0 +v (e * / fpow y (length (fst (halves (ps_G K M st))))) *v k) _ _ LG LG).
      destruct (halves (ps_G K M st)) as [lo hi]. exact Lh. }
    assert (LH' : length (ps_Hv K M st') = 2 ^ length es).
    { unfold st'. cbn [ps_Hv]. unfold fold_H. specialize (Lh _ _ _ (fun g0 k => e *v g0 +v / e *v k) _ _ LH LH).
      destruct (halves (ps_Hv K M st)) as [lo hi]. exact Lh. }
    assert (Lal' : length (ps_alpha K M st') = length Gb).
    { unfold st'. cbn [ps_alpha]. unfold fold_alpha. apply map2_len; [exact Lal|]. apply map2_len; rewrite map_length; assumption. }
    specialize (IH La' Lb' LG' LH' ltac:(lia) Lal' Hnz').
    cbn zeta in IH. unfold st' in IH. cbn [ps_a ps_b ps_G ps_Hv ps_alpha] in IH.
    destruct (final_state K y (rounds_of es dLs dRs) _ _ _) as [[af bf] alf] eqn:Efs.
    destruct IH as (E1 & E2 & E3 & E4).
    unfold st'. rewrite E1. repeat split.
    + f_equal. exact E2.
    + cbn [length]. f_equal. exact E3.
    + constructor; [|exact E4]. unfold wf_round. cbn [r_e r_dL r_dR]. repeat split; assumption.
Qed.
End PR.
