(** C09 in whole batches: wherever a seeded, non-aggregated member made by the code-shaped prover sits in a batch
    that [verify_batch] answers with Ok — any position, any chunk, whatever the other members are — the result at
    that position is Some of its commitment's blinding vector, in both recovering modes. *)
From Coq Require Import List Arith NArith Lia Field Ring PeanoNat Bool.
From BP Require Import Base.Field Model.Ctor Model.Codec Model.Transcript Model.Verifier Model.VerifyTop Model.Prover Model.Nonce
     Proofs.FieldP Proofs.ModuleP Proofs.VerifyTopP Proofs.BatchTopP Proofs.BatchAlignP Proofs.SeedP Proofs.HonestTopP.
Import ListNotations.
Local Close Scope N_scope.

Section MB.
Variable K : Fld.
Hypothesis Kok : FldOk K.
Variable M : Mod K.
Hypothesis Mok : ModOk K M.
Variable ofN : N -> K.
Variable toN : K -> N.
Hypothesis ofN_toN : forall x, ofN (toN x) = x.
Variable enc : M -> N.

Lemma map_ofN_toN (l : list K) : map ofN (map toN l) = l.
Proof. rewrite map_map. rewrite <- (map_id l) at 2. apply map_ext. exact ofN_toN. Qed.

Theorem in_batch_recovery (seed_nonce : nlabel -> option nat -> nat -> K) (rng : nat -> list K) (g : gens K M)
        bits cap (v : N) (p : option N) (r : list K) (ch : pchals K) mode ns np nt ms orc masks i :
  let T := length (g_Gb g) in
  let rounds := length (pc_es ch) in
  let nn := assign K seed_nonce rng true T rounds in
  verify_batch K ofN mode ns np nt ms orc = Ok masks ->
  nth_error ms i = Some (honest_member K M toN enc g bits cap [v] [p] [r] nn ch true seed_nonce) ->
  mode <> VerifyOnly ->
  1 <= bits -> 1 <= cap -> length (g_G g) = (bits * cap)%nat -> length (g_Hv g) = (bits * cap)%nat ->
  (1 * bits)%nat = 2 ^ rounds ->
  pc_y ch <> f0 K -> pc_z ch <> f0 K -> pc_e ch <> f0 K -> Forall (fun e => e <> f0 K) (pc_es ch) ->
  length r = T ->
  nth_error masks i = Some (Some r).
Proof.
  intros T rounds nn E Hi Hmode Hb Hcap LG LH HN Hy Hz He Hes Lr.
  apply (batch_results_aligned K ofN) in E. subst masks.
  rewrite nth_error_map, Hi. cbn [option_map]. f_equal.
  set (mb := honest_member K M toN enc g bits cap [v] [p] [r] nn ch true seed_nonce).
  assert (Em : mask_of K ofN mode mb =
               Some (recover_mask K seed_nonce bits 1 T
                       (mkVproof K (pp_d1 (prove_core K M bits cap g [v] [p] [r] nn ch)) (pp_r1 (prove_core K M bits cap g [v] [p] [r] nn ch))
                                 (pp_s1 (prove_core K M bits cap g [v] [p] [r] nn ch)))
                       (mkChals K (pc_y ch) (pc_z ch) (pc_es ch) (pc_e ch)))).
  { unfold mask_of, mb, honest_member. cbn [mb_seeded mb_nonce mb_bits mb_m mb_Venc mb_T mb_proof mb_ch].
    unfold vproof_of. cbn [p_d1 p_r1 p_s1 combine map length]. rewrite map_ofN_toN, !ofN_toN.
    destruct mode; [contradiction|reflexivity|reflexivity]. }
  rewrite Em. f_equal.
  exact (seeded_recovery_exact K Kok M Mok seed_nonce rng g bits cap v p r ch Hb Hcap LG LH HN Hy Hz He Hes Lr).
Qed.
End MB.
