(** C01 + C03: the textbook residual of an honest proof is zero (completeness read through the verifier
    equivalence), so by the batch equation any batch of honest members — mixed aggregation factors, any
    non-zero or zero weights — ends with a product equal to the identity. *)
From Coq Require Import List Arith NArith Lia Field Ring PeanoNat.
From BP Require Import Base.Field Model.Verifier Model.Prover Model.Spec Model.RangeSpec
     Proofs.FieldP Proofs.ModuleP Proofs.WipP Proofs.ClosedP Proofs.FoldP Proofs.VerifierEquivP Proofs.BitsP
     Proofs.RangeRedP Proofs.ProverRefP Proofs.GuardsP Proofs.CompleteP.
Import ListNotations.

Section CB.
Variable K : Fld.
Hypothesis Kok : FldOk K.
Add Field Kf : (Fth K Kok).
Variable M : Mod K.
Hypothesis Mok : ModOk K M.
Local Open Scope F_scope.
Notation "0" := (f0 K). Notation "1" := (f1 K).
Infix "+v" := (vadd M) (at level 50, left associativity).
Infix "*v" := (smul M) (at level 40).

Variable g : gens K M.

Lemma prover_msgs_length (H : M) (Gb : list M) y : forall rs a b al G Hs, length (prover_msgs K M H Gb y rs a b al G Hs) = length rs.
Proof. induction rs as [|r rs IH]; intros; cbn [prover_msgs length]; [reflexivity|]. now rewrite IH. Qed.
Lemma rounds_of_length : forall es dLs dRs, length dLs = length es -> length dRs = length es -> length (rounds_of K es dLs dRs) = length es.
Proof. induction es as [|e es IH]; intros [|dL dLs] [|dR dRs] L1 L2; cbn [length] in *; try discriminate; cbn [rounds_of length]; [reflexivity|]. rewrite IH by lia. reflexivity. Qed.

(** the prover emits exactly one (L, R) pair per round challenge *)
Lemma prove_core_rounds bits cap (values : list N) (promises : list (option N)) (blindings : list (list K)) (nn : nonces K) (ch : pchals K) a :
  let m := length values in
  1 <= bits -> m = 2 ^ a -> m <= cap ->
  length (g_G g) = (bits * cap)%nat -> length (g_Hv g) = (bits * cap)%nat ->
  (m * bits)%nat = 2 ^ length (pc_es ch) -> pc_y ch <> 0 -> Forall (fun e => e <> 0) (pc_es ch) ->
  length promises = m -> length blindings = m -> Forall (fun r => length r = length (g_Gb g)) blindings ->
  wf_nonces K (length (g_Gb g)) (length (pc_es ch)) nn ->
  let p := prove_core K M bits cap g values promises blindings nn ch in
  length (pp_L p) = length (pc_es ch) /\ length (pp_R p) = length (pc_es ch).
Proof.
  intros m Hb Hm Hcap LG LH HN Hy Hes Lp Lb Fb Wn p. subst p.
  rewrite (prove_core_textbook K Kok M Mok g bits cap values promises blindings nn ch a Hb Hm Hcap LG LH HN Hy Hes Lp Lb Fb Wn).
  destruct Wn as (_ & _ & _ & LdL & LdR & _ & _).
  unfold textbook_proof. destruct (final_state K _ _ _ _ _) as [[af bf] alf]. cbn [pp_L pp_R].
  rewrite !map_length, prover_msgs_length, rounds_of_length by assumption. auto.
Qed.

Theorem honest_residual_zero bits cap (values : list N) (promises : list (option N)) (blindings : list (list K))
        (nn : nonces K) (ch : pchals K) a :
  let m := length values in
  let N := (m * bits)%nat in
  let T := length (g_Gb g) in
  1 <= bits -> m = 2 ^ a -> m <= cap ->
  length (g_G g) = (bits * cap)%nat -> length (g_Hv g) = (bits * cap)%nat ->
  N = 2 ^ length (pc_es ch) ->
  pc_y ch <> 0 -> pc_y ch - 1 <> 0 -> pc_e ch <> 0 -> Forall (fun e => e <> 0) (pc_es ch) ->
  length promises = m -> length blindings = m -> Forall (fun r => length r = T) blindings ->
  wf_nonces K T (length (pc_es ch)) nn ->
  Forall (fun vp => match snd vp with Some mv => (mv <= fst vp)%N | None => True end) (combine values promises) ->
  Forall (fun vp => (offset_value (fst vp) (snd vp) < 2 ^ N.of_nat bits)%N) (combine values promises) ->
  let p := prove_core K M bits cap g values promises blindings nn ch in
  let commitments := map (fun vr => commit K M g (fofN K (fst vr)) (snd vr)) (combine values blindings) in
  spec_residual K M bits (g_H g) (g_Gb g) (firstn N (g_G g)) (firstn N (g_Hv g)) commitments promises
    (mkRproof K M (pp_A p) (combine (pp_L p) (pp_R p)) (pp_A1 p) (pp_B p) (pp_r1 p) (pp_s1 p) (pp_d1 p))
    (pc_y ch) (pc_z ch) (pc_es ch) (pc_e ch) = v0 M.
Proof.
  intros m N T Hb Hm Hcap LG LH HN Hy Hy1 He Hes Lp Lb Fb Wn Hle Hlt p commitments.
  destruct (prove_core_rounds bits cap values promises blindings nn ch a Hb Hm Hcap LG LH HN Hy Hes Lp Lb Fb Wn) as [LL LR]. fold p in LL, LR.
  pose proof (completeness K Kok M Mok g bits cap values promises blindings nn ch 1 a Hb Hm Hcap LG LH HN Hy Hy1 He Hes Lp Lb Fb Wn Hle Hlt) as C.
  cbn zeta in C. fold m in C. fold N in C. fold p in C. fold commitments in C.
  assert (HNcap : N <= bits * cap) by (unfold N; rewrite (Nat.mul_comm m bits); apply Nat.mul_le_mono_l; exact Hcap).
  assert (LGn : length (firstn N (g_G g)) = N) by (rewrite firstn_length; apply Nat.min_l; rewrite LG; exact HNcap).
  assert (LHn : length (firstn N (g_Hv g)) = N) by (rewrite firstn_length; apply Nat.min_l; rewrite LH; exact HNcap).
  assert (Lcm : length commitments = m) by (unfold commitments; rewrite map_length, combine_length; lia).
  assert (EL : map fst (combine (pp_L p) (pp_R p)) = pp_L p /\ map snd (combine (pp_L p) (pp_R p)) = pp_R p).
  { clear - LL LR. revert LL LR. generalize (pp_L p) (pp_R p) (length (pc_es ch)). intros a0. induction a0 as [|x a0 IH]; intros [|z b0] n L1 L2; cbn [length] in *; subst; try discriminate; cbn [combine map fst snd]; auto.
    destruct (IH b0 (length a0) eq_refl ltac:(lia)) as [-> ->]. auto. }
  destruct EL as [EL ER].
  pose proof (verifier_equiv K Kok M Mok bits a promises (g_H g) (g_Gb g) (firstn N (g_G g)) (firstn N (g_Hv g)) commitments
                (pp_A p) (pp_A1 p) (pp_B p) (combine (pp_L p) (pp_R p)) (pp_r1 p) (pp_s1 p) (pp_d1 p) (pc_y ch) (pc_z ch) (pc_e ch) 1 (pc_es ch)) as VE.
  rewrite EL, ER, Lp in VE. fold N in VE.
  specialize (VE Hb Hm HN Hes Hy Hy1 LGn LHn Lcm ltac:(rewrite combine_length; lia)).
  rewrite C in VE. rewrite (smul_1 K M Mok) in VE. symmetry. exact VE.
Qed.
End CB.
