(** C01, range reduction (paper Fig. 3): for a valid witness the textbook point P_0 the verifier builds
    from the statement and the prover's A is the weighted-inner-product commitment to the prover's
    shifted bit vectors, Com(aL - z, aR + d.y^(N-i) + z, alpha_hat). *)
From Coq Require Import List Arith NArith Lia Field Ring PeanoNat.
From BP Require Import Base.Field Model.Verifier Model.Prover Model.Spec Model.RangeSpec
     Proofs.FieldP Proofs.ModuleP Proofs.WipP Proofs.ClosedP Proofs.FoldP Proofs.VerifierEquivP Proofs.BitsP.
Import ListNotations.

Section RR.
Variable K : Fld.
Hypothesis Kok : FldOk K.
Add Field Kf : (Fth K Kok).
Variable M : Mod K.
Hypothesis Mok : ModOk K M.
Local Open Scope F_scope.
Notation "0" := (f0 K). Notation "1" := (f1 K).
Infix "+v" := (vadd M) (at level 50, left associativity).
Infix "*v" := (smul M) (at level 40).
Notation fpow := (fpow K).
Notation fofN := (fofN K).
Notation dot := (dot K).

(** ** the weighted inner product of the shifted bit vectors *)
Lemma wip_expand y z N : forall aL d a, length d = length aL -> a + length aL <= N ->
  Forall (fun c => c * (c - 1) = 0) aL ->
  wipk K (fpow y (S a)) y (map (fun x => x - z) aL)
       (map2 (fadd K) (map (fun x => x - 1) aL) (map2 (fun di i => z + di * fpow y (N - i)) d (seq a (length aL))))
  = fpow y (S N) * dot aL d + (z - z * z) * fsum K (map (fun i => fpow y (S i)) (seq a (length aL))) - z * fpow y (S N) * fsum K d.
Proof.
  induction aL as [|x aL IH]; intros [|di d] a Hl Ha Hb; cbn [length] in *; try discriminate.
  - cbn. ring.
  - inversion Hb as [|? ? Hx Hb']; subst.
    cbn [seq map map2 wipk BitsP.dot]. rewrite !fsum_cons.
    change (fpow y (S a) * y) with (fpow y (S a) * y).
    replace (fpow y (S a) * y) with (fpow y (S (S a))) by (cbn [Field.fpow]; ring).
    rewrite IH by (try assumption; lia).
    assert (PQ : fpow y (S a) * fpow y (N - a) = fpow y (S N)).
    { rewrite <- (fpow_add K Kok). f_equal. lia. }
    set (P := fpow y (S a)) in *. set (Q := fpow y (N - a)) in *.
    replace ((x - z) * P * (x - 1 + (z + di * Q)))
       with (P * (x * (x - 1)) + (P * Q) * (x * di) + (z - z * z) * P - z * (P * Q) * di) by ring.
    rewrite Hx, PQ. ring.
Qed.

(** ** bits of all values against the textbook d *)
Lemma dot_bits_d (bits : nat) (z2 : K) : forall (xs : list N) j0,
  Forall (fun x => (x < 2 ^ N.of_nat bits)%N) xs ->
  dot (flat_map (bits_of K bits) xs)
      (flat_map (fun j => map (fun i => fpow z2 (S j) * fpow (two K) i) (seq 0 bits)) (seq j0 (length xs)))
  = dot (map (fun j => fpow z2 (S j)) (seq j0 (length xs))) (map fofN xs).
Proof.
  induction xs as [|x xs IH]; intros j0 Hx; cbn [length seq flat_map map BitsP.dot]; [reflexivity|].
  inversion Hx as [|? ? Hx0 Hx']; subst.
  rewrite (dot_app K Kok) by (now rewrite (bits_of_length K), map_length, seq_length).
  rewrite IH by assumption. f_equal.
  replace (map (fun i => fpow z2 (S j0) * fpow (two K) i) (seq 0 bits)) with (map (fmul K (fpow z2 (S j0))) (map (fun i => fpow (two K) i) (seq 0 bits))).
  2:{ rewrite map_map. reflexivity. }
  rewrite (dot_scale_r K Kok), (bits_recombine_small K Kok) by exact Hx0. reflexivity.
Qed.

(** ** commitments of a valid witness with their promises removed *)
Variable g : gens K M.
Notation H := (g_H g). Notation Gb := (g_Gb g).

Fixpoint vsum_w (ws : list K) (bl : list (list K)) : M :=
  match ws, bl with w :: ws', r :: bl' => w *v msm r Gb +v vsum_w ws' bl' | _, _ => v0 M end.

Lemma shifted_commitments : forall (ws : list K) values promises blindings,
  length promises = length values -> length blindings = length values -> length ws = length values ->
  Forall (fun vp => match snd vp with Some mv => (mv <= fst vp)%N | None => True end) (combine values promises) ->
  msm ws (map2 (shifted K M H) (map (fun vr => commit K M g (fofN (fst vr)) (snd vr)) (combine values blindings)) promises)
  = dot ws (map (fun vp => fofN (offset_value (fst vp) (snd vp))) (combine values promises)) *v H +v vsum_w ws blindings.
Proof.
  induction ws as [|w ws IH]; intros [|v values] [|p promises] [|r blindings] L1 L2 L3 Hp; cbn [length] in *; try discriminate;
    cbn [combine map map2 msm BitsP.dot vsum_w fst snd].
  - module_eq.
  - inversion Hp as [|? ? Hp0 Hp']; subst. cbn [fst snd] in Hp0.
    rewrite IH by (try assumption; lia). unfold commit.
    destruct p as [mv|]; cbn [shifted offset_value].
    + rewrite (fofN_sub K Kok) by exact Hp0. module_eq.
    + module_eq.
Qed.

Lemma alpha_hat_msm : forall (ws : list K) blindings alpha,
  Forall (fun r => length r = length alpha) blindings ->
  msm (alpha_hat K ws blindings alpha) Gb = msm alpha Gb +v vsum_w ws blindings /\
  length (alpha_hat K ws blindings alpha) = length alpha.
Proof.
  induction ws as [|w ws IH]; intros [|r blindings] alpha Hl; cbn [alpha_hat vsum_w]; try (split; [module_eq|reflexivity]).
  inversion Hl as [|? ? Hr Hl']; subst.
  assert (Lm : length (map2 (fun a x => a + w * x) alpha r) = length alpha) by (apply map2_len; congruence).
  destruct (IH blindings (map2 (fun a x => a + w * x) alpha r)) as [E1 E2].
  { rewrite Lm. exact Hl'. }
  split; [|congruence].
  rewrite E1.
  assert (E : msm (map2 (fun a x => a + w * x) alpha r) Gb = msm alpha Gb +v w *v msm r Gb).
  { clear - Kok Mok Hr. revert r Hr. generalize Gb as P. induction alpha as [|a alpha IHa]; intros P [|x r] Hr; cbn [length] in Hr; try discriminate; cbn [map2 msm].
    - module_eq.
    - destruct P as [|q P]; cbn [msm]; [module_eq|]. rewrite IHa by lia. module_eq. }
  rewrite E. module_eq.
Qed.

Lemma msm_sub_const (z : K) : forall a (G : list M), length a = length G ->
  msm (map (fun x => x - z) a) G = msm a G +v (- z) *v vsum G.
Proof.
  induction a as [|x a IH]; intros [|q G] Hl; cbn [length] in Hl; try discriminate; cbn [map msm].
  - cbn. module_eq.
  - rewrite IH by lia. rewrite vsum_cons. module_eq.
Qed.

(** ** the reduction *)
Theorem range_reduction bits (values : list N) (promises : list (option N)) (blindings : list (list K))
        (alpha : list K) (G Hs : list M) (y z : K) :
  let m := length values in
  let aL := a_L K bits values promises in
  let aR := map (fun x => x - 1) aL in
  length promises = m -> length blindings = m ->
  length G = (m * bits)%nat -> length Hs = (m * bits)%nat ->
  Forall (fun r => length r = length alpha) blindings ->
  Forall (fun vp => match snd vp with Some mv => (mv <= fst vp)%N | None => True end) (combine values promises) ->
  Forall (fun vp => (offset_value (fst vp) (snd vp) < 2 ^ N.of_nat bits)%N) (combine values promises) ->
  P0 K M bits H G Hs (map (fun vr => commit K M g (fofN (fst vr)) (snd vr)) (combine values blindings)) promises
     (msm aL G +v msm aR Hs +v msm alpha Gb) y z
  = Com K M H Gb y (aL_hat K z aL) (aR_hat K bits m y z aR) (alpha_hat K (v_weights K bits m y z) blindings alpha) G Hs.
Proof.
  intros m aL aR Lp Lb LG LH Hbl Hle Hlt.
  set (xs := map (fun vp => offset_value (fst vp) (snd vp)) (combine values promises)).
  assert (Lxs : length xs = m) by (unfold xs; rewrite map_length, combine_length; lia).
  assert (EaL : aL = flat_map (bits_of K bits) xs).
  { unfold aL, a_L, xs. rewrite !flat_map_concat_map, map_map. reflexivity. }
  assert (LaL : length aL = (m * bits)%nat).
  { rewrite EaL. clear - Lxs. subst m. rewrite <- Lxs. clear. induction xs as [|x xs IH]; cbn [flat_map length]; [reflexivity|].
    rewrite app_length, (bits_of_length K), IH. reflexivity. }
  assert (Hbits : Forall (fun c => c * (c - 1) = 0) aL).
  { rewrite EaL. clear - Kok. induction xs as [|x xs IH]; cbn [flat_map]; [constructor|]. apply Forall_app. split; [apply (bits_of_bool K Kok)|exact IH]. }
  assert (Hxs : Forall (fun x => (x < 2 ^ N.of_nat bits)%N) xs).
  { unfold xs. apply Forall_forall. intros x Hx. apply in_map_iff in Hx. destruct Hx as (vp & <- & Hin).
    rewrite Forall_forall in Hlt. apply Hlt. exact Hin. }
  unfold P0, Com. rewrite Lp. fold m.
  (* commitments *)
  rewrite (shifted_commitments (v_weights K bits m y z) values promises blindings) by (unfold v_weights; rewrite ?map_length, ?seq_length; try assumption; unfold m in *; congruence).
  destruct (alpha_hat_msm (v_weights K bits m y z) blindings alpha Hbl) as [Eal _]. rewrite Eal.
  (* vectors *)
  unfold aL_hat. rewrite msm_sub_const by congruence.
  unfold aR_hat.
  assert (Lhs : length (h_shift K bits m y z) = (m * bits)%nat).
  { unfold h_shift. apply map2_len; [apply d_naive_length|apply seq_length]. }
  rewrite (msm_add_scalars K Kok M Mok) by (unfold aR; rewrite map_length; congruence).
  (* the weighted inner product *)
  assert (EW : wipk K y y (map (fun x => x - z) aL) (map2 (fadd K) aR (h_shift K bits m y z))
               = dot (v_weights K bits m y z) (map fofN xs) + zeta K bits m y z).
  { replace (wipk K y y) with (wipk K (fpow y 1) y) by (f_equal; cbn; ring).
    unfold h_shift, aR. rewrite <- LaL.
    rewrite (wip_expand y z (length aL) aL (d_naive K bits m z) 0) by (rewrite ?d_naive_length; try assumption; lia).
    unfold zeta, ysum_naive. rewrite <- LaL.
    assert (ED : fpow y (S (length aL)) * dot aL (d_naive K bits m z) = dot (v_weights K bits m y z) (map fofN xs)).
    { unfold d_naive. rewrite EaL at 2. rewrite <- Lxs. rewrite dot_bits_d by exact Hxs.
      unfold v_weights. rewrite LaL. rewrite Lxs.
      replace (map (fun j => fpow y (S (m * bits)) * fpow (z * z) (S j)) (seq 0 m))
         with (map (fmul K (fpow y (S (m * bits)))) (map (fun j => fpow (z * z) (S j)) (seq 0 m))) by (now rewrite map_map).
      generalize (map (fun j => fpow (z * z) (S j)) (seq 0 m)) (map fofN xs). clear - Kok. intros a b.
      revert b; induction a as [|x a IH]; intros [|t b]; cbn [map BitsP.dot]; try ring. rewrite <- IH. ring. }
    rewrite ED. ring. }
  rewrite EW. unfold xs. rewrite map_map. module_eq.
Qed.
End RR.
