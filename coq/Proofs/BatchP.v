(** C03 / C08 / C12: the single multiscalar product a batch ends with — scalars accumulated over the
    members into vectors of the largest member's length, interleaved, zero-padded to the owner's table,
    dynamic points appended in code order — equals the SUM over the members of the product each member
    would contribute alone ([terms_msm]); with C02 this is sum_p w_p * residual_p. *)
From Coq Require Import List Arith NArith Lia Field Ring PeanoNat.
From BP Require Import Base.Field Model.Ctor Model.Codec Model.Transcript Model.Verifier Model.VerifyTop Model.Prover Model.Spec Model.RangeSpec
     Proofs.FieldP Proofs.ModuleP Proofs.WipP Proofs.ClosedP Proofs.FoldP Proofs.VerifierEquivP Proofs.GuardsP Proofs.WeightP.
Import ListNotations.
Local Close Scope N_scope.

Section Batch.
Variable K : Fld.
Hypothesis Kok : FldOk K.
Add Field Kf : (Fth K Kok).
Variable M : Mod K.
Hypothesis Mok : ModOk K M.
Local Open Scope F_scope.
Notation "0" := (f0 K). Notation "1" := (f1 K).
Infix "+v" := (vadd M) (at level 50, left associativity).
Infix "*v" := (smul M) (at level 40).

Variables (H : M) (Gb G Hv : list M).        (* shared: value generator, blinding generators, the owner's vector generators *)

(** the points one member brings *)
Record mpoints := mkMpoints { mp_V : list M; mp_A1 : M; mp_B : M; mp_A : M; mp_L : list M; mp_R : list M }.
Definition dyn_of (p : mpoints) : list M := mp_V p ++ [mp_A1 p; mp_B p; mp_A p] ++ mp_L p ++ mp_R p.
Definition member_msm (t : terms K) (p : mpoints) : M :=
  terms_msm K M t G Hv (mp_V p) H Gb (mp_A1 p) (mp_B p) (mp_A p) (mp_L p) (mp_R p).

(** shape agreement between a member's scalars and its points *)
Definition shape_ok (max_mn : nat) (t : terms K) (p : mpoints) : Prop :=
  length (t_gi t) = length (t_hi t) /\ length (t_gi t) <= max_mn /\
  length (t_V t) = length (mp_V p) /\ length (t_L t) = length (mp_L p) /\ length (t_R t) = length (mp_R p) /\
  length (t_Gb t) = length Gb.

Lemma acc_add_msm : forall (acc xs : list K) (P : list M), length xs <= length acc ->
  msm (acc_add K acc xs) P = msm acc P +v msm xs P.
Proof.
  induction acc as [|a acc IH]; intros [|x xs] P Hl; cbn [length] in Hl; try lia; cbn [acc_add msm].
  - module_eq.
  - destruct P; cbn [msm]; module_eq.
  - destruct P as [|q P]; cbn [msm]; [module_eq|]. rewrite IH by lia. module_eq.
Qed.
Lemma acc_add_length : forall (acc xs : list K), length xs <= length acc -> length (acc_add K acc xs) = length acc.
Proof.
  induction acc as [|a acc IH]; intros [|x xs] Hl; cbn [length] in Hl; try lia; cbn [acc_add length]; try reflexivity.
  now rewrite IH by lia.
Qed.

(** what an accumulator is worth against given dynamic points *)
Definition acc_value (a : batch_acc K) (dyn : list M) : M :=
  msm (a_gi a) G +v msm (a_hi a) Hv +v msm (a_dyn a) dyn +v msm (a_Gb a) Gb +v a_H a *v H.

Definition acc_wf (max_mn : nat) (a : batch_acc K) (dyn : list M) : Prop :=
  length (a_gi a) = max_mn /\ length (a_hi a) = max_mn /\ length (a_Gb a) = length Gb /\ length (a_dyn a) = length dyn.

Lemma acc_proof_value max_mn (a : batch_acc K) dyn (t : terms K) (p : mpoints) :
  acc_wf max_mn a dyn -> shape_ok max_mn t p ->
  acc_value (acc_proof K a t) (dyn ++ dyn_of p) = acc_value a dyn +v member_msm t p /\
  acc_wf max_mn (acc_proof K a t) (dyn ++ dyn_of p).
Proof.
  intros (Wg & Wh & Wb & Wd) (S1 & S2 & S3 & S4 & S5 & S6).
  unfold acc_value, acc_proof, member_msm, terms_msm, dyn_of. cbn [a_gi a_hi a_Gb a_H a_dyn].
  assert (EGb : firstn (length (a_Gb a)) (t_Gb t) = t_Gb t) by (rewrite Wb, <- S6; apply firstn_all).
  rewrite EGb.
  split.
  - rewrite !acc_add_msm by lia.
    rewrite (msm_app K Kok M Mok) by exact Wd.
    rewrite (msm_app K Kok M Mok) by exact S3.
    rewrite (msm_app K Kok M Mok (_ :: _ :: _ :: nil) _ (_ :: _ :: _ :: nil)) by reflexivity.
    rewrite (msm_app K Kok M Mok) by exact S4.
    cbn [msm]. module_eq.
  - unfold acc_wf. cbn [a_gi a_hi a_Gb a_dyn]. rewrite !acc_add_length by lia.
    repeat split; try assumption. rewrite !app_length. cbn [length]. rewrite ?app_length. lia.
Qed.

(** accumulate a list of members *)
Fixpoint acc_all (a : batch_acc K) (ts : list (terms K)) : batch_acc K :=
  match ts with [] => a | t :: ts' => acc_all (acc_proof K a t) ts' end.
Fixpoint vsum_members (ts : list (terms K)) (ps : list mpoints) : M :=
  match ts, ps with t :: ts', p :: ps' => member_msm t p +v vsum_members ts' ps' | _, _ => v0 M end.

Lemma acc_all_value max_mn : forall ts ps a dyn, length ps = length ts ->
  acc_wf max_mn a dyn -> Forall2 (shape_ok max_mn) ts ps ->
  acc_value (acc_all a ts) (dyn ++ flat_map dyn_of ps) = acc_value a dyn +v vsum_members ts ps /\
  acc_wf max_mn (acc_all a ts) (dyn ++ flat_map dyn_of ps).
Proof.
  induction ts as [|t ts IH]; intros [|p ps] a dyn Hl Hw Hs; cbn [length] in Hl; try discriminate; cbn [acc_all flat_map vsum_members].
  - rewrite app_nil_r. split; [module_eq|exact Hw].
  - inversion Hs as [|? ? ? ? S0 Hs']; subst.
    destruct (acc_proof_value max_mn a dyn t p Hw S0) as [E1 W1].
    destruct (IH ps (acc_proof K a t) (dyn ++ dyn_of p) ltac:(lia) W1 Hs') as [E2 W2].
    rewrite app_assoc. split; [|exact W2]. rewrite E2, E1. module_eq.
Qed.

Lemma acc_init_value max_mn : acc_value (acc_init K max_mn (length Gb)) [] = v0 M /\ acc_wf max_mn (acc_init K max_mn (length Gb)) [].
Proof.
  unfold acc_value, acc_init, acc_wf. cbn [a_gi a_hi a_Gb a_H a_dyn msm length]. rewrite !(msm_zero K M Mok), !repeat_length.
  split; [module_eq|auto].
Qed.

(** THE THEOREM: the final product of a batch is the sum of the members' products *)
Theorem batch_linear max_mn pad (ts : list (terms K)) (ps : list mpoints) :
  length ps = length ts -> Forall2 (shape_ok max_mn) ts ps ->
  max_mn <= length G -> max_mn <= length Hv ->
  let sc := final_msm K (acc_all (acc_init K max_mn (length Gb)) ts) pad in
  msm (fst sc) (interleaveM K M G Hv) +v msm (snd sc) (flat_map dyn_of ps ++ Gb ++ [H]) = vsum_members ts ps.
Proof.
  intros Hl Hs HG HH sc.
  destruct (acc_init_value max_mn) as [E0 W0].
  destruct (acc_all_value max_mn ts ps _ [] Hl W0 Hs) as [E W]. cbn [app] in E, W.
  destruct W as (Wg & Wh & Wb & Wd).
  subst sc. unfold final_msm. cbn [fst snd].
  rewrite (msm_zeros_r K M Mok).
  rewrite (msm_interleave K Kok M Mok) by lia.
  rewrite (msm_app K Kok M Mok) by exact Wd.
  rewrite (msm_app K Kok M Mok) by exact Wb.
  cbn [msm]. rewrite E0 in E. unfold acc_value in E.
  transitivity (msm (a_gi (acc_all (acc_init K max_mn (length Gb)) ts)) G +v msm (a_hi (acc_all (acc_init K max_mn (length Gb)) ts)) Hv
                +v msm (a_dyn (acc_all (acc_init K max_mn (length Gb)) ts)) (flat_map dyn_of ps)
                +v msm (a_Gb (acc_all (acc_init K max_mn (length Gb)) ts)) Gb +v a_H (acc_all (acc_init K max_mn (length Gb)) ts) *v H); [module_eq|].
  rewrite E. module_eq.
Qed.

(** every member's product vanishing makes the batch product vanish *)
Corollary batch_zero_if_all_zero : forall ts ps, (forall t p, In (t, p) (combine ts ps) -> member_msm t p = v0 M) -> vsum_members ts ps = v0 M.
Proof.
  induction ts as [|t ts IH]; intros [|p ps] Hz; cbn [vsum_members combine] in *; try reflexivity.
  rewrite (Hz t p (or_introl eq_refl)), IH by (intros; apply Hz; now right). module_eq.
Qed.
End Batch.

(** ** the accumulator the verifier's second loop builds is [acc_all] over the members' terms *)
Section Loop.
Variable K : Fld.
Variable ofN : N -> K.

Fixpoint terms_list (ms : list (member K)) (ws : list K) : list (terms K) :=
  match ms with
  | [] => []
  | mb :: ms' => proof_terms K (mb_bits K mb) (mb_promises K mb) (vproof_of K ofN (mb_proof K mb)) (mb_ch K mb) (hd (f0 K) ws)
                 :: terms_list ms' (tl ws)
  end.

Lemma proof_loop_acc mode : mode <> RecoverOnly -> forall ms ws acc masks acc' masks',
  proof_loop K ofN mode ms ws acc masks = Ok (acc', masks') -> acc' = acc_all K acc (terms_list ms ws).
Proof.
  intros Hmode. induction ms as [|mb ms IH]; intros ws acc masks acc' masks' E; cbn [proof_loop terms_list acc_all] in *.
  - now inversion E.
  - destruct (mb_undecodable K mb); [discriminate|]. destruct (negb (rounds_ok K mb)); [discriminate|].
    destruct mode; try contradiction; apply IH in E; exact E.
Qed.

(** the scalars [verify_chunk] hands to the final multiscalar multiplication are [final_msm] of the
    members' accumulated terms: this is the object [batch_linear] / C03_batch_is_weighted_residuals speak about *)
Theorem verify_chunk_scalars mode ms ws z r sc :
  verify_chunk K ofN mode ms ws z = (r, Some sc) ->
  exists max_mn max_index first pad,
    consistency K ms = Some (max_mn, max_index) /\ hd first ms = first /\
    sc = final_msm K (acc_all K (acc_init K max_mn (mb_T K first)) (terms_list ms ws)) pad /\
    (r = Err \/ z = true).
Proof.
  unfold verify_chunk. destruct (consistency K ms) as [[mx mi]|]; [|discriminate].
  destruct (negb (forallb (transcript_phase_ok K) ms)); [discriminate|].
  set (first := hd _ ms).
  destruct (proof_loop K ofN mode ms ws _ []) as [[acc mk]|] eqn:E; [|discriminate].
  destruct mode; try discriminate.
  - apply proof_loop_acc in E; [|discriminate]. destruct (generator_padding _ _ _) as [pad|]; [|discriminate].
    intros H. inversion H; subst. exists mx, mi, first, (N.to_nat pad). repeat split; [subst first; destruct ms; reflexivity|destruct z; auto].
  - apply proof_loop_acc in E; [|discriminate]. destruct (generator_padding _ _ _) as [pad|]; [|discriminate].
    intros H. inversion H; subst. exists mx, mi, first, (N.to_nat pad). repeat split; [subst first; destruct ms; reflexivity|destruct z; auto].
Qed.
End Loop.
