(** Properties of the top-level verifier model: chunking, refusals, alignment of results, independence
    of the verdict from seed and mode (C03, C09, C10, C16). *)
From Coq Require Import List Arith NArith Bool Lia.
From BP Require Import Base.Field Model.Ctor Model.Codec Model.Transcript Model.Verifier Model.VerifyTop.
Import ListNotations.
Local Close Scope N_scope.

Lemma forallb_map {A B} (f : A -> B) p : forall l, forallb p (map f l) = forallb (fun x => p (f x)) l.
Proof. induction l as [|x l IH]; cbn; [reflexivity|now rewrite IH]. Qed.

(** ** slice::chunks covers the slice *)
Lemma chunks_of_concat {A} : forall fuel c (l : list A), 1 <= c -> length l <= fuel -> concat (chunks_of fuel c l) = l.
Proof.
  induction fuel as [|f IH]; intros c l Hc Hl.
  - destruct l; cbn in *; [reflexivity|lia].
  - destruct l as [|x l]; [reflexivity|]. cbn [chunks_of concat].
    rewrite IH; [apply firstn_skipn|exact Hc|].
    rewrite skipn_length. cbn [length] in *. lia.
Qed.

Lemma chunks_of_bound {A} : forall fuel c (l : list A), Forall (fun ch => length ch <= c) (chunks_of fuel c l).
Proof.
  induction fuel as [|f IH]; intros c l; cbn [chunks_of]; [constructor|].
  destruct l as [|x l]; [constructor|]. constructor; [rewrite firstn_length; lia|apply IH].
Qed.

Lemma chunks_of_nonempty {A} : forall fuel c (l : list A), 1 <= c -> Forall (fun ch => ch <> []) (chunks_of fuel c l).
Proof.
  induction fuel as [|f IH]; intros c l Hc; cbn [chunks_of]; [constructor|].
  destruct l as [|x l]; [constructor|]. constructor; [|apply IH; exact Hc].
  destruct c; [lia|]. cbn. discriminate.
Qed.

Section Top.
Variable K : Fld.
Variable ofN : N -> K.
Notation member := (member K).
Notation verify_chunk := (verify_chunk K ofN).
Notation proof_loop := (proof_loop K ofN).
Notation verify_batch := (verify_batch K ofN).
Notation mask_of := (mask_of K ofN).

Definition is_ok {A} (r : result A) : bool := match r with Ok _ => true | Err => false end.

(** ** refusals of ill-formed batches *)
Theorem batch_refuses_empty mode ns np nt ms orc :
  ns = 0 \/ np = 0 \/ nt = 0 -> verify_batch mode ns np nt ms orc = Err.
Proof. intros [H|[H|H]]; subst; unfold VerifyTop.verify_batch; cbn [Nat.eqb orb]; rewrite ?orb_true_r; reflexivity. Qed.

Theorem batch_refuses_length_mismatch mode ns np nt ms orc :
  ns <> np \/ nt <> ns -> verify_batch mode ns np nt ms orc = Err.
Proof.
  intros H. unfold VerifyTop.verify_batch.
  destruct (Nat.eqb ns 0 || Nat.eqb np 0 || Nat.eqb nt 0); [reflexivity|].
  destruct (Nat.eqb_spec ns np) as [E1|E1]; cbn [negb]; [|reflexivity].
  destruct (Nat.eqb_spec nt ns) as [E2|E2]; cbn [negb]; [|reflexivity].
  destruct H; contradiction.
Qed.

Theorem chunk_refuses_empty mode ws z : fst (verify_chunk mode [] ws z) = Err.
Proof. reflexivity. Qed.

(** members disagreeing on bit length, extension degree or Pedersen generators are refused *)
Lemma consistency_rest_disagree first : forall rest i mx mi,
  (exists mb, In mb rest /\ (mb_bits K mb <> mb_bits K first \/ mb_T K mb <> mb_T K first \/ mb_Henc K mb <> mb_Henc K first
                             \/ mb_Gbenc K mb <> mb_Gbenc K first)) ->
  consistency_rest K first i rest mx mi = None.
Proof.
  induction rest as [|mb rest IH]; intros i mx mi (bad & Hin & Hbad); [destruct Hin|].
  cbn [consistency_rest].
  destruct (list_N_eqb (mb_Gbenc K first) (mb_Gbenc K mb)) eqn:EG; cbn [negb]; [|reflexivity].
  destruct (N.eqb_spec (mb_Henc K first) (mb_Henc K mb)) as [EH|EH]; cbn [negb]; [|reflexivity].
  destruct (Nat.eqb_spec (mb_bits K first) (mb_bits K mb)) as [EB|EB]; cbn [negb]; [|reflexivity].
  destruct (Nat.eqb_spec (mb_T K first) (mb_T K mb)) as [ET|ET]; cbn [andb negb]; [|reflexivity].
  destruct (d1_degree_ok K mb (mb_T K first)); cbn [negb]; [|reflexivity].
  assert (EG' : mb_Gbenc K first = mb_Gbenc K mb).
  { clear -EG. revert EG. generalize (mb_Gbenc K first) (mb_Gbenc K mb).
    induction l as [|x l IHl]; intros [|y l'] E; cbn in E; try discriminate; [reflexivity|].
    apply andb_prop in E. destruct E as [E1 E2]. apply N.eqb_eq in E1. subst. f_equal. now apply IHl. }
  destruct Hin as [<-|Hin].
  - exfalso. destruct Hbad as [Hb|[Hb|[Hb|Hb]]]; congruence.
  - destruct (Nat.ltb mx (mb_N K mb)); apply IH; exists bad; auto.
Qed.

Theorem chunk_refuses_disagreement mode first rest ws z :
  (exists mb, In mb rest /\ (mb_bits K mb <> mb_bits K first \/ mb_T K mb <> mb_T K first \/ mb_Henc K mb <> mb_Henc K first
                             \/ mb_Gbenc K mb <> mb_Gbenc K first)) ->
  fst (verify_chunk mode (first :: rest) ws z) = Err.
Proof.
  intros H. unfold VerifyTop.verify_chunk, consistency.
  destruct (d1_degree_ok K first (mb_T K first)); cbn [negb]; [|reflexivity].
  rewrite consistency_rest_disagree by exact H. reflexivity.
Qed.

(** ** the second loop: masks are appended one per member, the accumulator ignores seed and mask *)
Definition forget_seed (mb : member) : member :=
  mkMember K (mb_bits K mb) (mb_cap K mb) (mb_T K mb) (mb_Henc K mb) (mb_Gbenc K mb) (mb_gens K mb) (mb_Venc K mb)
           (mb_promises K mb) false (mb_proof K mb) (mb_undecodable K mb) (mb_ch K mb) (mb_nonce K mb).

Definition verifying (m : vmode) : bool := match m with RecoverOnly => false | _ => true end.

Lemma proof_loop_shape mode : forall ms ws acc masks acc' masks',
  proof_loop mode ms ws acc masks = Ok (acc', masks') ->
  masks' = masks ++ map (mask_of mode) ms.
Proof.
  induction ms as [|mb ms IH]; intros ws acc masks acc' masks' H; cbn [VerifyTop.proof_loop] in H.
  - inversion H. now rewrite app_nil_r.
  - destruct (mb_undecodable K mb); [discriminate|]. destruct (rounds_ok K mb); cbn [negb] in H; [|discriminate].
    destruct mode; apply IH in H; rewrite H, <- app_assoc; reflexivity.
Qed.

(** the accept/reject behaviour and the accumulated scalars of the loop do not depend on the seeds,
    nor on which of the two verifying modes is requested *)
Lemma proof_loop_noninterference m1 m2 : verifying m1 = true -> verifying m2 = true ->
  forall ms ws acc masks1 masks2,
  match proof_loop m1 ms ws acc masks1, proof_loop m2 (map forget_seed ms) ws acc masks2 with
  | Ok (a1, _), Ok (a2, _) => a1 = a2
  | Err, Err => True
  | _, _ => False
  end.
Proof.
  intros V1 V2. induction ms as [|mb ms IH]; intros ws acc masks1 masks2; cbn [VerifyTop.proof_loop map].
  - reflexivity.
  - change (mb_undecodable K (forget_seed mb)) with (mb_undecodable K mb).
    change (rounds_ok K (forget_seed mb)) with (rounds_ok K mb).
    destruct (mb_undecodable K mb); [exact I|]. destruct (rounds_ok K mb); cbn [negb]; [|exact I].
    change (mb_bits K (forget_seed mb)) with (mb_bits K mb). change (mb_promises K (forget_seed mb)) with (mb_promises K mb).
    change (mb_proof K (forget_seed mb)) with (mb_proof K mb). change (mb_ch K (forget_seed mb)) with (mb_ch K mb).
    destruct m1; try discriminate; destruct m2; try discriminate; apply IH.
Qed.

Lemma consistency_forget ms : consistency K (map forget_seed ms) = consistency K ms.
Proof.
  unfold consistency. destruct ms as [|first rest]; [reflexivity|]. cbn [map].
  change (d1_degree_ok K (forget_seed first) (mb_T K (forget_seed first))) with (d1_degree_ok K first (mb_T K first)).
  destruct (d1_degree_ok K first (mb_T K first)); cbn [negb]; [|reflexivity].
  assert (Hr : forall rest i mx mi, consistency_rest K (forget_seed first) i (map forget_seed rest) mx mi = consistency_rest K first i rest mx mi).
  { induction rest0 as [|mb r IHr]; intros i mx mi; cbn [consistency_rest map]; [reflexivity|].
    change (mb_Gbenc K (forget_seed first)) with (mb_Gbenc K first). change (mb_Gbenc K (forget_seed mb)) with (mb_Gbenc K mb).
    change (mb_Henc K (forget_seed first)) with (mb_Henc K first). change (mb_Henc K (forget_seed mb)) with (mb_Henc K mb).
    change (mb_bits K (forget_seed first)) with (mb_bits K first). change (mb_bits K (forget_seed mb)) with (mb_bits K mb).
    change (mb_T K (forget_seed first)) with (mb_T K first). change (mb_T K (forget_seed mb)) with (mb_T K mb).
    change (d1_degree_ok K (forget_seed mb) (mb_T K first)) with (d1_degree_ok K mb (mb_T K first)).
    change (mb_N K (forget_seed mb)) with (mb_N K mb).
    destruct (negb _); [reflexivity|]. destruct (negb _); [reflexivity|]. destruct (negb _); [reflexivity|]. destruct (negb _); [reflexivity|].
    destruct (Nat.ltb mx (mb_N K mb)); apply IHr. }
  change (mb_N K (forget_seed first)) with (mb_N K first). rewrite Hr.
  destruct (consistency_rest K first 1 rest (mb_N K first) 0) as [[mx mi]|]; [|reflexivity].
  change (mb_bits K (forget_seed first)) with (mb_bits K first).
  assert (E1 : forallb (fun mb => forallb (promise_fits (mb_bits K first)) (mb_promises K mb)) (forget_seed first :: map forget_seed rest)
             = forallb (fun mb => forallb (promise_fits (mb_bits K first)) (mb_promises K mb)) (first :: rest)).
  { change (forget_seed first :: map forget_seed rest) with (map forget_seed (first :: rest)). rewrite forallb_map. reflexivity. }
  rewrite E1.
  assert (E2 : forall d, mb_gens K (nth mi (forget_seed first :: map forget_seed rest) (forget_seed d)) = mb_gens K (nth mi (first :: rest) d)).
  { intros d. change (forget_seed first :: map forget_seed rest) with (map forget_seed (first :: rest)). rewrite map_nth. reflexivity. }
  rewrite E2.
  change (forget_seed first :: map forget_seed rest) with (map forget_seed (first :: rest)). rewrite forallb_map.
  reflexivity.
Qed.

Lemma transcript_phase_forget mb : transcript_phase_ok K (forget_seed mb) = transcript_phase_ok K mb.
Proof. reflexivity. Qed.

(** C10: the verdict of a chunk is the same with or without seeds, in either verifying mode; and the
    scalars of the final product are identical *)
Theorem verdict_independent_of_seed_and_mode m1 m2 ms ws z : verifying m1 = true -> verifying m2 = true ->
  is_ok (fst (verify_chunk m1 ms ws z)) = is_ok (fst (verify_chunk m2 (map forget_seed ms) ws z))
  /\ snd (verify_chunk m1 ms ws z) = snd (verify_chunk m2 (map forget_seed ms) ws z).
Proof.
  intros V1 V2. unfold VerifyTop.verify_chunk. rewrite consistency_forget.
  destruct (consistency K ms) as [[max_mn max_index]|]; [|split; reflexivity].
  rewrite forallb_map.
  change (forallb (fun x : member => transcript_phase_ok K (forget_seed x)) ms) with (forallb (transcript_phase_ok K) ms).
  destruct (forallb (transcript_phase_ok K) ms) eqn:Et; cbn [negb]; [|split; reflexivity].
  set (d := mkMember K 0 0 0 0%N [] 0%N [] [] false (mkProof 0 [] 0 0 0 0 0 [] []) false (mkChals K (f0 K) (f0 K) [] (f0 K)) (fun _ _ _ => f0 K)).
  assert (Ehd : mb_T K (hd (nth 0 (map forget_seed ms) d) (map forget_seed ms)) = mb_T K (hd (nth 0 ms d) ms)).
  { destruct ms; reflexivity. }
  rewrite Ehd.
  pose proof (proof_loop_noninterference m1 m2 V1 V2 ms ws (acc_init K max_mn (mb_T K (hd (nth 0 ms d) ms))) [] []) as NI.
  destruct (proof_loop m1 ms ws _ []) as [[a1 k1]|]; destruct (proof_loop m2 (map forget_seed ms) ws _ []) as [[a2 k2]|]; try contradiction; [|split; reflexivity].
  subst a2.
  assert (Emx : nth max_index (map forget_seed ms) (hd (nth 0 (map forget_seed ms) d) (map forget_seed ms)) =
                forget_seed (nth max_index ms (hd (nth 0 ms d) ms))).
  { destruct ms as [|m0 ms']; [destruct max_index; reflexivity|]. cbn [map hd].
    change (forget_seed m0 :: map forget_seed ms') with (map forget_seed (m0 :: ms')). apply map_nth. }
  rewrite Emx.
  set (mx := nth max_index ms (hd (nth 0 ms d) ms)).
  change (mb_bits K (forget_seed mx)) with (mb_bits K mx). change (mb_m K (forget_seed mx)) with (mb_m K mx).
  change (mb_cap K (forget_seed mx)) with (mb_cap K mx).
  destruct m1; try discriminate; destruct m2; try discriminate;
    destruct (generator_padding _ _ _); try (split; reflexivity); destruct z; split; reflexivity.
Qed.

(** C09/C03: on success the results are aligned with the members: one entry per member, in order,
    [Some mask] exactly for seeded members in a recovering mode *)
Theorem chunk_results_aligned mode ms ws z masks :
  fst (verify_chunk mode ms ws z) = Ok masks -> masks = map (mask_of mode) ms.
Proof.
  unfold VerifyTop.verify_chunk. destruct (consistency K ms) as [[mx mi]|]; [|discriminate].
  destruct (negb (forallb (transcript_phase_ok K) ms)); [discriminate|].
  destruct (proof_loop mode ms ws _ []) as [[acc mk]|] eqn:E; [|discriminate].
  apply proof_loop_shape in E. cbn [app] in E. subst mk.
  destruct mode; cbn [fst].
  - destruct (generator_padding _ _ _); [|discriminate]. destruct z; [|discriminate]. intros H; now inversion H.
  - destruct (generator_padding _ _ _); [|discriminate]. destruct z; [|discriminate]. intros H; now inversion H.
  - intros H; now inversion H.
Qed.

Lemma mask_of_verify_only mb : mask_of VerifyOnly mb = None.
Proof. reflexivity. Qed.
Lemma mask_of_unseeded mode mb : mb_seeded K mb = false -> mask_of mode mb = None.
Proof. intros H. destruct mode; cbn; rewrite ?H; reflexivity. Qed.
Lemma mask_of_recover_modes mb : mask_of RecoverOnly mb = mask_of RecoverAndVerify mb.
Proof. reflexivity. Qed.

(** C10: recover-only returns, for every chunk that recover-and-verify accepts, the same masks *)
Lemma proof_loop_recover_only : forall ms ws acc1 acc2 masks acc' masks',
  proof_loop RecoverAndVerify ms ws acc1 masks = Ok (acc', masks') ->
  exists acc'', proof_loop RecoverOnly ms ws acc2 masks = Ok (acc'', masks').
Proof.
  induction ms as [|mb ms IH]; intros ws acc1 acc2 masks acc' masks' H; cbn [VerifyTop.proof_loop] in *.
  - inversion H. eauto.
  - destruct (mb_undecodable K mb); [discriminate|]. destruct (rounds_ok K mb); cbn [negb] in *; [|discriminate].
    change (mask_of RecoverOnly mb) with (mask_of RecoverAndVerify mb).
    eapply IH. exact H.
Qed.

Theorem recover_only_same_masks ms ws z masks :
  fst (verify_chunk RecoverAndVerify ms ws z) = Ok masks -> fst (verify_chunk RecoverOnly ms ws z) = Ok masks.
Proof.
  unfold VerifyTop.verify_chunk. destruct (consistency K ms) as [[mx mi]|]; [|discriminate].
  destruct (negb (forallb (transcript_phase_ok K) ms)); [discriminate|].
  destruct (proof_loop RecoverAndVerify ms ws _ []) as [[acc mk]|] eqn:E; [|discriminate].
  destruct (proof_loop_recover_only _ _ _ (acc_init K mx (mb_T K (hd (nth 0 ms
     (mkMember K 0 0 0 0%N [] 0%N [] [] false (mkProof 0 [] 0 0 0 0 0 [] []) false (mkChals K (f0 K) (f0 K) [] (f0 K)) (fun _ _ _ => f0 K))) ms))) _ _ _ E) as [acc'' E'].
  rewrite E'. cbn [fst].
  destruct (generator_padding _ _ _); [|discriminate]. destruct z; [|discriminate]. intros H; exact H.
Qed.
End Top.
