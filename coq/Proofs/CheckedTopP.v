(** C16 at the top of the executed model: for statements as the validating constructors make them, ARBITRARY
    proofs, weights, modes and chunk shapes, [verify_chunk_chk] never panics, and its outcome is the verdict of
    the total model [verify_chunk] (Ok ~ value, Err ~ error): the checked and the unchecked model are the same
    function, so the correspondence check on the latter covers the former. *)
From Coq Require Import List Arith NArith Lia PeanoNat Bool.
From BP Require Import Base.Field Model.Ctor Model.Codec Model.Transcript Model.Verifier Model.VerifyTop Model.Checked Model.CheckedTop
     Proofs.GuardsP Proofs.VerifyTopP Proofs.TopP Proofs.CheckedP.
Import ListNotations.
Local Close Scope N_scope.

Definition lift {A} (r : result A) : tri A := match r with Ok a => Val a | Err => Fail end.

Section CTP.
Variable K : Fld.
Variable ofN : N -> K.

(** what the validating constructors and the transcript give: one promise per commitment (RangeStatement::init),
    one blinding generator per extension degree (PedersenGens), one round challenge per zipped L/R pair *)
Definition ctor_ok (mb : member K) : Prop :=
  length (mb_promises K mb) = length (mb_Venc K mb) /\
  length (mb_Gbenc K mb) = mb_T K mb /\
  length (c_es (mb_ch K mb)) = Nat.min (length (p_li (mb_proof K mb))) (length (p_ri (mb_proof K mb))).

Lemma rounds_ok_lt64 mb : rounds_ok K mb = true -> length (p_li (mb_proof K mb)) < 64.
Proof.
  unfold rounds_ok. destruct (Nat.eqb _ _); cbn [negb]; [|discriminate].
  destruct (Nat.ltb_spec (length (p_li (mb_proof K mb))) 64); cbn [negb]; [auto|discriminate].
Qed.

Lemma acc_add_len : forall (acc xs : list K), length (acc_add K acc xs) = length acc.
Proof. induction acc as [|a acc IH]; intros [|x xs]; cbn [acc_add length]; try reflexivity. now rewrite IH. Qed.

Lemma v_loop_len w e2 z2 ynm1 : forall promises zpow, length (fst (v_loop K w e2 z2 ynm1 zpow promises)) = length promises.
Proof.
  induction promises as [|p ps IH]; intros zpow; cbn [v_loop fst length]; [reflexivity|].
  specialize (IH (fmul K zpow z2)). destruct (v_loop K w e2 z2 ynm1 (fmul K zpow z2) ps) as [vs h]. cbn [fst length] in *. lia.
Qed.

Lemma proof_terms_dyn_len bits promises pf ch w :
  let t := proof_terms K bits promises pf ch w in
  length (t_V t) = length promises /\ length (t_L t) = length (c_es ch) /\ length (t_R t) = length (c_es ch).
Proof.
  unfold proof_terms.
  match goal with |- context [gh_loop K ?a ?b ?c ?d ?e ?f ?g ?h ?i ?j ?k ?l] => destruct (gh_loop K a b c d e f g h i j k l) as [gs hs] end.
  match goal with |- context [v_loop K ?a ?b ?c ?d ?e ?f] => pose proof (v_loop_len a b c d f e) as VL; destruct (v_loop K a b c d e f) as [vs hp] end.
  cbn [t_V t_L t_R fst] in *. rewrite !map_length, firstn_length, map_length, app_length. cbn [length]. repeat split; [exact VL|lia].
Qed.

(** ** the second loop *)
Lemma proof_loop_chk_ok mode : forall ms, Forall ctor_ok ms -> forall ws acc masks npts,
  match proof_loop K ofN mode ms ws acc masks with
  | Err => proof_loop_chk K ofN mode ms ws acc masks npts = Fail
  | Ok (acc', masks') =>
      exists npts', proof_loop_chk K ofN mode ms ws acc masks npts = Val (acc', masks', npts') /\
                    length (a_dyn acc') + npts = length (a_dyn acc) + npts' /\
                    length (a_gi acc') = length (a_gi acc) /\ length (a_hi acc') = length (a_hi acc) /\ length (a_Gb acc') = length (a_Gb acc)
  end.
Proof.
  induction ms as [|mb ms IH]; intros Hc ws acc masks npts; cbn [proof_loop proof_loop_chk].
  - exists npts. repeat split; reflexivity.
  - inversion Hc as [|? ? (Lpv & _ & Les) Hc']; subst.
    destruct (mb_undecodable K mb); [reflexivity|]. destruct (rounds_ok K mb) eqn:R; cbn [negb]; [|reflexivity].
    pose proof (rounds_ok_lt64 mb R) as R64. apply rounds_ok_facts in R. destruct R as [Llr HN].
    rewrite <- Llr, Nat.min_id in Les.
    assert (Hpos : 0 < 2 ^ length (p_li (mb_proof K mb))) by (apply Nat.neq_0_lt_0, Nat.pow_nonzero; lia).
    unfold mb_N in HN.
    assert (Hm : 1 <= mb_m K mb) by nia. assert (Hb : 1 <= mb_bits K mb) by nia.
    destruct mode.
    + (* VerifyOnly *)
      rewrite proof_terms_chk_ok; [|unfold mb_m; now rewrite Lpv|rewrite Les; exact R64|rewrite Les, Lpv; exact HN]. cbn [tbind].
      set (t := proof_terms K (mb_bits K mb) (mb_promises K mb) (vproof_of K ofN (mb_proof K mb)) (mb_ch K mb) (hd (f0 K) ws)).
      specialize (IH Hc' (tl ws) (acc_proof K acc t) (masks ++ [mask_of K ofN VerifyOnly mb])
                     (npts + length (mb_Venc K mb) + 3 + length (p_li (mb_proof K mb)) + length (p_ri (mb_proof K mb)))%nat).
      destruct (proof_loop K ofN VerifyOnly ms _ _ _) as [[acc' masks']|]; [|exact IH].
      destruct IH as (npts' & E & Ld & Lg & Lh & Lb). exists npts'. split; [exact E|].
      destruct (proof_terms_dyn_len (mb_bits K mb) (mb_promises K mb) (vproof_of K ofN (mb_proof K mb)) (mb_ch K mb) (hd (f0 K) ws)) as (LV & LL & LR).
      fold t in LV, LL, LR. unfold acc_proof in Ld, Lg, Lh, Lb. cbn [a_dyn a_gi a_hi a_Gb] in Ld, Lg, Lh, Lb.
      rewrite !acc_add_len in *. rewrite !app_length in Ld. cbn [length] in Ld. repeat split; try assumption. lia.
    + (* RecoverAndVerify *)
      rewrite proof_terms_chk_ok; [|unfold mb_m; now rewrite Lpv|rewrite Les; exact R64|rewrite Les, Lpv; exact HN]. cbn [tbind].
      set (t := proof_terms K (mb_bits K mb) (mb_promises K mb) (vproof_of K ofN (mb_proof K mb)) (mb_ch K mb) (hd (f0 K) ws)).
      specialize (IH Hc' (tl ws) (acc_proof K acc t) (masks ++ [mask_of K ofN RecoverAndVerify mb])
                     (npts + length (mb_Venc K mb) + 3 + length (p_li (mb_proof K mb)) + length (p_ri (mb_proof K mb)))%nat).
      destruct (proof_loop K ofN RecoverAndVerify ms _ _ _) as [[acc' masks']|]; [|exact IH].
      destruct IH as (npts' & E & Ld & Lg & Lh & Lb). exists npts'. split; [exact E|].
      destruct (proof_terms_dyn_len (mb_bits K mb) (mb_promises K mb) (vproof_of K ofN (mb_proof K mb)) (mb_ch K mb) (hd (f0 K) ws)) as (LV & LL & LR).
      fold t in LV, LL, LR. unfold acc_proof in Ld, Lg, Lh, Lb. cbn [a_dyn a_gi a_hi a_Gb] in Ld, Lg, Lh, Lb.
      rewrite !acc_add_len in *. rewrite !app_length in Ld. cbn [length] in Ld. repeat split; try assumption. lia.
    + (* RecoverOnly: d and its sum are still computed *)
      rewrite d_vec_chk_ok; [|exact Hb|exact Hm|rewrite HN; now apply pow2_lt_64]. cbn [tbind].
      rewrite d_sum_chk_ok by exact Hm. cbn [tbind].
      exact (IH Hc' (tl ws) acc (masks ++ [mask_of K ofN RecoverOnly mb]) npts).
Qed.

(** ** the largest member is where [consistency] says it is *)
Lemma consistency_rest_max first : forall rest pre i mx0 mi0 mx mi,
  length pre = i -> mi0 < i -> mx0 = mb_N K (nth mi0 pre first) ->
  consistency_rest K first i rest mx0 mi0 = Some (mx, mi) ->
  mx = mb_N K (nth mi (pre ++ rest) first) /\ mi < length (pre ++ rest).
Proof.
  induction rest as [|mb rest IH]; intros pre i mx0 mi0 mx mi Lp Hi Hmx E; cbn [consistency_rest] in E.
  - inversion E; subst. rewrite app_nil_r. split; [reflexivity|lia].
  - destruct (negb (list_N_eqb _ _)); [discriminate|]. destruct (negb (_ =? _)%N); [discriminate|].
    destruct (negb (Nat.eqb _ _)); [discriminate|]. destruct (negb (_ && _)); [discriminate|].
    replace (pre ++ mb :: rest) with ((pre ++ [mb]) ++ rest) by now rewrite <- app_assoc.
    destruct (Nat.ltb mx0 (mb_N K mb)).
    + apply (IH (pre ++ [mb]) (S i) (mb_N K mb) i); [rewrite app_length; cbn [length]; lia|lia| |exact E].
      rewrite app_nth2 by lia. replace (i - length pre)%nat with 0%nat by lia. reflexivity.
    + apply (IH (pre ++ [mb]) (S i) mx0 mi0); [rewrite app_length; cbn [length]; lia|lia| |exact E].
      rewrite app_nth1 by lia. exact Hmx.
Qed.

Lemma consistency_max first rest mx mi : consistency K (first :: rest) = Some (mx, mi) ->
  mx = mb_N K (nth mi (first :: rest) first) /\ In (nth mi (first :: rest) first) (first :: rest).
Proof.
  cbn [consistency]. destruct (negb (d1_degree_ok K first (mb_T K first))); [discriminate|].
  destruct (consistency_rest K first 1 rest (mb_N K first) 0) as [[mx' mi']|] eqn:E; [|discriminate].
  destruct (_ && _); [|discriminate]. intros X; inversion X; subst.
  destruct (consistency_rest_max first rest [first] 1 (mb_N K first) 0 mx mi eq_refl ltac:(lia) eq_refl E) as [E1 E2].
  split; [exact E1|]. apply nth_In. exact E2.
Qed.

(** ** the theorem *)
Theorem verify_chunk_chk_ok mode ms ws z : Forall ctor_ok ms ->
  verify_chunk_chk K ofN mode ms ws z = lift (fst (verify_chunk K ofN mode ms ws z)).
Proof.
  intros Hc. unfold verify_chunk_chk, verify_chunk.
  destruct (consistency K ms) as [[max_mn max_index]|] eqn:Ec; [|reflexivity].
  destruct (forallb (transcript_phase_ok K) ms); cbn [negb]; [|reflexivity].
  destruct ms as [|first rest]; [discriminate|]. cbn [hd].
  pose proof (proof_loop_chk_ok mode (first :: rest) Hc ws (acc_init K max_mn (mb_T K first)) [] 0) as PL.
  destruct (proof_loop K ofN mode (first :: rest) ws (acc_init K max_mn (mb_T K first)) []) as [[acc' masks']|] eqn:El; [|rewrite PL; reflexivity].
  destruct PL as (npts' & -> & Ld & Lg & Lh & Lb). cbn [tbind].
  destruct mode; try reflexivity.
  - (* VerifyOnly *)
    destruct (consistency_max first rest max_mn max_index Ec) as [Emx Hin].
    set (mx := nth max_index (first :: rest) first) in *.
    destruct (generator_padding _ _ _) as [pad|] eqn:Ep; [|reflexivity]. cbn [fst].
    apply proof_loop_guards in El. rewrite Forall_forall in El. destruct (El mx Hin) as [_ Rmx].
    apply rounds_ok_facts in Rmx. destruct Rmx as [_ HNmx].
    assert (Hpos : 0 < 2 ^ length (p_li (mb_proof K mx))) by (apply Nat.neq_0_lt_0, Nat.pow_nonzero; lia).
    assert (Hbm : 1 <= mb_bits K mx) by (unfold mb_N in HNmx; nia).
    destruct (generator_padding_spec _ _ _ _ Ep) as ([Hcap|X] & _ & _); [|lia].
    cbn [acc_init a_gi a_hi a_Gb a_dyn length] in Ld, Lg, Lh, Lb. rewrite repeat_length in Lg, Lh, Lb.
    rewrite (static_length_matches_table K acc' (mb_bits K mx) (mb_m K mx) (mb_cap K mx) pad Ep);
      [|rewrite Lg, Emx; reflexivity|rewrite Lh, Emx; reflexivity|lia].
    unfold msm_chk. rewrite Nat.eqb_refl. cbn [negb].
    unfold final_msm. cbn [snd]. rewrite !app_length. cbn [length]. rewrite Lb.
    inversion Hc as [|? ? (_ & LGb & _) _]; subst. rewrite LGb.
    replace (length (a_dyn acc') + (mb_T K first + 1))%nat with (npts' + mb_T K first + 1)%nat by lia.
    rewrite Nat.eqb_refl. cbn [negb tbind]. destruct z; reflexivity.
  - (* RecoverAndVerify *)
    destruct (consistency_max first rest max_mn max_index Ec) as [Emx Hin].
    set (mx := nth max_index (first :: rest) first) in *.
    destruct (generator_padding _ _ _) as [pad|] eqn:Ep; [|reflexivity]. cbn [fst].
    apply proof_loop_guards in El. rewrite Forall_forall in El. destruct (El mx Hin) as [_ Rmx].
    apply rounds_ok_facts in Rmx. destruct Rmx as [_ HNmx].
    assert (Hpos : 0 < 2 ^ length (p_li (mb_proof K mx))) by (apply Nat.neq_0_lt_0, Nat.pow_nonzero; lia).
    assert (Hbm : 1 <= mb_bits K mx) by (unfold mb_N in HNmx; nia).
    destruct (generator_padding_spec _ _ _ _ Ep) as ([Hcap|X] & _ & _); [|lia].
    cbn [acc_init a_gi a_hi a_Gb a_dyn length] in Ld, Lg, Lh, Lb. rewrite repeat_length in Lg, Lh, Lb.
    rewrite (static_length_matches_table K acc' (mb_bits K mx) (mb_m K mx) (mb_cap K mx) pad Ep);
      [|rewrite Lg, Emx; reflexivity|rewrite Lh, Emx; reflexivity|lia].
    unfold msm_chk. rewrite Nat.eqb_refl. cbn [negb].
    unfold final_msm. cbn [snd]. rewrite !app_length. cbn [length]. rewrite Lb.
    inversion Hc as [|? ? (_ & LGb & _) _]; subst. rewrite LGb.
    replace (length (a_dyn acc') + (mb_T K first + 1))%nat with (npts' + mb_T K first + 1)%nat by lia.
    rewrite Nat.eqb_refl. cbn [negb tbind]. destruct z; reflexivity.
Qed.

Corollary verify_chunk_never_panics mode ms ws z : Forall ctor_ok ms -> verify_chunk_chk K ofN mode ms ws z <> Panic.
Proof. intros Hc. rewrite verify_chunk_chk_ok by exact Hc. destruct (fst _); discriminate. Qed.

(** ** whole batches *)
Lemma verify_chunks_chk_ok mode : forall cs orc masks, Forall (Forall ctor_ok) cs ->
  verify_chunks_chk K ofN mode cs orc masks = lift (verify_chunks K ofN mode cs orc masks).
Proof.
  induction cs as [|c cs IH]; intros orc masks Hc; cbn [verify_chunks_chk verify_chunks]; [reflexivity|].
  inversion Hc as [|? ? Hc0 Hc']; subst. destruct (hd ([], false) orc) as [ws z].
  rewrite (verify_chunk_chk_ok mode c ws z Hc0). destruct (fst (verify_chunk K ofN mode c ws z)) as [m|]; cbn [lift tbind]; [|reflexivity].
  apply IH. exact Hc'.
Qed.

Lemma Forall_concat_inv {A} (P : A -> Prop) : forall ls : list (list A), Forall P (concat ls) -> Forall (Forall P) ls.
Proof.
  induction ls as [|l ls IH]; intros H; cbn [concat] in H; constructor.
  - apply Forall_forall. intros x Hx. rewrite Forall_forall in H. apply H. apply in_or_app. now left.
  - apply IH. apply Forall_forall. intros x Hx. rewrite Forall_forall in H. apply H. apply in_or_app. now right.
Qed.

Theorem verify_batch_chk_ok mode ns np nt ms orc : Forall ctor_ok ms ->
  verify_batch_chk K ofN mode ns np nt ms orc = lift (verify_batch K ofN mode ns np nt ms orc).
Proof.
  intros Hc. unfold verify_batch_chk, verify_batch.
  destruct (_ || _); [reflexivity|]. destruct (negb (Nat.eqb ns np)); [reflexivity|]. destruct (negb (Nat.eqb nt ns)); [reflexivity|].
  change (Nat.eqb MAX_BATCH 0) with false. cbv iota.
  apply verify_chunks_chk_ok. apply Forall_concat_inv.
  rewrite VerifyTopP.chunks_of_concat; [exact Hc|unfold MAX_BATCH; lia|lia].
Qed.

Corollary verify_batch_never_panics mode ns np nt ms orc : Forall ctor_ok ms -> verify_batch_chk K ofN mode ns np nt ms orc <> Panic.
Proof. intros Hc. rewrite verify_batch_chk_ok by exact Hc. destruct (verify_batch _ _ _ _ _ _ _ _); discriminate. Qed.
End CTP.
