(** C03 / C08: the final multiscalar product of a batch equals sum_p w_p * residual_p, where residual_p
    is the textbook Bulletproofs+ residual of member p (Model/RangeSpec.v) — for members of different
    aggregation factors sharing the owner's generator table, arbitrary (also dishonest) proofs.
    Composition of Proofs/BatchP.v (linearity of the accumulation) and Proofs/VerifierEquivP.v. *)
From Coq Require Import List Arith NArith Lia Field Ring PeanoNat.
From BP Require Import Base.Field Model.Verifier Model.Prover Model.Spec Model.RangeSpec
     Proofs.FieldP Proofs.ModuleP Proofs.WipP Proofs.SvecP Proofs.ClosedP Proofs.FoldP Proofs.VerifierEquivP Proofs.GuardsP Proofs.WeightP Proofs.BatchP.
Import ListNotations.

Section BE.
Variable K : Fld.
Hypothesis Kok : FldOk K.
Add Field Kf : (Fth K Kok).
Variable M : Mod K.
Hypothesis Mok : ModOk K M.
Local Open Scope F_scope.
Notation "0" := (f0 K). Notation "1" := (f1 K).
Infix "+v" := (vadd M) (at level 50, left associativity).
Infix "*v" := (smul M) (at level 40).

Variables (H : M) (Gb G Hv : list M).

(** one member of a batch: its statement data, scalars, challenges, weight and points *)
Record bmember := mkB {
  b_bits : nat; b_promises : list (option N); b_pf : vproof K; b_ch : chals K; b_w : K; b_pts : mpoints K M }.

Definition b_N (b : bmember) : nat := (length (b_promises b) * b_bits b)%nat.
Definition b_terms (b : bmember) : terms K := proof_terms K (b_bits b) (b_promises b) (b_pf b) (b_ch b) (b_w b).
Definition b_residual (b : bmember) : M :=
  spec_residual K M (b_bits b) H Gb (firstn (b_N b) G) (firstn (b_N b) Hv) (mp_V K M (b_pts b)) (b_promises b)
    (mkRproof K M (mp_A K M (b_pts b)) (combine (mp_L K M (b_pts b)) (mp_R K M (b_pts b))) (mp_A1 K M (b_pts b)) (mp_B K M (b_pts b))
              (v_r1 (b_pf b)) (v_s1 (b_pf b)) (v_d1 (b_pf b)))
    (c_y (b_ch b)) (c_z (b_ch b)) (c_es (b_ch b)) (c_e (b_ch b)).

(** what the guards of the code establish for every member that reaches the second loop *)
Definition b_ok (max_mn : nat) (b : bmember) : Prop :=
  1 <= b_bits b /\ (exists a, length (b_promises b) = 2 ^ a) /\ b_N b = 2 ^ length (c_es (b_ch b)) /\
  Forall (fun c => c <> 0) (c_es (b_ch b)) /\ c_y (b_ch b) <> 0 /\ c_y (b_ch b) - 1 <> 0 /\
  b_N b <= max_mn /\ length (mp_V K M (b_pts b)) = length (b_promises b) /\
  length (mp_L K M (b_pts b)) = length (c_es (b_ch b)) /\ length (mp_R K M (b_pts b)) = length (c_es (b_ch b)) /\
  length (v_d1 (b_pf b)) = length Gb.

(** lengths of the scalar vectors a proof contributes *)
Lemma gh_loop_lengths w r1e s1e e2 e2z z yinv : forall s srev d yi yn, length srev = length s -> length d = length s ->
  length (fst (gh_loop K w r1e s1e e2 e2z z yinv s srev d yi yn)) = length s /\
  length (snd (gh_loop K w r1e s1e e2 e2z z yinv s srev d yi yn)) = length s.
Proof.
  induction s as [|si s IH]; intros [|sr srev] [|di d] yi yn H1 H2; cbn [length] in *; try discriminate; cbn [gh_loop fst snd length]; [auto|].
  specialize (IH srev d (yi * yinv) (yn * yinv) ltac:(lia) ltac:(lia)).
  destruct (gh_loop K w r1e s1e e2 e2z z yinv s srev d (yi * yinv) (yn * yinv)) as [gs hs]. cbn [fst snd length] in *. lia.
Qed.
Lemma v_loop_length w e2 z2 ynm1 : forall promises zpow, length (fst (v_loop K w e2 z2 ynm1 zpow promises)) = length promises.
Proof.
  induction promises as [|p ps IH]; intros zpow; cbn [v_loop fst length]; [reflexivity|].
  specialize (IH (zpow * z2)). destruct (v_loop K w e2 z2 ynm1 (zpow * z2) ps) as [vs h]. cbn [fst length] in *. lia.
Qed.

Lemma b_terms_shape max_mn b : b_ok max_mn b -> shape_ok K M Gb max_mn (b_terms b) (b_pts b).
Proof.
  intros (Hb & (a & Hm) & HN & Hnz & Hy & Hy1 & Hmax & LV & LL & LR & Ld).
  unfold b_terms, proof_terms, shape_ok, b_N in *.
  destruct (b_ch b) as [y z es e]. destruct (b_pf b) as [d1 r1 s1]. cbn [c_y c_z c_es c_e v_d1 v_r1 v_s1] in *.
  set (m := length (b_promises b)) in *. set (N := (m * b_bits b)%nat) in *.
  assert (Hm1 : 1 <= m) by (rewrite Hm; apply Nat.neq_0_lt_0, Nat.pow_nonzero; lia).
  set (esq := map (fun c => c * c) es).
  rewrite (s_loop_eq_s_rec K N _ esq) by (unfold esq; rewrite map_length; exact HN).
  rewrite (d_vec_naive K Kok (b_bits b) m z Hb Hm1).
  match goal with |- context [gh_loop K ?w ?a1 ?a2 ?a3 ?a4 ?a5 ?a6 ?s ?sr ?d ?yi ?yn] =>
    pose proof (gh_loop_lengths w a1 a2 a3 a4 a5 a6 s sr d yi yn) as GL;
    destruct (gh_loop K w a1 a2 a3 a4 a5 a6 s sr d yi yn) as [gs hs] end.
  rewrite rev_length, s_rec_length, d_naive_length in GL. unfold esq in GL. rewrite map_length in GL. fold N in GL.
  specialize (GL ltac:(reflexivity) ltac:(lia)). cbn [fst snd] in GL. destruct GL as [Lg Lh].
  match goal with |- context [v_loop K ?w ?e2 ?z2 ?yn ?zp ?pr] =>
    pose proof (v_loop_length w e2 z2 yn pr zp) as VL; destruct (v_loop K w e2 z2 yn zp pr) as [vs hp] end.
  cbn [fst] in VL. cbn [t_gi t_hi t_V t_L t_R t_Gb].
  rewrite !map_length. unfold esq. rewrite ?map_length. rewrite (invs_firstn K es y), map_length. repeat split; try lia; try congruence.
Qed.

Lemma map_fst_combine {A B} : forall (a : list A) (b : list B), length a = length b -> map fst (combine a b) = a /\ map snd (combine a b) = b.
Proof. induction a as [|x a IH]; intros [|z b] Hl; cbn [length] in Hl; try discriminate; cbn [combine map fst snd]; [auto|]. destruct (IH b ltac:(lia)) as [-> ->]. auto. Qed.

(** one member: its product against the owner's (longer) generator vectors is w * its textbook residual *)
Theorem member_is_weighted_residual max_mn b : b_ok max_mn b -> max_mn <= length G -> max_mn <= length Hv ->
  member_msm K M H Gb G Hv (b_terms b) (b_pts b) = b_w b *v b_residual b.
Proof.
  intros Hok HG HH. pose proof (b_terms_shape max_mn b Hok) as (S1 & S2 & _).
  destruct Hok as (Hb & (a & Hm) & HN & Hnz & Hy & Hy1 & Hmax & LV & LL & LR & Ld).
  unfold member_msm, b_residual.
  destruct (map_fst_combine (mp_L K M (b_pts b)) (mp_R K M (b_pts b)) ltac:(congruence)) as [EL ER].
  assert (Lgi : length (t_gi (b_terms b)) = b_N b).
  { pose proof (b_terms_shape max_mn b) as _. unfold b_terms, proof_terms, b_N in *.
    destruct (b_ch b) as [y z es e]. destruct (b_pf b) as [d1 r1 s1]. cbn [c_y c_z c_es c_e v_d1 v_r1 v_s1] in *.
    set (m := length (b_promises b)) in *.
    assert (Hm1 : 1 <= m) by (rewrite Hm; apply Nat.neq_0_lt_0, Nat.pow_nonzero; lia).
    rewrite (s_loop_eq_s_rec K (m * b_bits b) _ (map (fun c => c * c) es)) by (rewrite map_length; exact HN).
    rewrite (d_vec_naive K Kok (b_bits b) m z Hb Hm1).
    match goal with |- context [gh_loop K ?w ?a1 ?a2 ?a3 ?a4 ?a5 ?a6 ?s ?sr ?d ?yi ?yn] =>
      pose proof (gh_loop_lengths w a1 a2 a3 a4 a5 a6 s sr d yi yn) as GL;
      destruct (gh_loop K w a1 a2 a3 a4 a5 a6 s sr d yi yn) as [gs hs] end.
    rewrite rev_length, s_rec_length, d_naive_length, map_length in GL.
    specialize (GL ltac:(reflexivity) ltac:(lia)). cbn [fst snd] in GL.
    destruct (v_loop K _ _ _ _ _ _) as [vs hp]. cbn [t_gi]. lia. }
  unfold terms_msm.
  rewrite (msm_firstn K M (t_gi (b_terms b)) G), (msm_firstn K M (t_hi (b_terms b)) Hv). rewrite <- S1, Lgi.
  pose proof (verifier_equiv K Kok M Mok (b_bits b) a (b_promises b) H Gb (firstn (b_N b) G) (firstn (b_N b) Hv) (mp_V K M (b_pts b))
                (mp_A K M (b_pts b)) (mp_A1 K M (b_pts b)) (mp_B K M (b_pts b)) (combine (mp_L K M (b_pts b)) (mp_R K M (b_pts b)))
                (v_r1 (b_pf b)) (v_s1 (b_pf b)) (v_d1 (b_pf b)) (c_y (b_ch b)) (c_z (b_ch b)) (c_e (b_ch b)) (b_w b) (c_es (b_ch b))) as VE.
  unfold terms_msm in VE. rewrite EL, ER in VE.
  unfold b_terms. destruct (b_pf b) as [d1 r1 s1]. destruct (b_ch b) as [y z es e]. cbn [v_d1 v_r1 v_s1 c_y c_z c_es c_e] in *.
  apply VE; try assumption; unfold b_N in *.
  - rewrite firstn_length. lia.
  - rewrite firstn_length. lia.
  - rewrite combine_length. lia.
Qed.

(** THE THEOREM: the batch's final product is the weighted sum of the members' textbook residuals *)
Fixpoint weighted_residuals (bs : list bmember) : M :=
  match bs with [] => v0 M | b :: bs' => b_w b *v b_residual b +v weighted_residuals bs' end.

Theorem batch_is_weighted_residuals max_mn pad (bs : list bmember) :
  Forall (b_ok max_mn) bs -> max_mn <= length G -> max_mn <= length Hv ->
  let sc := final_msm K (acc_all K (acc_init K max_mn (length Gb)) (map b_terms bs)) pad in
  msm (fst sc) (interleaveM K M G Hv) +v msm (snd sc) (flat_map (dyn_of K M) (map b_pts bs) ++ Gb ++ [H]) = weighted_residuals bs.
Proof.
  intros Hok HG HH sc. subst sc.
  rewrite (batch_linear K Kok M Mok H Gb G Hv max_mn pad (map b_terms bs) (map b_pts bs)); try assumption.
  - induction bs as [|b bs IH]; cbn [map vsum_members weighted_residuals]; [reflexivity|].
    inversion Hok as [|? ? Hb Hok']; subst.
    rewrite (member_is_weighted_residual max_mn b Hb HG HH), IH by assumption. reflexivity.
  - now rewrite !map_length.
  - induction bs as [|b bs IH]; cbn [map]; constructor; inversion Hok; subst; [apply b_terms_shape; assumption|apply IH; assumption].
Qed.

(** consequences used by C03 and C08 *)
Corollary batch_accepts_if_all_accept max_mn pad bs :
  Forall (b_ok max_mn) bs -> max_mn <= length G -> max_mn <= length Hv ->
  Forall (fun b => b_residual b = v0 M) bs ->
  let sc := final_msm K (acc_all K (acc_init K max_mn (length Gb)) (map b_terms bs)) pad in
  msm (fst sc) (interleaveM K M G Hv) +v msm (snd sc) (flat_map (dyn_of K M) (map b_pts bs) ++ Gb ++ [H]) = v0 M.
Proof.
  intros Hok HG HH Hz sc. subst sc. rewrite (batch_is_weighted_residuals max_mn pad bs Hok HG HH).
  induction bs as [|b bs IH]; cbn [weighted_residuals]; [reflexivity|].
  inversion Hz as [|? ? Hb Hz']; inversion Hok; subst. rewrite Hb, IH by assumption.
  rewrite (smul_v0 K Kok M Mok). apply (vadd0 K M Mok).
Qed.
End BE.
