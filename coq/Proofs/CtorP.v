(** Proofs about the constructor model (C17). *)
From Coq Require Import NArith List Bool Lia.
From BP Require Import Model.Ctor.
Import ListNotations.
Open Scope N_scope.

Lemma is_pow2_iff x : is_pow2 x = true <-> exists a, x = 2 ^ a.
Proof.
  unfold is_pow2. rewrite andb_true_iff, negb_true_iff, N.eqb_neq, N.eqb_eq. split.
  - intros [_ H]. exists (N.log2 x). now symmetry.
  - intros [a ->]. split.
    + apply N.pow_nonzero. lia.
    + now rewrite N.log2_pow2 by lia.
Qed.

Lemma params_init_ok_iff bits cap :
  (exists st, params_init bits cap = Some st) <->
  ((exists a, bits = 2 ^ a) /\ bits <= 64 /\ (exists b, cap = 2 ^ b)).
Proof.
  unfold params_init, MAX_BITS.
  destruct (is_pow2 cap) eqn:Hc; destruct (is_pow2 bits) eqn:Hb; cbn [negb];
    destruct (N.ltb_spec 64 bits) as [Hl|Hl];
    rewrite <- ?is_pow2_iff, ?Hc, ?Hb; split;
    try (intros [st H]; discriminate H);
    try (intros (H1 & H2 & H3); try discriminate; lia).
  - intros _. repeat split; auto.
  - intros _. eauto.
Qed.

Lemma params_init_stores bits cap st : params_init bits cap = Some st -> st = (bits, cap).
Proof.
  unfold params_init. destruct (negb (is_pow2 cap)), (negb (is_pow2 bits)), (MAX_BITS <? bits);
    intros H; try discriminate; now inversion H.
Qed.

Lemma statement_init_ok_iff cap count pcount seed :
  (exists st, statement_init cap count pcount seed = Some st) <->
  ((exists a, count = 2 ^ a) /\ pcount = count /\ count <= cap /\ (seed = true -> count = 1)).
Proof.
  unfold statement_init. rewrite <- is_pow2_iff.
  destruct (is_pow2 count) eqn:Hp; cbn [negb].
  2:{ split; [intros [st H]; discriminate | intros (H & _); discriminate]. }
  destruct (N.eqb_spec pcount count) as [He|He]; cbn [negb].
  2:{ split; [intros [st H]; discriminate | intros (_ & H & _); contradiction]. }
  destruct (N.ltb_spec cap count) as [Hl|Hl].
  { split; [intros [st H]; discriminate | intros (_ & _ & H & _); lia]. }
  destruct seed; cbn [andb].
  - destruct (N.ltb_spec 1 count) as [H1|H1].
    + split; [intros [st H]; discriminate | intros (_ & _ & _ & H); specialize (H eq_refl); lia].
    + split; [intros _|eauto]. repeat split; auto. intros _.
      apply is_pow2_iff in Hp. destruct Hp as [a ->].
      destruct (N.eq_dec a 0) as [->|Ha]; [reflexivity|].
      assert (2 ^ 1 <= 2 ^ a) by (apply N.pow_le_mono_r; lia). simpl in H. lia.
  - split; [intros _|eauto]. repeat split; auto. discriminate.
Qed.

Lemma statement_init_stores cap count pcount seed st :
  statement_init cap count pcount seed = Some st -> st = (count, pcount, seed).
Proof.
  unfold statement_init.
  destruct (negb (is_pow2 count)), (negb (pcount =? count)), (cap <? count), (seed && (1 <? count))%bool;
    intros H; try discriminate; now inversion H.
Qed.

Lemma degree_of_u8_iff x : (exists d, degree_of_u8 x = Some d) <-> 1 <= x <= 6.
Proof.
  unfold degree_of_u8. destruct (N.leb_spec 1 x) as [H1|H1], (N.leb_spec x 6) as [H2|H2]; cbn [andb]; split;
    try (intros [d Hd]; discriminate Hd); try lia; eauto.
Qed.
Lemma degree_of_u8_val x d : degree_of_u8 x = Some d -> d = x.
Proof. unfold degree_of_u8. destruct ((1 <=? x) && (x <=? 6))%bool; intros H; now inversion H. Qed.

Lemma degree_of_usize_iff x : (exists d, degree_of_usize x = Some d) <-> 1 <= x <= 6.
Proof.
  unfold degree_of_usize. destruct (N.ltb_spec x 256).
  - apply degree_of_u8_iff.
  - split; [intros [d H0]; discriminate | lia].
Qed.
Lemma degree_of_usize_val x d : degree_of_usize x = Some d -> d = x.
Proof. unfold degree_of_usize. destruct (x <? 256); [apply degree_of_u8_val|discriminate]. Qed.

Lemma witness_init_ok_iff shape :
  (exists st, witness_init shape = Some st) <->
  (exists c0 rest, shape = c0 :: rest /\ 1 <= c0 <= 6 /\ Forall (fun c => c = c0) rest).
Proof.
  destruct shape as [|c0 rest]; cbn [witness_init].
  { split; [intros [st H]; discriminate | intros (c & r & H & _); discriminate]. }
  unfold r_len at 1. destruct (N.eqb_spec c0 0) as [H0|H0].
  { split; [intros [st H]; discriminate|]. intros (c & r & H & Hr & _). inversion H; subst. lia. }
  set (ok := forallb _ rest).
  assert (Hok : ok = true <-> Forall (fun c => c = c0) rest).
  { unfold ok. rewrite forallb_forall, Forall_forall. split; intros H x Hx; specialize (H x Hx).
    - unfold r_len in H. destruct (x =? 0); [discriminate|]. now apply N.eqb_eq.
    - subst x. unfold r_len. destruct (N.eqb_spec c0 0); [contradiction|]. apply N.eqb_refl. }
  destruct ok.
  - destruct (degree_of_usize c0) as [e|] eqn:He.
    + split; [intros _|eauto]. exists c0, rest. repeat split; try (apply Hok; reflexivity);
        apply degree_of_usize_iff; eauto.
    + split; [intros [st H]; discriminate|]. intros (c & r & H & Hr & _). inversion H; subst.
      apply degree_of_usize_iff in Hr. destruct Hr as [d Hd]. congruence.
  - split; [intros [st H]; discriminate|]. intros (c & r & H & _ & Hf). inversion H; subst.
    apply Hok in Hf. discriminate.
Qed.

Lemma witness_init_stores shape n e :
  witness_init shape = Some (n, e) -> n = N.of_nat (length shape) /\ e = hd 0 shape.
Proof.
  destruct shape as [|c0 rest]; cbn [witness_init]; [discriminate|].
  unfold r_len at 1. destruct (c0 =? 0); [discriminate|].
  destruct (forallb _ rest); [|discriminate].
  destruct (degree_of_usize c0) eqn:He; [|discriminate].
  intros H; inversion H; subst. split; [reflexivity|]. now apply degree_of_usize_val.
Qed.

Lemma mask_assign_ok_iff deg len : 1 <= deg <= 6 -> (mask_assign deg len = true <-> len = deg).
Proof.
  intros Hd. unfold mask_assign. rewrite negb_true_iff, orb_false_iff, negb_false_iff, !N.eqb_neq, N.eqb_eq.
  split; [tauto|]. intros ->. split; lia.
Qed.

Lemma commit_ok_iff deg len : commit_ok deg len = true <-> 1 <= len <= deg.
Proof.
  unfold commit_ok. rewrite negb_true_iff, orb_false_iff, N.eqb_neq, N.ltb_ge. lia.
Qed.
