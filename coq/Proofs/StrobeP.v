(** Structural facts about the Gallina STROBE/Merlin of Crypto/Strobe.v.  Nothing here is about Keccak-f being a good
    permutation (that is the random-oracle assumption of the trusted base); these are the facts about FRAMING the crate relies on:
    what a Merlin operation hands to the sponge, and that the sponge state before a challenge is a function of the operations
    before it only. *)
From Coq Require Import Arith NArith List Lia.
From BP Require Import Crypto.Keccak Crypto.Strobe.
Import ListNotations.
Local Open Scope N_scope.

Lemma absorb_app s a b : absorb s (a ++ b) = absorb (absorb s a) b.
Proof. unfold absorb. apply fold_left_app. Qed.

Lemma overwrite_app s a b : overwrite s (a ++ b) = overwrite (overwrite s a) b.
Proof. unfold overwrite. apply fold_left_app. Qed.

(** a [more = true] continuation is the same operation on the concatenated data *)
Lemma meta_ad_more a b s : meta_ad b true (meta_ad a false s) = meta_ad (a ++ b) false s.
Proof. unfold meta_ad. now rewrite absorb_app. Qed.

(** Merlin's framing of a message: ONE meta-AD operation over [label ++ LE32(length)], then ONE AD operation over the message *)
Lemma t_append_framed label msg s : t_append label msg s = ad msg (meta_ad (label ++ le32 (length msg)) false s).
Proof. unfold t_append. now rewrite meta_ad_more. Qed.

Lemma t_challenge_framed label n s : t_challenge label n s = prf n (meta_ad (label ++ le32 n) false s).
Proof. unfold t_challenge. now rewrite meta_ad_more. Qed.

Lemma r_rekey_framed label w s : r_rekey label w s = key w (meta_ad (label ++ le32 (length w)) false s).
Proof. unfold r_rekey. now rewrite meta_ad_more. Qed.

Lemma le_bytes_length k x : length (le_bytes k x) = k.
Proof. revert x; induction k as [|k IH]; intro x; cbn [le_bytes length]; [reflexivity | now rewrite IH]. Qed.

Lemma le_bytes_bound k x b : In b (le_bytes k x) -> b < 256.
Proof.
  revert x; induction k as [|k IH]; intro x; cbn [le_bytes In]; [tauto|].
  intros [<- | Hin]; [apply N.mod_lt; lia | eauto].
Qed.

(** LE32 is injective below 2^32: the length field separates messages of different lengths *)
Lemma le_bytes_inj k : forall x y, x < 256 ^ N.of_nat k -> y < 256 ^ N.of_nat k -> le_bytes k x = le_bytes k y -> x = y.
Proof.
  induction k as [|k IH]; intros x y Hx Hy E.
  - cbn in Hx, Hy. lia.
  - cbn [le_bytes] in E. injection E as E0 E1.
    assert (P : 256 ^ N.of_nat (S k) = 256 * 256 ^ N.of_nat k).
    { rewrite Nat2N.inj_succ, N.pow_succ_r'; reflexivity. }
    rewrite P in Hx, Hy.
    assert (Hq : x / 256 = y / 256).
    { apply IH; [apply N.div_lt_upper_bound; lia | apply N.div_lt_upper_bound; lia | exact E1]. }
    rewrite (N.div_mod x 256), (N.div_mod y 256) by lia. now rewrite Hq, E0.
Qed.

Lemma le32_inj a b : N.of_nat a < 4294967296 -> N.of_nat b < 4294967296 -> le32 a = le32 b -> a = b.
Proof.
  intros Ha Hb E. unfold le32 in E. apply Nat2N.inj. apply (le_bytes_inj 4); [exact Ha | exact Hb | exact E].
Qed.

(** two messages under the same label hand the same framed bytes to the sponge only if they are the same message *)
Lemma framed_message_injective (label m1 m2 : list N) :
  (label ++ le32 (length m1)) ++ m1 = (label ++ le32 (length m2)) ++ m2 -> length m1 = length m2 -> m1 = m2.
Proof.
  intros E L. rewrite L in E. now apply app_inv_head in E.
Qed.

(** ... and messages of different lengths (below 2^32 bytes) differ already in the length field *)
Lemma framed_length_field_injective (label m1 m2 : list N) :
  N.of_nat (length m1) < 4294967296 -> N.of_nat (length m2) < 4294967296 ->
  label ++ le32 (length m1) = label ++ le32 (length m2) -> length m1 = length m2.
Proof. intros H1 H2 E. apply app_inv_head in E. now apply le32_inj. Qed.
