(** Proofs about the secret-buffer discipline model (C20). *)
From Coq Require Import List Arith Bool String Lia.
From BP Require Import Model.Heap.
Import ListNotations.

Lemma filter_not_in i pending : ~ In i (filter (fun j => negb (Nat.eqb i j)) pending).
Proof.
  intros H. apply filter_In in H. destruct H as [_ H]. rewrite Nat.eqb_refl in H. discriminate.
Qed.

Lemma existsb_eqb_false i l : ~ In i l -> existsb (Nat.eqb i) l = false.
Proof.
  intros H. destruct (existsb (Nat.eqb i) l) eqn:E; [|reflexivity].
  apply existsb_exists in E. destruct E as (x & Hx & Ex). apply Nat.eqb_eq in Ex. subst. contradiction.
Qed.

(** invariant: every pending buffer index is below the next fresh index *)
Lemma lives_clean : forall bs i pending,
  (forall b, In b bs -> b_content b = Secret -> wipes (b_wrap b) = true) ->
  (forall j, In j pending -> j < i) ->
  dirty_frees pending (lives i bs) = [].
Proof.
  induction bs as [|b bs IH]; intros i pending Hd Hp; cbn [lives]; [reflexivity|].
  unfold life. cbn [app dirty_frees].
  assert (Hrest : forall pend', (forall j, In j pend' -> j < S i) -> dirty_frees pend' (lives (S i) bs) = []).
  { intros pend' Hp'. apply IH; [intros b' Hb'; apply Hd; now right|exact Hp']. }
  destruct (b_content b) eqn:Ec.
  - (* secret: must be wiped *)
    rewrite (Hd b (or_introl eq_refl) Ec). cbn [app dirty_frees].
    rewrite existsb_eqb_false by apply filter_not_in. cbn [app].
    apply Hrest. intros j Hj. apply filter_In in Hj. destruct Hj as [Hj _].
    destruct Hj as [<-|Hj]; [lia|]. specialize (Hp j Hj). lia.
  - destruct (wipes (b_wrap b)); cbn [app dirty_frees].
    + rewrite existsb_eqb_false by apply filter_not_in. cbn [app].
      apply Hrest. intros j Hj. apply filter_In in Hj. destruct Hj as [Hj _]. specialize (Hp j Hj). lia.
    + rewrite existsb_eqb_false by (intros Hi; specialize (Hp i Hi); lia). cbn [app].
      apply Hrest. intros j Hj. specialize (Hp j Hj). lia.
  - destruct (wipes (b_wrap b)); cbn [app dirty_frees].
    + rewrite existsb_eqb_false by apply filter_not_in. cbn [app].
      apply Hrest. intros j Hj. apply filter_In in Hj. destruct Hj as [Hj _]. specialize (Hp j Hj). lia.
    + rewrite existsb_eqb_false by (intros Hi; specialize (Hp i Hi); lia). cbn [app].
      apply Hrest. intros j Hj. specialize (Hp j Hj). lia.
Qed.

Theorem no_dirty_free bs : disciplined bs -> dirty_frees [] (lives 0 bs) = [].
Proof. intros H. apply lives_clean; [exact H|intros j []]. Qed.

Lemma prover_disciplined m T k seeded : disciplined (prover_buffers m T k seeded).
Proof.
  intros b Hb Hs. unfold prover_buffers in Hb. apply in_app_or in Hb. destruct Hb as [Hb|Hb].
  - cbn in Hb. repeat (destruct Hb as [<-|Hb]; [try reflexivity; try discriminate Hs|]). contradiction.
  - destruct seeded; cbn in Hb; [destruct Hb as [<-|[]]; reflexivity|contradiction].
Qed.

Lemma recover_disciplined T k : disciplined (recover_buffers T k).
Proof.
  intros b Hb Hs. cbn in Hb. repeat (destruct Hb as [<-|Hb]; [try reflexivity; try discriminate Hs|]). contradiction.
Qed.

Lemma owner_disciplined m : disciplined (owner_buffers m).
Proof.
  intros b Hb Hs. cbn in Hb. repeat (destruct Hb as [<-|Hb]; [try reflexivity; try discriminate Hs|]). contradiction.
Qed.

(** the unrepaired nonce derivation had a plain temporary holding the seed: the statement is refuted *)
Definition old_nonce_buffers : list buffer :=
  [ mkBuf "seed_nonce.to_bytes().to_vec()" Plain Secret 1; mkBuf "nonce key" Zeroizing Secret 1 ].
Lemma old_nonce_refuted : dirty_frees [] (lives 0 old_nonce_buffers) = [0].
Proof. reflexivity. Qed.
