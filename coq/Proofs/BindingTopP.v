(** C05 on the optimised verifier: an accepted proof with r1 (or s1, or d1) changed makes the multiscalar
    product the code-shaped verifier evaluates NON-ZERO under every non-zero batch weight — so the back
    end cannot find the identity and the verdict is an error.  Composition of Proofs/BindingP.v (textbook
    equation) with C02_verifier_accepts_iff. *)
From Coq Require Import List Arith NArith Lia Field Ring PeanoNat.
From BP Require Import Base.Field Model.Verifier Model.Spec Model.RangeSpec
     Proofs.FieldP Proofs.ModuleP Proofs.VerifierEquivP Proofs.BindingP.
Import ListNotations.

Section BTop.
Variable K : Fld.
Hypothesis Kok : FldOk K.
Add Field Kf : (Fth K Kok).
Variable M : Mod K.
Hypothesis Mok : ModOk K M.
Local Open Scope F_scope.
Notation "0" := (f0 K). Notation "1" := (f1 K).

Variables (H : M) (Gb G Hs : list M).
Hypothesis independent : forall cs, length cs = length (basis K M H Gb G Hs) -> msm cs (basis K M H Gb G Hs) = v0 M -> Forall (fun c => c = 0) cs.

Variables (bits a : nat) (Vs : list M) (promises : list (option N)) (A A1 B : M) (LR : list (M * M)) (y z e : K) (es : list K).
Hypothesis Hb : 1 <= bits.
Hypothesis Hm : length promises = 2 ^ a.
Hypothesis HN : (length promises * bits)%nat = 2 ^ length es.
Hypothesis Hes : Forall (fun c => c <> 0) es.
Hypothesis Hy : y <> 0.
Hypothesis Hy1 : y - 1 <> 0.
Hypothesis He : e <> 0.
Hypothesis LG : length G = (length promises * bits)%nat.
Hypothesis LH : length Hs = (length promises * bits)%nat.
Hypothesis LV : length Vs = length promises.
Hypothesis LLR : length LR = length es.

Definition product (r1 s1 : K) (d1 : list K) (w : K) : M :=
  terms_msm K M (proof_terms K bits promises (mkVproof K d1 r1 s1) (mkChals K y z es e) w) G Hs Vs H Gb A1 B A (map fst LR) (map snd LR).

Lemma product_zero_iff r1 s1 d1 w : w <> 0 ->
  (product r1 s1 d1 w = v0 M <-> accepts K M H Gb G Hs bits Vs promises A A1 B LR y z e es r1 s1 d1).
Proof. intros Hw. unfold product, accepts. apply (verifier_accepts_iff K Kok M Mok bits a); assumption. Qed.

Theorem altered_r1_refused r1 s1 d1 delta w w' : w <> 0 -> w' <> 0 -> delta <> 0 -> length d1 = length Gb ->
  product r1 s1 d1 w = v0 M -> product (r1 + delta) s1 d1 w' <> v0 M.
Proof.
  intros Hw Hw' Hd Ld Z X. apply (product_zero_iff _ _ _ w Hw) in Z. apply (product_zero_iff _ _ _ w' Hw') in X.
  exact (r1_binding K Kok M Mok H Gb G Hs independent bits Vs promises A A1 B LR y z e es ltac:(congruence) ltac:(congruence) LLR Hes He r1 s1 d1 delta Hd Ld Z X).
Qed.

Theorem altered_s1_refused r1 s1 d1 delta w w' : w <> 0 -> w' <> 0 -> delta <> 0 -> length d1 = length Gb ->
  product r1 s1 d1 w = v0 M -> product r1 (s1 + delta) d1 w' <> v0 M.
Proof.
  intros Hw Hw' Hd Ld Z X. apply (product_zero_iff _ _ _ w Hw) in Z. apply (product_zero_iff _ _ _ w' Hw') in X.
  exact (s1_binding K Kok M Mok H Gb G Hs independent bits Vs promises A A1 B LR y z e es ltac:(congruence) ltac:(congruence) LLR Hes He r1 s1 d1 delta Hd Ld Z X).
Qed.

Theorem altered_d1_refused r1 s1 d1 d1' w w' : w <> 0 -> w' <> 0 -> length d1 = length Gb -> length d1' = length Gb -> d1 <> d1' ->
  product r1 s1 d1 w = v0 M -> product r1 s1 d1' w' <> v0 M.
Proof.
  intros Hw Hw' L1 L2 Hne Z X. apply (product_zero_iff _ _ _ w Hw) in Z. apply (product_zero_iff _ _ _ w' Hw') in X.
  exact (d1_binding K Kok M Mok H Gb G Hs independent bits Vs promises A A1 B LR y z e es ltac:(congruence) ltac:(congruence) LLR r1 s1 d1 d1' L1 L2 Hne Z X).
Qed.
End BTop.
