(** C06 at the top of the executed model.  [prove_top] (Model/Prover.v) is prove_with_rng as a whole: the witness guard
    ([witness_valid], Model/Prover.v) in front of the proof computation ([prove_core]).  It returns a
    proof exactly when the guard holds (by definition; the guard IS the witness relation:
    C06_witness_valid_iff), and whenever it returns a proof, that proof — presented with the statement's
    own commitments — passes every guard of [verify_chunk] and the final product is the identity. *)
From Coq Require Import List Arith NArith Lia Field Ring PeanoNat Bool.
From BP Require Import Base.Field Model.Ctor Model.Codec Model.Transcript Model.Verifier Model.VerifyTop Model.Prover Model.Spec Model.RangeSpec
     Proofs.FieldP Proofs.ModuleP Proofs.GuardsP Proofs.CompleteP Proofs.BatchP Proofs.TopP Proofs.HonestTopP.
Import ListNotations.
Local Close Scope N_scope.

Section PT.
Variable K : Fld.
Hypothesis Kok : FldOk K.
Variable M : Mod K.
Hypothesis Mok : ModOk K M.
Infix "+v" := (vadd M) (at level 50, left associativity).

(** a witness that passes the guard reproduces the statement's commitments, position by position *)
Lemma commitments_of_witness (g : gens K M) T : forall (values : list N) (blindings : list (list K)) (commitments : list M),
  length values = length blindings -> length values = length commitments ->
  Forall (fun vc : N * list K * M => let '(v, r, c) := vc in 1 <= length r <= T /\ commit K M g (fofN K v) r = c)
         (combine (combine values blindings) commitments) ->
  commitments = map (fun vr => commit K M g (fofN K (fst vr)) (snd vr)) (combine values blindings).
Proof.
  induction values as [|v vs IH].
  - intros [|r rs] [|c cs] L1 L2 F; cbn [length] in *; try discriminate. reflexivity.
  - intros bl cm. destruct bl as [|r rs]; destruct cm as [|c cs]; intros L1 L2 F; cbn [length] in *; try discriminate.
    cbn [combine map fst snd] in *. inversion F as [|? ? Hh F']; subst. destruct Hh as [_ Hc]. f_equal; [symmetry; exact Hc|]. apply IH; [lia|lia|exact F'].
Qed.

(** a valid witness keeps every promise inside the bit length (the verifier's promise guard never fires on it) *)
Lemma valid_promises_fit bits : forall (values : list N) (promises : list (option N)),
  length values = length promises ->
  Forall (fun v => bits < 64 -> (v < 2 ^ N.of_nat bits)%N) values ->
  Forall (fun vp : N * option N => match snd vp with Some mv => (mv <= fst vp)%N | None => True end) (combine values promises) ->
  forallb (promise_fits bits) promises = true.
Proof.
  induction values as [|v vs IH]; (intros [|p ps] L Fv Fp; cbn [length] in *; try discriminate); [reflexivity|].
  cbn [combine forallb] in *. inversion Fv as [|? ? Hv Fv']; inversion Fp as [|? ? Hp Fp']; subst. cbn [fst snd] in Hp.
  rewrite (IH ps) by (assumption || lia). rewrite andb_true_r.
  destruct p as [mv|]; [|reflexivity]. unfold promise_fits. rewrite negb_true_iff, andb_false_iff.
  destruct (Nat.ltb_spec bits 64) as [Hb|Hb]; [right|left; reflexivity].
  destruct (0 <? N.shiftr mv (N.of_nat bits))%N eqn:E; [|reflexivity]. apply shiftr_pos_iff in E. specialize (Hv Hb). lia.
Qed.

Lemma valid_offsets_in_range bits : forall (values : list N) (promises : list (option N)),
  bits <= 64 -> Forall (fun v => (v < 2 ^ 64)%N) values ->
  Forall (fun v => bits < 64 -> (v < 2 ^ N.of_nat bits)%N) values ->
  Forall (fun vp : N * option N => (offset_value (fst vp) (snd vp) < 2 ^ N.of_nat bits)%N) (combine values promises).
Proof.
  intros values promises Hb F64 Fv. apply Forall_forall. intros [v p] Hin. apply in_combine_l in Hin.
  rewrite Forall_forall in F64, Fv. specialize (F64 v Hin). specialize (Fv v Hin). cbn [fst snd].
  assert (Hv : (v < 2 ^ N.of_nat bits)%N).
  { destruct (Nat.lt_ge_cases bits 64) as [Hlt|Hge]; [exact (Fv Hlt)|]. assert (bits = 64) by lia. subst bits. exact F64. }
  unfold offset_value. destruct p; lia.
Qed.

Variable ofN : N -> K.
Variable toN : K -> N.
Hypothesis ofN_toN : forall x, ofN (toN x) = x.
Variable enc : M -> N.
Variable dec : N -> M.
Hypothesis dec_enc : forall p, dec (enc p) = p.

Theorem prove_top_some_iff bits cap T g commitments promises values blindings wT nn ch :
  (exists p, prove_top K M bits cap T g commitments promises values blindings wT nn ch = Some p) <->
  witness_valid K M bits T (fofN K) g commitments promises values blindings wT = true.
Proof.
  unfold prove_top. destruct (witness_valid _ _ _ _ _ _ _ _ _ _ _); split; intros H; eauto; try discriminate.
  destruct H as [p H]; discriminate.
Qed.

Theorem prove_top_decision_independent bits cap T g commitments promises values blindings wT nn ch nn' ch' :
  (prove_top K M bits cap T g commitments promises values blindings wT nn ch = None) <->
  (prove_top K M bits cap T g commitments promises values blindings wT nn' ch' = None).
Proof.
  unfold prove_top. destruct (witness_valid _ _ _ _ _ _ _ _ _ _ _); split; intros E; try discriminate; reflexivity.
Qed.

Theorem emitted_proof_verifies (g : gens K M) bits cap (commitments : list M) (values : list N) (promises : list (option N))
        (blindings : list (list K)) wT (nn : nonces K) (ch : pchals K) seeded nonce mode (w : K) a p :
  let m := length values in
  let T := length (g_Gb g) in
  prove_top K M bits cap T g commitments promises values blindings wT nn ch = Some p ->
  (* what the validating constructors guarantee (C17) and the typing of u64 *)
  1 <= bits <= 64 -> m = 2 ^ a -> m <= cap -> length (g_G g) = (bits * cap)%nat -> length (g_Hv g) = (bits * cap)%nat ->
  1 <= T <= 6 -> (2 * N.of_nat bits * N.of_nat cap < 2 ^ 64)%N ->
  length promises = m -> length blindings = m -> Forall (fun r => length r = wT) blindings ->
  Forall (fun v => (v < 2 ^ 64)%N) values ->
  (* the oracles: challenges as the transcript checks them, nonces as C13 shapes them, no absorbed point is the identity *)
  (m * bits)%nat = 2 ^ length (pc_es ch) -> length (pc_es ch) < 64 ->
  pc_y ch <> f0 K -> fsub K (pc_y ch) (f1 K) <> f0 K -> pc_z ch <> f0 K -> pc_e ch <> f0 K -> Forall (fun e => e <> f0 K) (pc_es ch) ->
  wf_nonces K T (length (pc_es ch)) nn ->
  enc (g_H g) <> 0%N -> Forall (fun q => enc q <> 0%N) (g_Gb g) ->
  enc (pp_A p) <> 0%N -> enc (pp_A1 p) <> 0%N -> enc (pp_B p) <> 0%N ->
  Forall (fun q => enc q <> 0%N) (pp_L p) -> Forall (fun q => enc q <> 0%N) (pp_R p) ->
  mode <> RecoverOnly ->
  let mb := honest_member K M toN enc g bits cap values promises blindings nn ch seeded nonce in
  mb_Venc K mb = map enc commitments /\
  mb_proof K mb = mkProof (N.of_nat T) (map toN (pp_d1 p)) (enc (pp_A p)) (enc (pp_A1 p)) (enc (pp_B p)) (toN (pp_r1 p)) (toN (pp_s1 p))
                          (map enc (pp_L p)) (map enc (pp_R p)) /\
  exists sc,
    verify_chunk K ofN mode [mb] [w] true = (Ok [mask_of K ofN mode mb], Some sc) /\
    msm (fst sc) (interleaveM K M (g_G g) (g_Hv g)) +v msm (snd sc) (dyn_of K M (pts_of K M dec mb) ++ g_Gb g ++ [g_H g]) = v0 M.
Proof.
  intros m T E Hb Hm Hcap LG LH HT Hpad Lp Lb Fb F64 HN Hr64 Hy Hy1 Hz He Hes Wn EH EGb EA EA1 EB EL ER Hmode mb.
  unfold prove_top in E. destruct (witness_valid _ _ _ _ _ _ _ _ _ _ _) eqn:W; [|discriminate]. inversion E; subst p; clear E.
  apply (witness_valid_iff K M Mok) in W; [|fold m; lia|fold m; lia].
  destruct W as (Lc & HwT & Fv & Fc & Fp). subst wT.
  assert (Ecm : commitments = map (fun vr => commit K M g (fofN K (fst vr)) (snd vr)) (combine values blindings)).
  { apply (commitments_of_witness g T); [fold m; lia|exact Lc|exact Fc]. }
  split; [unfold mb, honest_member; cbn [mb_Venc]; now rewrite <- Ecm|]. split; [reflexivity|].
  apply (honest_chunk_accepted K Kok M Mok ofN toN ofN_toN enc dec dec_enc g bits cap values promises blindings nn ch seeded nonce mode w a);
    try assumption; try lia.
  - apply valid_offsets_in_range; [lia|exact F64|exact Fv].
  - apply (valid_promises_fit bits values promises); [fold m; lia|exact Fv|exact Fp].
Qed.
End PT.
