(** C02 at the top of the executed model, single proof: if [verify_chunk] accepts a one-member chunk in a
    verifying mode under a NON-ZERO weight (weights come out of the reject-zero loop: C08_weights_nonzero),
    the back end having found the final product to be the identity, then the TEXTBOOK Bulletproofs+
    verifier accepts that statement / proof pair (Model/RangeSpec.v [spec_accepts], on the decoded points). *)
From Coq Require Import List Arith NArith Lia Field Ring PeanoNat Bool.
From BP Require Import Base.Field Model.Ctor Model.Codec Model.Transcript Model.Verifier Model.VerifyTop Model.Prover Model.Spec Model.RangeSpec
     Proofs.FieldP Proofs.ModuleP Proofs.VerifierEquivP Proofs.GuardsP Proofs.WeightP Proofs.BatchP Proofs.BatchEquivP Proofs.VerifyTopP Proofs.TopP.
Import ListNotations.
Local Close Scope N_scope.

Section ST.
Variable K : Fld.
Hypothesis Kok : FldOk K.
Add Field Kf : (Fth K Kok).
Variable M : Mod K.
Hypothesis Mok : ModOk K M.
Local Open Scope F_scope.
Notation "0" := (f0 K). Notation "1" := (f1 K).
Infix "+v" := (vadd M) (at level 50, left associativity).
Infix "*v" := (smul M) (at level 40).
Variable ofN : N -> K.
Variable dec : N -> M.
Variables (H : M) (Gb G Hv : list M).

Theorem accepted_single_means_textbook_accepts mode mb w masks sc :
  mode <> RecoverOnly -> w <> 0 -> member_wf K M Gb mb ->
  verify_chunk K ofN mode [mb] [w] true = (Ok masks, Some sc) ->
  mb_N K mb <= length G -> mb_N K mb <= length Hv ->
  msm (fst sc) (interleaveM K M G Hv) +v msm (snd sc) (dyn_of K M (pts_of K M dec mb) ++ Gb ++ [H]) = v0 M ->
  let pr := mb_proof K mb in
  let Nn := (length (mb_promises K mb) * mb_bits K mb)%nat in
  spec_accepts K M (mb_bits K mb) H Gb (firstn Nn G) (firstn Nn Hv) (map dec (mb_Venc K mb)) (mb_promises K mb)
    (mkRproof K M (dec (p_a pr)) (combine (map dec (p_li pr)) (map dec (p_ri pr))) (dec (p_a1 pr)) (dec (p_b pr))
              (ofN (p_r1 pr)) (ofN (p_s1 pr)) (map ofN (p_d1 pr)))
    (c_y (mb_ch K mb)) (c_z (mb_ch K mb)) (c_es (mb_ch K mb)) (c_e (mb_ch K mb)).
Proof.
  intros Hmode Hw Hwf E HG HH Hz pr Nn.
  assert (Ec : exists mi, consistency K [mb] = Some (mb_N K mb, mi)).
  { unfold verify_chunk in E. destruct (consistency K [mb]) as [[mx mi]|] eqn:Ec; [|discriminate].
    exists mi. f_equal. f_equal. unfold consistency in Ec. destruct (negb (d1_degree_ok K mb (mb_T K mb))); [discriminate|].
    cbn [consistency_rest] in Ec. destruct (_ && _) in Ec; [|discriminate]. now inversion Ec. }
  pose proof (accepted_chunk_means_zero_weighted_residuals K Kok M Mok ofN dec H Gb G Hv mode [mb] [w] masks sc Hmode
                (Forall_cons _ Hwf (Forall_nil _)) E (mb_N K mb) Ec HG HH) as Z.
  cbn [map flat_map] in Z. rewrite app_nil_r in Z. specialize (Z Hz).
  cbn [to_bs hd weighted_residuals b_w to_b] in Z.
  assert (R0 : b_residual K M H Gb G Hv (to_b K M ofN dec mb w) = v0 M).
  { transitivity ((/ w) *v (w *v b_residual K M H Gb G Hv (to_b K M ofN dec mb w) +v v0 M)); [module_eq|].
    change (mkB K M (mb_bits K mb) (mb_promises K mb) (vproof_of K ofN (mb_proof K mb)) (mb_ch K mb) w (pts_of K M dec mb)) with (to_b K M ofN dec mb w) in Z.
    rewrite Z. apply (smul_v0 K Kok M Mok). }
  unfold b_residual, to_b, b_N, pts_of in R0. cbn [b_bits b_promises b_pf b_ch b_pts mp_V mp_A mp_A1 mp_B mp_L mp_R v_d1 v_r1 v_s1 vproof_of] in R0.
  fold pr in R0. fold Nn in R0.
  unfold spec_residual in R0. unfold spec_accepts.
  destruct (spec_sides K M _ _ _ _ _ _ _ _ _ _ _ _) as [lhs rhs].
  now apply (residual_zero_iff K Kok M Mok).
Qed.
End ST.
