(** The textbook verifier folds P and the generators round by round; unrolled, the folded generators
    are multiscalar products of the original ones with the coefficients the optimised verifier uses
    (s-vector, powers of y^-1), and the folded P is P_0 plus the weighted L and R messages. *)
From Coq Require Import List Arith Lia Field Ring PeanoNat.
From BP Require Import Base.Field Model.Verifier Model.Spec Proofs.FieldP Proofs.ModuleP Proofs.WipP Proofs.SvecP Proofs.ClosedP.
Import ListNotations.

Section Fold.
Variable K : Fld.
Hypothesis Kok : FldOk K.
Add Field Kf : (Fth K Kok).
Variable M : Mod K.
Hypothesis Mok : ModOk K M.
Local Open Scope F_scope.
Notation "0" := (f0 K). Notation "1" := (f1 K).
Infix "+v" := (vadd M) (at level 50, left associativity).
Infix "*v" := (smul M) (at level 40).
Notation fpow := (fpow K).

(** ** the three components of [verifier_fold] separately *)
Fixpoint fold_Gs (y : K) (es : list K) (G : list M) : list M :=
  match es with [] => G | e :: es' => fold_Gs y es' (fold_G K M y e G) end.
Fixpoint fold_Hs (es : list K) (Hs : list M) : list M :=
  match es with [] => Hs | e :: es' => fold_Hs es' (fold_H K M e Hs) end.
Fixpoint fold_P (es : list K) (LR : list (M * M)) (P : M) : M :=
  match es, LR with
  | e :: es', (L, R) :: LR' => fold_P es' LR' ((e * e) *v L +v P +v (/ e * / e) *v R)
  | _, _ => P
  end.

Lemma verifier_fold_split y : forall es LR P G Hs, length LR = length es ->
  verifier_fold K M y es LR P G Hs = (fold_P es LR P, fold_Gs y es G, fold_Hs es Hs).
Proof.
  induction es as [|e es IH]; intros [|[L R] LR] P G Hs Hl; cbn [length] in Hl; try discriminate; cbn [verifier_fold fold_P fold_Gs fold_Hs]; [reflexivity|].
  apply IH. lia.
Qed.

Lemma fold_P_msm : forall es LR P, length LR = length es ->
  fold_P es LR P = P +v msm (map (fun e => e * e) es) (map fst LR) +v msm (map (fun e => / e * / e) es) (map snd LR).
Proof.
  induction es as [|e es IH]; intros [|[L R] LR] P Hl; cbn [length] in Hl; try discriminate; cbn [fold_P map msm fst snd].
  - module_eq.
  - rewrite IH by lia. module_eq.
Qed.

(** ** coefficients of the folded generators *)
Fixpoint gcoef (y : K) (es : list K) : list K :=
  match es with
  | [] => [1]
  | e :: es' => let c := gcoef y es' in map (fmul K (/ e)) c ++ map (fmul K (e * / fpow y (2 ^ length es'))) c
  end.
Fixpoint hcoef (es : list K) : list K :=
  match es with
  | [] => [1]
  | e :: es' => let c := hcoef es' in map (fmul K e) c ++ map (fmul K (/ e)) c
  end.

Lemma gcoef_length y es : length (gcoef y es) = 2 ^ length es.
Proof. induction es as [|e es IH]; cbn [gcoef length Nat.pow]; [reflexivity|]. rewrite app_length, !map_length, IH. lia. Qed.
Lemma hcoef_length es : length (hcoef es) = 2 ^ length es.
Proof. induction es as [|e es IH]; cbn [hcoef length Nat.pow]; [reflexivity|]. rewrite app_length, !map_length, IH. lia. Qed.

Lemma msm_map2_lin (p q : K) : forall c (G1 G2 : list M), length G1 = length G2 ->
  msm c (map2 (fun g k => p *v g +v q *v k) G1 G2) = p *v msm c G1 +v q *v msm c G2.
Proof.
  induction c as [|x c IH]; intros [|g G1] [|k G2] Hl; cbn [length] in Hl; try discriminate; cbn [map2 msm].
  - module_eq.
  - module_eq.
  - module_eq.
  - rewrite IH by lia. module_eq.
Qed.

Lemma fold_Gs_msm y : forall es G, length G = 2 ^ length es -> fold_Gs y es G = [msm (gcoef y es) G].
Proof.
  induction es as [|e es IH]; intros G HG; cbn [fold_Gs gcoef length Nat.pow] in *.
  - destruct G as [|g [|? ?]]; try discriminate. cbn [msm]. f_equal. module_eq.
  - destruct (halves_app G (2 ^ length es)) as (lo & hi & -> & Eh & Llo & Lhi); [lia|].
    unfold fold_G. rewrite Eh. rewrite IH by (apply map2_len; assumption).
    f_equal. rewrite msm_map2_lin by congruence.
    rewrite (msm_app K Kok M Mok) by (rewrite map_length, gcoef_length; congruence).
    rewrite !(msm_scale_l K Kok M Mok). rewrite Llo. reflexivity.
Qed.

Lemma fold_Hs_msm : forall es Hs, length Hs = 2 ^ length es -> fold_Hs es Hs = [msm (hcoef es) Hs].
Proof.
  induction es as [|e es IH]; intros Hs HH; cbn [fold_Hs hcoef length Nat.pow] in *.
  - destruct Hs as [|g [|? ?]]; try discriminate. cbn [msm]. f_equal. module_eq.
  - destruct (halves_app Hs (2 ^ length es)) as (lo & hi & -> & Eh & Llo & Lhi); [lia|].
    unfold fold_H. rewrite Eh. rewrite IH by (apply map2_len; assumption).
    f_equal. rewrite msm_map2_lin by congruence.
    rewrite (msm_app K Kok M Mok) by (rewrite map_length, hcoef_length; congruence).
    rewrite !(msm_scale_l K Kok M Mok). reflexivity.
Qed.

(** ** the coefficients are the s-vector of the code *)
Lemma s_rec_scale (c s0 : K) : forall esq, s_rec K (c * s0) esq = map (fmul K c) (s_rec K s0 esq).
Proof.
  induction esq as [|e es IH]; cbn [s_rec map]; [reflexivity|].
  rewrite IH, map_app, !map_map. f_equal. apply map_ext. intros x. ring.
Qed.

Lemma map2_app {A B C} (f : A -> B -> C) : forall a1 b1 a2 b2, length a1 = length b1 ->
  map2 f (a1 ++ a2) (b1 ++ b2) = map2 f a1 b1 ++ map2 f a2 b2.
Proof. induction a1 as [|x a1 IH]; intros [|z b1] a2 b2 Hl; cbn [length] in Hl; try discriminate; cbn [app map2]; [reflexivity|]. f_equal. apply IH. lia. Qed.

Lemma map2_map_both {A B C A' B'} (f : A -> B -> C) (g : A' -> A) (h : B' -> B) : forall a b,
  map2 f (map g a) (map h b) = map2 (fun x z => f (g x) (h z)) a b.
Proof. induction a as [|x a IH]; intros [|z b]; cbn [map map2]; try reflexivity. now rewrite IH. Qed.

Lemma map_map2 {A B C D} (f : A -> B -> C) (g : C -> D) : forall a b, map g (map2 f a b) = map2 (fun x z => g (f x z)) a b.
Proof. induction a as [|x a IH]; intros [|z b]; cbn [map map2]; try reflexivity. now rewrite IH. Qed.

Lemma map2_ext {A B C} (f g : A -> B -> C) : (forall x z, f x z = g x z) -> forall a b, map2 f a b = map2 g a b.
Proof. intros E. induction a as [|x a IH]; intros [|z b]; cbn [map2]; try reflexivity. now rewrite E, IH. Qed.

Lemma powers_from_app acc y n k : powers_from K acc y (n + k) = powers_from K acc y n ++ powers_from K (acc * fpow y n) y k.
Proof.
  revert acc; induction n as [|n IH]; intros acc; cbn [Nat.add powers_from app Field.fpow].
  - replace (acc * 1) with acc by ring. reflexivity.
  - rewrite IH. do 3 f_equal. ring.
Qed.
Lemma powers_from_scale c acc y n : powers_from K (c * acc) y n = map (fmul K c) (powers_from K acc y n).
Proof.
  revert acc; induction n as [|n IH]; intros acc; cbn [powers_from map]; [reflexivity|].
  f_equal. rewrite <- IH. f_equal. ring.
Qed.

(** G side: coefficient i is y^-i s_i with s_0 the inverse of the product of all challenges *)
Theorem gcoef_s_vector y (Hy : y <> 0) : forall es, Forall (fun e => e <> 0) es ->
  gcoef y es = map2 (fmul K) (powers K (/ y) (2 ^ length es)) (s_rec K (fprod K (map (finv K) es)) (map (fun e => e * e) es)).
Proof.
  induction es as [|e es IH]; intros Hnz; cbn [gcoef length Nat.pow map s_rec Field.fprod fold_right].
  - cbn. f_equal. ring.
  - inversion Hnz as [|? ? He Hnz']; subst. specialize (IH Hnz').
    fold (fprod K (map (finv K) es)). set (s0 := fprod K (map (finv K) es)) in *.
    set (esq := map (fun e0 => e0 * e0) es) in *.
    rewrite (s_rec_scale (/ e) s0 esq).
    replace (2 * 2 ^ length es)%nat with (2 ^ length es + 2 ^ length es)%nat by lia.
    unfold powers in *. rewrite powers_from_app.
    rewrite map2_app by (rewrite (powers_from_length K), map_length, s_rec_length; unfold esq; now rewrite map_length).
    rewrite IH. f_equal.
    + generalize (powers_from K 1 (/ y) (2 ^ length es)) (s_rec K s0 esq). intros a b.
      revert b; induction a as [|x a IHa]; intros [|z b]; cbn [map2 map]; try reflexivity.
      rewrite IHa. f_equal. ring.
    + replace (1 * fpow (/ y) (2 ^ length es)) with (fpow (/ y) (2 ^ length es) * 1) by ring.
      rewrite powers_from_scale.
      rewrite (fpow_inv K Kok) by exact Hy.
      assert (Hp : fpow y (2 ^ length es) <> 0) by (apply (fpow_nz K Kok); exact Hy).
      generalize (powers_from K 1 (/ y) (2 ^ length es)) (s_rec K s0 esq). intros a b.
      revert b; induction a as [|x a IHa]; intros [|z b]; cbn [map2 map]; try reflexivity.
      rewrite IHa. f_equal. field. split; assumption.
Qed.

(** H side: the reversed s-vector *)
Theorem hcoef_s_vector : forall es, Forall (fun e => e <> 0) es ->
  hcoef es = rev (s_rec K (fprod K (map (finv K) es)) (map (fun e => e * e) es)).
Proof.
  induction es as [|e es IH]; intros Hnz; cbn [hcoef map s_rec Field.fprod fold_right rev].
  - cbn. reflexivity.
  - inversion Hnz as [|? ? He Hnz']; subst. specialize (IH Hnz').
    fold (fprod K (map (finv K) es)). set (s0 := fprod K (map (finv K) es)) in *.
    set (esq := map (fun e0 => e0 * e0) es) in *.
    rewrite (s_rec_scale (/ e) s0 esq). rewrite rev_app_distr, <- !map_rev, <- IH, !map_map.
    f_equal; apply map_ext; intros x; field; exact He.
Qed.
End Fold.
