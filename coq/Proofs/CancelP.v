(** C08 / C03: the algebra of the cancellation attack the checks mount (tools/props/c08.py, c03.py).  Shifting the response d1[k] of a member by
    delta moves its textbook residual by delta * Gb_k and nothing else.  So if two members i, j of a batch entered with factors w_i, w_j that did
    NOT change when their responses change, the shifts (w_j t, - w_i t) would leave the weighted sum of residuals — the batch's final product —
    exactly where it was: a batch of two individually invalid proofs would pass.  What prevents it is that the factors are drawn after every
    response has been absorbed (C08_verifier_rng_absorbs_all_responses): that dependence is necessary, not merely prudent. *)
From Coq Require Import List Arith NArith Lia Field Ring PeanoNat.
From BP Require Import Base.Field Model.Verifier Model.Spec Model.RangeSpec Proofs.FieldP Proofs.ModuleP Proofs.BatchP Proofs.BatchEquivP.
Import ListNotations.

Section Cancel.
Variable K : Fld.
Hypothesis Kok : FldOk K.
Add Field Kf : (Fth K Kok).
Variable M : Mod K.
Hypothesis Mok : ModOk K M.
Local Open Scope F_scope.
Notation "0" := (f0 K).
Infix "+v" := (vadd M) (at level 50, left associativity).
Infix "*v" := (smul M) (at level 40).
Variables (H : M) (Gb G Hv : list M).
Notation res := (b_residual K M H Gb G Hv).

Fixpoint add_at (k : nat) (delta : K) (l : list K) : list K :=
  match l, k with
  | [], _ => []
  | x :: l', O => (x + delta) :: l'
  | x :: l', S k' => x :: add_at k' delta l'
  end.

Lemma msm_add_at : forall (l : list K) (P : list M) k delta, k < length l -> length l = length P ->
  msm (add_at k delta l) P = msm l P +v delta *v nth k P (v0 M).
Proof.
  induction l as [|x l IH]; intros P k delta Hk Hl; cbn [length] in *; [lia|].
  destruct P as [|q P]; cbn [length] in Hl; [discriminate|]. destruct k as [|k]; cbn [add_at msm nth].
  - module_eq.
  - rewrite (IH P k delta) by lia. module_eq.
Qed.

(** why the checks insist that the generators a statement carries are pairwise DISTINCT points: over two equal generators a vector commitment
    binds only the sum of the two coefficients — the digit at position j can be moved from one side to the other without touching the commitment *)
Theorem equal_generators_not_binding (aL aR : list K) (Gs Hs : list M) j delta :
  j < length aL -> length aL = length Gs -> j < length aR -> length aR = length Hs ->
  nth j Gs (v0 M) = nth j Hs (v0 M) ->
  msm (add_at j delta aL) Gs +v msm (add_at j (- delta) aR) Hs = msm aL Gs +v msm aR Hs.
Proof.
  intros H1 H2 H3 H4 E. rewrite (msm_add_at aL Gs j delta H1 H2), (msm_add_at aR Hs j (- delta) H3 H4), E. module_eq.
Qed.

Definition shift_d1 (b : bmember K M) (k : nat) (delta : K) : bmember K M :=
  mkB K M (b_bits K M b) (b_promises K M b) (mkVproof K (add_at k delta (v_d1 (b_pf K M b))) (v_r1 (b_pf K M b)) (v_s1 (b_pf K M b)))
      (b_ch K M b) (b_w K M b) (b_pts K M b).

Theorem residual_of_shifted_response (b : bmember K M) k delta :
  k < length (v_d1 (b_pf K M b)) -> length (v_d1 (b_pf K M b)) = length Gb ->
  res (shift_d1 b k delta) = res b +v delta *v nth k Gb (v0 M).
Proof.
  intros Hk Hl. unfold b_residual, shift_d1, b_N. cbn [b_bits b_promises b_pf b_ch b_pts v_d1 v_r1 v_s1].
  unfold spec_residual, spec_sides. cbn [rp_A rp_LR rp_A1 rp_B rp_r1 rp_s1 rp_d1].
  destruct (verifier_fold K M _ _ _ _ _ _) as [[Pf Gf] Hf].
  rewrite (msm_add_at _ Gb k delta Hk Hl). module_eq.
Qed.

(** two members, factors that stay what they were: the weighted sum does not move *)
Theorem cancelling_shifts_leave_the_weighted_sum (bi bj : bmember K M) k t :
  k < length (v_d1 (b_pf K M bi)) -> length (v_d1 (b_pf K M bi)) = length Gb ->
  k < length (v_d1 (b_pf K M bj)) -> length (v_d1 (b_pf K M bj)) = length Gb ->
  let wi := b_w K M bi in let wj := b_w K M bj in
  wi *v res (shift_d1 bi k (wj * t)) +v wj *v res (shift_d1 bj k (- (wi * t))) = wi *v res bi +v wj *v res bj.
Proof.
  intros Hi Li Hj Lj wi wj. rewrite !residual_of_shifted_response by assumption. module_eq.
Qed.
(** any number of members, ANY factors [w] (those of the altered batch included): shifts [c_i * t] move the weighted sum by
    [(sum_i w_i c_i) * t] along [Gb_k].  Factors that satisfy an integer relation [sum_i w_i c_i = 0] whatever the responses are — a progression
    [a + i b] satisfies [w_0 - 2 w_1 + w_2 = 0] — therefore let three individually invalid proofs pass, although every factor did change with the
    responses.  This is the relation attack of tools/props/c08.py (the relation is found by lattice reduction on the observed factors). *)
Fixpoint wres (l : list (K * K * bmember K M)) : M :=
  match l with [] => v0 M | (w, _, b) :: l' => w *v res b +v wres l' end.
Fixpoint wres_shifted (k : nat) (t : K) (l : list (K * K * bmember K M)) : M :=
  match l with [] => v0 M | (w, c, b) :: l' => w *v res (shift_d1 b k (c * t)) +v wres_shifted k t l' end.
Fixpoint relation (l : list (K * K * bmember K M)) : K :=
  match l with [] => 0 | (w, c, _) :: l' => w * c + relation l' end.

Theorem shifts_along_a_relation k t (l : list (K * K * bmember K M)) :
  Forall (fun x => k < length (v_d1 (b_pf K M (snd x))) /\ length (v_d1 (b_pf K M (snd x))) = length Gb) l ->
  wres_shifted k t l = wres l +v (relation l * t) *v nth k Gb (v0 M).
Proof.
  induction l as [|[[w c] b] l IH]; intros F; cbn [wres wres_shifted relation].
  - module_eq.
  - inversion F as [|x l0 Hx F']; subst. cbn [snd] in Hx. destruct Hx as [Hk Hl].
    rewrite (IH F'), residual_of_shifted_response by assumption. module_eq.
Qed.

Corollary shifts_along_a_vanishing_relation k t (l : list (K * K * bmember K M)) :
  Forall (fun x => k < length (v_d1 (b_pf K M (snd x))) /\ length (v_d1 (b_pf K M (snd x))) = length Gb) l ->
  relation l = 0 -> wres_shifted k t l = wres l.
Proof. intros F R. rewrite (shifts_along_a_relation k t l F), R. module_eq. Qed.
End Cancel.
