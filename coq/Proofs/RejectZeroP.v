(** C08 / C13: the reject-zero loop returns non-zero scalars only, namely the first n non-zero draws in order. *)
From Coq Require Import List Arith Lia Bool.
From BP Require Import Base.Field Model.RejectZero Proofs.FieldP.
Import ListNotations.

Section RZP.
Variable K : Fld.
Hypothesis Kok : FldOk K.

Theorem take_nonzero_spec : forall draws n,
  take_nonzero K n draws = firstn n (filter (fun d => negb (is_zero K d)) draws).
Proof.
  induction draws as [|d ds IH]; intros n; cbn [take_nonzero filter]; [now rewrite firstn_nil|].
  destruct n as [|n]; [reflexivity|].
  destruct (is_zero K d); cbn [negb firstn]; [apply IH|]. f_equal. apply IH.
Qed.

Lemma in_firstn {A} (x : A) : forall n l, In x (firstn n l) -> In x l.
Proof. induction n as [|n IH]; intros [|y l] H; cbn [firstn] in H; try contradiction. destruct H as [->|H]; [now left|right; now apply IH]. Qed.

Theorem take_nonzero_nonzero draws n : Forall (fun d => d <> f0 K) (take_nonzero K n draws).
Proof.
  rewrite take_nonzero_spec. apply Forall_forall. intros d Hd. apply in_firstn in Hd.
  apply filter_In in Hd. destruct Hd as [_ Hz]. apply negb_true_iff in Hz. now apply (is_zero_false K Kok).
Qed.

Theorem take_nonzero_length draws n : n <= length (filter (fun d => negb (is_zero K d)) draws) -> length (take_nonzero K n draws) = n.
Proof. intros H. rewrite take_nonzero_spec, firstn_length. lia. Qed.
End RZP.
