(** C12: the proof the code-shaped prover emits does not depend on the capacity of the parameter object
    it was handed: two generator sets that agree on H, the blinding generators and the first m*bits
    vector generators (which is how every capacity is a prefix view of the same chains, Model/Gens.v)
    give the same proof, whatever the two capacities and paddings. *)
From Coq Require Import List Arith NArith Lia Field Ring PeanoNat.
From BP Require Import Base.Field Model.Verifier Model.Prover Model.Spec Model.RangeSpec
     Proofs.FieldP Proofs.ModuleP Proofs.WipP Proofs.ClosedP Proofs.FoldP Proofs.VerifierEquivP Proofs.BitsP
     Proofs.RangeRedP Proofs.ProverRefP Proofs.GuardsP Proofs.CompleteP.
Import ListNotations.

Section Cap.
Variable K : Fld.
Hypothesis Kok : FldOk K.
Add Field Kf : (Fth K Kok).
Variable M : Mod K.
Hypothesis Mok : ModOk K M.
Local Open Scope F_scope.
Notation "0" := (f0 K). Notation "1" := (f1 K).

Theorem prover_capacity_independent (g1 g2 : gens K M) bits cap1 cap2 (values : list N) (promises : list (option N))
        (blindings : list (list K)) (nn : nonces K) (ch : pchals K) a :
  let m := length values in
  let N := (m * bits)%nat in
  let T := length (g_Gb g1) in
  g_H g1 = g_H g2 -> g_Gb g1 = g_Gb g2 ->
  firstn N (g_G g1) = firstn N (g_G g2) -> firstn N (g_Hv g1) = firstn N (g_Hv g2) ->
  1 <= bits -> m = 2 ^ a -> m <= cap1 -> m <= cap2 ->
  length (g_G g1) = (bits * cap1)%nat -> length (g_Hv g1) = (bits * cap1)%nat ->
  length (g_G g2) = (bits * cap2)%nat -> length (g_Hv g2) = (bits * cap2)%nat ->
  N = 2 ^ length (pc_es ch) -> pc_y ch <> 0 -> Forall (fun e => e <> 0) (pc_es ch) ->
  length promises = m -> length blindings = m -> Forall (fun r => length r = T) blindings ->
  wf_nonces K T (length (pc_es ch)) nn ->
  prove_core K M bits cap1 g1 values promises blindings nn ch = prove_core K M bits cap2 g2 values promises blindings nn ch.
Proof.
  intros m N T EH EGb EG EHv Hb Hm Hc1 Hc2 LG1 LH1 LG2 LH2 HN Hy Hes Lp Lb Fb Wn.
  rewrite (prove_core_textbook K Kok M Mok g1 bits cap1 values promises blindings nn ch a Hb Hm Hc1 LG1 LH1 HN Hy Hes Lp Lb Fb Wn).
  assert (Fb2 : Forall (fun r => length r = length (g_Gb g2)) blindings) by (rewrite <- EGb; exact Fb).
  assert (Wn2 : wf_nonces K (length (g_Gb g2)) (length (pc_es ch)) nn) by (rewrite <- EGb; exact Wn).
  rewrite (prove_core_textbook K Kok M Mok g2 bits cap2 values promises blindings nn ch a Hb Hm Hc2 LG2 LH2 HN Hy Hes Lp Lb Fb2 Wn2).
  unfold textbook_proof. fold m. fold N.
  assert (LaL : length (a_L K bits values promises) = N) by (apply (a_L_length K); exact Lp).
  assert (HN1 : N <= bits * cap1) by (unfold N; rewrite (Nat.mul_comm m bits); apply Nat.mul_le_mono_l; exact Hc1).
  assert (HN2 : N <= bits * cap2) by (unfold N; rewrite (Nat.mul_comm m bits); apply Nat.mul_le_mono_l; exact Hc2).
  rewrite !(commit_A_capacity_independent K Kok M Mok) by (rewrite ?map_length, ?LaL; lia).
  rewrite (msm_firstn K M _ (g_G g1)), (msm_firstn K M _ (g_Hv g1)), (msm_firstn K M _ (g_G g2)), (msm_firstn K M _ (g_Hv g2)).
  rewrite !map_length, !LaL. rewrite <- EH, <- EGb, <- EG, <- EHv. reflexivity.
Qed.
End Cap.
