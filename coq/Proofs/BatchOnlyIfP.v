(** C03 / C08, the "only if" direction as far as it is deterministic: in the batch equation
    sum_p w_p * residual_p, a member whose textbook residual is non-zero lets the batch product vanish for
    AT MOST ONE value of its own weight, the other members and weights being fixed.  (That the weight —
    an oracle output on an input containing every proof of the chunk — avoids that one value except with
    probability 1/l is the random-oracle step and is not a theorem.) *)
From Coq Require Import List Arith NArith Lia Field Ring PeanoNat.
From BP Require Import Base.Field Model.Verifier Model.Prover Model.Spec Model.RangeSpec
     Proofs.FieldP Proofs.ModuleP Proofs.VerifierEquivP Proofs.WeightP Proofs.BatchP Proofs.BatchEquivP.
Import ListNotations.

Section OnlyIf.
Variable K : Fld.
Hypothesis Kok : FldOk K.
Add Field Kf : (Fth K Kok).
Variable M : Mod K.
Hypothesis Mok : ModOk K M.
Local Open Scope F_scope.
Infix "+v" := (vadd M) (at level 50, left associativity).
Infix "*v" := (smul M) (at level 40).
Variables (H : M) (Gb G Hv : list M).
Notation WR := (weighted_residuals K M H Gb G Hv).
Notation res := (b_residual K M H Gb G Hv).

Definition with_weight (b : bmember K M) (w : K) : bmember K M :=
  mkB K M (b_bits K M b) (b_promises K M b) (b_pf K M b) (b_ch K M b) w (b_pts K M b).

Lemma residual_ignores_weight b w : res (with_weight b w) = res b.
Proof. reflexivity. Qed.

Lemma WR_app pre post : WR (pre ++ post) = WR pre +v WR post.
Proof. induction pre as [|b pre IH]; cbn [app weighted_residuals]; [module_eq|]. rewrite IH. module_eq. Qed.

Theorem bad_member_unique_weight (pre post : list (bmember K M)) (b : bmember K M) (w w' : K) :
  res b <> v0 M ->
  WR (pre ++ with_weight b w :: post) = v0 M -> WR (pre ++ with_weight b w' :: post) = v0 M -> w = w'.
Proof.
  intros Hr E1 E2. rewrite WR_app in E1, E2. cbn [weighted_residuals with_weight b_w] in E1, E2.
  rewrite !residual_ignores_weight in E1, E2.
  apply (bad_weight_unique K Kok M Mok w w' (res b) (WR pre +v WR post) Hr).
  - rewrite <- E1. module_eq.
  - rewrite <- E2. module_eq.
Qed.
End OnlyIf.
