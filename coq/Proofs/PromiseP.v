(** C07: a promise enters the verification equation only through V_j - p_j H.  Raising the promise by d
    and the committed value by d (V_j + d H) leaves the textbook point P_0 — hence the whole algebraic
    check — unchanged; what tells the two statements apart is the transcript (C04/C07 log theorems). *)
From Coq Require Import List Arith NArith Lia Field Ring.
From BP Require Import Base.Field Model.Spec Model.RangeSpec Proofs.FieldP Proofs.ModuleP Proofs.ClosedP Proofs.BitsP.
Import ListNotations.

Section Promise.
Variable K : Fld.
Hypothesis Kok : FldOk K.
Add Field Kf : (Fth K Kok).
Variable M : Mod K.
Hypothesis Mok : ModOk K M.
Local Open Scope F_scope.
Infix "+v" := (vadd M) (at level 50, left associativity).
Infix "*v" := (smul M) (at level 40).

Lemma shifted_joint_shift (H V : M) (p d : N) :
  shifted K M H (V +v fofN K d *v H) (Some (p + d)%N) = shifted K M H V (Some p).
Proof. cbn [shifted]. rewrite (fofN_add K Kok). module_eq. Qed.

Lemma shifted_none_is_zero (H V : M) : shifted K M H V None = shifted K M H V (Some 0%N).
Proof. cbn [shifted Field.fofN]. module_eq. Qed.

(** P_0 depends on (V_j, p_j) only through V_j - p_j H *)
Theorem P0_depends_on_shifted_commitments bits (H : M) (G Hs Vs Vs' : list M) (promises promises' : list (option N)) (A : M) (y z : K) :
  length promises = length promises' ->
  map2 (shifted K M H) Vs promises = map2 (shifted K M H) Vs' promises' ->
  P0 K M bits H G Hs Vs promises A y z = P0 K M bits H G Hs Vs' promises' A y z.
Proof. intros Hl E. unfold P0. rewrite Hl, E. reflexivity. Qed.
End Promise.
