(** Completeness of the textbook zero-knowledge weighted-inner-product argument, for any number of
    rounds, any half-length, any number of blinding generators. *)
From Coq Require Import List Arith Lia Field Ring.
From BP Require Import Base.Field Model.Spec Proofs.FieldP Proofs.ModuleP.
Import ListNotations.

Section W.
Variable K : Fld.
Hypothesis Kok : FldOk K.
Add Field Kf : (Fth K Kok).
Variable M : Mod K.
Hypothesis Mok : ModOk K M.
Local Open Scope F_scope.
Notation "0" := (f0 K). Notation "1" := (f1 K).
Infix "+v" := (vadd M) (at level 50, left associativity).
Infix "*v" := (smul M) (at level 40).
Variables (H : M) (Gb : list M).

Notation wipk := (wipk K).
Notation Com := (Com K M H Gb).

Lemma wipk_scale c y : forall a b yp, wipk (yp * c) y a b = c * wipk yp y a b.
Proof.
  induction a as [|x a IH]; intros [|z b] yp; cbn [Spec.wipk]; try ring.
  replace (yp * c * y) with (yp * y * c) by ring. rewrite IH. ring.
Qed.
Lemma wipk_app y : forall a1 b1 a2 b2 yp, length a1 = length b1 ->
  wipk yp y (a1 ++ a2) (b1 ++ b2) = wipk yp y a1 b1 + wipk (yp * fpow K y (length a1)) y a2 b2.
Proof.
  induction a1 as [|x a1 IH]; intros [|z b1] a2 b2 yp Hl; cbn [app Spec.wipk length fpow] in *; try discriminate.
  - replace (yp * 1) with yp by ring. ring.
  - rewrite IH by lia. replace (yp * y * fpow K y (length a1)) with (yp * (y * fpow K y (length a1))) by ring. ring.
Qed.
Lemma wipk_bilinear y (p q r s : K) : forall a1 a2 b1 b2 yp,
  length a1 = length a2 -> length b1 = length a1 -> length b2 = length a1 ->
  wipk yp y (map2 (fun x z => p * x + q * z) a1 a2) (map2 (fun x z => r * x + s * z) b1 b2)
  = p * r * wipk yp y a1 b1 + p * s * wipk yp y a1 b2 + q * r * wipk yp y a2 b1 + q * s * wipk yp y a2 b2.
Proof.
  induction a1 as [|x a1 IH]; intros [|x2 a2] [|z1 b1] [|z2 b2] yp H1 H2 H3; cbn [map2 Spec.wipk length] in *; try discriminate; try ring.
  rewrite IH by lia. ring.
Qed.

Lemma map2_len {A B C} (f : A -> B -> C) : forall u w k, length u = k -> length w = k -> length (map2 f u w) = k.
Proof. induction u as [|a0 u IH]; intros [|b0 w] k Hu Hw; cbn [map2 length] in *; subst; try discriminate; auto. Qed.

Section Round.
Variables (y e : K) (a_lo a_hi b_lo b_hi dL dR alpha : list K) (G_lo G_hi H_lo H_hi : list M).
Let h := length a_lo.
Hypothesis La : length a_hi = h. Hypothesis Lbl : length b_lo = h. Hypothesis Lbh : length b_hi = h.
Hypothesis LGl : length G_lo = h. Hypothesis LGh : length G_hi = h.
Hypothesis LHl : length H_lo = h. Hypothesis LHh : length H_hi = h.
Hypothesis LdL : length dL = length alpha. Hypothesis LdR : length dR = length alpha.
Hypothesis e_nz : e <> 0. Hypothesis yh_nz : fpow K y h <> 0.
Let yh := fpow K y h. Let yhi := / yh. Let ei := / e.
Definition cL := wipk y y a_lo b_hi.
Definition cR := wipk (y * yh) y a_hi b_lo.
Definition Lp := cL *v H +v msm dL Gb +v msm (map (fmul K yhi) a_lo) G_hi +v msm b_hi H_lo.
Definition Rp := cR *v H +v msm dR Gb +v msm (map (fmul K yh) a_hi) G_lo +v msm b_lo H_hi.
Definition a' := map2 (fun x z => e * x + (ei * yh) * z) a_lo a_hi.
Definition b' := map2 (fun x z => ei * x + e * z) b_lo b_hi.
Definition G' := map2 (fun g k => ei *v g +v (e * yhi) *v k) G_lo G_hi.
Definition H' := map2 (fun g k => e *v g +v ei *v k) H_lo H_hi.
Definition alpha' := map2 (fadd K) alpha (map2 (fadd K) (map (fmul K (e * e)) dL) (map (fmul K (ei * ei)) dR)).

Theorem wip_round :
  (e * e) *v Lp +v Com y (a_lo ++ a_hi) (b_lo ++ b_hi) alpha (G_lo ++ G_hi) (H_lo ++ H_hi) +v (ei * ei) *v Rp
  = Com y a' b' alpha' G' H'.
Proof.
  unfold Spec.Com, Lp, Rp, a', b', G', H', alpha', cL, cR.
  rewrite !(msm_app K Kok M Mok) by (fold h; congruence).
  rewrite wipk_app by (fold h; congruence). fold h. fold yh.
  rewrite (msm_fold_bilinear K Kok M Mok e (ei * yh) ei (e * yhi)) by (fold h; congruence).
  rewrite (msm_fold_bilinear K Kok M Mok ei e e ei) by (fold h; congruence).
  rewrite (wipk_bilinear y e (ei * yh) ei e) by (fold h; congruence).
  rewrite (msm_add_scalars K Kok M Mok) by (rewrite (map2_len _ _ _ (length alpha)); rewrite ?map_length; congruence).
  rewrite (msm_add_scalars K Kok M Mok) by (rewrite !map_length; congruence).
  rewrite !(msm_scale_l K Kok M Mok).
  replace (wipk (y * yh) y a_hi b_hi) with (yh * wipk y y a_hi b_hi) by (now rewrite wipk_scale).
  replace (wipk (y * yh) y a_hi b_lo) with (yh * wipk y y a_hi b_lo) by (now rewrite wipk_scale).
  unfold yhi, ei. module_eq.
Qed.
End Round.

Lemma halves_app {A} (l : list A) k : length l = Nat.mul 2 k ->
  exists lo hi, l = lo ++ hi /\ halves l = (lo, hi) /\ length lo = k /\ length hi = k.
Proof.
  intros Hl. exists (firstn k l), (skipn k l). unfold halves.
  replace (length l / 2)%nat with k by (rewrite Hl, Nat.mul_comm, Nat.div_mul; lia).
  rewrite firstn_skipn, firstn_length, skipn_length. repeat split; lia.
Qed.

Notation final_state := (final_state K).
Notation prover_msgs := (prover_msgs K M H Gb).
Notation verifier_fold := (verifier_fold K M).

(** The invariant P = Com(a, b, alpha; G, H) is carried through any number of rounds. *)
Theorem wip_fold_invariant y (Hy : y <> 0) : forall rs k (a b alpha : list K) (G Hs : list M) P,
  k = length rs ->
  length a = Nat.pow 2 k -> length b = Nat.pow 2 k -> length G = Nat.pow 2 k -> length Hs = Nat.pow 2 k ->
  Forall (wf_round K (length alpha)) rs ->
  P = Com y a b alpha G Hs ->
  let '(a', b', alpha') := final_state y rs a b alpha in
  let '(P', G', H') := verifier_fold y (map r_e rs) (prover_msgs y rs a b alpha G Hs) P G Hs in
  P' = Com y a' b' alpha' G' H' /\ length a' = 1%nat /\ length b' = 1%nat /\ length G' = 1%nat /\ length H' = 1%nat
  /\ length alpha' = length alpha.
Proof.
  induction rs as [|r rs IH]; intros k a b alpha G Hs P Hk La Lb LG LH Hwf HP; cbn [Spec.final_state Spec.prover_msgs Spec.verifier_fold map] in *.
  - subst k. cbn in *. auto 10.
  - subst k. cbn [length Nat.pow] in La, Lb, LG, LH.
    inversion Hwf as [|? ? [He [HdL HdR]] Hwf']; subst.
    destruct (halves_app a (Nat.pow 2 (length rs))) as (alo & ahi & -> & Ea & Lalo & Lahi); [lia|].
    destruct (halves_app b (Nat.pow 2 (length rs))) as (blo & bhi & -> & Eb & Lblo & Lbhi); [lia|].
    destruct (halves_app G (Nat.pow 2 (length rs))) as (Glo & Ghi & -> & EG & LGlo & LGhi); [lia|].
    destruct (halves_app Hs (Nat.pow 2 (length rs))) as (Hlo & Hhi & -> & EH & LHlo & LHhi); [lia|].
    assert (Lal' : length (fold_alpha K (r_e r) alpha (r_dL r) (r_dR r)) = length alpha).
    { unfold fold_alpha. apply map2_len; [reflexivity|]. apply map2_len; rewrite map_length; congruence. }
    specialize (IH (length rs) (fold_a K y (r_e r) (alo ++ ahi)) (fold_b K (r_e r) (blo ++ bhi))
                   (fold_alpha K (r_e r) alpha (r_dL r) (r_dR r)) (fold_G K M y (r_e r) (Glo ++ Ghi)) (fold_H K M (r_e r) (Hlo ++ Hhi))
                   ((r_e r * r_e r) *v mk_L K M H Gb y (alo ++ ahi) (blo ++ bhi) (r_dL r) (Glo ++ Ghi) (Hlo ++ Hhi)
                     +v Com y (alo ++ ahi) (blo ++ bhi) alpha (Glo ++ Ghi) (Hlo ++ Hhi)
                     +v (/ (r_e r) * / (r_e r)) *v mk_R K M H Gb y (alo ++ ahi) (blo ++ bhi) (r_dR r) (Glo ++ Ghi) (Hlo ++ Hhi)) eq_refl).
    unfold fold_a, fold_b, fold_G, fold_H, mk_L, mk_R in IH |- *. rewrite Ea, Eb, EG, EH in IH |- *.
    rewrite Lal' in IH.
    destruct (final_state y rs _ _ _) as [[a' b'] alpha'].
    destruct (verifier_fold y (map r_e rs) _ _ _ _) as [[P' G'] H'].
    apply IH; try (apply map2_len; congruence); try assumption.
    replace (length Glo) with (length alo) by congruence.
    apply (wip_round y (r_e r) alo ahi blo bhi (r_dL r) (r_dR r) alpha Glo Ghi Hlo Hhi); try congruence.
    apply (fpow_nz K Kok); exact Hy.
Qed.

(** final round: the verifier's check holds for the honest responses *)
Theorem wip_final y e a b r s (alpha d eta : list K) (G Hf : M) :
  length d = length alpha -> length eta = length alpha ->
  final_check K M H Gb y e (Com y [a] [b] alpha [G] [Hf])
     (final_A1 K M H Gb y a b r s d G Hf) (final_B K M H Gb y r s eta)
     (r + a * e) (s + b * e) (final_d1 K e alpha d eta) G Hf.
Proof.
  intros Ld Le. unfold final_check, final_A1, final_B, final_d1, Spec.Com. cbn [msm Spec.wipk].
  rewrite (msm_add_scalars K Kok M Mok) by (rewrite (map2_len _ _ _ (length alpha)); rewrite ?map_length; congruence).
  rewrite (msm_add_scalars K Kok M Mok) by (rewrite !map_length; congruence).
  rewrite !(msm_scale_l K Kok M Mok). module_eq.
Qed.

(** Completeness of the whole argument: honest messages for a commitment of the right form pass the
    verifier's folded final check, for every number of rounds. *)
Theorem wip_complete y (Hy : y <> 0) rs (a b alpha : list K) (G Hs : list M) e r s d eta :
  let k := length rs in
  length a = Nat.pow 2 k -> length b = Nat.pow 2 k -> length G = Nat.pow 2 k -> length Hs = Nat.pow 2 k ->
  Forall (wf_round K (length alpha)) rs ->
  length d = length alpha -> length eta = length alpha ->
  let '(af, bf, alphaf) := final_state y rs a b alpha in
  let '(Pf, Gf, Hf) := verifier_fold y (map r_e rs) (prover_msgs y rs a b alpha G Hs) (Com y a b alpha G Hs) G Hs in
  let a0 := hd 0 af in let b0 := hd 0 bf in let G0 := hd (v0 M) Gf in let H0 := hd (v0 M) Hf in
  final_check K M H Gb y e Pf (final_A1 K M H Gb y a0 b0 r s d G0 H0) (final_B K M H Gb y r s eta)
     (r + a0 * e) (s + b0 * e) (final_d1 K e alphaf d eta) G0 H0.
Proof.
  intros k La Lb LG LH Hwf Ld Le.
  pose proof (wip_fold_invariant y Hy rs k a b alpha G Hs (Com y a b alpha G Hs) eq_refl La Lb LG LH Hwf eq_refl) as Inv.
  destruct (final_state y rs a b alpha) as [[af bf] alphaf].
  destruct (verifier_fold y (map r_e rs) _ _ _ _) as [[Pf Gf] Hf].
  destruct Inv as (EP & Laf & Lbf & LGf & LHf & Lalf).
  destruct af as [|a0 [|? ?]]; try discriminate. destruct bf as [|b0 [|? ?]]; try discriminate.
  destruct Gf as [|G0 [|? ?]]; try discriminate. destruct Hf as [|H0 [|? ?]]; try discriminate.
  cbn [hd]. rewrite EP. apply wip_final; congruence.
Qed.
End W.
