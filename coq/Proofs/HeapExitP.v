(** C20: under the discipline "sensitive data is only written into buffers that already sit inside a
    wiping wrapper", NO early return — after any number of steps of the path — frees a block that still
    holds sensitive data; and the late-wrapping variant (seeded change C20c) is refuted. *)
From Coq Require Import List Arith Bool Lia.
From BP Require Import Model.Heap Model.HeapExit.
Import ListNotations.
Close Scope string_scope.
Open Scope list_scope.

Fixpoint pend_after (pending : list nat) (es : list event) : list nat :=
  match es with
  | [] => pending
  | WriteE i c :: es' => if sensitive c then pend_after (i :: pending) es' else pend_after pending es'
  | Wipe i :: es' => pend_after (filter (fun j => negb (Nat.eqb i j)) pending) es'
  | _ :: es' => pend_after pending es'
  end.

Lemma dirty_app : forall a b p, dirty p (a ++ b) = dirty p a ++ dirty (pend_after p a) b.
Proof.
  induction a as [|e a IH]; intros b p; cbn [app dirty pend_after]; [reflexivity|].
  destruct e as [i|i c|i|i]; cbn [dirty pend_after]; try apply IH.
  - destruct (sensitive c); apply IH.
  - rewrite IH, app_assoc. reflexivity.
Qed.

Lemma pend_after_app : forall a b q, pend_after q (a ++ b) = pend_after (pend_after q a) b.
Proof.
  induction a as [|e a IHa]; intros b q; cbn [app pend_after]; [reflexivity|].
  destruct e as [x|x c|x|x]; cbn [pend_after]; try apply IHa. destruct (sensitive c); apply IHa.
Qed.

Definition Inv (p : list nat) (l : live) : Prop := forall i, In i p -> wipes (wrapper_of l i) = true /\ In i (map fst l).

Lemma existsb_ids_false i (l : live) : existsb (fun jw => Nat.eqb i (fst jw)) l = false -> ~ In i (map fst l).
Proof.
  intros E H. apply in_map_iff in H. destruct H as ([j w] & <- & Hin).
  assert (X : existsb (fun jw => Nat.eqb (fst (j, w)) (fst jw)) l = true) by (apply existsb_exists; exists (j, w); split; [exact Hin|apply Nat.eqb_refl]).
  cbn [fst] in *. congruence.
Qed.

Lemma not_in_filter_self i p : ~ In i (filter (fun j => negb (Nat.eqb i j)) p).
Proof. intros H. apply filter_In in H. destruct H as [_ H]. rewrite Nat.eqb_refl in H. discriminate. Qed.
Lemma existsb_false_of_notin i p : ~ In i p -> existsb (Nat.eqb i) p = false.
Proof.
  intros H. destruct (existsb (Nat.eqb i) p) eqn:E; [|reflexivity]. apply existsb_exists in E. destruct E as (x & Hx & Ex).
  apply Nat.eqb_eq in Ex. subst. contradiction.
Qed.

Lemma wrapper_of_remove l i j : i <> j -> wrapper_of (remove_live l i) j = wrapper_of l j.
Proof.
  intros Hij. induction l as [|[k w] l IH]; cbn [remove_live wrapper_of]; [reflexivity|].
  destruct (Nat.eqb_spec i k) as [->|Hik].
  - destruct (Nat.eqb_spec j k); [congruence|reflexivity].
  - cbn [wrapper_of]. destruct (Nat.eqb_spec j k); [reflexivity|exact IH].
Qed.
Lemma ids_remove l i j : i <> j -> In j (map fst l) -> In j (map fst (remove_live l i)).
Proof.
  intros Hij. induction l as [|[k w] l IH]; cbn [remove_live map fst In]; [tauto|].
  intros [E|H].
  - subst k. destruct (Nat.eqb_spec i j); [contradiction|]. cbn [map fst In]. now left.
  - destruct (Nat.eqb_spec i k); [exact H|]. cbn [map fst In]. right. now apply IH.
Qed.
Lemma nodup_remove l i : NoDup (map fst l) -> NoDup (map fst (remove_live l i)).
Proof.
  induction l as [|[k w] l IH]; cbn [remove_live map fst]; intros H; [constructor|].
  inversion H as [|? ? Hk Hl]; subst. destruct (Nat.eqb_spec i k); [exact Hl|].
  cbn [map fst]. constructor; [|now apply IH].
  intros X. apply Hk. clear - X. induction l as [|[a b] l IHl]; cbn [remove_live map fst In] in *; [tauto|].
  destruct (Nat.eqb i a); cbn [map fst In] in *; tauto.
Qed.
Lemma ids_rewrap l i w : map fst (rewrap l i w) = map fst l.
Proof. induction l as [|[k w0] l IH]; cbn [rewrap map fst]; [reflexivity|]. destruct (Nat.eqb i k); cbn [map fst]; [reflexivity|now rewrite IH]. Qed.
Lemma wrapper_of_rewrap l i w j : wrapper_of (rewrap l i w) j = if Nat.eqb j i then (if existsb (fun jw => Nat.eqb i (fst jw)) l then w else Plain) else wrapper_of l j.
Proof.
  induction l as [|[k w0] l IH]; cbn [rewrap wrapper_of existsb fst].
  - destruct (Nat.eqb j i); reflexivity.
  - destruct (Nat.eqb_spec i k) as [->|Hik]; cbn [wrapper_of orb].
    + destruct (Nat.eqb_spec j k); reflexivity.
    + rewrite IH. destruct (Nat.eqb_spec j k) as [->|Hjk].
      * destruct (Nat.eqb_spec k i); [congruence|reflexivity].
      * reflexivity.
Qed.

(** one run, from any state satisfying the invariant *)
Lemma exec_clean : forall prog l p, NoDup (map fst l) -> Inv p l -> disciplined_prog prog l = true ->
  dirty p (fst (exec prog l)) = [] /\ NoDup (map fst (snd (exec prog l))) /\ Inv (pend_after p (fst (exec prog l))) (snd (exec prog l)).
Proof.
  induction prog as [|s prog IH]; intros l p Hnd Hinv Hd; cbn [exec fst snd dirty pend_after]; [auto|].
  destruct s as [i w|i c|i w|i]; cbn [disciplined_prog] in Hd.
  - apply andb_true_iff in Hd. destruct Hd as [Hfresh Hd]. apply negb_true_iff in Hfresh. apply existsb_ids_false in Hfresh.
    specialize (IH ((i, w) :: l) p).
    destruct (exec prog ((i, w) :: l)) as [es l'] eqn:E. cbn [fst snd dirty pend_after] in *.
    apply IH; [cbn [map fst]; constructor; assumption| |exact Hd].
    intros j Hj. destruct (Hinv j Hj) as [Hw Hin]. cbn [wrapper_of map fst In]. split; [|now right].
    destruct (Nat.eqb_spec j i) as [->|_]; [contradiction|exact Hw].
  - apply andb_true_iff in Hd. destruct Hd as [Hd1 Hd]. apply andb_true_iff in Hd1. destruct Hd1 as [Hsw Hlive].
    destruct (exec prog l) as [es l'] eqn:E. cbn [fst snd dirty pend_after].
    destruct (sensitive c) eqn:Es.
    + cbn [orb negb] in Hsw. specialize (IH l (i :: p) Hnd). rewrite E in IH. cbn [fst snd] in IH. apply IH; [|exact Hd].
      intros j [<-|Hj]; [|now apply Hinv]. split; [exact Hsw|].
      apply existsb_exists in Hlive. destruct Hlive as ([k w0] & Hin & Ek). apply Nat.eqb_eq in Ek. cbn [fst] in Ek. subst.
      apply in_map_iff. exists (k, w0). auto.
    + specialize (IH l p Hnd Hinv Hd). rewrite E in IH. exact IH.
  - apply andb_true_iff in Hd. destruct Hd as [Hw Hd].
    apply (IH (rewrap l i w) p); [now rewrite ids_rewrap| |exact Hd].
    intros j Hj. destruct (Hinv j Hj) as [Hwj Hin]. rewrite ids_rewrap. split; [|exact Hin]. rewrite wrapper_of_rewrap.
    destruct (Nat.eqb_spec j i) as [->|_]; [|exact Hwj].
    rewrite Hwj in Hw. cbn [negb orb] in Hw. rewrite orb_false_r in Hw.
    assert (X : existsb (fun jw => Nat.eqb i (fst jw)) l = true).
    { apply in_map_iff in Hin. destruct Hin as ([k w0] & Ek & Hin'). cbn [fst] in Ek. subst. apply existsb_exists. exists (i, w0). split; [exact Hin'|apply Nat.eqb_refl]. }
    rewrite X. exact Hw.
  - specialize (IH (remove_live l i)).
    destruct (exec prog (remove_live l i)) as [es l'] eqn:E. cbn [fst snd].
    unfold drop_events. rewrite dirty_app. rewrite (pend_after_app ((if wipes (wrapper_of l i) then [Wipe i] else []) ++ [Free i]) es p).
    assert (Step : dirty p ((if wipes (wrapper_of l i) then [Wipe i] else []) ++ [Free i]) = [] /\
                   Inv (pend_after p ((if wipes (wrapper_of l i) then [Wipe i] else []) ++ [Free i])) (remove_live l i)).
    { destruct (wipes (wrapper_of l i)) eqn:Ew; cbn [app dirty pend_after].
      - rewrite (existsb_false_of_notin i _ (not_in_filter_self i p)). split; [reflexivity|].
        intros j Hj. apply filter_In in Hj. destruct Hj as [Hj Hne]. apply negb_true_iff, Nat.eqb_neq in Hne.
        destruct (Hinv j Hj) as [Hwj Hin]. split; [now rewrite wrapper_of_remove|now apply ids_remove].
      - assert (Hni : ~ In i p) by (intros Hi; destruct (Hinv i Hi) as [X _]; congruence).
        rewrite (existsb_false_of_notin i p Hni). split; [reflexivity|].
        intros j Hj. assert (Hne : i <> j) by (intros ->; contradiction).
        destruct (Hinv j Hj) as [Hwj Hin]. split; [now rewrite wrapper_of_remove|now apply ids_remove]. }
    destruct Step as [S1 S2]. rewrite S1. cbn [app].
    specialize (IH _ (nodup_remove l i Hnd) S2 Hd). cbn [fst snd] in IH. exact IH.
Qed.

Lemma unwind_clean : forall l p, NoDup (map fst l) -> Inv p l -> dirty p (unwind l) = [].
Proof.
  induction l as [|[i w] l IH]; intros p Hnd Hinv; cbn [unwind]; [reflexivity|].
  inversion Hnd as [|? ? Hi Hnd']; subst.
  destruct (wipes w) eqn:Ew; cbn [app dirty].
  - rewrite (existsb_false_of_notin i _ (not_in_filter_self i p)). cbn [app]. apply IH; [exact Hnd'|].
    intros j Hj. apply filter_In in Hj. destruct Hj as [Hj Hne]. apply negb_true_iff, Nat.eqb_neq in Hne.
    destruct (Hinv j Hj) as [Hwj Hin]. cbn [wrapper_of map fst In] in *.
    destruct (Nat.eqb_spec j i) as [->|_]; [congruence|]. split; [exact Hwj|]. destruct Hin as [E|H]; [congruence|exact H].
  - assert (Hni : ~ In i p).
    { intros Hi'. destruct (Hinv i Hi') as [X _]. cbn [wrapper_of] in X. rewrite Nat.eqb_refl in X. congruence. }
    rewrite (existsb_false_of_notin i p Hni). cbn [app]. apply IH; [exact Hnd'|].
    intros j Hj. destruct (Hinv j Hj) as [Hwj Hin]. cbn [wrapper_of map fst In] in *.
    destruct (Nat.eqb_spec j i) as [->|_]; [contradiction|]. split; [exact Hwj|]. destruct Hin as [E|H]; [congruence|exact H].
Qed.

Lemma disciplined_prefix : forall prog n l, disciplined_prog prog l = true -> disciplined_prog (firstn n prog) l = true.
Proof.
  induction prog as [|s prog IH]; intros [|n] l H; cbn [firstn disciplined_prog]; try reflexivity.
  destruct s as [i w|i c|i w|i]; cbn [disciplined_prog] in H |- *.
  - apply andb_true_iff in H. destruct H as [H1 H2]. rewrite H1. cbn [andb]. now apply IH.
  - apply andb_true_iff in H. destruct H as [H1 H2]. rewrite H1. cbn [andb]. now apply IH.
  - apply andb_true_iff in H. destruct H as [H1 H2]. rewrite H1. cbn [andb]. now apply IH.
  - now apply IH.
Qed.

(** THE THEOREM: a disciplined path leaks nothing, wherever it stops *)
Theorem early_exit_clean prog : disciplined_prog prog [] = true -> forall n, dirty [] (run_until n prog) = [].
Proof.
  intros Hd n. unfold run_until.
  pose proof (exec_clean (firstn n prog) [] [] (NoDup_nil _) (fun i H => match H with end) (disciplined_prefix prog n [] Hd)) as (H1 & H2 & H3).
  destruct (exec (firstn n prog) []) as [es l]. cbn [fst snd] in *.
  rewrite dirty_app, H1. cbn [app]. now apply unwind_clean.
Qed.

(** the prover's path is disciplined, for every number of commitments and rounds *)
Lemma bit_writes_ok m : forall rest l, wipes (wrapper_of l 1) = true -> wipes (wrapper_of l 2) = true ->
  existsb (fun jw => Nat.eqb 1 (fst jw)) l = true -> existsb (fun jw => Nat.eqb 2 (fst jw)) l = true ->
  disciplined_prog (bit_writes m ++ rest) l = disciplined_prog rest l.
Proof.
  induction m as [|m IH]; intros rest l H1 H2 E1 E2; cbn [bit_writes app disciplined_prog sensitive negb orb]; [reflexivity|].
  rewrite H1, H2, E1, E2. cbn [andb]. now apply IH.
Qed.

Definition l3 : live := [(3, Zeroizing); (2, Zeroizing); (1, Zeroizing)].
Lemma rounds_ok k : forall rest, disciplined_prog (round_steps k ++ rest) l3 = disciplined_prog rest l3.
Proof. induction k as [|k IH]; intros rest; cbn [round_steps app]; [reflexivity|]. rewrite <- app_assoc. cbn. apply IH. Qed.

Theorem prover_program_disciplined m k : disciplined_prog (prover_program m k) [] = true.
Proof.
  unfold prover_program. cbn [app disciplined_prog existsb negb andb remove_live wrapper_of sensitive wipes orb Nat.eqb fst].
  rewrite bit_writes_ok by reflexivity.
  cbn [app disciplined_prog existsb negb andb remove_live wrapper_of sensitive wipes orb Nat.eqb fst].
  change [(3, Zeroizing); (2, Zeroizing); (1, Zeroizing)] with l3. rewrite rounds_ok. reflexivity.
Qed.

(** hence: the prover may stop anywhere (error return, unwinding) without freeing sensitive data *)
Theorem prover_early_exit_clean m k n : dirty [] (run_until n (prover_program m k)) = [].
Proof. apply early_exit_clean. apply prover_program_disciplined. Qed.

(** wrapping the bit vectors only after the decomposition loop is refuted: stopping inside the loop frees them dirty *)
Theorem late_wrap_refuted m : dirty [] (run_until 3 (late_wrap_program (S m))) = [1].
Proof. reflexivity. Qed.
(** ... although the complete run of that variant is clean (checked here for 1..4 commitments), which is
    why only an early return exhibits it *)
Lemma late_wrap_full_run_clean_upto4 :
  forallb (fun m => match dirty [] (run_until (length (late_wrap_program m)) (late_wrap_program m)) with [] => true | _ => false end) [1; 2; 3; 4] = true.
Proof. reflexivity. Qed.
