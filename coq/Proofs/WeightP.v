(** The batch weight multiplies every term a proof contributes; two non-zero residuals can cancel for
    at most one ratio of weights (C08, C03). *)
From Coq Require Import List Arith NArith Lia Field Ring.
From BP Require Import Base.Field Model.Verifier Proofs.FieldP Proofs.ModuleP.
Import ListNotations.

Section Weight.
Variable K : Fld.
Hypothesis Kok : FldOk K.
Add Field Kf : (Fth K Kok).
Local Open Scope F_scope.
Notation "0" := (f0 K). Notation "1" := (f1 K).

Definition scale_terms (w : K) (t : terms K) : terms K :=
  mkTerms K (map (fmul K w) (t_gi t)) (map (fmul K w) (t_hi t)) (map (fmul K w) (t_V t)) (w * t_H t)
          (map (fmul K w) (t_Gb t)) (w * t_A1 t) (w * t_B t) (w * t_A t) (map (fmul K w) (t_L t)) (map (fmul K w) (t_R t)).

Lemma gh_loop_linear w r1e s1e e2 e2z z yinv : forall s srev d yi yn,
  gh_loop K w r1e s1e e2 e2z z yinv s srev d yi yn =
  (map (fmul K w) (fst (gh_loop K 1 r1e s1e e2 e2z z yinv s srev d yi yn)),
   map (fmul K w) (snd (gh_loop K 1 r1e s1e e2 e2z z yinv s srev d yi yn))).
Proof.
  induction s as [|si s IH]; intros [|sr srev] [|di d] yi yn; cbn [gh_loop fst snd map]; try reflexivity.
  rewrite (IH srev d (yi * yinv) (yn * yinv)).
  destruct (gh_loop K 1 r1e s1e e2 e2z z yinv s srev d (yi * yinv) (yn * yinv)) as [gs hs]. cbn [fst snd map].
  f_equal; f_equal; ring.
Qed.

Lemma v_loop_linear w e2 z2 ynm1 : forall promises zpow,
  v_loop K w e2 z2 ynm1 zpow promises =
  (map (fmul K w) (fst (v_loop K 1 e2 z2 ynm1 zpow promises)), w * snd (v_loop K 1 e2 z2 ynm1 zpow promises)).
Proof.
  induction promises as [|p ps IH]; intros zpow; cbn [v_loop fst snd map]; [f_equal; ring|].
  rewrite (IH (zpow * z2)). destruct (v_loop K 1 e2 z2 ynm1 (zpow * z2) ps) as [vs h]. cbn [fst snd map].
  destruct p; f_equal; try (f_equal; ring); ring.
Qed.

(** C08: every scalar a proof contributes to the batch is its weight times the weight-free scalar *)
Theorem proof_terms_linear_in_weight bits promises pf ch w :
  proof_terms K bits promises pf ch w = scale_terms w (proof_terms K bits promises pf ch 1).
Proof.
  unfold proof_terms, scale_terms.
  rewrite (gh_loop_linear w). rewrite (v_loop_linear w).
  destruct (gh_loop K 1 _ _ _ _ _ _ _ _ _ _ _) as [gs hs].
  destruct (v_loop K 1 _ _ _ _ _) as [vs hp]. cbn [fst snd t_gi t_hi t_V t_H t_Gb t_A1 t_B t_A t_L t_R].
  f_equal; try ring; rewrite ?map_map; try (apply map_ext; intros; ring).
Qed.

Variable M : Mod K.
Hypothesis Mok : ModOk K M.
Infix "+v" := (vadd M) (at level 50, left associativity).
Infix "*v" := (smul M) (at level 40).

Lemma smul_cancel (c : K) (R : M) : c *v R = v0 M -> c = 0 \/ R = v0 M.
Proof.
  intros H. destruct (feqb K c 0) eqn:E; [left; now apply (feqb_ok K Kok)|right].
  assert (Hc : c <> 0) by (intros Hc; apply (feqb_ok K Kok) in Hc; congruence).
  transitivity ((/ c) *v (c *v R)).
  - rewrite <- (smul_mul K M Mok). replace (/ c * c) with 1 by (field; exact Hc). now rewrite (smul_1 K M Mok).
  - rewrite H. apply (smul_v0 K Kok M Mok).
Qed.

(** C03/C08: with the other contributions fixed, a member whose own residual R is non-zero makes the
    batch residual vanish for at most one value of its weight *)
Theorem bad_weight_unique (w w' : K) (R rest : M) :
  R <> v0 M -> w *v R +v rest = v0 M -> w' *v R +v rest = v0 M -> w = w'.
Proof.
  intros HR H1 H2.
  assert (E : (w - w') *v R = v0 M).
  { transitivity ((w *v R +v rest) +v (- (1)) *v (w' *v R +v rest)); [module_eq|].
    rewrite H1, H2. rewrite (smul_v0 K Kok M Mok). apply (vadd0 K M Mok). }
  apply smul_cancel in E. destruct E as [E|E]; [|contradiction].
  transitivity (w - w' + w'); [ring|]. rewrite E. ring.
Qed.

(** two members with non-zero residuals cancel only for one ratio of their weights *)
Theorem cancellation_fixes_ratio (w1 w2 w1' w2' : K) (R1 R2 : M) :
  R1 <> v0 M -> w2 <> 0 -> w2' <> 0 ->
  w1 *v R1 +v w2 *v R2 = v0 M -> w1' *v R1 +v w2' *v R2 = v0 M -> w1 * / w2 = w1' * / w2'.
Proof.
  intros HR1 Hw2 Hw2' H1 H2.
  assert (E : (w1 * / w2 - w1' * / w2') *v R1 = v0 M).
  { transitivity ((/ w2) *v (w1 *v R1 +v w2 *v R2) +v (- / w2') *v (w1' *v R1 +v w2' *v R2)); [module_eq|].
    rewrite H1, H2. rewrite !(smul_v0 K Kok M Mok). apply (vadd0 K M Mok). }
  apply smul_cancel in E. destruct E as [E|E]; [|contradiction].
  transitivity (w1 * / w2 - w1' * / w2' + w1' * / w2'); [ring|]. rewrite E. ring.
Qed.
End Weight.
