From Coq Require Import List Arith NArith Bool.
From BP Require Import Model.Once.
Import ListNotations.

Lemma do_step_ok c s st : cell_ok c s -> cell_ok c (fst (do_step c s st)) /\
  (forall v, snd (do_step c s st) = Some v -> v = c).
Proof.
  intros H. destruct st as [t|t|t]; destruct s as [|t'|v]; cbn in *; try (split; [auto|intros ? E; discriminate E]).
  - destruct (Nat.eqb t t'); cbn; split; auto; intros ? E; try discriminate E. now inversion E.
  - split; [auto|]. intros ? E. inversion E. now subst.
Qed.

(** For every schedule, every value any thread ever gets back is the initialiser's constant, and the
    cell never holds anything else. *)
Theorem once_any_schedule c : forall sched s, cell_ok c s ->
  cell_ok c (fst (run c s sched)) /\ Forall (fun v => v = c) (snd (run c s sched)).
Proof.
  induction sched as [|st rest IH]; intros s Hs; cbn [run]; [split; [exact Hs|constructor]|].
  destruct (do_step c s st) as [s' out] eqn:E.
  pose proof (do_step_ok c s st Hs) as [H1 H2]. rewrite E in H1, H2. cbn in H1, H2.
  specialize (IH s' H1). destruct (run c s' rest) as [sf outs]. cbn in *. destruct IH as [IH1 IH2].
  split; [exact IH1|]. destruct out as [v|]; [constructor; auto|exact IH2].
Qed.

(** the initialiser runs at most once: after [Init] no step changes the cell *)
Lemma init_is_final c v st : fst (do_step c (Init v) st) = Init v.
Proof. destruct st; reflexivity. Qed.

(** no deadlock in the logical model: from any reachable state some schedule lets a given thread read *)
Theorem once_progress c s t : cell_ok c s -> exists sched, In c (snd (run c s (sched ++ [Read t]))).
Proof.
  intros H. destruct s as [|t'|v].
  - exists [Enter t; Finish t]. cbn. rewrite Nat.eqb_refl. cbn. auto.
  - exists [Finish t']. cbn. rewrite Nat.eqb_refl. cbn. auto.
  - exists []. cbn in *. subst. auto.
Qed.
