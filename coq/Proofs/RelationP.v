(** C02 / C07: the relation the textbook protocol enforces on the committed bit vector gives the range
    statement over the integers: if every a_i satisfies a_i (a_i - 1) = 0 and sum_i a_i 2^i = v - p in
    the field, then v - p < 2^bits as an integer — provided [Scalar::from] is injective on 64-bit values
    (true of the Ristretto scalar field since l > 2^64; a hypothesis here because the abstract field
    does not expose its characteristic). *)
From Coq Require Import List Arith NArith Lia Field Ring PeanoNat.
From BP Require Import Base.Field Model.Verifier Model.Prover Proofs.FieldP Proofs.ClosedP Proofs.BitsP.
Import ListNotations.

Section Rel.
Variable K : Fld.
Hypothesis Kok : FldOk K.
Add Field Kf : (Fth K Kok).
(** the integer a boolean vector denotes, least significant first *)
Fixpoint bits_to_N (l : list K) : N :=
  match l with [] => 0%N | c :: l' => ((if feqb K c (f1 K) then 1 else 0) + 2 * bits_to_N l')%N end.

Lemma bits_to_N_lt l : (bits_to_N l < 2 ^ N.of_nat (length l))%N.
Proof.
  induction l as [|c l IH]; cbn [bits_to_N length]; [cbn; lia|].
  rewrite Nat2N.inj_succ, N.pow_succ_r'. destruct (feqb K c (f1 K)); lia.
Qed.

Local Open Scope F_scope.
Notation "0" := (f0 K). Notation "1" := (f1 K).
Notation two := (two K).
Notation fpow := (fpow K).
Notation fofN := (fofN K).
Notation dot := (dot K).

Lemma bool_scalar (c : K) : c * (c - 1) = 0 -> c = 0 \/ c = 1.
Proof.
  intros Hc. destruct (feqb K c 0) eqn:E0; [left; now apply (feqb_ok K Kok)|].
  destruct (feqb K c 1) eqn:E1; [right; now apply (feqb_ok K Kok)|]. exfalso.
  assert (H0 : c <> 0) by (intros E; apply (feqb_ok K Kok) in E; congruence).
  assert (H1 : c - 1 <> 0). { intros E. assert (c = 1) by (transitivity (c - 1 + 1); [ring|rewrite E; ring]). apply (feqb_ok K Kok) in H. congruence. }
  exact (fmul_nz K Kok c (c - 1) H0 H1 Hc).
Qed.

Lemma dot_pow2_shift : forall l a, dot l (map (fun i => fpow two i) (seq (S a) (length l))) = two * dot l (map (fun i => fpow two i) (seq a (length l))).
Proof.
  induction l as [|c l IH]; intros a; cbn [length seq map BitsP.dot]; [ring|].
  rewrite IH. cbn [Field.fpow]. ring.
Qed.

Lemma dot_bits_to_N : forall l, Forall (fun c => c * (c - 1) = 0) l ->
  dot l (map (fun i => fpow two i) (seq 0 (length l))) = fofN (bits_to_N l).
Proof.
  induction l as [|c l IH]; intros Hb; cbn [length seq map BitsP.dot bits_to_N]; [reflexivity|].
  inversion Hb as [|? ? Hc Hb']; subst. rewrite dot_pow2_shift, IH by exact Hb'.
  rewrite (fofN_add K Kok), (fofN_double K Kok). cbn [Field.fpow].
  destruct (bool_scalar c Hc) as [-> | ->].
  - destruct (feqb K 0 1) eqn:E; [apply (feqb_ok K Kok) in E; exfalso; exact (f1_neq_0 K Kok (eq_sym E))|]. cbn. ring.
  - assert (E : feqb K 1 1 = true) by (now apply (feqb_ok K Kok)). rewrite E. cbn. ring.
Qed.

Hypothesis from_u64_injective : forall a b : N, (a < 2 ^ 64)%N -> (b < 2 ^ 64)%N -> fofN a = fofN b -> a = b.

(** the enforced relation implies the range statement *)
Theorem relation_implies_range (bits : nat) (aL : list K) (x : N) :
  bits <= 64 -> length aL = bits -> Forall (fun c => c * (c - 1) = 0) aL ->
  dot aL (map (fun i => fpow two i) (seq 0 bits)) = fofN x -> (x < 2 ^ 64)%N ->
  (x < 2 ^ N.of_nat bits)%N.
Proof.
  intros Hb Hl Hbool Hdot Hx. subst bits.
  rewrite dot_bits_to_N in Hdot by exact Hbool.
  pose proof (bits_to_N_lt aL) as Hlt.
  assert (Hlt64 : (bits_to_N aL < 2 ^ 64)%N).
  { eapply N.lt_le_trans; [exact Hlt|]. apply N.pow_le_mono_r; lia. }
  rewrite <- (from_u64_injective _ _ Hlt64 Hx Hdot). exact Hlt.
Qed.

(** with a promise: value - promise in range and promise <= value, for u64 values *)
Corollary relation_implies_promise_bound (bits : nat) (aL : list K) (v p : N) :
  bits <= 64 -> length aL = bits -> Forall (fun c => c * (c - 1) = 0) aL ->
  (v < 2 ^ 64)%N -> (p <= v)%N ->
  dot aL (map (fun i => fpow two i) (seq 0 bits)) = fofN v - fofN p ->
  (v - p < 2 ^ N.of_nat bits)%N.
Proof.
  intros Hb Hl Hbool Hv Hp Hdot. rewrite <- (fofN_sub K Kok) in Hdot by exact Hp.
  apply (relation_implies_range bits aL (v - p)); try assumption. lia.
Qed.
End Rel.
