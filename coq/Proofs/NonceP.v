(** Nonce sources are pairwise distinct; the seed-nonce key layout and the witness serialisation are
    injective; every transcript RNG instance of the prover is keyed with the witness (C13, C14, C19). *)
From Coq Require Import List Arith NArith Bool Lia String.
From BP Require Import Base.Field Model.Codec Model.Transcript Model.Verifier Model.Prover Model.Nonce Proofs.CodecP.
Import ListNotations.
Local Close Scope N_scope.

(** ** distinct sources *)
Definition slot_ok (T rounds : nat) (s : slot) : Prop :=
  match s with
  | SAlpha k | SD k | SEta k => k < T
  | SdL j k | SdR j k => j < rounds /\ k < T
  | SR | SS => True
  end.

Lemma source_of_injective seeded T rounds s1 s2 :
  slot_ok T rounds s1 -> slot_ok T rounds s2 -> source_of seeded T rounds s1 = source_of seeded T rounds s2 -> s1 = s2.
Proof.
  destruct seeded; destruct s1, s2; cbn [slot_ok source_of]; intros H1 H2 E; try discriminate E;
    try (inversion E; subst; reflexivity); try (inversion E; f_equal; lia); try (exfalso; inversion E; lia).
Qed.

Lemma all_slots_ok T rounds : Forall (slot_ok T rounds) (all_slots T rounds).
Proof.
  unfold all_slots. rewrite !Forall_app. repeat split.
  - apply Forall_forall. intros s Hs. apply in_map_iff in Hs. destruct Hs as (k & <- & Hk). apply in_seq in Hk. cbn. lia.
  - apply Forall_forall. intros s Hs. apply in_flat_map in Hs. destruct Hs as (j & Hj & Hs). apply in_seq in Hj.
    apply in_app_or in Hs. destruct Hs as [Hs|Hs]; apply in_map_iff in Hs; destruct Hs as (k & <- & Hk); apply in_seq in Hk; cbn; lia.
  - repeat constructor.
  - apply Forall_forall. intros s Hs. apply in_map_iff in Hs. destruct Hs as (k & <- & Hk). apply in_seq in Hk. cbn. lia.
  - apply Forall_forall. intros s Hs. apply in_map_iff in Hs. destruct Hs as (k & <- & Hk). apply in_seq in Hk. cbn. lia.
Qed.

Lemma NoDup_map_seq {B} (f : nat -> B) s n : (forall a b, f a = f b -> a = b) -> NoDup (map f (seq s n)).
Proof.
  intros Hinj. revert s; induction n as [|n IH]; intros s; cbn [seq map]; constructor; [|apply IH].
  intros Hin. apply in_map_iff in Hin. destruct Hin as (x & E & Hx). apply Hinj in E. subst. apply in_seq in Hx. lia.
Qed.

Lemma NoDup_app_intro {A} (l1 l2 : list A) : NoDup l1 -> NoDup l2 -> (forall x, In x l1 -> In x l2 -> False) -> NoDup (l1 ++ l2).
Proof.
  induction l1 as [|a l1 IH]; intros H1 H2 Hd; cbn [app]; [exact H2|].
  inversion H1; subst. constructor.
  - intros Hin. apply in_app_or in Hin. destruct Hin as [Hin|Hin]; [contradiction|]. apply (Hd a); [now left|exact Hin].
  - apply IH; auto. intros x Hx1 Hx2. apply (Hd x); [now right|exact Hx2].
Qed.

Lemma rounds_slots_nodup T : forall l : list nat, NoDup l -> NoDup (flat_map (fun j => map (SdL j) (seq 0 T) ++ map (SdR j) (seq 0 T)) l).
Proof.
  induction l as [|a l IHl]; intros Hnd; cbn [flat_map]; [constructor|]. inversion Hnd; subst.
  apply NoDup_app_intro; [| apply IHl; assumption |].
  - apply NoDup_app_intro; [apply NoDup_map_seq; intros x y E; now inversion E|apply NoDup_map_seq; intros x y E; now inversion E|].
    intros s Hs1 Hs2. apply in_map_iff in Hs1. apply in_map_iff in Hs2. destruct Hs1 as (? & <- & _), Hs2 as (? & E & _). discriminate E.
  - intros s Hs1 Hs2. apply in_flat_map in Hs2. destruct Hs2 as (j' & Hj' & Hs2).
    assert (a <> j') by (intros ->; contradiction).
    apply in_app_or in Hs1. apply in_app_or in Hs2.
    destruct Hs1 as [Hs1|Hs1]; apply in_map_iff in Hs1; destruct Hs1 as (? & <- & _);
      destruct Hs2 as [Hs2|Hs2]; apply in_map_iff in Hs2; destruct Hs2 as (? & E & _); inversion E; congruence.
Qed.

Lemma all_slots_nodup T rounds : NoDup (all_slots T rounds).
Proof.
  unfold all_slots. apply NoDup_app_intro; [apply NoDup_map_seq; intros a b E; now inversion E| |].
  - apply NoDup_app_intro.
    + apply rounds_slots_nodup, seq_NoDup.
    + apply NoDup_app_intro.
      * repeat constructor; cbn; intuition discriminate.
      * apply NoDup_app_intro; [apply NoDup_map_seq; intros a b E; now inversion E|apply NoDup_map_seq; intros a b E; now inversion E|].
        intros s Hs1 Hs2. apply in_map_iff in Hs1. apply in_map_iff in Hs2. destruct Hs1 as (? & <- & _), Hs2 as (? & E & _). discriminate E.
      * intros s [<-|[<-|[]]] Hs2; apply in_app_or in Hs2; destruct Hs2 as [Hs2|Hs2]; apply in_map_iff in Hs2; destruct Hs2 as (? & E & _); discriminate E.
    + intros s Hs1 Hs2. apply in_flat_map in Hs1. destruct Hs1 as (j & _ & Hs1).
      apply in_app_or in Hs1. destruct Hs1 as [Hs1|Hs1]; apply in_map_iff in Hs1; destruct Hs1 as (? & <- & _);
        (destruct Hs2 as [E|[E|Hs2]]; [discriminate E|discriminate E|]); cbn [app] in Hs2;
        apply in_app_or in Hs2; destruct Hs2 as [Hs2|Hs2]; apply in_map_iff in Hs2; destruct Hs2 as (? & E & _); discriminate E.
  - intros s Hs1 Hs2. apply in_map_iff in Hs1. destruct Hs1 as (? & <- & _).
    apply in_app_or in Hs2. destruct Hs2 as [Hs2|Hs2].
    + apply in_flat_map in Hs2. destruct Hs2 as (j & _ & Hs2). apply in_app_or in Hs2.
      destruct Hs2 as [Hs2|Hs2]; apply in_map_iff in Hs2; destruct Hs2 as (? & E & _); discriminate E.
    + destruct Hs2 as [E|[E|Hs2]]; [discriminate E|discriminate E|]. cbn [app] in Hs2.
      apply in_app_or in Hs2; destruct Hs2 as [Hs2|Hs2]; apply in_map_iff in Hs2; destruct Hs2 as (? & E & _); discriminate E.
Qed.

Lemma NoDup_map_inj_on {A B} (f : A -> B) (P : A -> Prop) : (forall a b, P a -> P b -> f a = f b -> a = b) ->
  forall l, Forall P l -> NoDup l -> NoDup (map f l).
Proof.
  intros Hinj. induction l as [|a l IH]; intros HP Hnd; cbn [map]; [constructor|].
  inversion HP; inversion Hnd; subst. constructor; [|apply IH; assumption].
  intros Hin. apply in_map_iff in Hin. destruct Hin as (b & E & Hb).
  assert (P b) by (rewrite Forall_forall in *; auto).
  apply Hinj in E; auto. subst. contradiction.
Qed.

(** C13: no two nonce slots of a proof read the same source — neither the same (RNG instance, draw)
    nor the same (label, j, k) of the seed derivation *)
Theorem slots_have_distinct_sources seeded T rounds :
  NoDup (map (source_of seeded T rounds) (all_slots T rounds)).
Proof.
  apply (NoDup_map_inj_on _ (slot_ok T rounds)); [intros a b; apply source_of_injective|apply all_slots_ok|apply all_slots_nodup].
Qed.

(** the two final masking scalars always come from the RNG, also with a seed *)
Theorem final_masks_from_rng seeded T rounds :
  source_of seeded T rounds SR = FromRng (1 + rounds) 0 /\ source_of seeded T rounds SS = FromRng (1 + rounds) 1.
Proof. split; reflexivity. Qed.

(** with a seed every other slot is seed-derived under its own (label, j, k) *)
Theorem seeded_slots_documented T rounds j k :
  source_of true T rounds (SAlpha k) = FromSeed NAlpha None k /\ source_of true T rounds (SdL j k) = FromSeed NdL (Some j) k /\
  source_of true T rounds (SdR j k) = FromSeed NdR (Some j) k /\ source_of true T rounds (SD k) = FromSeed Nd None k /\
  source_of true T rounds (SEta k) = FromSeed NEta None k.
Proof. repeat split; reflexivity. Qed.

(** ** key layout *)
Open Scope N_scope.

Lemma le_bytes_inj n : forall x y, x < 256 ^ N.of_nat n -> y < 256 ^ N.of_nat n -> le_bytes n x = le_bytes n y -> x = y.
Proof. intros x y Hx Hy E. rewrite <- (le_value_le_bytes n x Hx), <- (le_value_le_bytes n y Hy), E. reflexivity. Qed.

Lemma index_bytes_length tag i : List.length (index_bytes tag i) = match i with Some _ => 5%nat | None => 0%nat end.
Proof. destruct i; cbn [index_bytes List.length]; [now rewrite le_bytes_length|reflexivity]. Qed.

Definition idx_ok (i : option nat) : Prop := match i with Some x => N.of_nat x < 2 ^ 32 | None => True end.

Lemma index_bytes_inj tag i i' : idx_ok i -> idx_ok i' -> index_bytes tag i = index_bytes tag i' -> i = i'.
Proof.
  destruct i as [x|], i' as [y|]; cbn [index_bytes idx_ok]; intros Hx Hy E; try discriminate E; [|reflexivity].
  apply (f_equal (@tl N)) in E. cbn [tl] in E.
  apply le_bytes_inj in E; [apply Nat2N.inj in E; now subst| |]; change (256 ^ N.of_nat 4) with (2 ^ 32); assumption.
Qed.

(** C13/C19: the Blake2b key determines the seed and both indices (j and k cannot be confused: their
    tags differ), for seeds below 2^256 and indices below 2^32 (larger indices are an error in the code) *)
Theorem nonce_key_injective seed seed' j j' k k' :
  seed < 2 ^ 256 -> seed' < 2 ^ 256 -> idx_ok j -> idx_ok j' -> idx_ok k -> idx_ok k' ->
  nonce_key seed j k = nonce_key seed' j' k' -> seed = seed' /\ j = j' /\ k = k'.
Proof.
  intros Hs Hs' Hj Hj' Hk Hk'. unfold nonce_key. intros E1. apply (f_equal (@tl N)) in E1. cbn [tl] in E1.
  apply (f_equal (firstn 32)) in E1 as Ef. rewrite !firstn_app, !le_bytes_length, !Nat.sub_diag, !firstn_O, !app_nil_r in Ef.
  rewrite !firstn_all2 in Ef by (rewrite le_bytes_length; lia).
  apply le_bytes_inj in Ef; [|now rewrite pow256_32|now rewrite pow256_32]. subst seed'.
  apply app_inv_head in E1.
  destruct j as [x|], j' as [x'|]; cbn [index_bytes app] in E1.
  - assert (E2 : le_bytes 4 (N.of_nat x) ++ index_bytes 107 k = le_bytes 4 (N.of_nat x') ++ index_bytes 107 k').
    { apply (f_equal (@tl N)) in E1. exact E1. }
    apply (f_equal (firstn 4)) in E2 as Ef. rewrite !firstn_app, !le_bytes_length, !Nat.sub_diag, !firstn_O, !app_nil_r in Ef.
    rewrite !firstn_all2 in Ef by (rewrite le_bytes_length; lia).
    apply le_bytes_inj in Ef; [|exact Hj|exact Hj']. apply Nat2N.inj in Ef. subst x'.
    apply app_inv_head in E2. apply index_bytes_inj in E2; auto.
  - destruct k' as [y'|]; cbn [index_bytes] in E1; [|discriminate E1]. apply (f_equal (@hd N 0)) in E1. discriminate E1.
  - destruct k as [y|]; cbn [index_bytes] in E1; [|discriminate E1]. apply (f_equal (@hd N 0)) in E1. discriminate E1.
  - apply index_bytes_inj in E1; auto.
Qed.

Theorem nonce_key_layout seed j k :
  nonce_key seed (Some j) (Some k) = [0] ++ le_bytes 32 seed ++ [106] ++ le_bytes 4 (N.of_nat j) ++ [107] ++ le_bytes 4 (N.of_nat k).
Proof. unfold nonce_key, index_bytes. cbn [app]. rewrite <- ?app_assoc. reflexivity. Qed.

Theorem nlabel_string_injective a b : nlabel_string a = nlabel_string b -> a = b.
Proof. destruct a, b; cbn; intros E; try reflexivity; discriminate E. Qed.

(** ** witness serialisation *)
Lemma flat_map_le32_inj : forall (a b : list N), List.length a = List.length b ->
  Forall (fun x => x < 2 ^ 256) a -> Forall (fun x => x < 2 ^ 256) b ->
  forall r r', flat_map (le_bytes 32) a ++ r = flat_map (le_bytes 32) b ++ r' -> a = b /\ r = r'.
Proof.
  induction a as [|x a IH]; intros [|y b] Hl Ha Hb r r' E; cbn [List.length flat_map app] in *; try discriminate; [auto|].
  inversion Ha; inversion Hb; subst. rewrite <- !app_assoc in E.
  apply (f_equal (firstn 32)) in E as Ef. rewrite !firstn_app, !le_bytes_length, !Nat.sub_diag, !firstn_O, !app_nil_r in Ef.
  rewrite !firstn_all2 in Ef by (rewrite le_bytes_length; lia).
  apply le_bytes_inj in Ef; [|now rewrite pow256_32|now rewrite pow256_32]. subst y.
  apply app_inv_head in E. destruct (IH b) with (r := r) (r' := r') as [-> ->]; auto.
Qed.

(** C14: for a given shape (number of openings, extension degree) the bytes keyed into the RNG
    determine every value and every blinding factor *)
Theorem witness_bytes_injective T : forall (vs vs' : list N) (bs bs' : list (list N)),
  List.length vs = List.length bs -> List.length vs' = List.length bs' -> List.length vs = List.length vs' ->
  Forall (fun v => v < 2 ^ 64) vs -> Forall (fun v => v < 2 ^ 64) vs' ->
  Forall (fun r => List.length r = T /\ Forall (fun x => x < 2 ^ 256) r) bs ->
  Forall (fun r => List.length r = T /\ Forall (fun x => x < 2 ^ 256) r) bs' ->
  witness_bytes vs bs = witness_bytes vs' bs' -> vs = vs' /\ bs = bs'.
Proof.
  induction vs as [|v vs IH]; intros [|v' vs'] [|b bs] [|b' bs'] L1 L2 L3 Hv Hv' Hb Hb' E; cbn [List.length] in *; try discriminate; [auto|].
  unfold witness_bytes in E. cbn [combine flat_map fst snd] in E. rewrite <- !app_assoc in E.
  inversion Hv; inversion Hv'; inversion Hb as [|? ? [Lb Fb] Hb2]; inversion Hb' as [|? ? [Lb' Fb'] Hb2']; subst.
  apply (f_equal (firstn 8)) in E as Ef. rewrite !firstn_app, !le_bytes_length, !Nat.sub_diag, !firstn_O, !app_nil_r in Ef.
  rewrite !firstn_all2 in Ef by (rewrite le_bytes_length; lia).
  apply le_bytes_inj in Ef; [|change (256 ^ N.of_nat 8) with (2 ^ 64); assumption|change (256 ^ N.of_nat 8) with (2 ^ 64); assumption]. subst v'.
  apply app_inv_head in E.
  apply flat_map_le32_inj in E; [|congruence|assumption|assumption]. destruct E as [-> E].
  destruct (IH vs' bs bs') as [-> ->]; auto.
Qed.

(** every transcript-RNG instance the prover builds is keyed with the witness bytes *)
Definition rng_keyed (w : option (nat * N)) (o : op) : Prop := match o with ORng x => x = w | _ => True end.

Lemma Forall_osome_app {A} (P : A -> Prop) (a b : option (list A)) l :
  (forall x, a = Some x -> Forall P x) -> (forall x, b = Some x -> Forall P x) -> osome_app a b = Some l -> Forall P l.
Proof. intros Ha Hb. destruct a, b; cbn; intros E; inversion E. apply Forall_app; auto. Qed.

Lemma app_point_keyed w l e x : app_point l e = Some x -> Forall (rng_keyed w) x.
Proof. unfold app_point. destruct (is_identity_enc e); intros E; inversion E. repeat constructor. Qed.

Lemma fills_keyed w n : Forall (rng_keyed w) (fills n).
Proof. unfold fills. apply Forall_forall. intros o Ho. apply repeat_spec in Ho. subst. exact I. Qed.

Lemma TranscriptP_app_points_keyed w l : forall es x, app_points l es = Some x -> Forall (rng_keyed w) x.
Proof.
  induction es as [|e es IH]; intros x E; cbn [app_points] in E; [inversion E; constructor|].
  destruct (app_point l e) eqn:E1; [|discriminate]. destruct (app_points l es) eqn:E2; [|discriminate]. inversion E.
  apply Forall_app. split; [eapply app_point_keyed; eauto|apply IH; reflexivity].
Qed.

Theorem prover_rng_always_keyed s seeded p w l : prover_ops s seeded p w = Some l -> Forall (rng_keyed w) l.
Proof.
  unfold prover_ops.
  apply Forall_osome_app.
  { intros x E. unfold ops_new in E. destruct (app_point LH (ts_Henc s)) eqn:E1; [|discriminate]. destruct (app_points LG (ts_Gbenc s)) eqn:E2; [|discriminate].
    inversion E. constructor; [exact I|].
    apply Forall_app; split; [eapply app_point_keyed; eauto|].
    apply Forall_app; split; [apply TranscriptP_app_points_keyed with (l := LG) (es := ts_Gbenc s); exact E2|].
    repeat (constructor; [exact I|]).
    apply Forall_app; split; [apply Forall_forall; intros o Ho; apply in_map_iff in Ho; destruct Ho as (? & <- & _); exact I|].
    apply Forall_app; split; [apply Forall_forall; intros o Ho; apply in_map_iff in Ho; destruct Ho as (? & <- & _); exact I|].
    repeat constructor. }
  intros x. apply Forall_osome_app; [intros y E; inversion E; destruct seeded; [constructor|apply fills_keyed]|].
  intros y. apply Forall_osome_app.
  { intros z E. unfold ops_yz in E. destruct (app_point LA (p_a p)) as [xa|] eqn:E1; [|discriminate].
    assert (Et : z = xa ++ [ORng w; OChal Ly 64; OChal Lz 64]) by congruence. subst z.
    apply Forall_app. split; [eapply app_point_keyed; eauto|repeat constructor]. }
  intros z. apply Forall_osome_app.
  { generalize (combine (p_li p) (p_ri p)). induction l0 as [|[a b] lr IHl]; intros u E; cbn [prover_round_ops] in E; [inversion E; constructor|].
    revert E. apply Forall_osome_app; [intros v E; inversion E; destruct seeded; [constructor|apply fills_keyed]|].
    intros v. apply Forall_osome_app; [|exact IHl].
    intros t E. unfold ops_round in E. destruct (app_point LL a) as [xa|] eqn:E1; [|discriminate]. destruct (app_point LR b) as [xb|] eqn:E2; [|discriminate].
    assert (Et : t = xa ++ xb ++ [ORng w; OChal Le 64]) by congruence. subst t.
    apply Forall_app; split; [eapply app_point_keyed; eauto|]. apply Forall_app; split; [eapply app_point_keyed; eauto|]. repeat constructor. }
  intros u. apply Forall_osome_app; [intros v E; inversion E; apply fills_keyed|].
  intros v E. unfold ops_final in E. destruct (app_point LA1 (p_a1 p)) as [xa|] eqn:E1; [|discriminate]. destruct (app_point LB (p_b p)) as [xb|] eqn:E2; [|discriminate].
  assert (Et : v = xa ++ xb ++ [ORng w; OChal Le 64]) by congruence. subst v.
  apply Forall_app; split; [eapply app_point_keyed; eauto|]. apply Forall_app; split; [eapply app_point_keyed; eauto|]. repeat constructor.
Qed.
