(** C04 / C19: prover and verifier drive the Fiat-Shamir transcript identically.  The operations that
    determine a challenge are the appends and the earlier challenges (building a transcript RNG forks
    the state, drawing from the fork does not touch it).  Restricted to those, the prover's operation
    list is exactly the verifier's up to the final challenge — whatever the witness bytes, with or
    without a seed — so both derive every challenge from the same input; and one errs (identity
    point) exactly when the other does. *)
From Coq Require Import List Arith NArith Bool.
From BP Require Import Model.Codec Model.Transcript Model.Verifier Model.Nonce Proofs.TranscriptP.
Import ListNotations.
Local Close Scope N_scope.

Definition affects_challenges (o : op) : bool := match o with OApp _ _ _ | OChal _ _ => true | _ => false end.
Definition strobe_view (l : list op) : list op := filter affects_challenges l.

Lemma sv_app a b : strobe_view (a ++ b) = strobe_view a ++ strobe_view b.
Proof. apply filter_app. Qed.
Lemma sv_fills n : strobe_view (fills n) = [].
Proof. unfold fills. induction n; cbn; auto. Qed.

(** option-lifted view *)
Definition oview (o : option (list op)) : option (list op) := option_map strobe_view o.
Lemma oview_osome_app a b : oview (osome_app a b) = osome_app (oview a) (oview b).
Proof. destruct a, b; cbn; try reflexivity. now rewrite sv_app. Qed.

Lemma view_new s w : oview (ops_new s w) = oview (ops_new s None).
Proof.
  unfold ops_new. destruct (app_point LH (ts_Henc s)), (app_points LG (ts_Gbenc s)); cbn [oview option_map]; try reflexivity.
  f_equal. now rewrite !sv_app.
Qed.
Lemma view_yz a w : oview (ops_yz a w) = oview (ops_yz a None).
Proof. unfold ops_yz. destruct (app_point LA a); cbn [oview option_map]; try reflexivity. f_equal. now rewrite !sv_app. Qed.
Lemma view_round l r w : oview (ops_round l r w) = oview (ops_round l r None).
Proof. unfold ops_round. destruct (app_point LL l), (app_point LR r); cbn [oview option_map]; try reflexivity. f_equal. now rewrite !sv_app. Qed.
Lemma view_final a1 b w : oview (ops_final a1 b w) = oview (ops_final a1 b None).
Proof. unfold ops_final. destruct (app_point LA1 a1), (app_point LB b); cbn [oview option_map]; try reflexivity. f_equal. now rewrite !sv_app. Qed.

Lemma view_rounds seeded T w : forall lr, oview (prover_round_ops seeded T lr w) = oview (ops_rounds lr None).
Proof.
  induction lr as [|[l r] lr IH]; cbn [prover_round_ops ops_rounds]; [reflexivity|].
  rewrite !oview_osome_app, IH, view_round.
  change (match ops_round l r None, ops_rounds lr None with Some a, Some b => Some (a ++ b) | _, _ => None end) with (osome_app (ops_round l r None) (ops_rounds lr None)).
  rewrite oview_osome_app.
  destruct seeded; cbn [oview option_map strobe_view filter]; rewrite ?sv_fills;
    destruct (oview (ops_round l r None)), (oview (ops_rounds lr None)); reflexivity.
Qed.

(** THE THEOREM: same challenge inputs on both sides *)
Theorem prover_verifier_same_challenge_inputs s seeded p w :
  oview (prover_ops s seeded p w) =
  oview (osome_app (ops_new s None) (osome_app (ops_yz (p_a p) None)
          (osome_app (ops_rounds (combine (p_li p) (p_ri p)) None) (ops_final (p_a1 p) (p_b p) None)))).
Proof.
  unfold prover_ops. rewrite !oview_osome_app, view_new, view_yz, view_rounds, view_final.
  destruct seeded; cbn [oview option_map]; rewrite ?sv_fills;
    destruct (oview (ops_new s None)), (oview (ops_yz (p_a p) None)), (oview (ops_rounds (combine (p_li p) (p_ri p)) None)),
             (oview (ops_final (p_a1 p) (p_b p) None)); reflexivity.
Qed.

(** the verifier's complete list is that common part followed by the response scalars bound for the batch weight *)
Theorem verifier_ops_split s p :
  verifier_ops s p = osome_app (osome_app (ops_new s None) (osome_app (ops_yz (p_a p) None)
          (osome_app (ops_rounds (combine (p_li p) (p_ri p)) None) (ops_final (p_a1 p) (p_b p) None))))
          (Some (ops_verifier_rng (p_r1 p) (p_s1 p) (p_d1 p))).
Proof.
  unfold verifier_ops.
  destruct (ops_new s None), (ops_yz (p_a p) None), (ops_rounds (combine (p_li p) (p_ri p)) None), (ops_final (p_a1 p) (p_b p) None);
    cbn [osome_app]; try reflexivity. now rewrite !app_assoc.
Qed.

(** the prover meets an error (identity point) exactly when the verifier does *)
Corollary prover_errs_iff_verifier_errs s seeded p w : prover_ops s seeded p w = None <-> verifier_ops s p = None.
Proof.
  rewrite verifier_ops_split. pose proof (prover_verifier_same_challenge_inputs s seeded p w) as E.
  destruct (prover_ops s seeded p w), (osome_app (ops_new s None) _); cbn in *; try discriminate; split; intros; try discriminate; reflexivity.
Qed.
