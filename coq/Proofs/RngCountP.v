(** * One transcript-RNG instance per challenge (C13 / C14): the prover builds exactly [3 + rounds] instances
    (new, y/z, one per round, final e), the verifier one more (the weight word).  This is the count the checks
    compare the instrumented merlin log with, and under a stuck caller's generator each of them must be keyed
    with that generator's bytes. *)
From Coq Require Import List Arith NArith Bool Lia.
From BP Require Import Model.Codec Model.Transcript Model.Nonce.
Import ListNotations.
Local Open Scope nat_scope.

Definition is_rng (o : op) : bool := match o with ORng _ => true | _ => false end.
Definition count_rng (l : list op) : nat := length (filter is_rng l).

Lemma count_rng_app a b : count_rng (a ++ b) = count_rng a + count_rng b.
Proof. unfold count_rng. now rewrite filter_app, app_length. Qed.

Lemma count_rng_cons o l : count_rng (o :: l) = (if is_rng o then 1 else 0) + count_rng l.
Proof. unfold count_rng. cbn [filter]. destruct (is_rng o); reflexivity. Qed.
Lemma count_rng_nil : count_rng [] = 0.
Proof. reflexivity. Qed.
Ltac crng := repeat (rewrite count_rng_app || rewrite count_rng_cons || rewrite count_rng_nil); cbn [is_rng].

Lemma count_rng_map_app {A} (f : A -> op) (l : list A) : (forall x, is_rng (f x) = false) -> count_rng (map f l) = 0.
Proof. intros H. unfold count_rng. induction l as [|x l IH]; cbn [map filter]; [reflexivity|]. now rewrite H. Qed.

Lemma count_rng_fills n : count_rng (fills n) = 0.
Proof. unfold fills, count_rng. induction n as [|n IH]; cbn [repeat filter is_rng]; [reflexivity|exact IH]. Qed.

Lemma app_point_no_rng l e x : app_point l e = Some x -> count_rng x = 0.
Proof. unfold app_point. destruct (is_identity_enc e); [discriminate|]. intros H; injection H as <-. reflexivity. Qed.

Lemma app_points_no_rng l : forall es x, app_points l es = Some x -> count_rng x = 0.
Proof.
  induction es as [|e es IH]; intros x H; cbn [app_points] in H.
  - injection H as <-. reflexivity.
  - destruct (app_point l e) as [a|] eqn:Ea; [|discriminate]. destruct (app_points l es) as [b|] eqn:Eb; [|discriminate].
    injection H as <-. rewrite count_rng_app, (app_point_no_rng _ _ _ Ea), (IH b eq_refl). reflexivity.
Qed.

Lemma osome_app_some {A} (a b : option (list A)) l : osome_app a b = Some l -> exists x y, a = Some x /\ b = Some y /\ l = x ++ y.
Proof. destruct a as [x|], b as [y|]; cbn; intros H; try discriminate. injection H as <-. eauto. Qed.

Lemma ops_new_rng s w x : ops_new s w = Some x -> count_rng x = 1.
Proof.
  unfold ops_new. destruct (app_point LH (ts_Henc s)) as [h|] eqn:Eh; [|discriminate].
  destruct (app_points LG (ts_Gbenc s)) as [g|] eqn:Eg; [|discriminate]. intros H; injection H as <-.
  crng. rewrite (app_point_no_rng _ _ _ Eh), (app_points_no_rng _ _ _ Eg), !count_rng_map_app by reflexivity. lia.
Qed.

Lemma ops_yz_rng a w x : ops_yz a w = Some x -> count_rng x = 1.
Proof.
  unfold ops_yz. destruct (app_point LA a) as [y|] eqn:E; [|discriminate]. intros H; injection H as <-.
  crng. rewrite (app_point_no_rng _ _ _ E). lia.
Qed.

Lemma ops_round_rng l r w x : ops_round l r w = Some x -> count_rng x = 1.
Proof.
  unfold ops_round. destruct (app_point LL l) as [a|] eqn:Ea; [|discriminate]. destruct (app_point LR r) as [b|] eqn:Eb; [|discriminate].
  intros H; injection H as <-. crng. rewrite (app_point_no_rng _ _ _ Ea), (app_point_no_rng _ _ _ Eb). lia.
Qed.

Lemma ops_final_rng a1 b w x : ops_final a1 b w = Some x -> count_rng x = 1.
Proof.
  unfold ops_final. destruct (app_point LA1 a1) as [a|] eqn:Ea; [|discriminate]. destruct (app_point LB b) as [c|] eqn:Eb; [|discriminate].
  intros H; injection H as <-. crng. rewrite (app_point_no_rng _ _ _ Ea), (app_point_no_rng _ _ _ Eb). lia.
Qed.

Lemma ops_rounds_rng w : forall lr x, ops_rounds lr w = Some x -> count_rng x = length lr.
Proof.
  induction lr as [|[l r] lr IH]; intros x H; cbn [ops_rounds] in H.
  - injection H as <-. reflexivity.
  - destruct (ops_round l r w) as [a|] eqn:Ea; [|discriminate]. destruct (ops_rounds lr w) as [b|] eqn:Eb; [|discriminate].
    injection H as <-. crng. rewrite (ops_round_rng _ _ _ _ Ea), (IH b eq_refl). reflexivity.
Qed.

Lemma prover_round_ops_rng seeded T w : forall lr x, prover_round_ops seeded T lr w = Some x -> count_rng x = length lr.
Proof.
  induction lr as [|[l r] lr IH]; intros x H; cbn [prover_round_ops] in H.
  - injection H as <-. reflexivity.
  - apply osome_app_some in H. destruct H as (f & y & Ef & Ey & ->). injection Ef as <-.
    apply osome_app_some in Ey. destruct Ey as (a & b & Ea & Eb & ->).
    crng. rewrite (ops_round_rng _ _ _ _ Ea), (IH b Eb). cbn [length].
    destruct seeded; [reflexivity|rewrite count_rng_fills; lia].
Qed.

(** the prover: one instance when the wrapper is set up, one per challenge call *)
Theorem prover_rng_instances s seeded p w ops :
  prover_ops s seeded p w = Some ops -> count_rng ops = 3 + Nat.min (length (p_li p)) (length (p_ri p)).
Proof.
  unfold prover_ops. intros H.
  apply osome_app_some in H. destruct H as (a & r1 & Ea & H & ->).
  apply osome_app_some in H. destruct H as (f1 & r2 & Ef1 & H & ->). injection Ef1 as <-.
  apply osome_app_some in H. destruct H as (b & r3 & Eb & H & ->).
  apply osome_app_some in H. destruct H as (c & r4 & Ec & H & ->).
  apply osome_app_some in H. destruct H as (f2 & d & Ef2 & Ed & ->). injection Ef2 as <-.
  crng. rewrite (ops_new_rng _ _ _ Ea), (ops_yz_rng _ _ _ Eb), (prover_round_ops_rng _ _ _ _ _ Ec), (ops_final_rng _ _ _ _ Ed), combine_length.
  rewrite count_rng_fills. destruct seeded; [rewrite count_rng_nil|rewrite count_rng_fills]; lia.
Qed.

(** the verifier: the same, plus the instance from which the proof's word for the weight transcript is drawn *)
Theorem verifier_rng_instances s p ops :
  verifier_ops s p = Some ops -> count_rng ops = 4 + Nat.min (length (p_li p)) (length (p_ri p)).
Proof.
  unfold verifier_ops. intros H.
  apply osome_app_some in H. destruct H as (a & r1 & Ea & H & ->).
  apply osome_app_some in H. destruct H as (b & r2 & Eb & H & ->).
  apply osome_app_some in H. destruct H as (c & r3 & Ec & H & ->).
  apply osome_app_some in H. destruct H as (d & e & Ed & Ee & ->). injection Ee as <-.
  unfold ops_verifier_rng. crng. rewrite (ops_new_rng _ _ _ Ea), (ops_yz_rng _ _ _ Eb), (ops_rounds_rng _ _ _ Ec), (ops_final_rng _ _ _ _ Ed), combine_length.
  rewrite count_rng_map_app by reflexivity. lia.
Qed.
