(** C01 at the top of the executed model: a statement / proof pair produced by the code-shaped prover for a
    valid witness gets through EVERY guard of [verify_chunk] (statement consistency, extension degree of
    d1, promise range, transcript phase, challenge checks, round count, padding), so the model returns
    Ok as soon as the back end finds the final product to be the identity — and by C01_completeness /
    C03 it is.  Encodings are an abstract injective [enc] with left inverse [dec]; "no absorbed point is
    the identity" is a hypothesis (it is an error in the code as well). *)
From Coq Require Import List Arith NArith Lia Field Ring PeanoNat Bool.
From BP Require Import Base.Field Model.Ctor Model.Codec Model.Transcript Model.Verifier Model.VerifyTop Model.Prover Model.Spec Model.RangeSpec
     Proofs.FieldP Proofs.ModuleP Proofs.WipP Proofs.CtorP Proofs.TranscriptP Proofs.VerifierEquivP Proofs.GuardsP Proofs.CompleteP Proofs.CompleteBatchP
     Proofs.BatchP Proofs.BatchEquivP Proofs.VerifyTopP Proofs.TopP Proofs.MaskFullP Proofs.ProverRefP.
Import ListNotations.
Local Close Scope N_scope.

(** transcript phase is defined as soon as no absorbed encoding is the identity *)
Lemma app_point_defined l e : e <> 0%N -> app_point l e = Some [OApp l 32 e].
Proof. intros H. unfold app_point, is_identity_enc. destruct (N.eqb_spec e 0); [contradiction|reflexivity]. Qed.
Lemma app_points_defined l : forall es, Forall (fun e => e <> 0%N) es -> exists x, app_points l es = Some x.
Proof.
  induction es as [|e es IH]; intros H; cbn [app_points]; [eauto|]. inversion H; subst.
  rewrite app_point_defined by assumption. destruct (IH H3) as [x ->]. eauto.
Qed.
Lemma ops_rounds_defined w : forall lr, Forall (fun p => fst p <> 0%N /\ snd p <> 0%N) lr -> exists x, ops_rounds lr w = Some x.
Proof.
  induction lr as [|[l r] lr IH]; intros H; cbn [ops_rounds]; [eauto|]. inversion H as [|? ? [Hl Hr] H']; subst. cbn [fst snd] in *.
  unfold ops_round. rewrite !app_point_defined by assumption. destruct (IH H') as [x ->]. eauto.
Qed.
Lemma verifier_ops_defined s p :
  ts_Henc s <> 0%N -> Forall (fun e => e <> 0%N) (ts_Gbenc s) -> p_a p <> 0%N -> p_a1 p <> 0%N -> p_b p <> 0%N ->
  Forall (fun q => fst q <> 0%N /\ snd q <> 0%N) (combine (p_li p) (p_ri p)) ->
  exists x, verifier_ops s p = Some x.
Proof.
  intros HH HG HA HA1 HB HLR. unfold verifier_ops, ops_new, ops_yz, ops_final.
  rewrite !app_point_defined by assumption.
  destruct (app_points_defined LG _ HG) as [g ->]. destruct (ops_rounds_defined None _ HLR) as [r ->].
  cbn [osome_app]. eauto.
Qed.

Section HT.
Variable K : Fld.
Hypothesis Kok : FldOk K.
Add Field Kf : (Fth K Kok).
Variable M : Mod K.
Hypothesis Mok : ModOk K M.
Local Open Scope F_scope.
Notation "0" := (f0 K). Notation "1" := (f1 K).
Infix "+v" := (vadd M) (at level 50, left associativity).
Infix "*v" := (smul M) (at level 40).

Variable ofN : N -> K.
Variable toN : K -> N.
Hypothesis ofN_toN : forall x, ofN (toN x) = x.
Variable enc : M -> N.
Variable dec : N -> M.
Hypothesis dec_enc : forall p, dec (enc p) = p.
Variable g : gens K M.

(** the member record the verifier sees for the prover's output *)
Definition honest_member bits cap (values : list N) (promises : list (option N)) (blindings : list (list K)) (nn : nonces K) (ch : pchals K)
           (seeded : bool) (nonce : nlabel -> option nat -> nat -> K) : member K :=
  let p := prove_core K M bits cap g values promises blindings nn ch in
  let commitments := map (fun vr => commit K M g (fofN K (fst vr)) (snd vr)) (combine values blindings) in
  mkMember K bits cap (length (g_Gb g)) (enc (g_H g)) (map enc (g_Gb g)) 0%N (map enc commitments) promises seeded
    (mkProof (N.of_nat (length (g_Gb g))) (map toN (pp_d1 p)) (enc (pp_A p)) (enc (pp_A1 p)) (enc (pp_B p)) (toN (pp_r1 p)) (toN (pp_s1 p))
             (map enc (pp_L p)) (map enc (pp_R p)))
    false (mkChals K (pc_y ch) (pc_z ch) (pc_es ch) (pc_e ch)) nonce.

Lemma rounds_of_wf T : forall es dLs dRs, Forall (fun e => e <> 0) es -> length dLs = length es -> length dRs = length es ->
  Forall (fun d => length d = T) dLs -> Forall (fun d => length d = T) dRs -> Forall (wf_round K T) (rounds_of K es dLs dRs).
Proof.
  induction es as [|e0 es IH]; intros [|dL dLs] [|dR dRs] Hes L1 L2 F1 F2; cbn [length] in *; try discriminate; cbn [rounds_of]; constructor.
  - inversion Hes; inversion F1; inversion F2; subst. unfold wf_round. cbn. repeat split; assumption.
  - inversion Hes; inversion F1; inversion F2; subst. apply IH; try assumption; lia.
Qed.

(** the prover emits exactly T response scalars d1 *)
Lemma prove_core_d1_length bits cap (values : list N) (promises : list (option N)) (blindings : list (list K)) (nn : nonces K) (ch : pchals K) a :
  let m := length values in
  1 <= bits -> m = 2 ^ a -> m <= cap ->
  length (g_G g) = (bits * cap)%nat -> length (g_Hv g) = (bits * cap)%nat ->
  (m * bits)%nat = 2 ^ length (pc_es ch) -> pc_y ch <> 0 -> Forall (fun e => e <> 0) (pc_es ch) ->
  length promises = m -> length blindings = m -> Forall (fun r => length r = length (g_Gb g)) blindings ->
  wf_nonces K (length (g_Gb g)) (length (pc_es ch)) nn ->
  length (pp_d1 (prove_core K M bits cap g values promises blindings nn ch)) = length (g_Gb g).
Proof.
  intros m Hb Hm Hcap LG LH HN Hy Hes Lp Lb Fb Wn.
  rewrite (prove_core_textbook K Kok M Mok g bits cap values promises blindings nn ch a Hb Hm Hcap LG LH HN Hy Hes Lp Lb Fb Wn).
  pose proof (Lal1 K Kok M Mok g bits values blindings nn ch Fb Wn) as Lal1.
  destruct Wn as (Lal & Ld & Leta & LdL & LdR & FdL & FdR).
  unfold textbook_proof.
  pose proof (final_alpha_length K (pc_y ch) (rounds_of K (pc_es ch) (n_dL nn) (n_dR nn)) (aL_hat K (pc_z ch) (a_L K bits values promises))
                (aR_hat K bits (length values) (pc_y ch) (pc_z ch) (map (fun x => x - 1) (a_L K bits values promises)))
                (alpha_hat K (v_weights K bits (length values) (pc_y ch) (pc_z ch)) blindings (n_alpha nn))) as FL.
  rewrite Lal1 in FL. specialize (FL (rounds_of_wf _ _ _ _ Hes LdL LdR FdL FdR)).
  destruct (final_state K _ _ _ _ _) as [[af bf] alf]. cbn [snd] in FL. cbn [pp_d1].
  unfold final_d1. apply map2_len; [exact Leta|]. apply map2_len; rewrite map_length; congruence.
Qed.

Theorem honest_chunk_accepted bits cap (values : list N) (promises : list (option N)) (blindings : list (list K)) (nn : nonces K) (ch : pchals K)
        seeded nonce mode (w : K) a :
  let m := length values in
  let Nn := (m * bits)%nat in
  let T := length (g_Gb g) in
  let mb := honest_member bits cap values promises blindings nn ch seeded nonce in
  let p := prove_core K M bits cap g values promises blindings nn ch in
  (* the premises of completeness *)
  1 <= bits -> m = 2 ^ a -> m <= cap ->
  length (g_G g) = (bits * cap)%nat -> length (g_Hv g) = (bits * cap)%nat ->
  Nn = 2 ^ length (pc_es ch) ->
  pc_y ch <> 0 -> pc_y ch - 1 <> 0 -> pc_z ch <> 0 -> pc_e ch <> 0 -> Forall (fun e => e <> 0) (pc_es ch) ->
  length promises = m -> length blindings = m -> Forall (fun r => length r = T) blindings ->
  wf_nonces K T (length (pc_es ch)) nn ->
  Forall (fun vp => match snd vp with Some mv => (mv <= fst vp)%N | None => True end) (combine values promises) ->
  Forall (fun vp => (offset_value (fst vp) (snd vp) < 2 ^ N.of_nat bits)%N) (combine values promises) ->
  (* what the constructors / the group back end guarantee *)
  1 <= T <= 6 -> length (pc_es ch) < 64 -> (2 * N.of_nat bits * N.of_nat cap < 2 ^ 64)%N ->
  forallb (promise_fits bits) promises = true ->
  enc (g_H g) <> 0%N -> Forall (fun q => enc q <> 0%N) (g_Gb g) ->
  enc (pp_A p) <> 0%N -> enc (pp_A1 p) <> 0%N -> enc (pp_B p) <> 0%N ->
  Forall (fun q => enc q <> 0%N) (pp_L p) -> Forall (fun q => enc q <> 0%N) (pp_R p) ->
  mode <> RecoverOnly ->
  exists sc,
    verify_chunk K ofN mode [mb] [w] true = (Ok [mask_of K ofN mode mb], Some sc) /\
    msm (fst sc) (interleaveM K M (g_G g) (g_Hv g)) +v msm (snd sc) (dyn_of K M (pts_of K M dec mb) ++ g_Gb g ++ [g_H g]) = v0 M.
Proof.
  intros m Nn T mb p Hb Hm Hcap LG LH HN Hy Hy1 Hz He Hes Lp Lb Fb Wn Hle Hlt HT Hr64 Hpad Hfit EH EGb EA EA1 EB EL ER Hmode.
  destruct (prove_core_rounds K Kok M Mok g bits cap values promises blindings nn ch a Hb Hm Hcap LG LH HN Hy Hes Lp Lb Fb Wn) as [LL LR]. fold p in LL, LR.
  pose proof (prove_core_textbook K Kok M Mok g bits cap values promises blindings nn ch a Hb Hm Hcap LG LH HN Hy Hes Lp Lb Fb Wn) as PT. fold p in PT.
  pose proof (prove_core_d1_length bits cap values promises blindings nn ch a Hb Hm Hcap LG LH HN Hy Hes Lp Lb Fb Wn) as Ld1. fold p in Ld1. fold T in Ld1.
  assert (Lcm : length (map (fun vr => commit K M g (fofN K (fst vr)) (snd vr)) (combine values blindings)) = m)
    by (rewrite map_length, combine_length; lia).
  (* the guards, one by one *)
  assert (Gd1 : d1_degree_ok K mb T = true).
  { unfold d1_degree_ok, mb, honest_member. cbn [mb_proof p_d1]. fold p. rewrite map_length, Ld1.
    unfold degree_of_usize, degree_of_u8.
    destruct (N.ltb_spec (N.of_nat T) 256) as [_|X]; [|lia].
    destruct (N.leb_spec 1 (N.of_nat T)) as [_|X]; [|lia]. destruct (N.leb_spec (N.of_nat T) 6) as [_|X]; [|lia].
    cbn [andb]. apply N.eqb_refl. }
  assert (GN : mb_N K mb = Nn).
  { unfold mb_N, mb_m, mb, honest_member. cbn [mb_Venc mb_bits]. rewrite map_length, Lcm. reflexivity. }
  assert (Gcons : consistency K [mb] = Some (Nn, 0%nat)).
  { unfold consistency. change (mb_T K mb) with T. rewrite Gd1. cbn [negb consistency_rest]. rewrite GN. cbn [nth forallb andb].
    change (mb_promises K mb) with promises. change (mb_bits K mb) with bits. rewrite Hfit, N.eqb_refl. reflexivity. }
  assert (Gtp : transcript_phase_ok K mb = true).
  { unfold transcript_phase_ok.
    destruct (verifier_ops_defined (tstmt_of K mb) (mb_proof K mb)) as [x ->].
    - exact EH.
    - unfold mb, honest_member. cbn [tstmt_of ts_Gbenc mb_Gbenc]. apply Forall_forall. intros e0 He0. apply in_map_iff in He0. destruct He0 as (q & <- & Hq).
      rewrite Forall_forall in EGb. now apply EGb.
    - exact EA.
    - exact EA1.
    - exact EB.
    - unfold mb, honest_member. cbn [mb_proof p_li p_ri]. fold p.
      clear - EL ER LL LR. revert EL ER LL LR. generalize (pp_L p) (pp_R p) (length (pc_es ch)). intros l. induction l as [|x l IH]; intros [|z0 r] n EL ER LL LR; cbn [length] in *; subst; try discriminate; cbn [map combine]; constructor.
      + inversion EL; inversion ER; subst. cbn [fst snd]. auto.
      + inversion EL; inversion ER; subst. apply (IH r (length l)); auto.
    - unfold chal_ok, mb, honest_member. cbn [mb_ch c_y c_z c_es c_e].
      rewrite (proj2 (is_zero_false K Kok _) Hy), (proj2 (is_zero_false K Kok _) Hz), (proj2 (is_zero_false K Kok _) He). cbn [negb andb].
      rewrite andb_true_r. apply forallb_forall. intros e0 He0. rewrite Forall_forall in Hes. now rewrite (proj2 (is_zero_false K Kok _) (Hes e0 He0)). }
  assert (Grounds : rounds_ok K mb = true).
  { unfold rounds_ok. change (p_li (mb_proof K mb)) with (map enc (pp_L p)). change (p_ri (mb_proof K mb)) with (map enc (pp_R p)).
    rewrite !map_length, LL, LR, Nat.eqb_refl. cbn [negb].
    destruct (Nat.ltb_spec (length (pc_es ch)) 64) as [_|X]; [|lia]. cbn [negb].
    rewrite GN, HN, Nat2N.inj_pow. apply N.eqb_refl. }
  (* run the model *)
  unfold verify_chunk. rewrite Gcons. cbn [forallb]. rewrite Gtp. cbn [andb negb hd nth].
  cbn [proof_loop]. change (mb_undecodable K mb) with false. rewrite Grounds. cbn [negb hd tl app].
  assert (Epad : exists pad, generator_padding (N.of_nat (mb_bits K mb)) (N.of_nat (mb_m K mb)) (N.of_nat (mb_cap K mb)) = Some pad).
  { unfold generator_padding, obind, cmul, csub, usize_ok. change (mb_bits K mb) with bits. change (mb_cap K mb) with cap.
    assert (Em : mb_m K mb = m) by (unfold mb_m, mb, honest_member; cbn [mb_Venc]; now rewrite map_length, Lcm). rewrite Em.
    assert (Hm1 : 1 <= m) by (rewrite Hm; apply pow2_ge1).
    assert (Hc1 : (1 <= N.of_nat cap)%N) by lia.
    assert (H2b : (2 * N.of_nat bits < 2 ^ 64)%N) by nia.
    destruct (N.ltb_spec (2 * N.of_nat bits) (2 ^ 64)) as [_|X]; [|lia].
    destruct (N.ltb_spec (2 * N.of_nat bits * N.of_nat cap) (2 ^ 64)) as [_|X]; [|lia].
    assert (Hmc : (2 * N.of_nat bits * N.of_nat m <= 2 * N.of_nat bits * N.of_nat cap)%N) by (apply N.mul_le_mono_l; lia).
    destruct (N.ltb_spec (2 * N.of_nat bits * N.of_nat m) (2 ^ 64)) as [_|X]; [|lia].
    destruct (N.leb_spec (2 * N.of_nat bits * N.of_nat m) (2 * N.of_nat bits * N.of_nat cap)) as [_|X]; [|lia]. eauto. }
  destruct Epad as [pad Epad].
  exists (final_msm K (acc_all K (acc_init K Nn T) (terms_list K ofN [mb] [w])) (N.to_nat pad)).
  split.
  { destruct mode; try contradiction; cbn [nth]; rewrite Epad; reflexivity. }
  (* the product is the identity: batch equation + honest residual *)
  cbn [terms_list hd tl].
  assert (HNcap : Nn <= bits * cap) by (unfold Nn; rewrite (Nat.mul_comm m bits); apply Nat.mul_le_mono_l; exact Hcap).
  assert (Hwf : member_wf K M (g_Gb g) mb).
  { unfold member_wf. change (mb_bits K mb) with bits. change (mb_promises K mb) with promises. change (mb_T K mb) with T.
    change (c_es (mb_ch K mb)) with (pc_es ch). change (c_y (mb_ch K mb)) with (pc_y ch).
    change (p_li (mb_proof K mb)) with (map enc (pp_L p)). change (mb_Venc K mb) with (map enc (map (fun vr => commit K M g (fofN K (fst vr)) (snd vr)) (combine values blindings))).
    rewrite (map_length enc), Lcm, (map_length enc), LL. repeat split; try assumption; try reflexivity; try lia. exists a. congruence. }
  assert (Hbok : b_ok K M (g_Gb g) Nn (to_b K M ofN dec mb w)).
  { apply (member_b_ok K Kok M ofN dec (g_Gb g) Nn mb mb w Hwf eq_refl Grounds Gtp); [rewrite GN; lia|exact Gd1|reflexivity]. }
  pose proof (batch_is_weighted_residuals K Kok M Mok (g_H g) (g_Gb g) (g_G g) (g_Hv g) Nn (N.to_nat pad) [to_b K M ofN dec mb w]
                (Forall_cons _ Hbok (Forall_nil _)) ltac:(rewrite LG; exact HNcap) ltac:(rewrite LH; exact HNcap)) as BE.
  cbn [map flat_map b_pts to_b weighted_residuals] in BE. rewrite app_nil_r in BE.
  change (b_terms K M (to_b K M ofN dec mb w)) with (proof_terms K (mb_bits K mb) (mb_promises K mb) (vproof_of K ofN (mb_proof K mb)) (mb_ch K mb) w) in BE.
  fold T in BE. rewrite BE. clear BE.
  (* the member's textbook residual is the honest one *)
  assert (Eres : b_residual K M (g_H g) (g_Gb g) (g_G g) (g_Hv g) (to_b K M ofN dec mb w) = v0 M).
  { unfold b_residual, to_b, b_N, pts_of. cbn [b_bits b_promises b_pf b_ch b_pts mp_V mp_A mp_A1 mp_B mp_L mp_R v_d1 v_r1 v_s1 vproof_of].
    change (mb_bits K mb) with bits. change (mb_promises K mb) with promises.
    change (mb_ch K mb) with (mkChals K (pc_y ch) (pc_z ch) (pc_es ch) (pc_e ch)). cbn [c_y c_z c_es c_e].
    change (mb_Venc K mb) with (map enc (map (fun vr => commit K M g (fofN K (fst vr)) (snd vr)) (combine values blindings))).
    change (mb_proof K mb) with (mkProof (N.of_nat T) (map toN (pp_d1 p)) (enc (pp_A p)) (enc (pp_A1 p)) (enc (pp_B p)) (toN (pp_r1 p)) (toN (pp_s1 p)) (map enc (pp_L p)) (map enc (pp_R p))).
    cbn [p_d1 p_a p_a1 p_b p_r1 p_s1 p_li p_ri].
    assert (DE : forall l : list M, map dec (map enc l) = l) by (intros l; rewrite map_map; rewrite <- (map_id l) at 2; apply map_ext; exact dec_enc).
    assert (OT : forall l : list K, map ofN (map toN l) = l) by (intros l; rewrite map_map; rewrite <- (map_id l) at 2; apply map_ext; exact ofN_toN).
    rewrite !DE, OT, !dec_enc, !ofN_toN, Lp. fold m. fold Nn.
    exact (honest_residual_zero K Kok M Mok g bits cap values promises blindings nn ch a Hb Hm Hcap LG LH HN Hy Hy1 He Hes Lp Lb Fb Wn Hle Hlt). }
  rewrite Eres. rewrite (smul_v0 K Kok M Mok). apply (vadd0 K M Mok).
Qed.
End HT.
