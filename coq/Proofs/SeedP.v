(** C09 / C13 with the nonce sourcing of Model/Nonce.v: the assignment [assign] (which slot reads which
    RNG draw or which seed-derived nonce) always produces nonces of the shape the completeness theorem
    needs, and with a seed the verifier's recovery — querying the SAME seed oracle — returns the
    commitment's blinding vector. *)
From Coq Require Import List Arith NArith Lia Field Ring PeanoNat.
From BP Require Import Base.Field Model.Codec Model.Transcript Model.Verifier Model.Prover Model.Nonce Model.Spec Model.RangeSpec
     Proofs.FieldP Proofs.ModuleP Proofs.CompleteP Proofs.MaskP Proofs.MaskFullP.
Import ListNotations.
Local Close Scope N_scope.

Section Seed.
Variable K : Fld.
Hypothesis Kok : FldOk K.
Add Field Kf : (Fth K Kok).
Variable M : Mod K.
Hypothesis Mok : ModOk K M.
Local Open Scope F_scope.
Notation "0" := (f0 K). Notation "1" := (f1 K).

Variable seed_nonce : nlabel -> option nat -> nat -> K.
Variable rng : nat -> list K.

Lemma assign_wf seeded T rounds : wf_nonces K T rounds (assign K seed_nonce rng seeded T rounds).
Proof.
  unfold wf_nonces, assign. cbn [n_alpha n_d n_eta n_dL n_dR]. rewrite !map_length, !seq_length.
  repeat split; try reflexivity; apply Forall_forall; intros d Hd; apply in_map_iff in Hd; destruct Hd as (j & <- & _);
    now rewrite map_length, seq_length.
Qed.

Lemma nth_map_seq {A} (f : nat -> A) d n k : k < n -> nth k (map f (seq 0 n)) d = f k.
Proof. intros Hk. rewrite (nth_indep _ d (f 0%nat)) by (now rewrite map_length, seq_length). rewrite map_nth, seq_nth by exact Hk. reflexivity. Qed.

(** with a seed, every nonce the recovery can ask for is the seed-derived one *)
Lemma nonce_fn_assign_seeded T rounds l (jo : option nat) k : k < T ->
  match l, jo with
  | NdL, Some j | NdR, Some j => j < rounds
  | NdL, None | NdR, None => False
  | _, _ => True
  end ->
  nonce_fn K (assign K seed_nonce rng true T rounds) l jo k =
  seed_nonce l (match l with NdL | NdR => jo | _ => None end) k.
Proof.
  intros Hk Hj. unfold nonce_fn, assign. cbn [n_alpha n_d n_eta n_dL n_dR].
  destruct l, jo as [j|]; try contradiction; cbn [source_of read];
    repeat (rewrite nth_map_seq by assumption); cbn [source_of read]; try reflexivity.
  all: rewrite (nth_indep _ [] (map (fun k0 => read K seed_nonce rng (source_of true T rounds (SdL 0 k0))) (seq 0 T))) by (now rewrite map_length, seq_length) || idtac.
  all: try (rewrite (nth_map_seq (fun j0 => map (fun k0 => read K seed_nonce rng (source_of true T rounds (SdL j0 k0))) (seq 0 T)) _ rounds j Hj), nth_map_seq by exact Hk; reflexivity).
  all: try (rewrite (nth_map_seq (fun j0 => map (fun k0 => read K seed_nonce rng (source_of true T rounds (SdR j0 k0))) (seq 0 T)) _ rounds j Hj), nth_map_seq by exact Hk; reflexivity).
Qed.

Lemma mask_rounds_ext (n1 n2 : nlabel -> option nat -> nat -> K) k : forall esq esq_inv j acc,
  (forall j', j <= j' < j + length esq -> n1 NdL (Some j') k = n2 NdL (Some j') k /\ n1 NdR (Some j') k = n2 NdR (Some j') k) ->
  mask_rounds K n1 k j esq esq_inv acc = mask_rounds K n2 k j esq esq_inv acc.
Proof.
  induction esq as [|c esq IH]; intros [|ci esq_inv] j acc Hn; cbn [mask_rounds]; try reflexivity.
  destruct (Hn j ltac:(cbn [length]; lia)) as [-> ->]. apply IH. intros j' Hj'. apply Hn. cbn [length]. lia.
Qed.

Lemma recover_mask_ext (n1 n2 : nlabel -> option nat -> nat -> K) bits m T pf ch :
  (forall k, k < T -> n1 NEta None k = n2 NEta None k /\ n1 Nd None k = n2 Nd None k /\ n1 NAlpha None k = n2 NAlpha None k) ->
  (forall j k, j < length (c_es ch) -> k < T -> n1 NdL (Some j) k = n2 NdL (Some j) k /\ n1 NdR (Some j) k = n2 NdR (Some j) k) ->
  recover_mask K n1 bits m T pf ch = recover_mask K n2 bits m T pf ch.
Proof.
  intros H0 Hj. unfold recover_mask. apply map_ext_in. intros [k d1v] Hin.
  assert (Hk : k < T).
  { apply in_combine_l in Hin. apply in_seq in Hin. lia. }
  destruct (H0 k Hk) as (-> & -> & ->). f_equal.
  apply mask_rounds_ext. intros j' Hj'. rewrite map_length in Hj'. apply Hj; [lia|exact Hk].
Qed.

Variable g : gens K M.

(** THE SEEDED END-TO-END STATEMENT: a prover whose nonces are assigned by the source map of Model/Nonce.v
    with a seed (alpha, dL, dR, d, eta seed-derived; r, s from the transcript RNG), and a verifier that
    queries the same seed oracle, for one commitment: recovery returns the blinding vector. *)
Theorem seeded_recovery_exact bits cap (v : N) (p : option N) (r : list K) (ch : pchals K) :
  let T := length (g_Gb g) in
  let rounds := length (pc_es ch) in
  1 <= bits -> 1 <= cap ->
  length (g_G g) = (bits * cap)%nat -> length (g_Hv g) = (bits * cap)%nat ->
  (1 * bits)%nat = 2 ^ rounds ->
  pc_y ch <> 0 -> pc_z ch <> 0 -> pc_e ch <> 0 -> Forall (fun e => e <> 0) (pc_es ch) ->
  length r = T ->
  let nn := assign K seed_nonce rng true T rounds in
  let pf := prove_core K M bits cap g [v] [p] [r] nn ch in
  recover_mask K seed_nonce bits 1 T (mkVproof K (pp_d1 pf) (pp_r1 pf) (pp_s1 pf))
               (mkChals K (pc_y ch) (pc_z ch) (pc_es ch) (pc_e ch)) = r.
Proof.
  intros T rounds Hb Hcap LG LH HN Hy Hz He Hes Lr nn pf.
  transitivity (recover_mask K (nonce_fn K nn) bits 1 T (mkVproof K (pp_d1 pf) (pp_r1 pf) (pp_s1 pf)) (mkChals K (pc_y ch) (pc_z ch) (pc_es ch) (pc_e ch))).
  2:{ exact (prover_mask_recovered K Kok M Mok g bits cap v p r nn ch Hb Hcap LG LH HN Hy Hz He Hes Lr (assign_wf true T rounds)). }
  apply recover_mask_ext; cbn [c_es].
  - intros k Hk. repeat split; symmetry.
    + exact (nonce_fn_assign_seeded T rounds NEta None k Hk I).
    + exact (nonce_fn_assign_seeded T rounds Nd None k Hk I).
    + exact (nonce_fn_assign_seeded T rounds NAlpha None k Hk I).
  - intros j k Hj Hk. split; symmetry.
    + exact (nonce_fn_assign_seeded T rounds NdL (Some j) k Hk Hj).
    + exact (nonce_fn_assign_seeded T rounds NdR (Some j) k Hk Hj).
Qed.
End Seed.
