(** C02: the multiscalar product the optimised verifier evaluates for one proof equals its batch
    weight times the residual (right-hand side minus left-hand side) of the textbook Bulletproofs+
    verification equation — for ARBITRARY proof elements, not only honest ones. *)
From Coq Require Import List Arith NArith Lia Field Ring PeanoNat.
From BP Require Import Base.Field Model.Verifier Model.Spec Model.RangeSpec
     Proofs.FieldP Proofs.ModuleP Proofs.WipP Proofs.SvecP Proofs.ClosedP Proofs.FoldP.
Import ListNotations.

Section VE.
Variable K : Fld.
Hypothesis Kok : FldOk K.
Add Field Kf : (Fth K Kok).
Variable M : Mod K.
Hypothesis Mok : ModOk K M.
Local Open Scope F_scope.
Notation "0" := (f0 K). Notation "1" := (f1 K).
Infix "+v" := (vadd M) (at level 50, left associativity).
Infix "*v" := (smul M) (at level 40).
Notation fpow := (fpow K).

(** what the verifier's final multiscalar multiplication computes for one proof *)
Definition terms_msm (t : terms K) (G Hs Vs : list M) (H : M) (Gb : list M) (A1 B A : M) (Ls Rs : list M) : M :=
  msm (t_gi t) G +v msm (t_hi t) Hs +v msm (t_V t) Vs +v t_H t *v H +v msm (t_Gb t) Gb
  +v t_A1 t *v A1 +v t_B t *v B +v t_A t *v A +v msm (t_L t) Ls +v msm (t_R t) Rs.

(** ** the running-product loop in closed form *)
Lemma gh_loop_spec w r1e s1e e2 e2z z yinv : forall s srev d yi yn, length srev = length s -> length d = length s ->
  gh_loop K w r1e s1e e2 e2z z yinv s srev d yi yn =
  (map2 (fun p si => w * (r1e * p * si + e2z)) (powers_from K yi yinv (length s)) s,
   map2 (fun sr dp => w * (s1e * sr - e2 * (dp + z))) srev (map2 (fmul K) d (powers_from K yn yinv (length s)))).
Proof.
  induction s as [|si s IH]; intros [|sr srev] [|di d] yi yn H1 H2; cbn [length] in *; try discriminate; cbn [gh_loop powers_from map2]; [reflexivity|].
  rewrite IH by lia. reflexivity.
Qed.

Lemma vsum_cons (g : M) G : vsum (g :: G) = g +v vsum G. Proof. reflexivity. Qed.

Lemma msm_affine (a b : K) : forall cs (G : list M), length cs = length G ->
  msm (map (fun c => a * c + b) cs) G = a *v msm cs G +v b *v vsum G.
Proof.
  induction cs as [|c cs IH]; intros [|g G] Hl; cbn [length] in Hl; try discriminate; cbn [map msm].
  - cbn. module_eq.
  - rewrite IH by lia. rewrite vsum_cons. module_eq.
Qed.

Lemma msm_lin2 (a b z : K) : forall xs ys (G : list M), length xs = length ys ->
  msm (map2 (fun x y => a * x + b * (z + y)) xs ys) G = a *v msm xs G +v b *v msm (map (fun y => z + y) ys) G.
Proof.
  induction xs as [|x xs IH]; intros [|y ys] G Hl; cbn [length] in Hl; try discriminate; cbn [map2 map msm].
  - module_eq.
  - destruct G as [|g G]; cbn [msm]; [module_eq|]. rewrite IH by lia. module_eq.
Qed.

(** y^(N-a), y^(N-a-1), ... by a running product with y^-1 *)
Lemma powers_down y (Hy : y <> 0) N : forall n a, a + n <= N ->
  powers_from K (fpow y (N - a)) (/ y) n = map (fun i => fpow y (N - i)) (seq a n).
Proof.
  induction n as [|n IH]; intros a Ha; cbn [powers_from seq map]; [reflexivity|].
  f_equal. rewrite <- IH by lia. f_equal.
  replace (N - a)%nat with (S (N - S a)) by lia. cbn [Field.fpow]. field. exact Hy.
Qed.

Lemma map2_seq_map {A B} (f : A -> nat -> B) (g : nat -> K) (h : A -> K -> B) :
  (forall x i, h x (g i) = f x i) -> forall (d : list A) a n, map2 h d (map g (seq a n)) = map2 f d (seq a n).
Proof.
  intros E d a n. revert d a. induction n as [|n IH]; intros [|x d] a; cbn [seq map map2]; try reflexivity.
  now rewrite E, IH.
Qed.

(** ** commitments and promises *)
Lemma v_loop_msm (H : M) w e2 z2 ynm1 : forall promises Vs zpow, length Vs = length promises ->
  msm (fst (v_loop K w e2 z2 ynm1 zpow promises)) Vs +v snd (v_loop K w e2 z2 ynm1 zpow promises) *v H
  = (- (w * e2)) *v msm (map (fun j => ynm1 * (zpow * fpow z2 (S j))) (seq 0 (length promises))) (map2 (shifted K M H) Vs promises).
Proof.
  induction promises as [|p ps IH]; intros [|V Vs] zpow Hl; cbn [length] in Hl; try discriminate; cbn [v_loop fst snd msm length seq map map2].
  - module_eq.
  - specialize (IH Vs (zpow * z2) ltac:(lia)).
    destruct (v_loop K w e2 z2 ynm1 (zpow * z2) ps) as [vs h]. cbn [fst snd msm] in *.
    rewrite map_seq_shift.
    replace (map (fun i => ynm1 * (zpow * fpow z2 (S (S i)))) (seq 0 (length ps)))
       with (map (fun j => ynm1 * (zpow * z2 * fpow z2 (S j))) (seq 0 (length ps))).
    2:{ apply map_ext. intros j. cbn [Field.fpow]. ring. }
    destruct p as [mv|]; cbn [shifted].
    + transitivity ((w * (- e2 * (zpow * z2) * ynm1)) *v V +v (- (w * (- e2 * (zpow * z2) * ynm1) * fofN K mv)) *v H +v (msm vs Vs +v h *v H)); [module_eq|].
      rewrite IH. cbn [Field.fpow]. module_eq.
    + transitivity ((w * (- e2 * (zpow * z2) * ynm1)) *v V +v (msm vs Vs +v h *v H)); [module_eq|].
      rewrite IH. cbn [Field.fpow]. module_eq.
Qed.

Lemma map_fmul_ext (c : K) (f : K -> K) l : (forall x, f x = c * x) -> map f l = map (fmul K c) l.
Proof. intros E. apply map_ext. exact E. Qed.

(** ** the equivalence *)
Theorem verifier_equiv bits a (promises : list (option N)) (H : M) (Gb G Hs Vs : list M)
        (A A1 B : M) (LR : list (M * M)) (r1 s1 : K) (d1 : list K) (y z e w : K) (es : list K) :
  1 <= bits -> length promises = 2 ^ a -> (length promises * bits)%nat = 2 ^ length es ->
  Forall (fun c => c <> 0) es -> y <> 0 -> y - 1 <> 0 ->
  length G = (length promises * bits)%nat -> length Hs = (length promises * bits)%nat ->
  length Vs = length promises -> length LR = length es ->
  terms_msm (proof_terms K bits promises (mkVproof K d1 r1 s1) (mkChals K y z es e) w)
            G Hs Vs H Gb A1 B A (map fst LR) (map snd LR)
  = w *v spec_residual K M bits H Gb G Hs Vs promises (mkRproof K M A LR A1 B r1 s1 d1) y z es e.
Proof.
  intros Hb Hm HN Hnz Hy Hy1 LG LH LV LLR.
  set (m := length promises) in *. set (N := (m * bits)%nat) in *.
  assert (Hm1 : 1 <= m) by (rewrite Hm; apply Nat.neq_0_lt_0, Nat.pow_nonzero; lia).
  (* textbook side *)
  unfold spec_residual, spec_sides. cbn [rp_A rp_LR rp_A1 rp_B rp_r1 rp_s1 rp_d1].
  rewrite (verifier_fold_split K M) by exact LLR.
  rewrite (fold_P_msm K Kok M Mok) by exact LLR.
  rewrite (fold_Gs_msm K Kok M Mok) by congruence.
  rewrite (fold_Hs_msm K Kok M Mok) by congruence.
  cbn [hd].
  rewrite (gcoef_s_vector K Kok y Hy es Hnz), (hcoef_s_vector K Kok es Hnz). rewrite <- HN.
  unfold P0. fold m. fold N.
  (* code side *)
  unfold terms_msm, proof_terms. cbn [c_y c_z c_es c_e v_d1 v_r1 v_s1]. fold m. fold N.
  rewrite (s0_closed K Kok es y Hy Hy1), (invs_nth_y K es y), (invs_nth_y1 K es y), (invs_firstn K es y).
  set (s0 := fprod K (map (finv K) es)).
  set (esq := map (fun c => c * c) es).
  rewrite (s_loop_eq_s_rec K N s0 esq) by (unfold esq; rewrite map_length; exact HN).
  set (s := s_rec K s0 esq).
  assert (Ls : length s = N) by (unfold s; rewrite s_rec_length; unfold esq; rewrite map_length; congruence).
  rewrite (d_vec_naive K Kok bits m z Hb Hm1).
  replace (d_sum K bits m (z * z)) with (fsum K (d_naive K bits m z)) by (rewrite Hm; symmetry; apply (d_sum_naive K Kok)).
  rewrite (y_sum_naive K Kok y N Hy1).
  set (d := d_naive K bits m z).
  assert (Ld : length d = N) by (unfold d; apply d_naive_length).
  rewrite gh_loop_spec by (rewrite ?rev_length; congruence).
  rewrite Ls.
  pose proof (v_loop_msm H w (e * e) (z * z) (fpow y N * y) promises Vs 1 LV) as EV. fold m in EV.
  destruct (v_loop K w (e * e) (z * z) (fpow y N * y) 1 promises) as [vs hp]. cbn [fst snd] in EV.
  cbn [t_gi t_hi t_V t_H t_Gb t_A1 t_B t_A t_L t_R].
  (* G scalars *)
  replace (map2 (fun p si => w * (r1 * e * p * si + e * e * z)) (powers_from K 1 (/ y) N) s)
     with (map (fun c => (w * (r1 * e)) * c + w * (e * e * z)) (map2 (fmul K) (powers K (/ y) N) s)).
  2:{ unfold powers. rewrite map_map2. apply map2_ext. intros p si. ring. }
  rewrite msm_affine by (rewrite (map2_len _ _ _ N); [congruence|apply (powers_length K)|exact Ls]).
  (* H scalars *)
  replace (powers_from K (fpow y N) (/ y) N) with (map (fun i => fpow y (N - i)) (seq 0 N)).
  2:{ symmetry. rewrite <- (powers_down y Hy N N 0) by lia. now rewrite Nat.sub_0_r. }
  rewrite (map2_seq_map (fun di i => di * fpow y (N - i)) (fun i => fpow y (N - i)) (fmul K)) by reflexivity.
  replace (map2 (fun sr dp => w * (s1 * e * sr - e * e * (dp + z))) (rev s) (map2 (fun di i => di * fpow y (N - i)) d (seq 0 N)))
     with (map2 (fun sr dp => (w * (s1 * e)) * sr + (- (w * (e * e))) * (z + dp)) (rev s) (map2 (fun di i => di * fpow y (N - i)) d (seq 0 N))).
  2:{ apply map2_ext. intros sr dp. ring. }
  rewrite msm_lin2 by (rewrite rev_length, (map2_len _ _ _ N); [congruence|exact Ld|apply seq_length]).
  rewrite map_map2.
  change (map2 (fun x z0 => z + x * fpow y (N - z0)) d (seq 0 N)) with (h_shift K bits m y z).
  (* small scalar lists *)
  rewrite (map_fmul_ext w (fun d0 => w * d0) d1) by reflexivity.
  rewrite (map_fmul_ext (w * - (e * e)) (fun c => w * - (e * e) * c) esq) by reflexivity.
  rewrite (map_fmul_ext (w * - (e * e)) (fun c => w * - (e * e) * c) (map (fun c => c * c) (map (finv K) es))) by reflexivity.
  rewrite !(msm_scale_l K Kok M Mok).
  rewrite map_map.
  (* commitments: split the H scalar *)
  transitivity ((w * (r1 * e)) *v msm (map2 (fmul K) (powers K (/ y) N) s) G +v (w * (e * e * z)) *v vsum G
     +v ((w * (s1 * e)) *v msm (rev s) Hs +v (- (w * (e * e))) *v msm (h_shift K bits m y z) Hs)
     +v (msm vs Vs +v hp *v H)
     +v (w * (r1 * y * s1 + e * e * (fpow y N * y * z * fsum K d + (z * z - z) * ysum_naive K y N))) *v H
     +v w *v msm d1 Gb +v (w * - e) *v A1 +v (- w) *v B +v (w * - (e * e)) *v A
     +v (w * - (e * e)) *v msm esq (map fst LR) +v (w * - (e * e)) *v msm (map (fun x => / x * / x) es) (map snd LR)); [module_eq|].
  rewrite EV. unfold zeta. fold N. fold d.
  replace (map (fun j => fpow y N * y * (1 * fpow (z * z) (S j))) (seq 0 m)) with (v_weights K bits m y z).
  2:{ unfold v_weights. fold N. apply map_ext. intros j. cbn [Field.fpow]. ring. }
  unfold esq. cbn [Field.fpow]. module_eq.
Qed.

(** with a non-zero weight the optimised check passes exactly when the textbook equation holds *)
Lemma residual_zero_iff (lhs rhs : M) : rhs +v (- (1)) *v lhs = v0 M <-> lhs = rhs.
Proof.
  split; intros E.
  - transitivity (lhs +v (rhs +v (- (1)) *v lhs)); [rewrite E; module_eq|module_eq].
  - rewrite E. module_eq.
Qed.

Theorem verifier_accepts_iff bits a promises H Gb G Hs Vs A A1 B LR r1 s1 d1 y z e w es :
  1 <= bits -> length promises = 2 ^ a -> (length promises * bits)%nat = 2 ^ length es ->
  Forall (fun c => c <> 0) es -> y <> 0 -> y - 1 <> 0 -> w <> 0 ->
  length G = (length promises * bits)%nat -> length Hs = (length promises * bits)%nat ->
  length Vs = length promises -> length LR = length es ->
  (terms_msm (proof_terms K bits promises (mkVproof K d1 r1 s1) (mkChals K y z es e) w)
            G Hs Vs H Gb A1 B A (map fst LR) (map snd LR) = v0 M
   <-> spec_accepts K M bits H Gb G Hs Vs promises (mkRproof K M A LR A1 B r1 s1 d1) y z es e).
Proof.
  intros Hb Hm HN Hnz Hy Hy1 Hw LG LH LV LLR.
  rewrite (verifier_equiv bits a promises H Gb G Hs Vs A A1 B LR r1 s1 d1 y z e w es) by assumption.
  unfold spec_residual, spec_accepts. destruct (spec_sides _ _ _ _ _ _ _ _ _ _ _ _ _ _) as [lhs rhs].
  split; intros E.
  - apply residual_zero_iff. transitivity ((/ w) *v (w *v (rhs +v (- (1)) *v lhs))); [module_eq|]. rewrite E. apply (smul_v0 K Kok M Mok).
  - apply residual_zero_iff in E. rewrite E. apply (smul_v0 K Kok M Mok).
Qed.
End VE.
