(** C09 / C03, whole batches: whenever [verify_batch] returns Ok, result i belongs to member i of the WHOLE
    batch — across every chunk boundary: the results are exactly [map (mask_of mode) ms]. *)
From Coq Require Import List Arith NArith Lia Bool.
From BP Require Import Base.Field Model.Ctor Model.Codec Model.Transcript Model.Verifier Model.VerifyTop Proofs.VerifyTopP Proofs.BatchTopP.
Import ListNotations.
Local Close Scope N_scope.

Section BA.
Variable K : Fld.
Variable ofN : N -> K.

Lemma all_ok_aligned mode : forall cs orc masks,
  all_ok (chunk_results K ofN mode cs orc) = Some masks -> masks = map (mask_of K ofN mode) (concat cs).
Proof.
  induction cs as [|c cs IH]; intros orc masks E; cbn [chunk_results all_ok concat] in *.
  - inversion E. reflexivity.
  - destruct (fst (verify_chunk K ofN mode c (fst (hd ([], false) orc)) (snd (hd ([], false) orc)))) as [m|] eqn:Ec; [|discriminate].
    destruct (all_ok (chunk_results K ofN mode cs (tl orc))) as [ms'|] eqn:Er; [|discriminate]. inversion E; subst.
    rewrite map_app. f_equal; [exact (chunk_results_aligned K ofN mode c _ _ m Ec)|now apply (IH (tl orc))].
Qed.

Theorem batch_results_aligned mode ns np nt ms orc masks :
  verify_batch K ofN mode ns np nt ms orc = Ok masks -> masks = map (mask_of K ofN mode) ms.
Proof.
  intros E. apply verify_batch_ok_iff in E. destruct E as (_ & _ & _ & E).
  apply all_ok_aligned in E. rewrite chunks_of_concat in E; [exact E|unfold MAX_BATCH; lia|lia].
Qed.
End BA.
