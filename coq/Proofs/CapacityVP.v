(** C12, verifier side: the value the batch's final product takes (sum_p w_p * residual_p) does not depend
    on the capacity of the owner's generator table: two tables that agree on the first max_mn vector
    generators (every capacity is a prefix view of the same chains) give the same product, whatever
    lies beyond and whatever zero padding is applied. *)
From Coq Require Import List Arith NArith Lia Field Ring PeanoNat.
From BP Require Import Base.Field Model.Verifier Model.Prover Model.Spec Model.RangeSpec
     Proofs.FieldP Proofs.ModuleP Proofs.VerifierEquivP Proofs.GuardsP Proofs.BatchP Proofs.BatchEquivP.
Import ListNotations.

Section CV.
Variable K : Fld.
Hypothesis Kok : FldOk K.
Add Field Kf : (Fth K Kok).
Variable M : Mod K.
Hypothesis Mok : ModOk K M.
Infix "+v" := (vadd M) (at level 50, left associativity).

Variables (H : M) (Gb : list M).

Lemma firstn_prefix {A} (l1 l2 : list A) n mx : n <= mx -> firstn mx l1 = firstn mx l2 -> firstn n l1 = firstn n l2.
Proof.
  intros Hn E. rewrite <- (Nat.min_l n mx Hn). rewrite <- !firstn_firstn. now rewrite E.
Qed.

Lemma residual_prefix (G1 Hv1 G2 Hv2 : list M) mx b :
  b_N K M b <= mx -> firstn mx G1 = firstn mx G2 -> firstn mx Hv1 = firstn mx Hv2 ->
  b_residual K M H Gb G1 Hv1 b = b_residual K M H Gb G2 Hv2 b.
Proof.
  intros Hn EG EH. unfold b_residual. now rewrite (firstn_prefix G1 G2 _ mx Hn EG), (firstn_prefix Hv1 Hv2 _ mx Hn EH).
Qed.

Theorem verifier_capacity_independent (G1 Hv1 G2 Hv2 : list M) mx pad1 pad2 (bs : list (bmember K M)) :
  Forall (b_ok K M Gb mx) bs ->
  mx <= length G1 -> mx <= length Hv1 -> mx <= length G2 -> mx <= length Hv2 ->
  firstn mx G1 = firstn mx G2 -> firstn mx Hv1 = firstn mx Hv2 ->
  let acc := acc_all K (acc_init K mx (length Gb)) (map (b_terms K M) bs) in
  let dyn := flat_map (dyn_of K M) (map (b_pts K M) bs) ++ Gb ++ [H] in
  msm (fst (final_msm K acc pad1)) (interleaveM K M G1 Hv1) +v msm (snd (final_msm K acc pad1)) dyn
  = msm (fst (final_msm K acc pad2)) (interleaveM K M G2 Hv2) +v msm (snd (final_msm K acc pad2)) dyn.
Proof.
  intros Hok L1 L2 L3 L4 EG EH acc dyn. subst acc dyn.
  rewrite (batch_is_weighted_residuals K Kok M Mok H Gb G1 Hv1 mx pad1 bs Hok L1 L2).
  rewrite (batch_is_weighted_residuals K Kok M Mok H Gb G2 Hv2 mx pad2 bs Hok L3 L4).
  induction bs as [|b bs IH]; cbn [weighted_residuals]; [reflexivity|].
  inversion Hok as [|? ? Hb Hok']; subst. rewrite IH by exact Hok'.
  destruct Hb as (_ & _ & _ & _ & _ & _ & Hmx & _).
  now rewrite (residual_prefix G1 Hv1 G2 Hv2 mx b Hmx EG EH).
Qed.
End CV.
