(** C03 "only if", the deterministic case, at the top of the executed model: a chunk in which every member but ONE is a
    statement / proof pair made by the code-shaped prover for a valid witness, and the remaining member is ARBITRARY (any proof
    bytes, any statement over the same generators).  If [verify_chunk] accepts the chunk in a verifying mode — the back end having
    found the identity — and the weight drawn for the unknown member is non-zero (C08_weights_nonzero), then the TEXTBOOK verifier
    accepts the unknown member: honest companions cannot help an invalid proof through a batch.  No random-oracle step is needed
    because only one residual is unknown. *)
From Coq Require Import List Arith NArith Lia Field Ring PeanoNat Bool.
From BP Require Import Base.Field Model.Ctor Model.Codec Model.Transcript Model.Verifier Model.VerifyTop Model.Prover Model.Spec Model.RangeSpec
     Proofs.FieldP Proofs.ModuleP Proofs.VerifierEquivP Proofs.GuardsP Proofs.BatchP Proofs.BatchEquivP Proofs.BatchOnlyIfP Proofs.VerifyTopP
     Proofs.TopP Proofs.HonestTopP Proofs.HonestBatchTopP.
Import ListNotations.
Local Close Scope N_scope.

Section OU.
Variable K : Fld.
Hypothesis Kok : FldOk K.
Add Field Kf : (Fth K Kok).
Variable M : Mod K.
Hypothesis Mok : ModOk K M.
Local Open Scope F_scope.
Notation "0" := (f0 K). Notation "1" := (f1 K).
Infix "+v" := (vadd M) (at level 50, left associativity).
Infix "*v" := (smul M) (at level 40).

Variable ofN : N -> K.
Variable toN : K -> N.
Hypothesis ofN_toN : forall x, ofN (toN x) = x.
Variable enc : M -> N.
Variable dec : N -> M.
Hypothesis dec_enc : forall p, dec (enc p) = p.
Variable g : gens K M.
Variables (bits cap : nat).
Hypothesis Hb : 1 <= bits.
Hypothesis LG : length (g_G g) = (bits * cap)%nat.
Hypothesis LH : length (g_Hv g) = (bits * cap)%nat.
Hypothesis HT : 1 <= length (g_Gb g) <= 6.
Hypothesis Hpad : (2 * N.of_nat bits * N.of_nat cap < 2 ^ 64)%N.
Hypothesis EH : enc (g_H g) <> 0%N.
Hypothesis EGb : Forall (fun q => enc q <> 0%N) (g_Gb g).

Notation hm := (hmember K M toN enc g bits cap).
Notation WRes := (weighted_residuals K M (g_H g) (g_Gb g) (g_G g) (g_Hv g)).
Notation res := (b_residual K M (g_H g) (g_Gb g) (g_G g) (g_Hv g)).

Lemma to_bs_app : forall pre mb post ws,
  to_bs K M ofN dec (pre ++ mb :: post) ws
  = to_bs K M ofN dec pre ws ++ to_b K M ofN dec mb (nth (length pre) ws 0) :: to_bs K M ofN dec post (skipn (S (length pre)) ws).
Proof.
  induction pre as [|p pre IH]; intros mb post ws; cbn [app to_bs length].
  - destruct ws; reflexivity.
  - rewrite IH. destruct ws as [|w ws]; cbn [hd tl nth skipn]; [|reflexivity].
    destruct (length pre); reflexivity.
Qed.

Lemma honest_bs_zero : forall hs ws, Forall (hp_ok K M enc g bits cap) hs ->
  WRes (to_bs K M ofN dec (map hm hs) ws) = v0 M.
Proof.
  intros hs ws Hok. apply (weighted_zero K Kok M Mok g). revert ws. induction hs as [|h hs IH]; intros ws; cbn [map to_bs]; constructor.
  - inversion Hok as [|? ? Hh _]; subst.
    destruct (hmember_facts K Kok M Mok ofN toN ofN_toN enc dec dec_enc g bits cap Hb LG LH HT Hpad EH EGb h Hh) as (_ & _ & _ & _ & _ & _ & _ & R).
    apply R.
  - inversion Hok; subst. apply IH. assumption.
Qed.

Theorem one_unknown_among_honest mode (pre post : list (hparams K)) (mb : member K) ws masks sc mx :
  let ms := map hm pre ++ mb :: map hm post in
  let w := nth (length pre) ws 0 in
  mode <> RecoverOnly -> w <> 0 ->
  Forall (hp_ok K M enc g bits cap) pre -> Forall (hp_ok K M enc g bits cap) post ->
  member_wf K M (g_Gb g) mb ->
  verify_chunk K ofN mode ms ws true = (Ok masks, Some sc) ->
  (exists mi, consistency K ms = Some (mx, mi)) -> mx <= (bits * cap)%nat ->
  msm (fst sc) (interleaveM K M (g_G g) (g_Hv g)) +v msm (snd sc) (flat_map (dyn_of K M) (map (pts_of K M dec) ms) ++ g_Gb g ++ [g_H g]) = v0 M ->
  res (to_b K M ofN dec mb w) = v0 M.
Proof.
  intros ms w Hmode Hw Hpre Hpost Hwf E Ec Hmx Z.
  assert (Fwf : Forall (member_wf K M (g_Gb g)) ms).
  { unfold ms. apply Forall_app. split; [|constructor; [exact Hwf|]].
    - apply Forall_forall. intros x Hx. apply in_map_iff in Hx. destruct Hx as (h & <- & Hh). rewrite Forall_forall in Hpre.
      now destruct (hmember_facts K Kok M Mok ofN toN ofN_toN enc dec dec_enc g bits cap Hb LG LH HT Hpad EH EGb h (Hpre h Hh)) as (_ & _ & _ & _ & _ & X & _).
    - apply Forall_forall. intros x Hx. apply in_map_iff in Hx. destruct Hx as (h & <- & Hh). rewrite Forall_forall in Hpost.
      now destruct (hmember_facts K Kok M Mok ofN toN ofN_toN enc dec dec_enc g bits cap Hb LG LH HT Hpad EH EGb h (Hpost h Hh)) as (_ & _ & _ & _ & _ & X & _). }
  pose proof (accepted_chunk_means_zero_weighted_residuals K Kok M Mok ofN dec (g_H g) (g_Gb g) (g_G g) (g_Hv g) mode ms ws masks sc Hmode Fwf E mx Ec
                ltac:(rewrite LG; exact Hmx) ltac:(rewrite LH; exact Hmx) Z) as WR.
  unfold ms in WR. rewrite to_bs_app, map_length in WR.
  rewrite (WR_app K Kok M Mok) in WR. cbn [weighted_residuals] in WR.
  rewrite (honest_bs_zero pre ws Hpre), (honest_bs_zero post _ Hpost) in WR.
  cbn [b_w to_b] in WR. fold w in WR.
  transitivity ((/ w) *v (v0 M +v (w *v res (to_b K M ofN dec mb w) +v v0 M))); [module_eq|].
  change (mkB K M (mb_bits K mb) (mb_promises K mb) (vproof_of K ofN (mb_proof K mb)) (mb_ch K mb) w (pts_of K M dec mb)) with (to_b K M ofN dec mb w) in WR.
  rewrite WR. apply (smul_v0 K Kok M Mok).
Qed.

Corollary one_unknown_textbook_accepts mode (pre post : list (hparams K)) (mb : member K) ws masks sc mx :
  let ms := map hm pre ++ mb :: map hm post in
  let w := nth (length pre) ws 0 in
  mode <> RecoverOnly -> w <> 0 ->
  Forall (hp_ok K M enc g bits cap) pre -> Forall (hp_ok K M enc g bits cap) post ->
  member_wf K M (g_Gb g) mb ->
  verify_chunk K ofN mode ms ws true = (Ok masks, Some sc) ->
  (exists mi, consistency K ms = Some (mx, mi)) -> mx <= (bits * cap)%nat ->
  msm (fst sc) (interleaveM K M (g_G g) (g_Hv g)) +v msm (snd sc) (flat_map (dyn_of K M) (map (pts_of K M dec) ms) ++ g_Gb g ++ [g_H g]) = v0 M ->
  let pr := mb_proof K mb in
  let Nn := (length (mb_promises K mb) * mb_bits K mb)%nat in
  spec_accepts K M (mb_bits K mb) (g_H g) (g_Gb g) (firstn Nn (g_G g)) (firstn Nn (g_Hv g)) (map dec (mb_Venc K mb)) (mb_promises K mb)
    (mkRproof K M (dec (p_a pr)) (combine (map dec (p_li pr)) (map dec (p_ri pr))) (dec (p_a1 pr)) (dec (p_b pr))
              (ofN (p_r1 pr)) (ofN (p_s1 pr)) (map ofN (p_d1 pr)))
    (c_y (mb_ch K mb)) (c_z (mb_ch K mb)) (c_es (mb_ch K mb)) (c_e (mb_ch K mb)).
Proof.
  intros ms w Hmode Hw Hpre Hpost Hwf E Ec Hmx Z pr Nn.
  pose proof (one_unknown_among_honest mode pre post mb ws masks sc mx Hmode Hw Hpre Hpost Hwf E Ec Hmx Z) as R0.
  unfold b_residual, to_b, b_N, pts_of in R0. cbn [b_bits b_promises b_pf b_ch b_pts mp_V mp_A mp_A1 mp_B mp_L mp_R v_d1 v_r1 v_s1 vproof_of] in R0.
  fold pr in R0. fold Nn in R0.
  unfold spec_residual in R0. unfold spec_accepts.
  destruct (spec_sides K M _ _ _ _ _ _ _ _ _ _ _ _) as [lhs rhs].
  now apply (residual_zero_iff K Kok M Mok).
Qed.
End OU.
