(** The converse of the guard-extraction lemmas: a chunk whose members agree with the first on every compared
    statement field and pass the per-member guards RUNS through [verify_chunk] in a verifying mode — the verdict is
    whatever the back end says about the final product, the results are [map mask_of], the scalars are [final_msm]
    of the accumulated terms.  Nothing here is about honesty; Proofs/HonestBatchTopP.v instantiates it. *)
From Coq Require Import List Arith NArith Lia PeanoNat Bool.
From BP Require Import Base.Field Model.Ctor Model.Codec Model.Transcript Model.Verifier Model.VerifyTop
     Proofs.VerifyTopP Proofs.BatchP Proofs.CheckedTopP.
Import ListNotations.
Local Close Scope N_scope.

Section Run.
Variable K : Fld.
Variable ofN : N -> K.

Lemma list_N_eqb_refl : forall l, list_N_eqb l l = true.
Proof. induction l as [|x l IH]; cbn [list_N_eqb]; [reflexivity|]. now rewrite N.eqb_refl, IH. Qed.

(** agreement with the first member on what [consistency] compares *)
Definition agrees (first mb : member K) : Prop :=
  mb_Gbenc K mb = mb_Gbenc K first /\ mb_Henc K mb = mb_Henc K first /\ mb_bits K mb = mb_bits K first /\
  mb_T K mb = mb_T K first /\ mb_gens K mb = mb_gens K first /\
  d1_degree_ok K mb (mb_T K first) = true /\ forallb (promise_fits (mb_bits K first)) (mb_promises K mb) = true.

Lemma consistency_rest_agrees first : forall rest i mx0 mi0, Forall (agrees first) rest ->
  exists mx mi, consistency_rest K first i rest mx0 mi0 = Some (mx, mi).
Proof.
  induction rest as [|mb rest IH]; intros i mx0 mi0 Ha; cbn [consistency_rest]; [eauto|].
  inversion Ha as [|? ? (E1 & E2 & E3 & E4 & _ & E6 & _) Ha']; subst.
  rewrite E1, list_N_eqb_refl, E2, N.eqb_refl, E3, Nat.eqb_refl, E4, Nat.eqb_refl, E6. cbn [negb andb].
  destruct (Nat.ltb mx0 (mb_N K mb)); apply IH; exact Ha'.
Qed.

Lemma consistency_agrees first rest : Forall (agrees first) (first :: rest) ->
  exists mx mi, consistency K (first :: rest) = Some (mx, mi).
Proof.
  intros Ha. inversion Ha as [|? ? (_ & _ & _ & _ & _ & D0 & _) Ha']; subst.
  cbn [consistency]. rewrite D0. cbn [negb].
  destruct (consistency_rest_agrees first rest 1 (mb_N K first) 0 Ha') as (mx & mi & ->).
  assert (F1 : forallb (fun mb => forallb (promise_fits (mb_bits K first)) (mb_promises K mb)) (first :: rest) = true).
  { apply forallb_forall. intros mb Hin. rewrite Forall_forall in Ha. now destruct (Ha mb Hin) as (_ & _ & _ & _ & _ & _ & X). }
  assert (F2 : forallb (fun mb => (mb_gens K mb =? mb_gens K (nth mi (first :: rest) first))%N) (first :: rest) = true).
  { apply forallb_forall. intros mb Hin. rewrite Forall_forall in Ha. destruct (Ha mb Hin) as (_ & _ & _ & _ & X & _).
    assert (Hmx : In (nth mi (first :: rest) first) (first :: rest)).
    { destruct (Nat.lt_ge_cases mi (length (first :: rest))) as [Hl|Hg]; [now apply nth_In|rewrite nth_overflow by exact Hg; now left]. }
    destruct (Ha _ Hmx) as (_ & _ & _ & _ & Y & _). rewrite X, Y. apply N.eqb_refl. }
  rewrite F1, F2. cbn [andb]. eauto.
Qed.

Lemma proof_loop_runs mode : verifying mode = true -> forall ms ws acc masks,
  Forall (fun mb => mb_undecodable K mb = false /\ rounds_ok K mb = true) ms ->
  proof_loop K ofN mode ms ws acc masks = Ok (acc_all K acc (terms_list K ofN ms ws), masks ++ map (mask_of K ofN mode) ms).
Proof.
  intros V. induction ms as [|mb ms IH]; intros ws acc masks Hg; cbn [proof_loop terms_list acc_all map]; [now rewrite app_nil_r|].
  inversion Hg as [|? ? [U R] Hg']; subst. rewrite U, R. cbn [negb].
  destruct mode; try discriminate; rewrite (IH _ _ _ Hg'), <- app_assoc; reflexivity.
Qed.

Theorem uniform_chunk_runs mode first rest ws z : verifying mode = true ->
  Forall (agrees first) (first :: rest) ->
  Forall (fun mb => transcript_phase_ok K mb = true /\ mb_undecodable K mb = false /\ rounds_ok K mb = true) (first :: rest) ->
  (forall mb, In mb (first :: rest) -> exists pad, generator_padding (N.of_nat (mb_bits K mb)) (N.of_nat (mb_m K mb)) (N.of_nat (mb_cap K mb)) = Some pad) ->
  exists mx mi pad,
    consistency K (first :: rest) = Some (mx, mi) /\
    mx = mb_N K (nth mi (first :: rest) first) /\
    verify_chunk K ofN mode (first :: rest) ws z =
      ((if z then Ok (map (mask_of K ofN mode) (first :: rest)) else Err),
       Some (final_msm K (acc_all K (acc_init K mx (mb_T K first)) (terms_list K ofN (first :: rest) ws)) pad)).
Proof.
  intros V Ha Hg Hp.
  destruct (consistency_agrees first rest Ha) as (mx & mi & Ec).
  destruct (consistency_max K first rest mx mi Ec) as [Emx Hin].
  destruct (Hp _ Hin) as [pad Epad].
  exists mx, mi, (N.to_nat pad). split; [exact Ec|]. split; [exact Emx|].
  unfold verify_chunk. rewrite Ec.
  assert (Ft : forallb (transcript_phase_ok K) (first :: rest) = true).
  { apply forallb_forall. intros mb Hmb. rewrite Forall_forall in Hg. now destruct (Hg mb Hmb). }
  rewrite Ft. cbn [negb hd].
  rewrite (proof_loop_runs mode V (first :: rest) ws _ []).
  2:{ apply Forall_forall. intros mb Hmb. rewrite Forall_forall in Hg. destruct (Hg mb Hmb) as (_ & U & R). auto. }
  cbn [app]. destruct mode; try discriminate; rewrite Epad; reflexivity.
Qed.
End Run.
