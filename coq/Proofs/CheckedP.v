(** C16: after the round-count guard (2^rounds = bits * m with rounds < 64) no partial machine operation of
    the per-proof body fires — no panic AND none of the `.ok_or(..)?` error exits — and the values are those of
    the total model of Model/Verifier.v. *)
From Coq Require Import List Arith NArith Lia PeanoNat Bool.
From BP Require Import Base.Field Model.Verifier Model.Checked Proofs.GuardsP.
Import ListNotations.

Lemma pow2_lt_64 (r : nat) : r < 64 -> (N.of_nat (2 ^ r) < 2 ^ 64)%N.
Proof.
  intros H. rewrite Nat2N.inj_pow. change (N.of_nat 2) with 2%N. apply N.pow_lt_mono_r; lia.
Qed.

Lemma nth_error_nth' {A} (l : list A) i d : i < length l -> nth_error l i = Some (nth i l d).
Proof. revert i; induction l as [|x l IH]; intros [|i] H; cbn in *; try lia; [reflexivity|apply IH; lia]. Qed.

Lemma get_in {A} (l : list A) i d : i < length l -> get l i = Val (nth i l d).
Proof. intros H. unfold get. now rewrite (nth_error_nth' l i d H). Qed.

Lemma last_of_snoc {A} (l : list A) x : last_of (l ++ [x]) = Val x.
Proof. unfold last_of. now rewrite rev_app_distr. Qed.

Lemma firstn_S_nth {A} (l : list A) i d : i < length l -> firstn (S i) l = firstn i l ++ [nth i l d].
Proof.
  revert i; induction l as [|x l IH]; intros [|i] H; cbn [length] in *; try lia; [reflexivity|].
  cbn [firstn nth app]. f_equal. apply IH. lia.
Qed.

Lemma nth_map_in {A B} (f : A -> B) (l : list A) i d d' : i < length l -> nth i (map f l) d' = f (nth i l d).
Proof. revert i; induction l as [|x l IH]; intros [|i] H; cbn in *; try lia; [reflexivity|apply IH; lia]. Qed.

Section CP.
Variable K : Fld.
Local Open Scope F_scope.
Notation "0" := (f0 K). Notation "1" := (f1 K).

(** ** s-vector *)
Lemma s_loop_chk_ok rounds esq : length esq = rounds -> rounds < 64 ->
  forall fuel i acc, length acc = i -> 1 <= i -> i + fuel <= 2 ^ rounds ->
  s_loop_chk K fuel i rounds esq acc = Val (s_loop_aux K fuel i rounds esq acc).
Proof.
  intros Le Hr. induction fuel as [|fuel IH]; intros i acc La Hi Hb; cbn [s_loop_chk s_loop_aux]; [reflexivity|].
  destruct (s_loop_indices_safe rounds i ltac:(lia)) as (Hl & Hp & Hs & Hx).
  unfold checked_ilog2. destruct (Nat.eqb_spec i 0) as [X|_]; [lia|]. cbn [tbind].
  unfold u_shl1. destruct (Nat.ltb_spec (Nat.log2 i) 64) as [_|X]; [|lia]. cbn [tbind].
  unfold u_sub at 1. destruct (Nat.leb_spec (2 ^ Nat.log2 i) i) as [_|X]; [|lia]. cbn [tbind].
  rewrite (get_in acc (i - 2 ^ Nat.log2 i) 0) by lia. cbn [tbind].
  unfold u_sub at 1. destruct (Nat.leb_spec (Nat.log2 i) rounds) as [_|X]; [|lia]. cbn [tbind].
  unfold u_sub at 1. destruct (Nat.leb_spec 1 (rounds - Nat.log2 i)) as [_|X]; [|lia]. cbn [tbind].
  rewrite (get_in esq (rounds - Nat.log2 i - 1) 0) by lia. cbn [tbind].
  apply IH; [rewrite app_length; cbn [length]; lia|lia|lia].
Qed.

Theorem s_vec_chk_ok full_length s0 esq : length esq < 64 -> full_length = 2 ^ length esq ->
  s_vec_chk K full_length s0 esq = Val (s_loop K full_length s0 esq).
Proof.
  intros Hr HN. unfold s_vec_chk, s_loop. apply s_loop_chk_ok; try reflexivity; try assumption; try lia.
  subst full_length. assert (0 < 2 ^ length esq) by (apply Nat.neq_0_lt_0, Nat.pow_nonzero; lia). lia.
Qed.

(** ** d vector *)
Lemma d_first_chk_ok : forall n d x, d_first_chk K n (d ++ [x]) = Val (d ++ [x] ++ d_first K (two K * x) n).
Proof.
  induction n as [|n IH]; intros d x; cbn [d_first_chk d_first]; [now rewrite app_nil_r|].
  rewrite last_of_snoc. cbn [tbind]. rewrite (IH (d ++ [x]) (two K * x)). now rewrite <- !app_assoc.
Qed.

Lemma d_first_length : forall n z, length (d_first K z n) = n.
Proof. induction n as [|n IH]; intros z; cbn [d_first length]; [reflexivity|now rewrite IH]. Qed.

Lemma d_inner_chk_ok bits z2 j (P B : list K) : 1 <= j -> length P = ((j - 1) * bits)%nat -> length B = bits ->
  (N.of_nat (j * bits) < 2 ^ 64)%N ->
  forall fuel i, (i + fuel = bits)%nat ->
  d_inner_chk K fuel i j bits z2 (P ++ B ++ firstn i (map (fun x => x * z2) B)) = Val (P ++ B ++ map (fun x => x * z2) B).
Proof.
  intros Hj LP LB Hfit. induction fuel as [|fuel IH]; intros i Hi; cbn [d_inner_chk].
  - assert (i = bits) by lia. subst i. rewrite firstn_all2 by (rewrite map_length; lia). reflexivity.
  - unfold u_sub. destruct (Nat.leb_spec 1 j) as [_|X]; [|lia]. cbn [tbind].
    assert (Hlt : (j - 1) * bits + i < j * bits) by nia.
    unfold u_mul, fits. destruct (N.ltb_spec (N.of_nat (j - 1) * N.of_nat bits) (2 ^ 64)) as [_|X]; [|nia]. cbn [tbind].
    unfold u_add, fits. destruct (N.ltb_spec (N.of_nat ((j - 1) * bits) + N.of_nat i) (2 ^ 64)) as [_|X]; [|nia]. cbn [tbind].
    assert (Hg : get (P ++ B ++ firstn i (map (fun x => x * z2) B)) ((j - 1) * bits + i) = Val (nth i B 0)).
    { unfold get. rewrite nth_error_app2 by lia. replace ((j - 1) * bits + i - length P)%nat with i by lia.
      rewrite nth_error_app1 by lia. now rewrite (nth_error_nth' B i 0) by lia. }
    rewrite Hg. cbn [tbind].
    replace ((P ++ B ++ firstn i (map (fun x => x * z2) B)) ++ [nth i B 0 * z2])
      with (P ++ B ++ firstn (S i) (map (fun x => x * z2) B)).
    + apply IH. lia.
    + rewrite (firstn_S_nth (map (fun x => x * z2) B) i 0) by (rewrite map_length; lia).
      rewrite <- !app_assoc. do 3 f_equal. now rewrite (nth_map_in (fun x => x * z2) B i 0 0) by lia.
Qed.

Lemma d_outer_chk_ok bits z2 : forall fuel j (P B : list K), 1 <= j -> length P = ((j - 1) * bits)%nat -> length B = bits ->
  (N.of_nat ((j + fuel) * bits) < 2 ^ 64)%N ->
  d_outer_chk K fuel j bits z2 (P ++ B) = Val (P ++ B ++ d_blocks K z2 (map (fun x => x * z2) B) fuel).
Proof.
  induction fuel as [|fuel IH]; intros j P B Hj LP LB Hfit; cbn [d_outer_chk d_blocks]; [now rewrite app_nil_r|].
  pose proof (d_inner_chk_ok bits z2 j P B Hj LP LB ltac:(nia) bits 0 ltac:(lia)) as E.
  cbn [firstn] in E. rewrite app_nil_r in E. rewrite E. cbn [tbind].
  rewrite (app_assoc P B). rewrite (IH (S j) (P ++ B) (map (fun x => x * z2) B)).
  - now rewrite <- !app_assoc.
  - lia.
  - rewrite app_length. nia.
  - now rewrite map_length.
  - replace (S j + fuel)%nat with (j + S fuel)%nat by lia. exact Hfit.
Qed.

Theorem d_vec_chk_ok bits m z2 : 1 <= bits -> 1 <= m -> (N.of_nat (m * bits) < 2 ^ 64)%N ->
  d_vec_chk K bits m z2 = Val (d_vec K bits m z2).
Proof.
  intros Hb Hm Hfit. unfold d_vec_chk, d_vec.
  change [z2] with ([] ++ [z2]). rewrite d_first_chk_ok. cbn [app tbind].
  change (z2 :: d_first K (two K * z2) (bits - 1)) with ([] ++ (z2 :: d_first K (two K * z2) (bits - 1))).
  rewrite (d_outer_chk_ok bits z2 (m - 1) 1 [] (z2 :: d_first K (two K * z2) (bits - 1))).
  - reflexivity.
  - lia.
  - reflexivity.
  - cbn [length]. rewrite d_first_length. lia.
  - replace (1 + (m - 1))%nat with m by lia. exact Hfit.
Qed.

Theorem d_sum_chk_ok bits m z2 : 1 <= m -> d_sum_chk K bits m z2 = Val (d_sum K bits m z2).
Proof.
  intros Hm. unfold d_sum_chk, u_ilog2, d_sum. destruct (Nat.eqb_spec m 0) as [X|_]; [lia|reflexivity].
Qed.

(** ** the per-proof body *)
Theorem proof_terms_chk_ok bits m promises pf ch w : m = length promises ->
  length (c_es ch) < 64 -> (length promises * bits)%nat = 2 ^ length (c_es ch) ->
  proof_terms_chk K bits m promises pf ch w = Val (proof_terms K bits promises pf ch w).
Proof.
  intros -> Hr HN.
  assert (Hpos : 0 < 2 ^ length (c_es ch)) by (apply Nat.neq_0_lt_0, Nat.pow_nonzero; lia).
  assert (Hm : 1 <= length promises) by nia. assert (Hb : 1 <= bits) by nia.
  unfold proof_terms_chk, proof_terms.
  rewrite d_vec_chk_ok; [|exact Hb|exact Hm|rewrite HN; now apply pow2_lt_64]. cbn [tbind].
  rewrite d_sum_chk_ok by exact Hm. cbn [tbind].
  rewrite s_vec_chk_ok; [|now rewrite map_length|now rewrite map_length]. cbn [tbind].
  destruct (gh_loop K _ _ _ _ _ _ _ _ _ _ _ _) as [gs hs]. destruct (v_loop K _ _ _ _ _ _) as [vs hp]. reflexivity.
Qed.
End CP.
