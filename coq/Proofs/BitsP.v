(** [Scalar::from(u64)] is a semiring homomorphism, and the bit decomposition the prover commits to
    recombines to the value: sum_{i<bits} bit_i(x) 2^i = x for x < 2^bits. *)
From Coq Require Import List Arith NArith Lia Field Ring PeanoNat.
From BP Require Import Base.Field Model.Verifier Model.Prover Proofs.FieldP Proofs.ClosedP.
Import ListNotations.

Section Bits.
Variable K : Fld.
Hypothesis Kok : FldOk K.
Add Field Kf : (Fth K Kok).
Local Open Scope F_scope.
Notation "0" := (f0 K). Notation "1" := (f1 K).
Notation two := (two K).
Notation fpow := (fpow K).
Notation fofN := (fofN K).

Lemma fofP_succ p : fofP K (Pos.succ p) = fofP K p + 1.
Proof. induction p as [q IH|q IH|]; cbn [Pos.succ fofP]; unfold Field.two; try rewrite IH; ring. Qed.

Lemma fofN_succ n : fofN (N.succ n) = fofN n + 1.
Proof. destruct n as [|p]; cbn [N.succ Field.fofN fofP]; [ring|apply fofP_succ]. Qed.

Lemma fofN_add a b : fofN (a + b) = fofN a + fofN b.
Proof.
  induction b as [|b IH] using N.peano_ind; [rewrite N.add_0_r; cbn; ring|].
  rewrite N.add_succ_r, !fofN_succ, IH. ring.
Qed.

Lemma fofN_double n : fofN (2 * n) = two * fofN n.
Proof. replace (2 * n)%N with (n + n)%N by lia. rewrite fofN_add. unfold Field.two. ring. Qed.

Lemma fofN_pow2 b : fofN (2 ^ N.of_nat b) = fpow two b.
Proof.
  induction b as [|b IH]; [cbn; reflexivity|].
  rewrite Nat2N.inj_succ, N.pow_succ_r', fofN_double, IH. reflexivity.
Qed.

Lemma fofN_sub v p : (p <= v)%N -> fofN (v - p) = fofN v - fofN p.
Proof. intros H. replace v with ((v - p) + p)%N at 2 by lia. rewrite fofN_add. ring. Qed.

(** dot product of two scalar lists *)
Fixpoint dot (a b : list K) : K := match a, b with x :: a', z :: b' => x * z + dot a' b' | _, _ => 0 end.

Lemma dot_app : forall a1 b1 a2 b2, length a1 = length b1 -> dot (a1 ++ a2) (b1 ++ b2) = dot a1 b1 + dot a2 b2.
Proof. induction a1 as [|x a1 IH]; intros [|z b1] a2 b2 Hl; cbn [length] in Hl; try discriminate; cbn [app dot]; [ring|]. rewrite IH by lia. ring. Qed.

Lemma dot_scale_r c : forall a b, dot a (map (fmul K c) b) = c * dot a b.
Proof. induction a as [|x a IH]; intros [|z b]; cbn [map dot]; try ring. rewrite IH. ring. Qed.

(** the low [bits] bits of x, weighted by powers of two, give x mod 2^bits *)
Lemma bits_recombine (x : N) : forall bits,
  dot (bits_of K bits x) (map (fun i => fpow two i) (seq 0 bits)) = fofN (x mod 2 ^ N.of_nat bits).
Proof.
  induction bits as [|b IH].
  - cbn [bits_of seq map dot N.of_nat]. rewrite N.pow_0_r, N.mod_1_r. reflexivity.
  - unfold bits_of in *. rewrite seq_S, !map_app. cbn [Nat.add map].
    rewrite dot_app by (now rewrite !map_length). rewrite IH. cbn [dot].
    rewrite Nat2N.inj_succ, N.pow_succ_r'.
    rewrite (N.mul_comm 2), N.mod_mul_r by (try apply N.pow_nonzero; lia).
    rewrite fofN_add. f_equal.
    unfold bit_scalar. pose proof (N.testbit_spec' x (N.of_nat b)) as S.
    destruct (N.testbit x (N.of_nat b)); cbn [N.b2n] in S; rewrite <- S.
    + rewrite N.mul_1_r, fofN_pow2. ring.
    + rewrite N.mul_0_r. cbn. ring.
Qed.

Lemma bits_recombine_small (x : N) bits : (x < 2 ^ N.of_nat bits)%N ->
  dot (bits_of K bits x) (map (fun i => fpow two i) (seq 0 bits)) = fofN x.
Proof. intros H. rewrite bits_recombine, N.mod_small by exact H. reflexivity. Qed.

Lemma bits_of_length bits x : length (bits_of K bits x) = bits.
Proof. unfold bits_of. now rewrite map_length, seq_length. Qed.

Lemma bits_of_bool bits x : Forall (fun c => c * (c - 1) = 0) (bits_of K bits x).
Proof.
  unfold bits_of. apply Forall_forall. intros c Hc. apply in_map_iff in Hc. destruct Hc as (i & <- & _).
  unfold bit_scalar. destruct (N.testbit x (N.of_nat i)); ring.
Qed.
End Bits.
