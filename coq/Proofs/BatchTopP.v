(** C03, whole batches: [verify_batch] returns Ok exactly when it is well-shaped and EVERY chunk of at
    most 256 members is accepted by [verify_chunk] in turn (each with its own weights), and the result is
    the concatenation of the chunks' results in order; together with C03_chunks_cover the results are
    aligned with the members of the whole batch. *)
From Coq Require Import List Arith NArith Lia Bool.
From BP Require Import Base.Field Model.Ctor Model.Codec Model.Transcript Model.Verifier Model.VerifyTop Proofs.VerifyTopP.
Import ListNotations.
Local Close Scope N_scope.

Section BT.
Variable K : Fld.
Variable ofN : N -> K.

(** the chunks with the oracle entries (weights, final-product flag) they consume *)
Fixpoint chunk_results (mode : vmode) (cs : list (list (member K))) (orc : list (list K * bool)) : list (result (list (option (list K)))) :=
  match cs with
  | [] => []
  | c :: cs' => fst (verify_chunk K ofN mode c (fst (hd ([], false) orc)) (snd (hd ([], false) orc))) :: chunk_results mode cs' (tl orc)
  end.

Fixpoint all_ok {A} (rs : list (result (list A))) : option (list A) :=
  match rs with
  | [] => Some []
  | Ok m :: rs' => match all_ok rs' with Some ms => Some (m ++ ms) | None => None end
  | Err :: _ => None
  end.

Lemma verify_chunks_spec mode : forall cs orc acc,
  verify_chunks K ofN mode cs orc acc = match all_ok (chunk_results mode cs orc) with Some ms => Ok (acc ++ ms) | None => Err end.
Proof.
  induction cs as [|c cs IH]; intros orc acc; cbn [verify_chunks chunk_results all_ok]; [now rewrite app_nil_r|].
  destruct (hd ([], false) orc) as [ws z]. cbn [fst snd].
  destruct (fst (verify_chunk K ofN mode c ws z)) as [m|]; [|reflexivity].
  rewrite IH. destruct (all_ok (chunk_results mode cs (tl orc))); [now rewrite app_assoc|reflexivity].
Qed.

Theorem verify_batch_ok_iff mode ns np nt ms orc masks :
  verify_batch K ofN mode ns np nt ms orc = Ok masks <->
  (ns <> 0 /\ np = ns /\ nt = ns /\ all_ok (chunk_results mode (chunks_of (length ms) MAX_BATCH ms) orc) = Some masks).
Proof.
  unfold verify_batch.
  destruct (Nat.eqb_spec ns 0) as [E0|E0]; cbn [orb].
  { split; [discriminate|intros (H & _); contradiction]. }
  destruct (Nat.eqb_spec np 0) as [E1|E1]; cbn [orb].
  { split; [discriminate|intros (_ & H & _); congruence]. }
  destruct (Nat.eqb_spec nt 0) as [E2|E2]; cbn [orb].
  { split; [discriminate|intros (_ & _ & H & _); congruence]. }
  destruct (Nat.eqb_spec ns np) as [E3|E3]; cbn [negb].
  2:{ split; [discriminate|intros (_ & H & _); congruence]. }
  destruct (Nat.eqb_spec nt ns) as [E4|E4]; cbn [negb].
  2:{ split; [discriminate|intros (_ & _ & H & _); congruence]. }
  rewrite verify_chunks_spec. cbn [app].
  destruct (all_ok _) as [m|]; split; intros X.
  - inversion X; subst. auto.
  - destruct X as (_ & _ & _ & X). inversion X; subst. reflexivity.
  - discriminate.
  - destruct X as (_ & _ & _ & X). discriminate.
Qed.

(** every chunk accepted <-> the batch accepted; one refused chunk refuses the batch *)
Corollary verify_batch_err_if_chunk_err mode ns np nt ms orc :
  In Err (chunk_results mode (chunks_of (length ms) MAX_BATCH ms) orc) -> verify_batch K ofN mode ns np nt ms orc = Err.
Proof.
  intros Hin. destruct (verify_batch K ofN mode ns np nt ms orc) as [m|] eqn:E; [|reflexivity].
  apply verify_batch_ok_iff in E. destruct E as (_ & _ & _ & E). exfalso.
  revert E Hin. generalize (chunk_results mode (chunks_of (length ms) MAX_BATCH ms) orc). clear. intros rs. revert m.
  induction rs as [|r rs IH]; intros m E Hin; [contradiction|].
  cbn [all_ok] in E. destruct r as [x|]; [|discriminate]. destruct Hin as [X|Hin]; [discriminate|].
  destruct (all_ok rs) eqn:A; [|discriminate]. eapply IH; [reflexivity|exact Hin].
Qed.
End BT.
