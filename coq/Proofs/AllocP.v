(** * Sizes of everything the verifier model allocates (C16: no unbounded allocation).
    Every vector built by the per-proof body and by the batch accumulation has a length fixed by the
    STATEMENT (bit length, aggregation factor, extension degree, capacity) and by the LENGTHS of the
    proof's own vectors -- never by a number a proof encodes. *)
From Coq Require Import List Arith NArith Bool Lia.
From BP Require Import Base.Field Model.Ctor Model.Codec Model.Transcript Model.Verifier Model.VerifyTop.
Import ListNotations.
Local Open Scope nat_scope.

Section Alloc.
Variable K : Fld.
Variable ofN : N -> K.

Lemma s_loop_aux_length : forall fuel i rounds (esq acc : list K),
  length (s_loop_aux K fuel i rounds esq acc) = length acc + fuel.
Proof.
  induction fuel as [|f IH]; intros i rounds esq acc; cbn [s_loop_aux]; [lia|].
  rewrite IH, app_length. cbn [length]. lia.
Qed.

(** the s vector: one entry per generator pair of the statement (and one for the degenerate size 0) *)
Lemma s_loop_length n s0 (esq : list K) : length (s_loop K n s0 esq) = Nat.max 1 n.
Proof. unfold s_loop. rewrite s_loop_aux_length. cbn [length]. lia. Qed.

Lemma d_first_len : forall n z, length (d_first K z n) = n.
Proof. induction n as [|n IH]; intros z; cbn [d_first length]; [reflexivity|now rewrite IH]. Qed.

Lemma d_blocks_length z2 : forall j (blk : list K), length (d_blocks K z2 blk j) = j * length blk.
Proof.
  induction j as [|j IH]; intros blk; cbn [d_blocks]; [reflexivity|].
  rewrite app_length, IH, map_length. lia.
Qed.

Lemma d_vec_length bits m z2 : length (d_vec K bits m z2) = Nat.max 1 m * Nat.max 1 bits.
Proof.
  unfold d_vec. rewrite app_length, d_blocks_length, map_length. cbn [length]. rewrite d_first_len. nia.
Qed.

Lemma gh_loop_length w r1e s1e e2 e2z z yinv : forall (s srev d : list K) a b,
  length (fst (gh_loop K w r1e s1e e2 e2z z yinv s srev d a b)) = Nat.min (length s) (Nat.min (length srev) (length d))
  /\ length (snd (gh_loop K w r1e s1e e2 e2z z yinv s srev d a b)) = Nat.min (length s) (Nat.min (length srev) (length d)).
Proof.
  induction s as [|si s IH]; intros srev d a b; [cbn; split; reflexivity|].
  destruct srev as [|sr srev]; [cbn; split; reflexivity|].
  destruct d as [|di d]; [cbn [gh_loop fst snd length]; split; lia|].
  cbn [gh_loop].
  destruct (gh_loop K w r1e s1e e2 e2z z yinv s srev d (fmul K a yinv) (fmul K b yinv)) as [gs hs] eqn:E.
  specialize (IH srev d (fmul K a yinv) (fmul K b yinv)). rewrite E in IH. cbn [fst snd length] in *. lia.
Qed.

Lemma v_loop_length w e2 z2 ynm1 : forall promises zpow,
  length (fst (v_loop K w e2 z2 ynm1 zpow promises)) = length promises.
Proof.
  induction promises as [|p ps IH]; intros zpow; [reflexivity|].
  cbn [v_loop].
  destruct (v_loop K w e2 z2 ynm1 (fmul K zpow z2) ps) as [vs h] eqn:E.
  specialize (IH (fmul K zpow z2)). rewrite E in IH. cbn [fst length] in *. now rewrite IH.
Qed.

(** ** what one proof contributes *)
Theorem proof_terms_sizes bits promises pf ch w :
  let t := proof_terms K bits promises pf ch w in
  let m := length promises in
  length (t_gi t) = Nat.min (Nat.max 1 (m * bits)) (Nat.max 1 m * Nat.max 1 bits) /\
  length (t_hi t) = length (t_gi t) /\
  length (t_V t) = m /\
  length (t_Gb t) = length (v_d1 pf) /\
  length (t_L t) = length (c_es ch) /\
  length (t_R t) = length (c_es ch).
Proof.
  cbv zeta. unfold proof_terms.
  match goal with |- context [gh_loop K ?a ?b ?c ?d ?e ?f ?g ?s ?sr ?dd ?x ?y] =>
    pose proof (gh_loop_length a b c d e f g s sr dd x y) as [Hg Hh];
    destruct (gh_loop K a b c d e f g s sr dd x y) as [gs hs] end.
  match goal with |- context [v_loop K ?a ?b ?c ?d ?e ?p] =>
    pose proof (v_loop_length a b c d p e) as Hv;
    destruct (v_loop K a b c d e p) as [vs hp] end.
  cbn [fst snd] in *. cbn [t_gi t_hi t_V t_Gb t_L t_R].
  rewrite rev_length, s_loop_length, d_vec_length in Hg, Hh.
  repeat split.
  - rewrite Hg. lia.
  - rewrite Hg, Hh. reflexivity.
  - exact Hv.
  - now rewrite map_length.
  - now rewrite !map_length.
  - rewrite !map_length, firstn_length, map_length, app_length. cbn [length]. lia.
Qed.

(** for a well-formed size (at least one commitment and one bit) that is [m * bits] *)
Corollary proof_terms_static_size bits promises pf ch w : 1 <= length promises -> 1 <= bits ->
  length (t_gi (proof_terms K bits promises pf ch w)) = length promises * bits.
Proof. intros Hm Hb. pose proof (proof_terms_sizes bits promises pf ch w) as [H _]. cbv zeta in H. rewrite H. nia. Qed.

(** ** the batch accumulators keep their lengths; only the dynamic scalars grow, by the member's own size *)
Lemma acc_add_length : forall (acc xs : list K), length (acc_add K acc xs) = length acc.
Proof.
  induction acc as [|a acc IH]; intros [|x xs]; cbn [acc_add length]; try reflexivity. now rewrite IH.
Qed.

Lemma acc_proof_sizes (a : batch_acc K) (t : terms K) :
  length (a_gi (acc_proof K a t)) = length (a_gi a) /\
  length (a_hi (acc_proof K a t)) = length (a_hi a) /\
  length (a_Gb (acc_proof K a t)) = length (a_Gb a) /\
  length (a_dyn (acc_proof K a t)) = length (a_dyn a) + length (t_V t) + 3 + length (t_L t) + length (t_R t).
Proof.
  unfold acc_proof. cbn [a_gi a_hi a_Gb a_dyn]. rewrite !acc_add_length, !app_length. cbn [length]. repeat split; lia.
Qed.

(** dynamic scalars one member adds: one per commitment (promise slot), A1, B, A, and one per L and R *)
Definition member_dyn (mb : member K) : nat := length (mb_promises K mb) + 3 + 2 * length (c_es (mb_ch K mb)).
Definition chunk_dyn (ms : list (member K)) : nat := fold_right (fun mb n => member_dyn mb + n) 0 ms.

Lemma chunk_dyn_cons mb ms : chunk_dyn (mb :: ms) = member_dyn mb + chunk_dyn ms.
Proof. reflexivity. Qed.

Lemma proof_loop_sizes mode : forall ms ws acc masks acc' masks',
  proof_loop K ofN mode ms ws acc masks = Ok (acc', masks') ->
  length (a_gi acc') = length (a_gi acc) /\
  length (a_hi acc') = length (a_hi acc) /\
  length (a_Gb acc') = length (a_Gb acc) /\
  length masks' = length masks + length ms /\
  (mode <> RecoverOnly -> length (a_dyn acc') = length (a_dyn acc) + chunk_dyn ms) /\
  (mode = RecoverOnly -> acc' = acc).
Proof.
  induction ms as [|mb ms IH]; intros ws acc masks acc' masks' H; cbn [proof_loop] in H.
  - injection H as <- <-. unfold chunk_dyn. cbn [fold_right length]. repeat split; auto; lia.
  - destruct (mb_undecodable K mb); [discriminate|].
    destruct (negb (rounds_ok K mb)); [discriminate|].
    rewrite chunk_dyn_cons.
    set (t := proof_terms K (mb_bits K mb) (mb_promises K mb) (vproof_of K ofN (mb_proof K mb)) (mb_ch K mb) (hd (f0 K) ws)) in *.
    pose proof (acc_proof_sizes acc t) as (A1 & A2 & A3 & A4).
    pose proof (proof_terms_sizes (mb_bits K mb) (mb_promises K mb) (vproof_of K ofN (mb_proof K mb)) (mb_ch K mb) (hd (f0 K) ws))
      as (_ & _ & T3 & _ & T5 & T6). cbv zeta in T3, T5, T6. fold t in T3, T5, T6.
    assert (Hd : length (a_dyn (acc_proof K acc t)) = length (a_dyn acc) + member_dyn mb)
      by (unfold member_dyn; rewrite A4, T3, T5, T6; lia).
    destruct mode; apply IH in H; destruct H as (H1 & H2 & H3 & H4 & H5 & H6);
      rewrite app_length in H4; cbn [length] in H4 |- *.
    + split; [congruence|]. split; [congruence|]. split; [congruence|]. split; [lia|].
      split; [intros Hm; rewrite (H5 Hm), Hd; lia|discriminate].
    + split; [congruence|]. split; [congruence|]. split; [congruence|]. split; [lia|].
      split; [intros Hm; rewrite (H5 Hm), Hd; lia|discriminate].
    + split; [exact H1|]. split; [exact H2|]. split; [exact H3|]. split; [lia|].
      split; [intros Hm; now elim Hm|intros _; now apply H6].
Qed.

Lemma interleave_length : forall (a b : list K), length (interleave K a b) = length a + length b.
Proof.
  induction a as [|x a IH]; intros [|y b]; cbn [interleave length app]; try lia.
  - rewrite app_nil_r. cbn [length]. lia.
  - rewrite IH. lia.
Qed.

(** ** the final product of a chunk: what the verifier hands to the back end *)
Theorem verify_chunk_sizes mode ms ws z st dyn :
  snd (verify_chunk K ofN mode ms ws z) = Some (st, dyn) ->
  exists max_mn max_index pad first,
    consistency K ms = Some (max_mn, max_index) /\ hd_error ms = Some first /\
    (let mx := nth max_index ms first in
     generator_padding (N.of_nat (mb_bits K mx)) (N.of_nat (mb_m K mx)) (N.of_nat (mb_cap K mx)) = Some pad) /\
    length st = 2 * max_mn + N.to_nat pad /\
    length dyn = chunk_dyn ms + mb_T K first + 1.
Proof.
  unfold verify_chunk. destruct (consistency K ms) as [[max_mn max_index]|] eqn:Ec; [|discriminate].
  destruct (negb (forallb (transcript_phase_ok K) ms)); [discriminate|].
  destruct ms as [|first rest]; [cbn in Ec; discriminate|]. cbn [hd].
  set (T := mb_T K first).
  destruct (proof_loop K ofN mode (first :: rest) ws (acc_init K max_mn T) []) as [[acc masks]|] eqn:El; [|discriminate].
  destruct mode; try discriminate.
  - destruct (generator_padding _ _ _) as [pad|] eqn:Ep; [|discriminate].
    cbn [snd]. intros H. injection H as <- <-.
    apply proof_loop_sizes in El. destruct El as (H1 & H2 & H3 & _ & H5 & _).
    exists max_mn, max_index, pad, first. split; [reflexivity|]. split; [reflexivity|]. split; [exact Ep|].
    unfold final_msm. cbn [fst snd]. rewrite !app_length, interleave_length, repeat_length, H1, H2, H3, (H5 ltac:(discriminate)).
    unfold acc_init. cbn [a_gi a_hi a_Gb a_dyn length]. rewrite !repeat_length. split; lia.
  - destruct (generator_padding _ _ _) as [pad|] eqn:Ep; [|discriminate].
    cbn [snd]. intros H. injection H as <- <-.
    apply proof_loop_sizes in El. destruct El as (H1 & H2 & H3 & _ & H5 & _).
    exists max_mn, max_index, pad, first. split; [reflexivity|]. split; [reflexivity|]. split; [exact Ep|].
    unfold final_msm. cbn [fst snd]. rewrite !app_length, interleave_length, repeat_length, H1, H2, H3, (H5 ltac:(discriminate)).
    unfold acc_init. cbn [a_gi a_hi a_Gb a_dyn length]. rewrite !repeat_length. split; lia.
Qed.

(** with the guards that precede the work, the round count is the logarithm of the statement's size, so
    a member's share of the dynamic scalars is fixed by its statement alone *)
Lemma rounds_ok_log mb : rounds_ok K mb = true ->
  length (p_li (mb_proof K mb)) = length (p_ri (mb_proof K mb)) /\ length (p_li (mb_proof K mb)) < 64 /\
  2 ^ length (p_li (mb_proof K mb)) = mb_N K mb.
Proof.
  unfold rounds_ok. destruct (Nat.eqb _ _) eqn:E1; cbn [negb]; [|discriminate].
  destruct (Nat.ltb _ 64) eqn:E2; cbn [negb]; [|discriminate]. intros H.
  apply Nat.eqb_eq in E1. apply Nat.ltb_lt in E2. apply N.eqb_eq in H.
  repeat split; auto. apply Nat2N.inj. rewrite <- H, Nat2N.inj_pow. reflexivity.
Qed.

Theorem member_share_fixed_by_statement mb :
  rounds_ok K mb = true -> length (c_es (mb_ch K mb)) = length (p_li (mb_proof K mb)) ->
  length (mb_promises K mb) = length (mb_Venc K mb) ->
  member_dyn mb = mb_m K mb + 3 + 2 * Nat.log2 (mb_N K mb).
Proof.
  intros Hr Hc Hp. apply rounds_ok_log in Hr. destruct Hr as (_ & _ & Hpow).
  unfold member_dyn, mb_m. rewrite Hc, Hp, <- Hpow, Nat.log2_pow2 by lia. reflexivity.
Qed.
End Alloc.
