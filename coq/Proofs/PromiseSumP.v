(** C07: the algebra behind the promise-substitution attack of the check (tools/props/c07.py, tools/lib/lll.py).  With the commitments and
    everything else fixed, the promises enter the textbook point P_0 — hence the whole verification equation — only through the single scalar
    sum_j y^(N+1) z^(2(j+1)) p_j on the value generator.  Two promise vectors with the same weighted sum are therefore INDISTINGUISHABLE to the
    algebraic check at given challenges; the only thing that tells them apart is that the challenges themselves depend on the promises
    (C07_promise_change_changes_log): absorbing the promises into the transcript is necessary, not merely prudent. *)
From Coq Require Import List Arith NArith Lia Field Ring.
From BP Require Import Base.Field Model.Spec Model.RangeSpec Proofs.FieldP Proofs.ModuleP Proofs.ClosedP Proofs.BitsP.
Import ListNotations.

Section PS.
Variable K : Fld.
Hypothesis Kok : FldOk K.
Add Field Kf : (Fth K Kok).
Variable M : Mod K.
Hypothesis Mok : ModOk K M.
Local Open Scope F_scope.
Notation "0" := (f0 K).
Infix "+v" := (vadd M) (at level 50, left associativity).
Infix "*v" := (smul M) (at level 40).

Definition pval (p : option N) : K := match p with Some v => fofN K v | None => 0 end.
Fixpoint wsum (ws : list K) (ps : list (option N)) : K :=
  match ws, ps with w :: ws', p :: ps' => w * pval p + wsum ws' ps' | _, _ => 0 end.

Lemma msm_shifted (H : M) : forall (ws : list K) (Vs : list M) (ps : list (option N)), length Vs = length ps ->
  msm ws (map2 (shifted K M H) Vs ps) = msm ws Vs +v (- wsum ws ps) *v H.
Proof.
  induction ws as [|w ws IH]; intros Vs ps Hl; cbn [msm wsum]; [module_eq|].
  destruct Vs as [|V Vs]; destruct ps as [|p ps]; cbn [length] in Hl; try discriminate; cbn [map2 msm wsum]; [module_eq|].
  rewrite (IH Vs ps) by lia. destruct p as [v|]; cbn [shifted pval]; module_eq.
Qed.

Theorem P0_promises_only_through_weighted_sum bits (H : M) (G Hs Vs : list M) (ps ps' : list (option N)) (A : M) (y z : K) :
  length ps = length Vs -> length ps' = length Vs ->
  wsum (v_weights K bits (length Vs) y z) ps = wsum (v_weights K bits (length Vs) y z) ps' ->
  P0 K M bits H G Hs Vs ps A y z = P0 K M bits H G Hs Vs ps' A y z.
Proof.
  intros L1 L2 E. unfold P0. rewrite L1, L2.
  rewrite (msm_shifted H _ Vs ps) by congruence. rewrite (msm_shifted H _ Vs ps') by congruence. now rewrite E.
Qed.

(** ... and with it the two sides of the verification equation, for any proof *)
Corollary sides_promises_only_through_weighted_sum bits (H : M) (Gb G Hs Vs : list M) (ps ps' : list (option N)) (pf : rproof K M) (y z e : K) (es : list K) :
  length ps = length Vs -> length ps' = length Vs ->
  wsum (v_weights K bits (length Vs) y z) ps = wsum (v_weights K bits (length Vs) y z) ps' ->
  spec_sides K M bits H Gb G Hs Vs ps pf y z es e = spec_sides K M bits H Gb G Hs Vs ps' pf y z es e.
Proof.
  intros L1 L2 E. unfold spec_sides. now rewrite (P0_promises_only_through_weighted_sum bits H G Hs Vs ps ps' (rp_A pf) y z L1 L2 E).
Qed.
End PS.
