(** Generator labels are injective; the table interleaves the G and H vectors; the aggregated iterator
    enumerates the first n generators of the first m parties (C11, C12). *)
From Coq Require Import List Arith NArith Bool Lia.
From BP Require Import Model.Codec Model.Gens Proofs.CodecP Proofs.NonceP.
Import ListNotations.
Open Scope N_scope.

Theorem chain_input_injective k k' i i' : i < 2 ^ 32 -> i' < 2 ^ 32 -> chain_input k i = chain_input k' i' -> k = k' /\ i = i'.
Proof.
  intros Hi Hi'. unfold chain_input, chain_label. intros E. apply app_inv_head in E.
  assert (Ek : kind_byte k = kind_byte k') by (apply (f_equal (@hd N 0)) in E; exact E).
  apply (f_equal (@tl N)) in E. cbn [tl] in E.
  apply le_bytes_inj in E; [|change (256 ^ N.of_nat 4) with (2 ^ 32); assumption|change (256 ^ N.of_nat 4) with (2 ^ 32); assumption].
  split; [|exact E]. destruct k, k'; try reflexivity; discriminate Ek.
Qed.

Theorem mask_label_injective k k' : mask_label k = mask_label k' -> k = k'.
Proof. unfold mask_label. intros E. apply app_inv_head in E. inversion E. lia. Qed.

(** chain inputs and blinding labels never coincide (their first bytes differ: 'G' vs 'R') *)
Theorem chain_vs_mask_label k i j : chain_input k i <> mask_label j.
Proof. unfold chain_input, mask_label, CHAIN_PREFIX, MASK_PREFIX. cbn [app]. intros E. discriminate E. Qed.

(** generator (kind, party, index) is defined without reference to bit length or capacity: a smaller
    parameter set sees a prefix of the same chains *)
Lemma split64_firstn : forall n n' bs, (n <= n')%nat -> split64 n bs = firstn n (split64 n' bs).
Proof.
  induction n as [|n IH]; intros [|n'] bs H; cbn [split64 firstn]; try reflexivity; [lia|].
  f_equal. apply IH. lia.
Qed.

(** table order *)
Lemma interleaveN_nth : forall (a b : list N) i, List.length a = List.length b -> (i < List.length a)%nat ->
  nth (2 * i) (interleaveN a b) 0 = nth i a 0 /\ nth (2 * i + 1) (interleaveN a b) 0 = nth i b 0.
Proof.
  induction a as [|x a IH]; intros [|y b] i Hl Hi; cbn [List.length] in *; try discriminate; try lia.
  destruct i as [|i]; cbn [interleaveN]; [split; reflexivity|].
  replace (2 * S i)%nat with (S (S (2 * i))) by lia. replace (S (S (2 * i)) + 1)%nat with (S (S (2 * i + 1))) by lia.
  cbn [nth]. apply IH; lia.
Qed.

Lemma interleaveN_length : forall a b : list N, List.length (interleaveN a b) = (List.length a + List.length b)%nat.
Proof. induction a as [|x a IH]; intros [|y b]; cbn [interleaveN List.length app]; rewrite ?app_nil_r; try lia. rewrite IH. lia. Qed.

(** AggregatedGensIter = flat_map of the first n of the first m parties *)
Lemma aggregated_length vecs n m : Forall (fun v => (n <= List.length v)%nat) vecs -> (m <= List.length vecs)%nat ->
  List.length (aggregated vecs n m) = (m * n)%nat.
Proof.
  unfold aggregated. revert m. induction vecs as [|v vecs IH]; intros [|m] Hf Hm; cbn [firstn flat_map List.length] in *; try lia.
  inversion Hf; subst. rewrite app_length, firstn_length, IH by (auto; lia). lia.
Qed.
