(** C09, end to end on the model: the responses d1 the code-shaped prover emits for a single commitment
    are the "honest d1" of Proofs/MaskP.v, hence the verifier's recovery formula, fed the same nonces
    (the seed-derived ones), returns exactly the commitment's blinding vector, component by component. *)
From Coq Require Import List Arith NArith Lia Field Ring PeanoNat.
From BP Require Import Base.Field Model.Verifier Model.Prover Model.Spec Model.RangeSpec
     Proofs.FieldP Proofs.ModuleP Proofs.WipP Proofs.ClosedP Proofs.FoldP Proofs.VerifierEquivP Proofs.BitsP
     Proofs.RangeRedP Proofs.ProverRefP Proofs.GuardsP Proofs.CompleteP Proofs.MaskP.
Import ListNotations.

Lemma nth_map2 {A B C} (f : A -> B -> C) da db dc : forall (a : list A) (b : list B) k,
  k < length a -> k < length b -> nth k (map2 f a b) dc = f (nth k a da) (nth k b db).
Proof.
  induction a as [|x a IH]; intros [|z b] k Ha Hb; cbn [length] in *; try lia.
  destruct k as [|k]; cbn [map2 nth]; [reflexivity|]. apply IH; lia.
Qed.

Section MF.
Variable K : Fld.
Hypothesis Kok : FldOk K.
Add Field Kf : (Fth K Kok).
Variable M : Mod K.
Hypothesis Mok : ModOk K M.
Local Open Scope F_scope.
Notation "0" := (f0 K). Notation "1" := (f1 K).
Notation fpow := (fpow K).

Lemma nth_map_mul (c : K) : forall l k, nth k (map (fmul K c) l) 0 = c * nth k l 0.
Proof. induction l as [|x l IH]; intros [|k]; cbn [map nth]; try ring. apply IH. Qed.

(** the nonces the prover was given, as the oracle the verifier's recovery queries *)
Definition nonce_fn (nn : nonces K) (l : nlabel) (j : option nat) (k : nat) : K :=
  match l, j with
  | NAlpha, _ => nth k (n_alpha nn) 0
  | NdL, Some j => nth k (nth j (n_dL nn) []) 0
  | NdR, Some j => nth k (nth j (n_dR nn) []) 0
  | Nd, _ => nth k (n_d nn) 0
  | NEta, _ => nth k (n_eta nn) 0
  | _, None => 0
  end.

(** sum over the rounds of e_j^2 dL_j[k] + e_j^-2 dR_j[k] *)
Fixpoint rsum (rs : list (round_in K)) (k : nat) : K :=
  match rs with
  | [] => 0
  | r :: rs' => (r_e r * r_e r) * nth k (r_dL r) 0 + (/ r_e r * / r_e r) * nth k (r_dR r) 0 + rsum rs' k
  end.

Lemma final_alpha y : forall rs a b alpha k, k < length alpha -> Forall (wf_round K (length alpha)) rs ->
  nth k (snd (final_state K y rs a b alpha)) 0 = nth k alpha 0 + rsum rs k.
Proof.
  induction rs as [|r rs IH]; intros a b alpha k Hk Hwf; cbn [final_state snd rsum]; [ring|].
  inversion Hwf as [|? ? (He & HdL & HdR) Hwf']; subst.
  assert (Lf : length (fold_alpha K (r_e r) alpha (r_dL r) (r_dR r)) = length alpha).
  { unfold fold_alpha. apply map2_len; [reflexivity|]. apply map2_len; rewrite map_length; assumption. }
  rewrite IH by (rewrite Lf; assumption).
  unfold fold_alpha.
  assert (Lin : length (map2 (fadd K) (map (fmul K (r_e r * r_e r)) (r_dL r)) (map (fmul K (/ r_e r * / r_e r)) (r_dR r))) = length alpha)
    by (apply map2_len; rewrite map_length; assumption).
  rewrite (nth_map2 (fadd K) 0 0 0) by (rewrite ?Lin; lia).
  rewrite (nth_map2 (fadd K) 0 0 0) by (rewrite !map_length; lia).
  rewrite !nth_map_mul. ring.
Qed.

Lemma final_alpha_length y : forall rs a b alpha, Forall (wf_round K (length alpha)) rs ->
  length (snd (final_state K y rs a b alpha)) = length alpha.
Proof.
  induction rs as [|r rs IH]; intros a b alpha Hwf; cbn [final_state snd]; [reflexivity|].
  inversion Hwf as [|? ? (He & HdL & HdR) Hwf']; subst.
  assert (Lf : length (fold_alpha K (r_e r) alpha (r_dL r) (r_dR r)) = length alpha).
  { unfold fold_alpha. apply map2_len; [reflexivity|]. apply map2_len; rewrite map_length; assumption. }
  rewrite IH by (rewrite Lf; assumption). exact Lf.
Qed.

Lemma round_sum_rsum (nc : nlabel -> option nat -> nat -> K) k : forall es dLs dRs j0,
  length dLs = length es -> length dRs = length es ->
  (forall j, j < length es -> nc NdL (Some (j0 + j)%nat) k = nth k (nth j dLs []) 0) ->
  (forall j, j < length es -> nc NdR (Some (j0 + j)%nat) k = nth k (nth j dRs []) 0) ->
  round_sum K nc k j0 (map (fun c => c * c) es) (map (fun c => c * c) (map (finv K) es)) = rsum (rounds_of K es dLs dRs) k.
Proof.
  induction es as [|e es IH]; intros [|dL dLs] [|dR dRs] j0 L1 L2 HL HR; cbn [length] in *; try discriminate; cbn [map round_sum rounds_of rsum r_e r_dL r_dR]; [reflexivity|].
  rewrite (IH dLs dRs (S j0)); try lia.
  - pose proof (HL 0%nat ltac:(lia)) as HL0. pose proof (HR 0%nat ltac:(lia)) as HR0. rewrite Nat.add_0_r in HL0, HR0. cbn [nth] in HL0, HR0.
    rewrite HL0, HR0. ring.
  - intros j Hj. specialize (HL (S j) ltac:(lia)). rewrite Nat.add_succ_r in HL. exact HL.
  - intros j Hj. specialize (HR (S j) ltac:(lia)). rewrite Nat.add_succ_r in HR. exact HR.
Qed.

Variable g : gens K M.
Notation Gb := (g_Gb g).

(** the responses d1 of the code-shaped prover ARE the "honest d1" of Proofs/MaskP.v, for the prover's own nonces *)
Theorem prover_d1_honest bits cap (v : N) (p : option N) (r : list K) (nn : nonces K) (ch : pchals K) :
  let T := length Gb in
  1 <= bits -> 1 <= cap ->
  length (g_G g) = (bits * cap)%nat -> length (g_Hv g) = (bits * cap)%nat ->
  (1 * bits)%nat = 2 ^ length (pc_es ch) ->
  pc_y ch <> 0 -> Forall (fun e => e <> 0) (pc_es ch) ->
  length r = T -> wf_nonces K T (length (pc_es ch)) nn ->
  let pf := prove_core K M bits cap g [v] [p] [r] nn ch in
  length (pp_d1 pf) = T /\
  forall k, k < T -> nth k (pp_d1 pf) 0 = honest_d1 K (nonce_fn nn) (pc_y ch) (pc_z ch) (pc_e ch) (pc_es ch) (1 * bits) (nth k r 0) k.
Proof.
  intros T Hb Hcap LG LH HN Hy Hes Lr Wn pf.
  assert (Fb : Forall (fun r0 => length r0 = T) [r]) by (constructor; [exact Lr|constructor]).
  subst pf. rewrite (prove_core_textbook K Kok M Mok g bits cap [v] [p] [r] nn ch 0 Hb eq_refl Hcap LG LH HN Hy Hes eq_refl eq_refl Fb Wn).
  pose proof (Lal1 K Kok M Mok g bits [v] [r] nn ch Fb Wn) as Lal1.
  destruct Wn as (Lal & Ld & Leta & LdL & LdR & FdL & FdR).
  unfold textbook_proof. cbn [length]. cbn [length] in Lal1.
  destruct ch as [y z es e]. cbn [pc_y pc_z pc_es pc_e] in *.
  set (aL := a_L K bits [v] [p]) in *. set (aR := map (fun x => x - 1) aL) in *.
  set (a1 := aL_hat K z aL) in *. set (b1 := aR_hat K bits 1 y z aR) in *.
  set (al1 := alpha_hat K (v_weights K bits 1 y z) [r] (n_alpha nn)) in *.
  set (rs := rounds_of K es (n_dL nn) (n_dR nn)) in *.
  assert (Wrs : Forall (wf_round K T) rs).
  { unfold rs. clear - Hes LdL LdR FdL FdR. revert LdL LdR FdL FdR. generalize (n_dL nn) (n_dR nn). induction es as [|e0 es IH]; intros [|dL dLs] [|dR dRs] L1 L2 F1 F2; cbn [length] in *; try discriminate; cbn [rounds_of]; constructor.
    - inversion Hes; inversion F1; inversion F2; subst. unfold wf_round. cbn. repeat split; assumption.
    - inversion Hes; inversion F1; inversion F2; subst. apply IH; try assumption; lia. }
  pose proof (fun k Hk => final_alpha y rs a1 b1 al1 k Hk ltac:(rewrite Lal1; exact Wrs)) as FA.
  destruct (final_state K y rs a1 b1 al1) as [[af bf] alf] eqn:Efs. cbn [snd] in FA.
  cbn [pp_d1 pp_r1 pp_s1].
  assert (Lalf : length alf = T).
  { pose proof (final_alpha_length y rs a1 b1 al1 ltac:(rewrite Lal1; exact Wrs)) as E. rewrite Efs in E. cbn [snd] in E. rewrite E. exact Lal1. }
  assert (Ld1 : length (final_d1 K e alf (n_d nn) (n_eta nn)) = T).
  { unfold final_d1. apply map2_len; [exact Leta|]. apply map2_len; rewrite map_length; assumption. }
  split; [exact Ld1|].
  intros k0 Hk0. unfold honest_d1, final_d1.
  assert (Lin : length (map2 (fadd K) (map (fmul K e) (n_d nn)) (map (fmul K (e * e)) alf)) = T)
    by (apply map2_len; rewrite map_length; assumption).
  rewrite (nth_map2 (fadd K) 0 0 0) by (rewrite ?Lin; lia).
  rewrite (nth_map2 (fadd K) 0 0 0) by (rewrite !map_length; lia).
  rewrite !nth_map_mul.
  rewrite FA by lia.
  rewrite (round_sum_rsum (nonce_fn nn) k0 es (n_dL nn) (n_dR nn) 0 LdL LdR) by (intros; reflexivity). fold rs.
  assert (Eal : nth k0 al1 0 = nth k0 (n_alpha nn) 0 + fpow y (S (1 * bits)) * fpow (z * z) 1 * nth k0 r 0).
  { unfold al1, v_weights. cbn [seq map alpha_hat].
    rewrite (nth_map2 (fun a0 x => a0 + fpow y (S (1 * bits)) * fpow (z * z) 1 * x) 0 0 0) by lia. reflexivity. }
  rewrite Eal. cbn [nonce_fn Field.fpow]. ring.
Qed.

(** THE END-TO-END STATEMENT for one commitment: the verifier's recovery applied to the prover's own
    responses, with the prover's own nonces, returns the blinding vector. *)
Theorem prover_mask_recovered bits cap (v : N) (p : option N) (r : list K) (nn : nonces K) (ch : pchals K) :
  let T := length Gb in
  1 <= bits -> 1 <= cap ->
  length (g_G g) = (bits * cap)%nat -> length (g_Hv g) = (bits * cap)%nat ->
  (1 * bits)%nat = 2 ^ length (pc_es ch) ->
  pc_y ch <> 0 -> pc_z ch <> 0 -> pc_e ch <> 0 -> Forall (fun e => e <> 0) (pc_es ch) ->
  length r = T -> wf_nonces K T (length (pc_es ch)) nn ->
  let pf := prove_core K M bits cap g [v] [p] [r] nn ch in
  recover_mask K (nonce_fn nn) bits 1 T (mkVproof K (pp_d1 pf) (pp_r1 pf) (pp_s1 pf))
               (mkChals K (pc_y ch) (pc_z ch) (pc_es ch) (pc_e ch)) = r.
Proof.
  intros T Hb Hcap LG LH HN Hy Hz He Hes Lr Wn pf.
  destruct (prover_d1_honest bits cap v p r nn ch Hb Hcap LG LH HN Hy Hes Lr Wn) as [Ld1 Hd]. fold pf in Ld1, Hd.
  apply nth_ext with (d := 0) (d' := 0).
  { rewrite (recover_mask_length K) by (cbn [v_d1]; fold T; lia). fold T. congruence. }
  intros k Hk. rewrite (recover_mask_length K) in Hk by (cbn [v_d1]; fold T; lia).
  apply (mask_recovery_exact K Kok (nonce_fn nn) bits T _ _ r); cbn [c_y c_z c_e c_es v_d1]; try assumption; fold T; try lia.
Qed.

(** C10, end to end: a verifier whose oracle [other] is NOT the prover's (another seed) recovers, at every
    position, the blinding factor shifted by an explicit combination of the nonce differences — hence
    the true mask only if that combination vanishes *)
Theorem prover_mask_wrong_oracle bits cap (v : N) (p : option N) (r : list K) (nn : nonces K) (ch : pchals K)
        (other : nlabel -> option nat -> nat -> K) :
  let T := length Gb in
  1 <= bits -> 1 <= cap ->
  length (g_G g) = (bits * cap)%nat -> length (g_Hv g) = (bits * cap)%nat ->
  (1 * bits)%nat = 2 ^ length (pc_es ch) ->
  pc_y ch <> 0 -> pc_z ch <> 0 -> pc_e ch <> 0 -> Forall (fun e => e <> 0) (pc_es ch) ->
  length r = T -> wf_nonces K T (length (pc_es ch)) nn ->
  let pf := prove_core K M bits cap g [v] [p] [r] nn ch in
  let y := pc_y ch in let z := pc_z ch in let e := pc_e ch in let es := pc_es ch in
  let esq := map (fun c => c * c) es in
  let esq_inv := map (fun c => c * c) (map (finv K) es) in
  forall k, k < T ->
  nth k (recover_mask K other bits 1 T (mkVproof K (pp_d1 pf) (pp_r1 pf) (pp_s1 pf)) (mkChals K y z es e)) 0
  = nth k r 0 +
    ((nonce_fn nn NEta None k - other NEta None k) + (nonce_fn nn Nd None k - other Nd None k) * e
     + ((nonce_fn nn NAlpha None k - other NAlpha None k) + (round_sum K (nonce_fn nn) k 0 esq esq_inv - round_sum K other k 0 esq esq_inv)) * (e * e))
    * / (e * e * (z * z * (fpow y (1 * bits) * y))).
Proof.
  intros T Hb Hcap LG LH HN Hy Hz He Hes Lr Wn pf y z e es esq esq_inv k Hk.
  destruct (prover_d1_honest bits cap v p r nn ch Hb Hcap LG LH HN Hy Hes Lr Wn) as [Ld1 Hd]. fold pf in Ld1, Hd.
  rewrite (recover_mask_component K other bits 1 T _ _ k Hk) by (cbn [v_d1]; fold T; lia).
  cbn [c_y c_z c_e c_es v_d1]. rewrite (Hd k Hk).
  apply (recover_one_wrong_seed K Kok other (nonce_fn nn)); assumption.
Qed.
End MF.
