(** Guards of prover and verifier (C06, C07, C12, C16). *)
From Coq Require Import List Arith NArith Bool Lia Field Ring.
From BP Require Import Base.Field Model.Ctor Model.Codec Model.Transcript Model.Verifier Model.VerifyTop Model.Prover
     Proofs.FieldP Proofs.ModuleP.
Import ListNotations.
Local Close Scope N_scope.

(** ** u64 range guards *)
Lemma shiftr_pos_iff (v : N) (bits : nat) : (0 <? N.shiftr v (N.of_nat bits))%N = true <-> (2 ^ N.of_nat bits <= v)%N.
Proof.
  rewrite N.ltb_lt, N.shiftr_div_pow2. split; intros H.
  - destruct (N.le_gt_cases (2 ^ N.of_nat bits) v) as [Hle|Hgt]; [exact Hle|]. rewrite N.div_small in H by exact Hgt. lia.
  - apply N.div_str_pos. split; [apply N.neq_0_lt_0, N.pow_nonzero; lia|exact H].
Qed.

(** a promise is refused by the verifier exactly when the bit length is below 64 and it is >= 2^bits *)
Theorem promise_fits_iff bits v : promise_fits bits (Some v) = false <-> (bits < 64 /\ (2 ^ N.of_nat bits <= v)%N).
Proof.
  unfold promise_fits. rewrite negb_false_iff, andb_true_iff, Nat.ltb_lt, shiftr_pos_iff. reflexivity.
Qed.
Lemma promise_fits_none bits : promise_fits bits None = true. Proof. reflexivity. Qed.

Section G.
Variable K : Fld.
Hypothesis Kok : FldOk K.
Add Field Kf : (Fth K Kok).
Variable M : Mod K.
Hypothesis Mok : ModOk K M.
Local Open Scope F_scope.
Notation "0" := (f0 K). Notation "1" := (f1 K).
Infix "+v" := (vadd M) (at level 50, left associativity).
Infix "*v" := (smul M) (at level 40).

(** C07: any member carrying a promise that does not fit makes the chunk an error *)
Theorem oversized_promise_refused (first : member K) rest :
  (exists mb p, In mb (first :: rest) /\ In p (mb_promises K mb) /\ promise_fits (mb_bits K first) p = false) ->
  consistency K (first :: rest) = None.
Proof.
  intros (mb & p & Hmb & Hp & Hf). unfold consistency.
  destruct (d1_degree_ok K first (mb_T K first)); cbn [negb]; [|reflexivity].
  destruct (consistency_rest K first 1 rest (mb_N K first) 0) as [[mx mi]|]; [|reflexivity].
  assert (E : forallb (fun mb0 => forallb (promise_fits (mb_bits K first)) (mb_promises K mb0)) (first :: rest) = false).
  { destruct (forallb _ (first :: rest)) eqn:E; [|reflexivity]. rewrite forallb_forall in E. specialize (E mb Hmb).
    rewrite forallb_forall in E. specialize (E p Hp). congruence. }
  rewrite E. reflexivity.
Qed.

(** ** C06: the prover's guard is the witness relation *)
Theorem witness_valid_iff bits T ofN (g : gens K M) commitments promises values blindings wT :
  length values = length blindings -> length values = length promises ->
  (witness_valid K M bits T ofN g commitments promises values blindings wT = true <->
   (length values = length commitments /\ wT = T /\
    Forall (fun v => bits < 64 -> (v < 2 ^ N.of_nat bits)%N) values /\
    Forall (fun vc => let '(v, r, c) := vc in 1 <= length r <= T /\ commit K M g (ofN v) r = c) (combine (combine values blindings) commitments) /\
    Forall (fun vp => match snd vp with Some mv => (mv <= fst vp)%N | None => True end) (combine values promises))).
Proof.
  intros L1 L2. unfold witness_valid. rewrite !andb_true_iff, !Nat.eqb_eq, !forallb_forall, !Forall_forall.
  split.
  - intros ((((H1 & H2) & H3) & H4) & H5). repeat split; auto.
    + intros v Hv Hb. specialize (H3 v Hv). rewrite negb_true_iff, andb_false_iff in H3.
      destruct H3 as [H3|H3]; [apply Nat.ltb_ge in H3; lia|].
      destruct (N.lt_ge_cases v (2 ^ N.of_nat bits)) as [Hlt|Hge]; [exact Hlt|]. apply shiftr_pos_iff in Hge. congruence.
    + intros [[v r] c] Hin. specialize (H4 _ Hin). cbn in H4. rewrite !andb_true_iff, negb_true_iff, Nat.eqb_neq, Nat.leb_le in H4.
      destruct H4 as ((Ha & Hb) & Hc). apply (veqb_ok K M Mok) in Hc. repeat split; auto. lia.
    + intros [v p] Hin. specialize (H5 _ Hin). cbn [snd fst] in *. destruct p; [now apply N.leb_le|exact I].
  - intros (H1 & H2 & H3 & H4 & H5). repeat split; auto.
    + intros v Hv. specialize (H3 v Hv). rewrite negb_true_iff, andb_false_iff.
      destruct (Nat.ltb_spec bits 64) as [Hb|Hb]; [right|left; reflexivity].
      specialize (H3 Hb). destruct (0 <? N.shiftr v (N.of_nat bits))%N eqn:E; [|reflexivity]. apply shiftr_pos_iff in E. lia.
    + intros [[v r] c] Hin. specialize (H4 _ Hin). cbn in H4. destruct H4 as ((Ha & Hb) & Hc).
      rewrite !andb_true_iff, negb_true_iff, Nat.eqb_neq, Nat.leb_le. repeat split; try lia. apply (veqb_ok K M Mok). exact Hc.
    + intros [v p] Hin. specialize (H5 _ Hin). cbn [snd fst] in *. destruct p; [now apply N.leb_le|reflexivity].
Qed.

(** ** C12: zero padding of the table contributes nothing *)
Lemma msm_zeros_r (a : list K) n (G : list M) : msm (a ++ repeat 0 n) G = msm a G.
Proof.
  revert G; induction a as [|x a IH]; intros G; cbn [app msm].
  - apply (msm_zero K M Mok).
  - destruct G as [|g G]; [reflexivity|]. now rewrite IH.
Qed.

Lemma msm_interleave : forall (a b : list K) (G Hv : list M), length a = length b -> length a <= length G -> length a <= length Hv ->
  msm (interleave K a b) (interleaveM K M G Hv) = msm a G +v msm b Hv.
Proof.
  induction a as [|x a IH]; intros [|y b] G Hv Hl HG HH; cbn [length] in *; try discriminate.
  - cbn [interleave app msm]. destruct (interleaveM K M G Hv); cbn [msm]; now rewrite (vadd0 K M Mok).
  - destruct G as [|g G]; [cbn in HG; lia|]. destruct Hv as [|h Hv]; [cbn in HH; lia|].
    cbn [interleave interleaveM msm length] in *. rewrite IH by lia. module_eq.
Qed.

(** the vector commitment A computed through the interleaved, zero-padded table equals the textbook
    <aL, G> + <aR, H> + <alpha, Gb> over the first N generators, whatever the capacity *)
Theorem commit_A_capacity_independent (g : gens K M) aL aR alpha padding :
  length aL = length aR -> length aL <= length (g_G g) -> length aL <= length (g_Hv g) ->
  commit_A K M g aL aR alpha padding = msm aL (g_G g) +v msm aR (g_Hv g) +v msm alpha (g_Gb g).
Proof.
  intros Hl HG HH. unfold commit_A, table. rewrite msm_zeros_r. rewrite msm_interleave by assumption. reflexivity.
Qed.

Lemma msm_firstn : forall (a : list K) (G : list M), msm a G = msm a (firstn (length a) G).
Proof.
  induction a as [|x a IH]; intros G; cbn [length firstn msm]; [destruct G; reflexivity|].
  destruct G as [|g G]; [reflexivity|]. cbn [msm]. now rewrite <- IH.
Qed.
End G.

(** ** C16: indices of the s-vector loop stay in range, the padding never underflows *)
Lemma s_loop_indices_safe rounds i : 1 <= i < 2 ^ rounds ->
  Nat.log2 i < rounds /\ 2 ^ Nat.log2 i <= i /\ i - 2 ^ Nat.log2 i < i /\ rounds - Nat.log2 i - 1 < rounds.
Proof.
  intros [H1 H2].
  assert (Hl : Nat.log2 i < rounds) by (apply Nat.log2_lt_pow2; lia).
  assert (Hp : 2 ^ Nat.log2 i <= i) by (apply Nat.log2_spec; lia).
  assert (Hp0 : 0 < 2 ^ Nat.log2 i) by (apply Nat.neq_0_lt_0, Nat.pow_nonzero; lia).
  repeat split; lia.
Qed.

Theorem generator_padding_spec (bits m cap pad : N) :
  generator_padding bits m cap = Some pad -> (m <= cap \/ bits = 0)%N /\ (pad = 2 * bits * cap - 2 * bits * m)%N /\ (2 * bits * cap < 2 ^ 64)%N.
Proof.
  unfold generator_padding, obind, cmul, csub, usize_ok.
  destruct (N.ltb_spec (2 * bits) (2 ^ 64)) as [H1|H1]; [|discriminate].
  destruct (N.ltb_spec (2 * bits * cap) (2 ^ 64)) as [H2|H2]; [|discriminate].
  destruct (N.ltb_spec (2 * bits * m) (2 ^ 64)) as [H3|H3]; [|discriminate].
  destruct (N.leb_spec (2 * bits * m) (2 * bits * cap)) as [H4|H4]; [|discriminate].
  intros E; inversion E; subst. repeat split; auto.
  destruct (N.eq_dec bits 0) as [->|Hb]; [now right|left]. nia.
Qed.

(** the static scalars of the final product fill the owner's table exactly (the back end asserts it) *)
Theorem static_length_matches_table (K : Fld) (acc : batch_acc K) bits m cap pad :
  generator_padding (N.of_nat bits) (N.of_nat m) (N.of_nat cap) = Some pad ->
  length (a_gi acc) = m * bits -> length (a_hi acc) = m * bits -> m <= cap ->
  length (fst (final_msm K acc (N.to_nat pad))) = 2 * bits * cap.
Proof.
  intros Hp Hg Hh Hm. apply generator_padding_spec in Hp. destruct Hp as (_ & -> & _).
  unfold final_msm. cbn [fst]. rewrite app_length, repeat_length.
  assert (Hi : forall a b : list K, length (interleave K a b) = length a + length b).
  { induction a as [|x a IH]; intros [|y b]; cbn [interleave length app]; rewrite ?app_nil_r; try lia. rewrite IH. lia. }
  rewrite Hi, Hg, Hh. nia.
Qed.
