(** The top of the chain, on the model that is compared with the implementation on every run
    ([verify_chunk] of Model/VerifyTop.v): if a chunk is accepted in a verifying mode — the back end
    having found the final multiscalar product to be the identity — then the WEIGHTED SUM OF THE MEMBERS'
    TEXTBOOK RESIDUALS is the identity.  The guards of the model supply every premise of the batch
    equation except the constructor invariants of the statements (bits >= 1, a power-of-two number of
    commitments, one promise per commitment, T = number of blinding generators), the shape of the
    challenge oracle (one round challenge per L/R pair) and y <> 1, which are hypotheses ([member_wf]). *)
From Coq Require Import List Arith NArith Lia Field Ring PeanoNat Bool.
From BP Require Import Base.Field Model.Ctor Model.Codec Model.Transcript Model.Verifier Model.VerifyTop Model.Prover Model.Spec Model.RangeSpec
     Proofs.FieldP Proofs.ModuleP Proofs.CtorP Proofs.VerifierEquivP Proofs.GuardsP Proofs.WeightP Proofs.BatchP Proofs.BatchEquivP Proofs.VerifyTopP.
Import ListNotations.
Local Close Scope N_scope.

Section Top.
Variable K : Fld.
Hypothesis Kok : FldOk K.
Add Field Kf : (Fth K Kok).
Variable M : Mod K.
Hypothesis Mok : ModOk K M.
Local Open Scope F_scope.
Notation "0" := (f0 K). Notation "1" := (f1 K).
Infix "+v" := (vadd M) (at level 50, left associativity).
Infix "*v" := (smul M) (at level 40).

Variable ofN : N -> K.
Variable dec : N -> M.                       (* decompression of a point encoding *)
Variables (H : M) (Gb G Hv : list M).        (* the decoded generators of the chunk's owner *)

Definition pts_of (mb : member K) : mpoints K M :=
  let pr := mb_proof K mb in
  mkMpoints K M (map dec (mb_Venc K mb)) (dec (p_a1 pr)) (dec (p_b pr)) (dec (p_a pr)) (map dec (p_li pr)) (map dec (p_ri pr)).
Definition to_b (mb : member K) (w : K) : bmember K M :=
  mkB K M (mb_bits K mb) (mb_promises K mb) (vproof_of K ofN (mb_proof K mb)) (mb_ch K mb) w (pts_of mb).
Fixpoint to_bs (ms : list (member K)) (ws : list K) : list (bmember K M) :=
  match ms with [] => [] | mb :: ms' => to_b mb (hd 0 ws) :: to_bs ms' (tl ws) end.

Lemma terms_list_to_bs : forall ms ws, terms_list K ofN ms ws = map (b_terms K M) (to_bs ms ws).
Proof. induction ms as [|mb ms IH]; intros ws; cbn [terms_list to_bs map]; [reflexivity|]. now rewrite IH. Qed.
Lemma pts_to_bs : forall ms ws, map (b_pts K M) (to_bs ms ws) = map pts_of ms.
Proof. induction ms as [|mb ms IH]; intros ws; cbn [to_bs map]; [reflexivity|]. now rewrite IH. Qed.

(** what is not established by the guards of [verify] itself *)
Definition member_wf (mb : member K) : Prop :=
  1 <= mb_bits K mb /\ (exists a, length (mb_promises K mb) = 2 ^ a) /\ length (mb_promises K mb) = length (mb_Venc K mb) /\
  length (c_es (mb_ch K mb)) = length (p_li (mb_proof K mb)) /\ mb_T K mb = length Gb /\ c_y (mb_ch K mb) - 1 <> 0.

(** ** facts the guards establish *)
Lemma proof_loop_guards mode : forall ms ws acc masks r, proof_loop K ofN mode ms ws acc masks = Ok r ->
  Forall (fun mb => mb_undecodable K mb = false /\ rounds_ok K mb = true) ms.
Proof.
  induction ms as [|mb ms IH]; intros ws acc masks r E; cbn [proof_loop] in E; [constructor|].
  destruct (mb_undecodable K mb) eqn:U; [discriminate|]. destruct (rounds_ok K mb) eqn:R; cbn [negb] in E; [|discriminate].
  constructor; [auto|]. destruct mode; eapply IH; exact E.
Qed.

Lemma consistency_rest_facts first : forall rest i mx0 mi0 mx mi,
  consistency_rest K first i rest mx0 mi0 = Some (mx, mi) ->
  mx0 <= mx /\ Forall (fun mb => mb_N K mb <= mx /\ mb_T K mb = mb_T K first /\ d1_degree_ok K mb (mb_T K first) = true) rest.
Proof.
  induction rest as [|mb rest IH]; intros i mx0 mi0 mx mi E; cbn [consistency_rest] in E.
  - inversion E; subst. split; [lia|constructor].
  - destruct (negb (list_N_eqb (mb_Gbenc K first) (mb_Gbenc K mb))); [discriminate|].
    destruct (negb (mb_Henc K first =? mb_Henc K mb)%N); [discriminate|].
    destruct (negb (Nat.eqb (mb_bits K first) (mb_bits K mb))); [discriminate|].
    destruct (Nat.eqb (mb_T K first) (mb_T K mb) && d1_degree_ok K mb (mb_T K first)) eqn:ET; cbn [negb] in E; [|discriminate].
    apply andb_true_iff in ET. destruct ET as [ET ED]. apply Nat.eqb_eq in ET.
    destruct (Nat.ltb_spec mx0 (mb_N K mb)) as [Hlt|Hge].
    + apply IH in E. destruct E as [E1 E2]. split; [lia|]. constructor; [repeat split; auto; lia|exact E2].
    + apply IH in E. destruct E as [E1 E2]. split; [lia|]. constructor; [repeat split; auto; lia|exact E2].
Qed.

Lemma consistency_facts ms mx mi : consistency K ms = Some (mx, mi) ->
  exists first rest, ms = first :: rest /\
  Forall (fun mb => mb_N K mb <= mx /\ mb_T K mb = mb_T K first /\ d1_degree_ok K mb (mb_T K first) = true) ms.
Proof.
  destruct ms as [|first rest]; cbn [consistency]; [discriminate|].
  destruct (d1_degree_ok K first (mb_T K first)) eqn:D0; cbn [negb]; [|discriminate].
  destruct (consistency_rest K first 1 rest (mb_N K first) 0) as [[mx' mi']|] eqn:E; [|discriminate].
  destruct (_ && _); [|discriminate]. intros X; inversion X; subst.
  apply consistency_rest_facts in E. destruct E as [E1 E2].
  exists first, rest. split; [reflexivity|]. constructor; [repeat split; auto|exact E2].
Qed.

Lemma d1_degree_len mb T : d1_degree_ok K mb T = true -> length (p_d1 (mb_proof K mb)) = T.
Proof.
  unfold d1_degree_ok. destruct (degree_of_usize _) as [d|] eqn:E; [|discriminate]. intros Hd. apply N.eqb_eq in Hd.
  apply degree_of_usize_val in E. subst d. now apply Nat2N.inj.
Qed.

Lemma chal_ok_facts (c : chals K) : chal_ok K c = true -> c_y c <> 0 /\ Forall (fun e => e <> 0) (c_es c).
Proof.
  unfold chal_ok. rewrite !andb_true_iff, !negb_true_iff. intros (((Hy & _) & Hes) & _). split.
  - now apply (is_zero_false K Kok).
  - apply Forall_forall. intros e He. rewrite forallb_forall in Hes. specialize (Hes e He). apply negb_true_iff in Hes. now apply (is_zero_false K Kok).
Qed.

Lemma rounds_ok_facts mb : rounds_ok K mb = true ->
  length (p_li (mb_proof K mb)) = length (p_ri (mb_proof K mb)) /\ mb_N K mb = 2 ^ length (p_li (mb_proof K mb)).
Proof.
  unfold rounds_ok. destruct (Nat.eqb_spec (length (p_li (mb_proof K mb))) (length (p_ri (mb_proof K mb)))) as [E|E]; cbn [negb]; [|discriminate].
  destruct (Nat.ltb (length (p_li (mb_proof K mb))) 64); cbn [negb]; [|discriminate]. intros X. apply N.eqb_eq in X.
  split; [exact E|]. apply Nat2N.inj. rewrite <- X, Nat2N.inj_pow. reflexivity.
Qed.

(** every member that reaches the final product satisfies the premises of the batch equation *)
Lemma member_b_ok mx first mb w :
  member_wf mb -> mb_undecodable K mb = false -> rounds_ok K mb = true -> transcript_phase_ok K mb = true ->
  mb_N K mb <= mx -> d1_degree_ok K mb (mb_T K first) = true -> mb_T K mb = mb_T K first ->
  b_ok K M Gb mx (to_b mb w).
Proof.
  intros (Hb & Ha & Lpv & Les & HT & Hy1) _ Hr Ht Hmx Hd ET.
  apply rounds_ok_facts in Hr. destruct Hr as [Llr HN].
  unfold transcript_phase_ok in Ht. destruct (verifier_ops _ _); [|discriminate]. apply chal_ok_facts in Ht. destruct Ht as [Hy Hes].
  apply d1_degree_len in Hd.
  unfold b_ok, to_b, b_N, pts_of, mb_N, mb_m in *. cbn [b_bits b_promises b_pf b_ch b_w b_pts mp_V mp_L mp_R v_d1 vproof_of].
  rewrite !map_length. repeat split; try assumption; try congruence; try lia.
Qed.

(** ** the theorem *)
Theorem accepted_chunk_means_zero_weighted_residuals mode ms ws masks sc :
  mode <> RecoverOnly ->
  Forall member_wf ms ->
  verify_chunk K ofN mode ms ws true = (Ok masks, Some sc) ->
  forall max_mn, (exists mi, consistency K ms = Some (max_mn, mi)) -> max_mn <= length G -> max_mn <= length Hv ->
  (* the back end's finding, spelled out: the product of those scalars against the points is the identity *)
  msm (fst sc) (interleaveM K M G Hv) +v msm (snd sc) (flat_map (dyn_of K M) (map pts_of ms) ++ Gb ++ [H]) = v0 M ->
  weighted_residuals K M H Gb G Hv (to_bs ms ws) = v0 M.
Proof.
  intros Hmode Hwf E mx (mi & Ec) HG HH Hz.
  pose proof (verify_chunk_scalars K ofN mode ms ws true (Ok masks) sc E) as (mx' & mi' & first & pad & Ec' & Efirst & Esc & _).
  rewrite Ec in Ec'. inversion Ec'; subst mx' mi'. clear Ec'.
  (* guard facts *)
  unfold verify_chunk in E. rewrite Ec in E.
  destruct (forallb (transcript_phase_ok K) ms) eqn:Etp; cbn [negb] in E; [|discriminate].
  destruct (proof_loop K ofN mode ms ws _ []) as [[acc mk]|] eqn:Epl; [|discriminate].
  apply proof_loop_guards in Epl.
  destruct (consistency_facts ms mx mi Ec) as (f0' & rest & Ems & Fc).
  assert (Ef : first = f0') by (subst ms; cbn [hd] in Efirst; congruence). subst f0'.
  assert (Hok : Forall (b_ok K M Gb mx) (to_bs ms ws)).
  { rewrite forallb_forall in Etp. clear - Kok Hwf Epl Fc Etp. revert ws. induction ms as [|mb ms IH]; intros ws; cbn [to_bs]; constructor.
    - inversion Hwf as [|? ? Hw Hwf']; inversion Epl as [|? ? [U R] Epl']; inversion Fc as [|? ? (A1 & A2 & A3) Fc']; subst.
      apply (member_b_ok mx first); auto. apply Etp. now left.
    - inversion Hwf as [|? ? Hw Hwf']; inversion Epl as [|? ? UR Epl']; inversion Fc as [|? ? A Fc']; subst.
      apply IH; auto. intros x Hx. apply Etp. now right. }
  assert (HTb : mb_T K first = length Gb).
  { subst ms. inversion Hwf as [|? ? (_ & _ & _ & _ & HT & _) _]. exact HT. }
  rewrite Esc, HTb, terms_list_to_bs in Hz.
  rewrite <- (pts_to_bs ms ws) in Hz.
  rewrite (batch_is_weighted_residuals K Kok M Mok H Gb G Hv mx pad (to_bs ms ws) Hok HG HH) in Hz. exact Hz.
Qed.
End Top.
