From Coq Require Import List Arith NArith Bool String.
From BP Require Import Model.Codec Model.Transcript Crypto.Keccak Crypto.Strobe Model.MerlinOps.
Import ListNotations.

Lemma run_ops_app s a b :
  run_ops s (a ++ b) = let '(s1, c1) := run_ops s a in let '(s2, c2) := run_ops s1 b in (s2, c1 ++ c2).
Proof.
  revert s; induction a as [|o a IH]; intro s; cbn [app run_ops].
  - destruct (run_ops s b) as [s2 c2]. reflexivity.
  - destruct (op_apply s o) as [s1 c1]. rewrite IH.
    destruct (run_ops s1 a) as [s2 c2]. destruct (run_ops s2 b) as [s3 c3]. now rewrite app_assoc.
Qed.

(** the challenges handed out while a prefix of the operations was applied do not depend on what is applied afterwards *)
Lemma challenges_of_prefix s a b : exists later, snd (run_ops s (a ++ b)) = snd (run_ops s a) ++ later.
Proof.
  rewrite run_ops_app. destruct (run_ops s a) as [s1 c1]. destruct (run_ops s1 b) as [s2 c2]. now exists c2.
Qed.

(** ... and the state a challenge is squeezed from is the state reached by exactly the operations before it *)
Lemma challenge_after_prefix s a l n :
  snd (run_ops s (a ++ [OChal l n])) = snd (run_ops s a) ++ [snd (t_challenge (label_bytes l) n (fst (run_ops s a)))].
Proof.
  rewrite run_ops_app. destruct (run_ops s a) as [s1 c1]. cbn [run_ops op_apply fst snd].
  destruct (t_challenge (label_bytes l) n s1) as [s' c]. cbn [snd]. now rewrite app_nil_r.
Qed.

(** RNG operations do not move the transcript: operation lists that differ only in them reach the same state and challenges *)
Definition is_rng_op (o : op) : bool := match o with ORng _ | OFill _ => true | _ => false end.
Lemma rng_ops_invisible s ops : run_ops s (filter (fun o => negb (is_rng_op o)) ops) = run_ops s ops.
Proof.
  revert s; induction ops as [|o r IH]; intro s; [reflexivity|].
  destruct o as [l len v | l len | w | n]; cbn [filter is_rng_op negb run_ops op_apply].
  - now rewrite IH.
  - destruct (t_challenge (label_bytes l) len s) as [s' c]. now rewrite IH.
  - rewrite IH. now destruct (run_ops s r).
  - rewrite IH. now destruct (run_ops s r).
Qed.
