(** C10 on whole batches (every chunk boundary): with the same oracles, whatever recover-and-verify accepts,
    recover-only answers with the same masks; and the Ok/Err verdict of [verify_batch] is the same in the two
    verifying modes, with or without seeds on the statements. *)
From Coq Require Import List Arith NArith Lia Bool.
From BP Require Import Base.Field Model.Ctor Model.Codec Model.Transcript Model.Verifier Model.VerifyTop Proofs.VerifyTopP Proofs.BatchTopP.
Import ListNotations.
Local Close Scope N_scope.

Section BM.
Variable K : Fld.
Variable ofN : N -> K.

Lemma all_ok_recover_only : forall cs orc masks,
  all_ok (chunk_results K ofN RecoverAndVerify cs orc) = Some masks -> all_ok (chunk_results K ofN RecoverOnly cs orc) = Some masks.
Proof.
  induction cs as [|c cs IH]; intros orc masks E; cbn [chunk_results all_ok] in *; [exact E|].
  destruct (fst (verify_chunk K ofN RecoverAndVerify c _ _)) as [m|] eqn:Ec; [|discriminate].
  rewrite (recover_only_same_masks K ofN c _ _ m Ec).
  destruct (all_ok (chunk_results K ofN RecoverAndVerify cs (tl orc))) as [ms'|] eqn:Er; [|discriminate].
  now rewrite (IH (tl orc) ms' Er).
Qed.

Theorem batch_recover_only_same_masks ns np nt ms orc masks :
  verify_batch K ofN RecoverAndVerify ns np nt ms orc = Ok masks -> verify_batch K ofN RecoverOnly ns np nt ms orc = Ok masks.
Proof.
  intros E. apply verify_batch_ok_iff in E. destruct E as (H1 & H2 & H3 & E). apply verify_batch_ok_iff.
  repeat split; try assumption. now apply all_ok_recover_only.
Qed.

Lemma chunks_of_map {A B} (f : A -> B) : forall fuel c (l : list A), chunks_of fuel c (map f l) = map (map f) (chunks_of fuel c l).
Proof.
  induction fuel as [|fuel IH]; intros c l; cbn [chunks_of map]; [reflexivity|].
  destruct l as [|x l]; [reflexivity|]. cbn [map]. change (f x :: map f l) with (map f (x :: l)).
  rewrite firstn_map, skipn_map, IH. reflexivity.
Qed.

Lemma all_ok_is_some_modes m1 m2 : verifying m1 = true -> verifying m2 = true -> forall cs orc,
  (exists a, all_ok (chunk_results K ofN m1 cs orc) = Some a) <->
  (exists a, all_ok (chunk_results K ofN m2 (map (map (forget_seed K)) cs) orc) = Some a).
Proof.
  intros V1 V2. induction cs as [|c cs IH]; intros orc; cbn [chunk_results all_ok map].
  - split; eauto.
  - destruct (verdict_independent_of_seed_and_mode K ofN m1 m2 c (fst (hd ([], false) orc)) (snd (hd ([], false) orc)) V1 V2) as [Ev _].
    destruct (fst (verify_chunk K ofN m1 c _ _)) as [a1|]; destruct (fst (verify_chunk K ofN m2 (map (forget_seed K) c) _ _)) as [a2|]; cbn [is_ok] in Ev; try discriminate.
    + specialize (IH (tl orc)).
      destruct (all_ok (chunk_results K ofN m1 cs (tl orc))); destruct (all_ok (chunk_results K ofN m2 (map (map (forget_seed K)) cs) (tl orc))); split; intros [a Ha]; eauto; try discriminate.
      * destruct IH as [IH _]. destruct (IH ltac:(eauto)); discriminate.
      * destruct IH as [_ IH]. destruct (IH ltac:(eauto)); discriminate.
    + split; intros [a Ha]; discriminate.
Qed.

Theorem batch_verdict_independent_of_seed_and_mode m1 m2 ns np nt ms orc : verifying m1 = true -> verifying m2 = true ->
  (exists a, verify_batch K ofN m1 ns np nt ms orc = Ok a) <-> (exists a, verify_batch K ofN m2 ns np nt (map (forget_seed K) ms) orc = Ok a).
Proof.
  intros V1 V2.
  pose proof (all_ok_is_some_modes m1 m2 V1 V2 (chunks_of (length ms) MAX_BATCH ms) orc) as X.
  rewrite <- chunks_of_map in X.
  assert (EL : chunks_of (length ms) MAX_BATCH (map (forget_seed K) ms) = chunks_of (length (map (forget_seed K) ms)) MAX_BATCH (map (forget_seed K) ms)) by now rewrite map_length.
  rewrite EL in X.
  split; intros [a E]; apply verify_batch_ok_iff in E; destruct E as (H1 & H2 & H3 & E).
  - destruct X as [X _]. destruct (X ltac:(eauto)) as [b Hb]. exists b. apply verify_batch_ok_iff. auto.
  - destruct X as [_ X]. destruct (X ltac:(eauto)) as [b Hb]. exists b. apply verify_batch_ok_iff. auto.
Qed.
End BM.
