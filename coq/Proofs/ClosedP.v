(** Closed forms used by the optimised verifier (src/range_proof.rs:853-935) equal the naive sums and
    index-by-index vectors of the textbook specification (Model/RangeSpec.v):
    the doubling construction of [d], the doubling trick for its sum, the geometric sum of [y],
    the inverse of the product of all challenges. *)
From Coq Require Import List Arith NArith Lia Field Ring PeanoNat.
From BP Require Import Base.Field Model.Verifier Model.Spec Model.RangeSpec Proofs.FieldP.
Import ListNotations.

Section Closed.
Variable K : Fld.
Hypothesis Kok : FldOk K.
Add Field Kf : (Fth K Kok).
Local Open Scope F_scope.
Notation "0" := (f0 K). Notation "1" := (f1 K).
Notation two := (two K).
Notation fpow := (fpow K).
Notation fsum := (fsum K).

(** ** generic list / sum facts *)
Lemma fsum_app a b : fsum (a ++ b) = fsum a + fsum b.
Proof. unfold Field.fsum. induction a as [|x a IH]; cbn [app fold_right]; [ring|]. rewrite IH. ring. Qed.

Lemma fsum_map_mul c l : fsum (map (fun x => x * c) l) = fsum l * c.
Proof. unfold Field.fsum. induction l as [|x l IH]; cbn [map fold_right]; [ring|]. rewrite IH. ring. Qed.

Lemma fsum_cons x l : fsum (x :: l) = x + fsum l. Proof. reflexivity. Qed.

Lemma map_seq_shift {A} (f : nat -> A) a n : map f (seq (S a) n) = map (fun i => f (S i)) (seq a n).
Proof. rewrite <- seq_shift, map_map. reflexivity. Qed.

Lemma flat_map_seq_shift {A} (f : nat -> list A) a n : flat_map f (seq (S a) n) = flat_map (fun i => f (S i)) (seq a n).
Proof. revert a; induction n as [|n IH]; intros a; cbn [seq flat_map]; [reflexivity|now rewrite IH]. Qed.

Lemma fpow_mul_l (a b : K) n : fpow (a * b) n = fpow a n * fpow b n.
Proof. induction n as [|n IH]; cbn [Field.fpow]; [ring|]. rewrite IH. ring. Qed.

Lemma fpow_fpow (a : K) n k : fpow (fpow a n) k = fpow a (n * k).
Proof. induction k as [|k IH]; cbn [Field.fpow]; [now rewrite Nat.mul_0_r|]. rewrite IH, Nat.mul_succ_r, Nat.add_comm, (fpow_add K Kok). reflexivity. Qed.

Lemma fpow_inv (a : K) n : a <> 0 -> fpow (/ a) n = / fpow a n.
Proof.
  intros Ha. induction n as [|n IH]; cbn [Field.fpow]; [field; exact (f1_neq_0 K Kok)|].
  rewrite IH. field. split; [apply (fpow_nz K Kok); exact Ha|exact Ha].
Qed.

(** ** the vector d *)
Lemma d_first_spec : forall n c, d_first K c n = map (fun i => c * fpow two i) (seq 0 n).
Proof.
  induction n as [|n IH]; intros c; cbn [d_first seq map]; [reflexivity|].
  rewrite IH, map_seq_shift. f_equal; [cbn [Field.fpow]; ring|]. apply map_ext. intros i. cbn [Field.fpow]. ring.
Qed.

Lemma d_blocks_spec z2 : forall j blk,
  d_blocks K z2 blk j = flat_map (fun t => map (fun x => x * fpow z2 t) blk) (seq 0 j).
Proof.
  induction j as [|j IH]; intros blk; cbn [d_blocks seq flat_map]; [reflexivity|].
  f_equal.
  - rewrite <- (map_id blk) at 1. apply map_ext. intros x. cbn [Field.fpow]. ring.
  - rewrite IH, flat_map_seq_shift.
    apply flat_map_ext. intros t. rewrite map_map. apply map_ext. intros x. cbn [Field.fpow]. ring.
Qed.

(** The doubling construction of the code is the textbook d (bits, m >= 1 are constructor invariants). *)
Theorem d_vec_naive bits m z : 1 <= bits -> 1 <= m -> d_vec K bits m (z * z) = d_naive K bits m z.
Proof.
  intros Hb Hm. unfold d_vec, d_naive.
  set (z2 := z * z).
  assert (E1 : z2 :: d_first K (two * z2) (bits - 1) = map (fun i => z2 * fpow two i) (seq 0 bits)).
  { destruct bits as [|b]; [lia|]. replace (S b - 1)%nat with b by lia. change (d_first K z2 (S b) = map (fun i => z2 * fpow two i) (seq 0 (S b))).
    apply d_first_spec. }
  rewrite E1. set (first := map (fun i => z2 * fpow two i) (seq 0 bits)).
  destruct m as [|m']; [lia|]. replace (S m' - 1)%nat with m' by lia.
  change (first ++ d_blocks K z2 (map (fun x => x * z2) first) m') with (d_blocks K z2 first (S m')).
  rewrite d_blocks_spec. apply flat_map_ext. intros t. unfold first. rewrite map_map. apply map_ext. intros i.
  cbn [Field.fpow]. ring.
Qed.

Lemma d_naive_length bits m z : length (d_naive K bits m z) = (m * bits)%nat.
Proof.
  unfold d_naive.
  assert (G : forall a, length (flat_map (fun j => map (fun i => fpow (z * z) (S j) * fpow two i) (seq 0 bits)) (seq a m)) = (m * bits)%nat).
  { induction m as [|m IH]; intros a; cbn [seq flat_map]; [reflexivity|].
    rewrite app_length, map_length, seq_length, IH. reflexivity. }
  apply G.
Qed.

(** ** sums: geo c n = c + c^2 + ... + c^n *)
Definition geo (c : K) (n : nat) : K := fsum (map (fun j => fpow c (S j)) (seq 0 n)).

Lemma geo_S c n : geo c (S n) = geo c n + fpow c (S n).
Proof.
  unfold geo. rewrite seq_S, map_app, fsum_app. cbn [map Field.fsum fold_right Nat.add]. ring.
Qed.

Lemma geo_add c n k : geo c (n + k) = geo c n + fpow c n * geo c k.
Proof.
  induction k as [|k IH]; [rewrite Nat.add_0_r; unfold geo at 3; cbn; ring|].
  rewrite Nat.add_succ_r, !geo_S, IH. replace (S (n + k)) with (n + S k)%nat by lia. rewrite (fpow_add K Kok). ring.
Qed.

(** the doubling loop: after s steps from (geo c (2^t), c^(2^t)) we hold geo c (2^(t+s)) *)
Lemma d_sum_loop_spec c : forall s t,
  d_sum_loop K s (geo c (2 ^ t)) (fpow c (2 ^ t)) = geo c (2 ^ (t + s)).
Proof.
  induction s as [|s IH]; intros t; cbn [d_sum_loop]; [now rewrite Nat.add_0_r|].
  replace (geo c (2 ^ t) + geo c (2 ^ t) * fpow c (2 ^ t)) with (geo c (2 ^ S t)).
  2:{ cbn [Nat.pow]. replace (2 * 2 ^ t)%nat with (2 ^ t + 2 ^ t)%nat by lia. rewrite geo_add. ring. }
  replace (fpow c (2 ^ t) * fpow c (2 ^ t)) with (fpow c (2 ^ S t)).
  2:{ cbn [Nat.pow]. replace (2 * 2 ^ t)%nat with (2 ^ t + 2 ^ t)%nat by lia. now rewrite (fpow_add K Kok). }
  rewrite IH. f_equal. f_equal. lia.
Qed.

Lemma pow2_sum bits : fsum (map (fun i => fpow two i) (seq 0 bits)) = fpow two bits - 1.
Proof.
  induction bits as [|b IH]; [cbn; ring|].
  rewrite seq_S, map_app, fsum_app, IH. cbn [map Field.fsum fold_right Nat.add Field.fpow]. unfold Field.two. ring.
Qed.

Lemma fsum_d_naive_gen bits z : forall m a,
  fsum (flat_map (fun j => map (fun i => fpow (z * z) (S j) * fpow two i) (seq 0 bits)) (seq a m))
  = fsum (map (fun j => fpow (z * z) (S j)) (seq a m)) * (fpow two bits - 1).
Proof.
  induction m as [|m IH]; intros a; cbn [seq flat_map map]; [cbn; ring|].
  rewrite fsum_app, fsum_cons, IH.
  replace (map (fun i => fpow (z * z) (S a) * fpow two i) (seq 0 bits)) with (map (fun x => x * fpow (z * z) (S a)) (map (fun i => fpow two i) (seq 0 bits))).
  2:{ rewrite map_map. apply map_ext. intros i. ring. }
  rewrite fsum_map_mul, pow2_sum. ring.
Qed.
Lemma fsum_d_naive bits m z : fsum (d_naive K bits m z) = geo (z * z) m * (fpow two bits - 1).
Proof. apply fsum_d_naive_gen. Qed.

(** The doubling trick of the code computes the naive sum of d whenever m is a power of two
    (a constructor invariant of the statement). *)
Theorem d_sum_naive bits a z : d_sum K bits (2 ^ a) (z * z) = fsum (d_naive K bits (2 ^ a) z).
Proof.
  unfold d_sum. rewrite Nat.log2_pow2 by lia. rewrite fsum_d_naive.
  pose proof (d_sum_loop_spec (z * z) a 0) as E. cbn [Nat.pow Nat.add] in E.
  replace (geo (z * z) 1) with (z * z) in E by (unfold geo; cbn; ring).
  replace (fpow (z * z) 1) with (z * z) in E by (cbn; ring).
  rewrite E. reflexivity.
Qed.

(** geometric sum: y (y^n - 1) / (y - 1) *)
Theorem y_sum_naive y n : y - 1 <> 0 -> y * (fpow y n - 1) * / (y - 1) = ysum_naive K y n.
Proof.
  intros Hy. change (ysum_naive K y n) with (geo y n).
  induction n as [|n IH]; [unfold geo; cbn; field; exact Hy|].
  rewrite geo_S, <- IH. cbn [Field.fpow]. field. exact Hy.
Qed.

(** ** the inverse of the product of all challenges *)
Lemma fprod_app a b : fprod K (a ++ b) = fprod K a * fprod K b.
Proof. unfold Field.fprod. induction a as [|x a IH]; cbn [app fold_right]; [ring|]. rewrite IH. ring. Qed.

Lemma s0_closed (es : list K) y : y <> 0 -> y - 1 <> 0 ->
  fprod K (map (finv K) (es ++ [y; y - 1])) * y * (y - 1) = fprod K (map (finv K) es).
Proof.
  intros Hy Hy1. rewrite map_app, fprod_app. cbn [map Field.fprod fold_right]. field. split; assumption.
Qed.

Lemma invs_nth_y (es : list K) y : nth (length es) (map (finv K) (es ++ [y; y - 1])) 0 = / y.
Proof. rewrite map_app, app_nth2; rewrite map_length; [|lia]. now rewrite Nat.sub_diag. Qed.
Lemma invs_nth_y1 (es : list K) y : nth (S (length es)) (map (finv K) (es ++ [y; y - 1])) 0 = / (y - 1).
Proof. rewrite map_app, app_nth2; rewrite map_length; [|lia]. replace (S (length es) - length es)%nat with 1%nat by lia. reflexivity. Qed.
Lemma invs_firstn (es : list K) y : firstn (length es) (map (finv K) (es ++ [y; y - 1])) = map (finv K) es.
Proof. rewrite map_app. rewrite <- (map_length (finv K) es). rewrite firstn_app, Nat.sub_diag, firstn_all. cbn [firstn]. now rewrite app_nil_r. Qed.
End Closed.
