(** Structure of the Fiat-Shamir operation lists (C04, C05, C07, C08): the log determines every datum
    absorbed into it. *)
From Coq Require Import List Arith NArith Bool Lia.
From BP Require Import Model.Codec Model.Transcript.
Import ListNotations.
Open Scope N_scope.

(** ** the operation list without the identity checks *)
Definition pure_new (s : tstmt) (w : option (nat * N)) : list op :=
  [OApp LDomSep DOMSEP_LEN DOMSEP_VALUE] ++ [OApp LH 32 (ts_Henc s)] ++ map (fun e => OApp LG 32 e) (ts_Gbenc s)
  ++ [OApp LN 8 (ts_bits s); OApp LT 8 (ts_T s); OApp LM 8 (N.of_nat (List.length (ts_Venc s)))]
  ++ map (fun e => OApp LCi 32 e) (ts_Venc s)
  ++ map (fun p => OApp LProm 8 (promise_value p)) (ts_promises s)
  ++ [ORng w].
Definition pure_yz (a : N) (w : option (nat * N)) : list op := [OApp LA 32 a; ORng w; OChal Ly 64; OChal Lz 64].
Definition pure_round (w : option (nat * N)) (lr : N * N) : list op :=
  [OApp LL 32 (fst lr); OApp LR 32 (snd lr); ORng w; OChal Le 64].
Definition pure_final (a1 b : N) (w : option (nat * N)) : list op := [OApp LA1 32 a1; OApp LB 32 b; ORng w; OChal Le 64].

Definition verifier_ops_pure (s : tstmt) (p : proof) : list op :=
  pure_new s None ++ pure_yz (p_a p) None ++ concat (map (pure_round None) (combine (p_li p) (p_ri p)))
  ++ pure_final (p_a1 p) (p_b p) None ++ ops_verifier_rng (p_r1 p) (p_s1 p) (p_d1 p).

Lemma app_point_some l e x : app_point l e = Some x -> x = [OApp l 32 e] /\ e <> 0.
Proof. unfold app_point, is_identity_enc. destruct (N.eqb_spec e 0); intros H; inversion H; auto. Qed.

Lemma app_points_some l : forall es x, app_points l es = Some x -> x = map (fun e => OApp l 32 e) es /\ Forall (fun e => e <> 0) es.
Proof.
  induction es as [|e es IH]; intros x H; cbn [app_points] in H.
  - inversion H. split; [reflexivity|constructor].
  - destruct (app_point l e) as [a|] eqn:Ea; [|discriminate].
    destruct (app_points l es) as [b|] eqn:Eb; [|discriminate]. inversion H; subst.
    apply app_point_some in Ea. destruct Ea as [-> He]. destruct (IH b eq_refl) as [-> Hf].
    split; [reflexivity|constructor; auto].
Qed.

Lemma ops_new_some s w x : ops_new s w = Some x -> x = pure_new s w.
Proof.
  unfold ops_new. destruct (app_point LH (ts_Henc s)) as [h|] eqn:Eh; [|discriminate].
  destruct (app_points LG (ts_Gbenc s)) as [g|] eqn:Eg; [|discriminate]. intros H; inversion H; subst.
  apply app_point_some in Eh. destruct Eh as [-> _]. apply app_points_some in Eg. destruct Eg as [-> _]. reflexivity.
Qed.

Lemma ops_yz_some a w x : ops_yz a w = Some x -> x = pure_yz a w.
Proof. unfold ops_yz. destruct (app_point LA a) eqn:E; [|discriminate]. intros H; inversion H. apply app_point_some in E. destruct E as [-> _]. reflexivity. Qed.

Lemma ops_round_some l r w x : ops_round l r w = Some x -> x = pure_round w (l, r).
Proof.
  unfold ops_round. destruct (app_point LL l) eqn:E1; [|discriminate]. destruct (app_point LR r) eqn:E2; [|discriminate].
  intros H; inversion H. apply app_point_some in E1. apply app_point_some in E2. destruct E1 as [-> _], E2 as [-> _]. reflexivity.
Qed.

Lemma ops_rounds_some w : forall lr x, ops_rounds lr w = Some x -> x = concat (map (pure_round w) lr).
Proof.
  induction lr as [|[l r] lr IH]; intros x H; cbn [ops_rounds] in H; [inversion H; reflexivity|].
  destruct (ops_round l r w) eqn:E1; [|discriminate]. destruct (ops_rounds lr w) eqn:E2; [|discriminate].
  inversion H; subst. apply ops_round_some in E1. subst. rewrite (IH _ eq_refl). reflexivity.
Qed.

Lemma ops_final_some a1 b w x : ops_final a1 b w = Some x -> x = pure_final a1 b w.
Proof.
  unfold ops_final. destruct (app_point LA1 a1) eqn:E1; [|discriminate]. destruct (app_point LB b) eqn:E2; [|discriminate].
  intros H; inversion H. apply app_point_some in E1. apply app_point_some in E2. destruct E1 as [-> _], E2 as [-> _]. reflexivity.
Qed.

Lemma osome_app_some {A} (a b : option (list A)) x : osome_app a b = Some x -> exists u v, a = Some u /\ b = Some v /\ x = u ++ v.
Proof. destruct a, b; cbn; intros H; inversion H; eauto. Qed.

Theorem verifier_ops_some s p x : verifier_ops s p = Some x -> x = verifier_ops_pure s p.
Proof.
  unfold verifier_ops. intros H.
  apply osome_app_some in H. destruct H as (u1 & v1 & E1 & H & ->).
  apply osome_app_some in H. destruct H as (u2 & v2 & E2 & H & ->).
  apply osome_app_some in H. destruct H as (u3 & v3 & E3 & H & ->).
  apply osome_app_some in H. destruct H as (u4 & v4 & E4 & H & ->). inversion H; subst.
  apply ops_new_some in E1. apply ops_yz_some in E2. apply ops_rounds_some in E3. apply ops_final_some in E4. subst.
  unfold verifier_ops_pure. reflexivity.
Qed.

(** ** generic splitting lemmas *)
Definition op_label (o : op) : option label := match o with OApp l _ _ => Some l | OChal l _ => Some l | _ => None end.

(** a run of [map f] followed by an element outside the image of [f] splits uniquely *)
Lemma map_run_inj {A} (f : A -> op) (Hinj : forall a b, f a = f b -> a = b) :
  forall xs ys (h h' : op) r r', (forall a, f a <> h) -> (forall a, f a <> h') ->
  map f xs ++ h :: r = map f ys ++ h' :: r' -> xs = ys /\ h = h' /\ r = r'.
Proof.
  induction xs as [|x xs IH]; intros [|y ys] h h' r r' Hh Hh' E; cbn [map app] in E.
  - inversion E; auto.
  - inversion E as [[E1 E2]]. exfalso. apply (Hh' y). congruence.
  - inversion E as [[E1 E2]]. exfalso. apply (Hh x). congruence.
  - inversion E as [[E1 E2]]. apply Hinj in E1. subst y.
    destruct (IH ys h h' r r' Hh Hh' E2) as (-> & -> & ->). auto.
Qed.

Lemma map_len_inj {A} (f : A -> op) (Hinj : forall a b, f a = f b -> a = b) :
  forall xs ys r r', List.length xs = List.length ys -> map f xs ++ r = map f ys ++ r' -> xs = ys /\ r = r'.
Proof.
  induction xs as [|x xs IH]; intros [|y ys] r r' Hl E; cbn [map app List.length] in *; try discriminate; auto.
  inversion E as [[E1 E2]]. apply Hinj in E1. subst. destruct (IH ys r r') as [-> ->]; auto.
Qed.

(** blocks of four operations starting with label L, followed by an operation with another label *)
Lemma rounds_inj w : forall lr lr' (h h' : op) r r',
  (forall x, h <> OApp LL 32 x) -> (forall x, h' <> OApp LL 32 x) ->
  concat (map (pure_round w) lr) ++ h :: r = concat (map (pure_round w) lr') ++ h' :: r' -> lr = lr' /\ h = h' /\ r = r'.
Proof.
  induction lr as [|[l1 r1] lr IH]; intros [|[l2 r2] lr'] h h' r r' Hh Hh' E; cbn [map concat app pure_round fst snd] in E.
  - inversion E; auto.
  - inversion E as [[E1 E2]]. exfalso. apply (Hh l2). exact E1.
  - inversion E as [[E1 E2]]. exfalso. apply (Hh' l1). symmetry. exact E1.
  - inversion E as [[E1 E2 E3]]. subst. destruct (IH lr' h h' r r' Hh Hh' E3) as (-> & -> & ->). auto.
Qed.

Lemma combine_eq_inv {A B} : forall (a a' : list A) (b b' : list B),
  List.length a = List.length b -> List.length a' = List.length b' -> combine a b = combine a' b' -> a = a' /\ b = b'.
Proof.
  induction a as [|x a IH]; intros [|x' a'] [|y b] [|y' b'] H1 H2 E; cbn [combine List.length] in *; try discriminate; auto.
  inversion E; subst. destruct (IH a' b b') as [-> ->]; auto.
Qed.

(** ** the log determines everything absorbed into it *)
(** statements are equal up to "absent promise = zero" *)
Definition tstmt_equiv (s s' : tstmt) : Prop :=
  ts_bits s = ts_bits s' /\ ts_T s = ts_T s' /\ ts_Henc s = ts_Henc s' /\ ts_Gbenc s = ts_Gbenc s' /\
  ts_Venc s = ts_Venc s' /\ map promise_value (ts_promises s) = map promise_value (ts_promises s').

Lemma pure_new_inj s s' w w' r r' (h h' : op) :
  (forall p, h <> OApp LProm 8 p) -> (forall p, h' <> OApp LProm 8 p) ->
  pure_new s w ++ r = pure_new s' w' ++ r' -> tstmt_equiv s s' /\ w = w' /\ r = r'.
Proof.
  intros _ _. unfold pure_new. rewrite <- !app_assoc. cbn [app]. intros E.
  inversion E as [[EH E1]]. clear E.
  apply (map_run_inj (fun e => OApp LG 32 e)) in E1; [|intros a b Hab; now inversion Hab|intros a; discriminate|intros a; discriminate].
  destruct E1 as (EG & EN & E2). inversion EN as [EN']. clear EN.
  inversion E2 as [[ET EM E3]]. clear E2.
  apply Nat2N.inj in EM.
  apply (map_len_inj (fun e => OApp LCi 32 e)) in E3; [|intros a b Hab; now inversion Hab|exact EM].
  destruct E3 as [EV E4].
  assert (Hmp : forall l : list (option N), map (fun p => OApp LProm 8 (promise_value p)) l = map (fun v => OApp LProm 8 v) (map promise_value l)).
  { intros l. rewrite map_map. reflexivity. }
  rewrite !Hmp in E4.
  apply (map_run_inj (fun v => OApp LProm 8 v)) in E4; [|intros a b Hab; now inversion Hab|intros a; discriminate|intros a; discriminate].
  destruct E4 as (EP & EW & ER). inversion EW. subst.
  repeat split; auto.
Qed.

Theorem verifier_log_injective s s' p p' :
  List.length (p_li p) = List.length (p_ri p) -> List.length (p_li p') = List.length (p_ri p') ->
  verifier_ops_pure s p = verifier_ops_pure s' p' ->
  tstmt_equiv s s' /\ p_a p = p_a p' /\ p_li p = p_li p' /\ p_ri p = p_ri p' /\ p_a1 p = p_a1 p' /\ p_b p = p_b p' /\
  p_r1 p = p_r1 p' /\ p_s1 p = p_s1 p' /\ p_d1 p = p_d1 p'.
Proof.
  intros Hl Hl'. unfold verifier_ops_pure. intros E.
  apply (pure_new_inj s s' None None _ _ (OFill 0) (OFill 0)) in E; try (intros; discriminate).
  destruct E as (Es & _ & E). unfold pure_yz in E. cbn [app] in E.
  inversion E as [[Ea E1]]. clear E.
  unfold pure_final in E1. cbn [app] in E1.
  apply rounds_inj in E1; [|intros x; discriminate|intros x; discriminate].
  destruct E1 as (Elr & EA1 & E2). inversion EA1 as [Ea1]. clear EA1.
  unfold ops_verifier_rng in E2. cbn [app] in E2.
  inversion E2 as [[Eb Er1 Es1 E4]]. clear E2.
  apply (map_run_inj (fun d => OApp Ld1 32 d)) in E4; [|intros a b Hab; now inversion Hab|intros a; discriminate|intros a; discriminate].
  destruct E4 as (Ed1 & _ & _).
  apply combine_eq_inv in Elr; auto. destruct Elr as [Eli Eri].
  destruct Es as (? & ? & ? & ? & ? & ?). unfold tstmt_equiv. repeat split; auto.
Qed.

(** Corollary (C04/C05): whenever both runs get through the transcript phase, equal logs force equal
    statements (up to None = Some 0) and equal proofs; contrapositive: any single alteration of an
    absorbed datum changes the operation list. *)
Corollary verifier_ops_injective s s' p p' l :
  List.length (p_li p) = List.length (p_ri p) -> List.length (p_li p') = List.length (p_ri p') ->
  verifier_ops s p = Some l -> verifier_ops s' p' = Some l ->
  tstmt_equiv s s' /\ p_a p = p_a p' /\ p_li p = p_li p' /\ p_ri p = p_ri p' /\ p_a1 p = p_a1 p' /\ p_b p = p_b p' /\
  p_r1 p = p_r1 p' /\ p_s1 p = p_s1 p' /\ p_d1 p = p_d1 p'.
Proof.
  intros H1 H2 E1 E2. apply verifier_ops_some in E1. apply verifier_ops_some in E2.
  apply verifier_log_injective; auto. congruence.
Qed.

(** the prefix of the log that precedes each challenge *)
Definition log_yz (s : tstmt) (p : proof) : list op := pure_new s None ++ [OApp LA 32 (p_a p); ORng None].
Definition log_round (s : tstmt) (p : proof) (j : nat) : list op :=
  pure_new s None ++ pure_yz (p_a p) None ++ concat (map (pure_round None) (firstn j (combine (p_li p) (p_ri p))))
  ++ match nth_error (combine (p_li p) (p_ri p)) j with Some lr => [OApp LL 32 (fst lr); OApp LR 32 (snd lr); ORng None] | None => [] end.

(** each challenge's log extends the previous one (so each challenge depends on everything earlier) *)
Lemma log_yz_prefix_of_all s p : exists rest, verifier_ops_pure s p = log_yz s p ++ rest.
Proof. unfold verifier_ops_pure, log_yz, pure_yz. eexists. rewrite <- app_assoc. cbn [app]. reflexivity. Qed.

Lemma identity_rejected_H s w : ts_Henc s = 0 -> ops_new s w = None.
Proof. intros E. unfold ops_new, app_point. rewrite E. reflexivity. Qed.

Lemma identity_rejected_A w : ops_yz 0 w = None.
Proof. reflexivity. Qed.

Lemma identity_rejected_round_L r w : ops_round 0 r w = None.
Proof. reflexivity. Qed.
Lemma identity_rejected_round_R l w : ops_round l 0 w = None.
Proof. unfold ops_round. destruct (app_point LL l); reflexivity. Qed.
Lemma identity_rejected_final_A1 b w : ops_final 0 b w = None.
Proof. reflexivity. Qed.
Lemma identity_rejected_final_B a1 w : ops_final a1 0 w = None.
Proof. unfold ops_final. destruct (app_point LA1 a1); reflexivity. Qed.
