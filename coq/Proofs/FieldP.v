(** Basic consequences of the field / module laws, and list lemmas used throughout. *)
From Coq Require Import List Arith NArith Lia Field Ring Bool.
From BP Require Import Base.Field.
Import ListNotations.

Section FieldFacts.
Variable K : Fld.
Hypothesis Kok : FldOk K.
Add Field Kf : (Fth K Kok).
Local Open Scope F_scope.
Notation "0" := (f0 K). Notation "1" := (f1 K).

Lemma f1_neq_0 : 1 <> 0.
Proof. exact (F_1_neq_0 (Fth K Kok)). Qed.

Lemma finv_l (a : K) : a <> 0 -> / a * a = 1.
Proof. intros H. field. exact H. Qed.

Lemma fmul_nz (a b : K) : a <> 0 -> b <> 0 -> a * b <> 0.
Proof.
  intros Ha Hb E. apply Hb. transitivity (/ a * (a * b)); [field; auto|]. rewrite E. ring.
Qed.

Lemma fpow_nz (y : K) n : y <> 0 -> fpow K y n <> 0.
Proof. intros Hy. induction n as [|n IH]; cbn [fpow]; [exact f1_neq_0|]. now apply fmul_nz. Qed.

Lemma finv_nz (a : K) : a <> 0 -> / a <> 0.
Proof. intros Ha E. apply f1_neq_0. rewrite <- (finv_l a Ha), E. ring. Qed.

Lemma fpow_add (y : K) n m : fpow K y (n + m) = fpow K y n * fpow K y m.
Proof. induction n as [|n IH]; cbn [fpow Nat.add]; [ring|]. rewrite IH. ring. Qed.

Lemma fpow_S_r (y : K) n : fpow K y (S n) = fpow K y n * y.
Proof. cbn [fpow]. ring. Qed.

Lemma is_zero_true (a : K) : is_zero K a = true <-> a = 0.
Proof. unfold is_zero. apply (feqb_ok K Kok). Qed.

Lemma is_zero_false (a : K) : is_zero K a = false <-> a <> 0.
Proof.
  split; intros H.
  - intros E. apply is_zero_true in E. congruence.
  - destruct (is_zero K a) eqn:E; [|reflexivity]. apply is_zero_true in E. contradiction.
Qed.

(** [powers] *)
Lemma powers_from_length acc y n : length (powers_from K acc y n) = n.
Proof. revert acc; induction n as [|n IH]; intros acc; cbn [powers_from length]; [reflexivity|now rewrite IH]. Qed.

Lemma powers_from_nth acc y : forall n i, i < n -> nth i (powers_from K acc y n) 0 = acc * fpow K y i.
Proof.
  intros n; revert acc; induction n as [|n IH]; intros acc i Hi; [lia|].
  destruct i as [|i]; cbn [powers_from nth fpow]; [ring|]. rewrite IH by lia. ring.
Qed.

Lemma powers_nth y n i : i < n -> nth i (powers K y n) 0 = fpow K y i.
Proof. intros H. unfold powers. rewrite powers_from_nth by exact H. ring. Qed.

Lemma powers_length y n : length (powers K y n) = n.
Proof. apply powers_from_length. Qed.
End FieldFacts.

(** generic list facts *)
Lemma map2_length {A B C} (f : A -> B -> C) : forall u w, length (map2 f u w) = Nat.min (length u) (length w).
Proof. induction u as [|a u IH]; intros [|b w]; cbn [map2 length Nat.min]; auto. Qed.

Lemma nth_firstn_lt {A} (l : list A) i j d : j < i -> nth j (firstn i l) d = nth j l d.
Proof. revert i j; induction l as [|x l IH]; intros [|i] [|j] H; cbn; try lia; try reflexivity. apply IH; lia. Qed.

Lemma firstn_snoc {A} (l : list A) i d : i < length l -> firstn i l ++ [nth i l d] = firstn (S i) l.
Proof. revert i; induction l as [|x l IH]; intros [|i] H; cbn in *; try lia; try reflexivity. f_equal. apply IH; lia. Qed.
