(** Mask recovery returns exactly the blinding factor (C09), and what a wrong seed returns (C10). *)
From Coq Require Import List Arith NArith Lia Field Ring.
From BP Require Import Base.Field Model.Verifier Proofs.FieldP.
Import ListNotations.

Section Mask.
Variable K : Fld.
Hypothesis Kok : FldOk K.
Add Field Kf : (Fth K Kok).
Local Open Scope F_scope.
Notation "0" := (f0 K). Notation "1" := (f1 K).

Variable nonce : nlabel -> option nat -> nat -> K.

(** sum over the rounds of e_j^2 dL_{j,k} + e_j^-2 dR_{j,k} *)
Fixpoint round_sum (nc : nlabel -> option nat -> nat -> K) (k j : nat) (esq esq_inv : list K) : K :=
  match esq, esq_inv with
  | c :: a, ci :: b => c * nc NdL (Some j) k + ci * nc NdR (Some j) k + round_sum nc k (S j) a b
  | _, _ => 0
  end.

Lemma mask_rounds_spec k : forall esq esq_inv j acc,
  mask_rounds K nonce k j esq esq_inv acc = acc - round_sum nonce k j esq esq_inv.
Proof.
  induction esq as [|c esq IH]; intros [|ci esq_inv] j acc; cbn [mask_rounds round_sum]; try ring.
  rewrite IH. ring.
Qed.

(** the k-th response of an honest non-aggregated prover whose nonces are [nc] and whose k-th blinding
    factor is [r]  (Model/Prover.v: d1_k = eta_k + d_k e + alpha_k e^2 with the folded alpha_k) *)
Definition honest_d1 (nc : nlabel -> option nat -> nat -> K) (y z e : K) (es : list K) (N : nat) (r : K) (k : nat) : K :=
  let esq := map (fun c => c * c) es in
  let esq_inv := map (fun c => c * c) (map (finv K) es) in
  nc NEta None k + nc Nd None k * e
  + (nc NAlpha None k + z * z * r * (fpow K y N * y) + round_sum nc k 0 esq esq_inv) * (e * e).

Definition recover_one (y z e : K) (es : list K) (N : nat) (k : nat) (d1v : K) : K :=
  let esq := map (fun c => c * c) es in
  let esq_inv := map (fun c => c * c) (map (finv K) es) in
  let t := (d1v - nonce NEta None k - e * nonce Nd None k) * / (e * e) in
  let t := t - nonce NAlpha None k in
  let t := mask_rounds K nonce k 0 esq esq_inv t in
  t * / (z * z * (fpow K y N * y)).

(** with the prover's own nonces, recovery inverts the response exactly *)
Theorem recover_one_exact y z e es N r k : y <> 0 -> z <> 0 -> e <> 0 ->
  recover_one y z e es N k (honest_d1 nonce y z e es N r k) = r.
Proof.
  intros Hy Hz He. unfold recover_one, honest_d1. rewrite mask_rounds_spec.
  assert (HyN : fpow K y N <> 0) by (now apply (fpow_nz K Kok)).
  field. repeat split; auto.
Qed.

(** with nonces [nc'] of another seed, recovery returns the mask shifted by an explicit combination of
    the nonce differences: it equals the true mask iff that combination vanishes *)
Theorem recover_one_wrong_seed nc' y z e es N r k : y <> 0 -> z <> 0 -> e <> 0 ->
  let esq := map (fun c => c * c) es in
  let esq_inv := map (fun c => c * c) (map (finv K) es) in
  let delta := (nc' NEta None k - nonce NEta None k) + (nc' Nd None k - nonce Nd None k) * e
               + ((nc' NAlpha None k - nonce NAlpha None k) + (round_sum nc' k 0 esq esq_inv - round_sum nonce k 0 esq esq_inv)) * (e * e) in
  recover_one y z e es N k (honest_d1 nc' y z e es N r k) = r + delta * / (e * e * (z * z * (fpow K y N * y))).
Proof.
  intros Hy Hz He. cbv zeta. unfold recover_one, honest_d1. rewrite mask_rounds_spec.
  assert (HyN : fpow K y N <> 0) by (now apply (fpow_nz K Kok)).
  field. repeat split; auto.
Qed.

(** ** the list-level function of the model *)
Lemma nth_map_combine_seq {B} (f : nat * K -> B) (d : B) : forall (l : list K) T k s, k < T -> T <= length l ->
  nth k (map f (combine (seq s T) (firstn T l))) d = f ((s + k)%nat, nth k l 0).
Proof.
  intros l T; revert l. induction T as [|T IH]; intros l k s Hk Hl; [lia|].
  destruct l as [|x l]; [cbn in Hl; lia|]. cbn [seq firstn combine map].
  destruct k as [|k]; cbn [nth].
  - now rewrite Nat.add_0_r.
  - rewrite IH by (cbn in Hl; lia). f_equal. f_equal. lia.
Qed.

Theorem recover_mask_component bits m T pf ch k : k < T -> T <= length (v_d1 pf) ->
  nth k (recover_mask K nonce bits m T pf ch) 0 =
  recover_one (c_y ch) (c_z ch) (c_e ch) (c_es ch) (m * bits) k (nth k (v_d1 pf) 0).
Proof.
  intros Hk Hl. unfold recover_mask. rewrite (nth_map_combine_seq _ 0 (v_d1 pf) T k 0 Hk Hl). cbn [Nat.add].
  unfold recover_one. reflexivity.
Qed.

(** C09: for a non-aggregated honest proof, every component of the recovered mask is the corresponding
    blinding factor, in order *)
Theorem mask_recovery_exact bits T pf ch (rs : list K) :
  c_y ch <> 0 -> c_z ch <> 0 -> c_e ch <> 0 -> T <= length (v_d1 pf) ->
  (forall k, k < T -> nth k (v_d1 pf) 0 = honest_d1 nonce (c_y ch) (c_z ch) (c_e ch) (c_es ch) (1 * bits) (nth k rs 0) k) ->
  forall k, k < T -> nth k (recover_mask K nonce bits 1 T pf ch) 0 = nth k rs 0.
Proof.
  intros Hy Hz He Hl Hd k Hk. rewrite recover_mask_component by assumption. rewrite Hd by exact Hk.
  apply recover_one_exact; assumption.
Qed.

Lemma recover_mask_length bits m T pf ch : T <= length (v_d1 pf) -> length (recover_mask K nonce bits m T pf ch) = T.
Proof.
  intros H. unfold recover_mask. rewrite map_length, combine_length, seq_length, firstn_length. lia.
Qed.
End Mask.
