(** C01: completeness of the code-shaped prover against the code-shaped verifier.  Composition of
    - prover refinement (Proofs/ProverRefP.v): the folding loop emits the textbook messages,
    - range reduction (Proofs/RangeRedP.v): P_0 is the commitment to the shifted bit vectors,
    - completeness of the textbook weighted-inner-product argument (Proofs/WipP.v),
    - verifier equivalence (Proofs/VerifierEquivP.v): optimised check = textbook check. *)
From Coq Require Import List Arith NArith Lia Field Ring PeanoNat.
From BP Require Import Base.Field Model.Verifier Model.Prover Model.Spec Model.RangeSpec
     Proofs.FieldP Proofs.ModuleP Proofs.WipP Proofs.ClosedP Proofs.FoldP Proofs.VerifierEquivP Proofs.BitsP
     Proofs.RangeRedP Proofs.ProverRefP Proofs.GuardsP.
Import ListNotations.

Lemma nth_skipn {A} (d : A) : forall k l i, nth i (skipn k l) d = nth (k + i) l d.
Proof. induction k as [|k IH]; intros [|x l] i; cbn [skipn Nat.add nth]; try reflexivity; [now destruct i|apply IH]. Qed.

Section C.
Variable K : Fld.
Hypothesis Kok : FldOk K.
Add Field Kf : (Fth K Kok).
Variable M : Mod K.
Hypothesis Mok : ModOk K M.
Local Open Scope F_scope.
Notation "0" := (f0 K). Notation "1" := (f1 K).
Infix "+v" := (vadd M) (at level 50, left associativity).
Infix "*v" := (smul M) (at level 40).
Notation fpow := (fpow K).
Notation fofN := (fofN K).

Variable g : gens K M.
Notation H := (g_H g). Notation Gb := (g_Gb g).

(** nonces of the right shape: T components each, one pair of vectors per round *)
Definition wf_nonces (T k : nat) (nn : nonces K) : Prop :=
  length (n_alpha nn) = T /\ length (n_d nn) = T /\ length (n_eta nn) = T /\
  length (n_dL nn) = k /\ length (n_dR nn) = k /\
  Forall (fun d => length d = T) (n_dL nn) /\ Forall (fun d => length d = T) (n_dR nn).

(** ** the code's initial vectors are the textbook ones *)
Lemma rev_powers_skip y N : y <> 0 ->
  skipn 1 (rev (powers K y (N + 2))) = map (fun i => fpow y (N - i)) (seq 0 (N + 1)).
Proof.
  intros Hy. apply nth_ext with (d := 0) (d' := 0).
  - rewrite skipn_length, rev_length, (powers_length K), map_length, seq_length. lia.
  - intros i Hi. rewrite skipn_length, rev_length, (powers_length K) in Hi.
    rewrite nth_skipn. rewrite rev_nth by (rewrite (powers_length K); lia). rewrite (powers_length K).
    rewrite (powers_nth K Kok) by lia.
    rewrite (nth_indep _ 0 (fpow y (N - 0))) by (rewrite map_length, seq_length; lia).
    rewrite (map_nth (fun i0 => fpow y (N - i0)) (seq 0 (N + 1)) 0%nat i). rewrite seq_nth by lia.
    f_equal. lia.
Qed.

Lemma aR_go_spec z : forall (ar dd : list K) (yp : list K) (ys : list nat) (f : nat -> K),
  yp = map f ys -> length dd = length ar -> length ar <= length ys ->
  (fix go (ar dd yp : list K) : list K :=
     match ar, dd, yp with
     | a :: ar', di :: dd', p :: yp' => (a + (di * p + z)) :: go ar' dd' yp'
     | _, _, _ => ar
     end) ar dd yp = map2 (fadd K) ar (map2 (fun di i => z + di * f i) dd (firstn (length ar) ys)).
Proof.
  induction ar as [|a ar IH]; intros [|di dd] yp [|i ys] f -> L1 L2; cbn [length] in *; try discriminate; try lia; cbn [map firstn map2]; try reflexivity.
  rewrite (IH dd (map f ys) ys f eq_refl) by lia. f_equal. ring.
Qed.

Lemma alpha_offset_spec z2 ynm1 : forall (bl : list (list K)) (zpow : K) (al : list K),
  Forall (fun r => length r = length al) bl ->
  alpha_offset K z2 ynm1 zpow bl al = alpha_hat K (map (fun j => ynm1 * (zpow * fpow z2 (S j))) (seq 0 (length bl))) bl al.
Proof.
  induction bl as [|r bl IH]; intros zpow al Hl; cbn [alpha_offset length seq map alpha_hat]; [reflexivity|].
  inversion Hl as [|? ? Hr Hl']; subst.
  set (al' := (fix go (rs al0 : list K) : list K := match rs, al0 with
               | x :: rs', a :: al'0 => (a + zpow * z2 * x * ynm1) :: go rs' al'0 | _, _ => al0 end) r al).
  assert (E : al' = map2 (fun a x => a + ynm1 * (zpow * fpow z2 1) * x) al r).
  { unfold al'. clear - Kok Hr. revert al Hr. induction r as [|x r IHr]; intros [|a al] Hr; cbn [length] in Hr; try discriminate; cbn [map2]; [reflexivity|].
    rewrite IHr by lia. f_equal. cbn [Field.fpow]. ring. }
  rewrite IH.
  2:{ rewrite E. rewrite (map2_len _ _ _ (length al)); [exact Hl'|reflexivity|exact Hr]. }
  rewrite E. rewrite map_seq_shift.
  f_equal. apply map_ext. intros j. cbn [Field.fpow]. ring.
Qed.

Lemma d1_go_spec e : forall (et dd al : list K),
  (fix go (et dd al : list K) : list K :=
     match et, dd, al with
     | x :: et', di :: dd', a :: al' => (x + di * e + a * (e * e)) :: go et' dd' al'
     | _, _, _ => []
     end) et dd al = final_d1 K e al dd et.
Proof.
  unfold final_d1.
  induction et as [|x et IH]; intros [|di dd] [|a al]; cbn [map map2]; try reflexivity.
  rewrite IH. f_equal. ring.
Qed.

Lemma nth0_hd {A} (l : list A) d : nth 0 l d = hd d l. Proof. destruct l; reflexivity. Qed.

Lemma a_L_length bits : forall (values : list N) (promises : list (option N)), length promises = length values ->
  length (a_L K bits values promises) = (length values * bits)%nat.
Proof.
  unfold a_L. induction values as [|v vs IH]; intros [|q ps] Lp; cbn [length] in Lp; try discriminate; cbn [combine flat_map length]; [reflexivity|].
  rewrite app_length, (bits_of_length K), IH by lia. reflexivity.
Qed.

(** ** the code-shaped prover computes the textbook proof *)
Definition textbook_proof bits cap (values : list N) (promises : list (option N)) (blindings : list (list K))
           (nn : nonces K) (ch : pchals K) : pproof K M :=
  let m := length values in
  let N := (m * bits)%nat in
  let y := pc_y ch in let z := pc_z ch in let es := pc_es ch in let e := pc_e ch in
  let G := firstn N (g_G g) in let Hs := firstn N (g_Hv g) in
  let aL := a_L K bits values promises in
  let aR := map (fun x => x - 1) aL in
  let a1 := aL_hat K z aL in let b1 := aR_hat K bits m y z aR in
  let al1 := alpha_hat K (v_weights K bits m y z) blindings (n_alpha nn) in
  let rs := rounds_of K es (n_dL nn) (n_dR nn) in
  let '(af, bf, alf) := final_state K y rs a1 b1 al1 in
  let msgs := prover_msgs K M H Gb y rs a1 b1 al1 G Hs in
  let G0 := hd (v0 M) (fold_Gs K M y es G) in let H0 := hd (v0 M) (fold_Hs K M es Hs) in
  mkPproof K M (commit_A K M g aL aR (n_alpha nn) (2 * bits * cap - 2 * bits * m))
           (map fst msgs) (map snd msgs)
           (final_A1 K M H Gb y (hd 0 af) (hd 0 bf) (n_r nn) (n_s nn) (n_d nn) G0 H0)
           (final_B K M H Gb y (n_r nn) (n_s nn) (n_eta nn))
           (n_r nn + hd 0 af * e) (n_s nn + hd 0 bf * e) (final_d1 K e alf (n_d nn) (n_eta nn)).

Section WithInputs.
Variables (bits cap : nat) (values : list N) (promises : list (option N)) (blindings : list (list K)) (nn : nonces K) (ch : pchals K) (a : nat).
Let m := length values.
Let N := (m * bits)%nat.
Let T := length Gb.
Hypothesis Hb : 1 <= bits.
Hypothesis Hm : m = 2 ^ a.
Hypothesis Hcap : m <= cap.
Hypothesis LG : length (g_G g) = (bits * cap)%nat.
Hypothesis LH : length (g_Hv g) = (bits * cap)%nat.
Hypothesis HN : N = 2 ^ length (pc_es ch).
Hypothesis Hy : pc_y ch <> 0.
Hypothesis Hes : Forall (fun e => e <> 0) (pc_es ch).
Hypothesis Lp : length promises = m.
Hypothesis Lb : length blindings = m.
Hypothesis Fb : Forall (fun r => length r = T) blindings.
Hypothesis Wn : wf_nonces T (length (pc_es ch)) nn.

Let G := firstn N (g_G g).
Let Hs := firstn N (g_Hv g).
Let aL := a_L K bits values promises.
Let aR := map (fun x => x - 1) aL.
Let a1 := aL_hat K (pc_z ch) aL.
Let b1 := aR_hat K bits m (pc_y ch) (pc_z ch) aR.
Let al1 := alpha_hat K (v_weights K bits m (pc_y ch) (pc_z ch)) blindings (n_alpha nn).

Lemma HNcap : N <= bits * cap.
Proof. unfold N. rewrite (Nat.mul_comm m bits). apply Nat.mul_le_mono_l. exact Hcap. Qed.
Lemma LGn : length G = N. Proof. unfold G. rewrite firstn_length. apply Nat.min_l. rewrite LG. exact HNcap. Qed.
Lemma LHn : length Hs = N. Proof. unfold Hs. rewrite firstn_length. apply Nat.min_l. rewrite LH. exact HNcap. Qed.
Lemma LaL : length aL = N. Proof. apply a_L_length. exact Lp. Qed.
Lemma La1 : length a1 = N. Proof. unfold a1, aL_hat. rewrite map_length. exact LaL. Qed.
Lemma Lhs : length (h_shift K bits m (pc_y ch) (pc_z ch)) = N.
Proof. unfold h_shift. apply map2_len; [apply d_naive_length|apply seq_length]. Qed.
Lemma Lb1 : length b1 = N.
Proof. unfold b1, aR_hat. apply map2_len; [unfold aR; rewrite map_length; exact LaL|exact Lhs]. Qed.
Lemma Lal1 : length al1 = T.
Proof.
  destruct Wn as (Lal & _). unfold al1.
  destruct (alpha_hat_msm K Kok M Mok g (v_weights K bits m (pc_y ch) (pc_z ch)) blindings (n_alpha nn)) as [_ E]; [rewrite Lal; exact Fb|]. now rewrite E.
Qed.

Theorem prove_core_textbook :
  prove_core K M bits cap g values promises blindings nn ch = textbook_proof bits cap values promises blindings nn ch.
Proof.
  destruct Wn as (Lal & Ld & Leta & LdL & LdR & FdL & FdR).
  pose proof LGn as LGn. pose proof LHn as LHn. pose proof LaL as LaL. pose proof La1 as La1. pose proof Lb1 as Lb1. pose proof Lal1 as Lal1.
  unfold textbook_proof. fold m. fold N. fold G. fold Hs. fold aL. fold aR. fold a1. fold b1. fold al1.
  destruct ch as [y z es e]. cbn [pc_y pc_z pc_es pc_e] in *.
  assert (Ea : map (fun x => x - z) aL = a1) by reflexivity.
  assert (Eb : (fix go (ar dd yp : list K) : list K :=
                  match ar, dd, yp with
                  | a0 :: ar', di :: dd', p0 :: yp' => (a0 + (di * p0 + z)) :: go ar' dd' yp'
                  | _, _, _ => ar
                  end) aR (d_vec K bits m (z * z)) (skipn 1 (rev (powers K y (N + 2)))) = b1).
  { assert (Hm1 : 1 <= m) by (rewrite Hm; apply pow2_ge1).
    rewrite (d_vec_naive K Kok bits m z Hb Hm1), (rev_powers_skip y N Hy).
    rewrite (aR_go_spec z aR (d_naive K bits m z) _ (seq 0 (N + 1)) (fun i => fpow y (N - i)) eq_refl)
      by (unfold aR; rewrite ?map_length, ?d_naive_length, ?seq_length; lia).
    unfold b1, aR_hat, h_shift. fold N. unfold aR at 2. rewrite map_length, LaL.
    replace (firstn N (seq 0 (N + 1))) with (seq 0 N); [reflexivity|].
    rewrite seq_app, firstn_app, seq_length, Nat.sub_diag. cbn [firstn].
    rewrite app_nil_r. rewrite <- (seq_length N 0) at 2. now rewrite firstn_all. }
  assert (Eal : alpha_offset K (z * z) (nth (N + 1) (powers K y (N + 2)) 0) 1 blindings (n_alpha nn) = al1).
  { rewrite (powers_nth K Kok) by lia. rewrite alpha_offset_spec by (rewrite Lal; exact Fb).
    unfold al1, v_weights. rewrite Lb. fold N. f_equal. apply map_ext. intros j.
    replace (N + 1)%nat with (S N) by lia. ring. }
  unfold prove_core. cbn [pc_y pc_z pc_es pc_e]. fold m. rewrite (Nat.mul_comm bits m). fold N. fold aL. fold aR.
  rewrite Ea, Eb, Eal. fold G. fold Hs.
  set (st0 := mkPstate K M a1 b1 G Hs al1).
  pose proof (rounds_loop_spec K Kok M Mok g y N es (n_dL nn) (n_dR nn) st0 LdL LdR FdL FdR) as RL.
  cbn [ps_a ps_b ps_G ps_Hv ps_alpha st0] in RL.
  specialize (RL ltac:(congruence) ltac:(congruence) ltac:(congruence) ltac:(congruence) ltac:(lia) Lal1 Hes).
  cbn zeta in RL.
  destruct (final_state K y (rounds_of K es (n_dL nn) (n_dR nn)) a1 b1 al1) as [[af bf] alf] eqn:Efs.
  destruct RL as (ERL & _).
  rewrite ERL. cbn [ps_a ps_b ps_G ps_Hv ps_alpha].
  rewrite !nth0_hd.
  rewrite (powers_nth K Kok) by lia. replace (fpow y 1) with y by (cbn; ring).
  rewrite d1_go_spec. reflexivity.
Qed.
End WithInputs.

(** ** completeness *)
Theorem completeness bits cap (values : list N) (promises : list (option N)) (blindings : list (list K))
        (nn : nonces K) (ch : pchals K) (w : K) a :
  let m := length values in
  let N := (m * bits)%nat in
  let T := length Gb in
  1 <= bits -> m = 2 ^ a -> m <= cap ->
  length (g_G g) = (bits * cap)%nat -> length (g_Hv g) = (bits * cap)%nat ->
  N = 2 ^ length (pc_es ch) ->
  pc_y ch <> 0 -> pc_y ch - 1 <> 0 -> pc_e ch <> 0 -> Forall (fun e => e <> 0) (pc_es ch) ->
  length promises = m -> length blindings = m -> Forall (fun r => length r = T) blindings ->
  wf_nonces T (length (pc_es ch)) nn ->
  Forall (fun vp => match snd vp with Some mv => (mv <= fst vp)%N | None => True end) (combine values promises) ->
  Forall (fun vp => (offset_value (fst vp) (snd vp) < 2 ^ N.of_nat bits)%N) (combine values promises) ->
  let p := prove_core K M bits cap g values promises blindings nn ch in
  let commitments := map (fun vr => commit K M g (fofN (fst vr)) (snd vr)) (combine values blindings) in
  terms_msm K M (proof_terms K bits promises (mkVproof K (pp_d1 p) (pp_r1 p) (pp_s1 p)) (mkChals K (pc_y ch) (pc_z ch) (pc_es ch) (pc_e ch)) w)
            (firstn N (g_G g)) (firstn N (g_Hv g)) commitments H Gb (pp_A1 p) (pp_B p) (pp_A p) (pp_L p) (pp_R p)
  = v0 M.
Proof.
  intros m N T Hb Hm Hcap LG LH HN Hy Hy1 He Hes Lp Lb Fb Wn Hle Hlt p commitments.
  subst p. rewrite (prove_core_textbook bits cap values promises blindings nn ch a Hb Hm Hcap LG LH HN Hy Hes Lp Lb Fb Wn).
  pose proof (LGn bits cap values Hcap LG) as LGn. pose proof (LHn bits cap values Hcap LH) as LHn.
  pose proof (HNcap bits cap values Hcap) as HNcap. fold m in HNcap. fold N in HNcap.
  pose proof (LaL bits values promises Lp) as LaL. pose proof (La1 bits values promises ch Lp) as La1.
  pose proof (Lb1 bits values promises ch Lp) as Lb1. pose proof (Lal1 bits values blindings nn ch Fb Wn) as Lal1.
  destruct Wn as (Lal & Ld & Leta & LdL & LdR & FdL & FdR).
  fold m in LGn, LHn, LaL, La1, Lb1, Lal1. fold N in LGn, LHn, LaL, La1, Lb1.
  unfold textbook_proof. fold m. fold N.
  destruct ch as [y z es e]. cbn [pc_y pc_z pc_es pc_e] in *.
  set (G := firstn N (g_G g)) in *. set (Hs := firstn N (g_Hv g)) in *.
  set (aL := a_L K bits values promises) in *. set (aR := map (fun x => x - 1) aL) in *.
  pose proof (range_reduction K Kok M Mok g bits values promises blindings (n_alpha nn) G Hs y z
                Lp Lb LGn LHn ltac:(rewrite Lal; exact Fb) Hle Hlt) as RR.
  cbn zeta in RR. fold m in RR. fold aL in RR. fold aR in RR.
  set (a1 := aL_hat K z aL) in *. set (b1 := aR_hat K bits m y z aR) in *.
  set (al1 := alpha_hat K (v_weights K bits m y z) blindings (n_alpha nn)) in *.
  pose proof (rounds_loop_spec K Kok M Mok g y N es (n_dL nn) (n_dR nn) (mkPstate K M a1 b1 G Hs al1) LdL LdR FdL FdR) as RL.
  cbn [ps_a ps_b ps_G ps_Hv ps_alpha] in RL.
  specialize (RL ltac:(congruence) ltac:(congruence) ltac:(congruence) ltac:(congruence) ltac:(lia) Lal1 Hes).
  cbn zeta in RL.
  set (rs := rounds_of K es (n_dL nn) (n_dR nn)) in *.
  pose proof (wip_complete K Kok M Mok H Gb y Hy rs a1 b1 al1 G Hs e (n_r nn) (n_s nn) (n_d nn) (n_eta nn)) as WC.
  cbn zeta in WC.
  destruct (final_state K y rs a1 b1 al1) as [[af bf] alf] eqn:Efs.
  destruct RL as (_ & Ers & Lrs & Wrs).
  cbn [pp_A pp_L pp_R pp_A1 pp_B pp_r1 pp_s1 pp_d1].
  set (msgs := prover_msgs K M H Gb y rs a1 b1 al1 G Hs) in *.
  assert (Lmsgs : length msgs = length es).
  { unfold msgs. rewrite <- Lrs. clear. generalize a1 b1 al1 G Hs. induction rs as [|r rs IH]; intros; cbn [prover_msgs length]; [reflexivity|]. now rewrite IH. }
  rewrite Lrs in WC. rewrite Lal1 in WC.
  specialize (WC ltac:(congruence) ltac:(congruence) ltac:(congruence) ltac:(congruence) Wrs ltac:(exact Ld) ltac:(exact Leta)).
  rewrite Ers in WC. fold msgs in WC.
  rewrite (verifier_fold_split K M y es msgs _ G Hs Lmsgs) in WC.
  assert (Lcm : length commitments = m) by (unfold commitments; rewrite map_length, combine_length; lia).
  rewrite (verifier_equiv K Kok M Mok bits a promises H Gb G Hs commitments _ _ _ msgs _ _ _ y z e w es)
    by (rewrite ?Lp; assumption).
  unfold spec_residual, spec_sides. cbn [rp_A rp_LR rp_A1 rp_B rp_r1 rp_s1 rp_d1].
  rewrite (verifier_fold_split K M y es msgs _ G Hs Lmsgs).
  rewrite (commit_A_capacity_independent K Kok M Mok g aL aR (n_alpha nn)) by (unfold aR; rewrite ?map_length; lia).
  rewrite (msm_firstn K M aL (g_G g)), (msm_firstn K M aR (g_Hv g)). unfold aR at 2. rewrite map_length, LaL. fold G. fold Hs. fold aR.
  unfold commitments. rewrite RR.
  unfold final_check in WC. rewrite <- WC.
  transitivity (w *v v0 M); [f_equal; module_eq|apply (smul_v0 K Kok M Mok)].
Qed.
End C.
