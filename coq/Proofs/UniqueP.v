(** C05, all response scalars at once: over linearly independent generators, the statement, the points of a proof
    and the challenges determine the responses (r1, s1, d1) an accepting verifier can see — two accepted proofs
    that differ only in their response scalars are the same proof.  (The one-at-a-time lemmas of BindingP.v are
    instances; this also excludes simultaneous compensating changes.)  Then the same at the top of the executed
    model: if [verify_chunk] accepts a one-member chunk and the back end finds the identity, then for the member
    with ANY other response scalars the product the model hands to the back end is not the identity. *)
From Coq Require Import List Arith NArith Lia Field Ring PeanoNat Bool.
From BP Require Import Base.Field Model.Ctor Model.Codec Model.Transcript Model.Verifier Model.VerifyTop Model.Prover Model.Spec Model.RangeSpec
     Proofs.FieldP Proofs.ModuleP Proofs.WipP Proofs.SvecP Proofs.ClosedP Proofs.FoldP Proofs.VerifierEquivP Proofs.BindingP
     Proofs.GuardsP Proofs.BatchP Proofs.BatchEquivP Proofs.VerifyTopP Proofs.TopP Proofs.SoundTopP.
Import ListNotations.
Local Close Scope N_scope.

Section Uniq.
Variable K : Fld.
Hypothesis Kok : FldOk K.
Add Field Kf : (Fth K Kok).
Variable M : Mod K.
Hypothesis Mok : ModOk K M.
Local Open Scope F_scope.
Notation "0" := (f0 K). Notation "1" := (f1 K).
Infix "+v" := (vadd M) (at level 50, left associativity).
Infix "*v" := (smul M) (at level 40).

Section Spec.
Variables (H : M) (Gb G Hs : list M).
Hypothesis independent : forall cs, length cs = length (basis K M H Gb G Hs) -> msm cs (basis K M H Gb G Hs) = v0 M -> Forall (fun c => c = 0) cs.
Variables (bits : nat) (Vs : list M) (promises : list (option N)) (A A1 B : M) (LR : list (M * M)) (y z e : K) (es : list K).
Hypothesis LG : length G = 2 ^ length es.
Hypothesis LH : length Hs = 2 ^ length es.
Hypothesis LLR : length LR = length es.
Hypothesis Hes : Forall (fun c => c <> 0) es.
Hypothesis He : e <> 0.

Lemma msm_map2_sub : forall (a b : list K) (P : list M), length a = length P -> length b = length P ->
  msm (map2 (fsub K) a b) P = msm a P +v (- (1)) *v msm b P.
Proof.
  induction a as [|x a IH]; intros [|t b] P La Lb; cbn [length] in *; try (destruct P; cbn [length] in *; lia); cbn [map2 msm].
  - module_eq.
  - destruct P as [|q P]; cbn [length] in *; [lia|]. cbn [msm]. rewrite (IH b P) by lia. module_eq.
Qed.

Lemma head_zero (c : K) (l : list K) : 0 < length l -> Forall (fun x => x = 0) (map (fmul K c) l) -> c * hd 0 l = 0.
Proof. intros Hl F. destruct l as [|x l]; [cbn in Hl; lia|]. cbn [map hd] in *. now inversion F. Qed.
Lemma sub_zero_eq' : forall (a b : list K), length a = length b -> Forall (fun x => x = 0) (map2 (fsub K) a b) -> a = b.
Proof.
  induction a as [|x a IH]; intros [|t b] Hl F; cbn [length] in Hl; try discriminate; [reflexivity|].
  cbn [map2] in F. inversion F as [|? ? Hx F']; subst.
  f_equal; [transitivity (x - t + t); [ring|rewrite Hx; ring] | apply IH; [lia|exact F']].
Qed.
Lemma zero_or_not (a : K) : a = 0 \/ a <> 0.
Proof. destruct (is_zero K a) eqn:E; [left; now apply (is_zero_true K Kok)|right; now apply (is_zero_false K Kok)]. Qed.

Theorem responses_unique r1 s1 d1 r1' s1' d1' : length d1 = length Gb -> length d1' = length Gb ->
  accepts K M H Gb G Hs bits Vs promises A A1 B LR y z e es r1 s1 d1 ->
  accepts K M H Gb G Hs bits Vs promises A A1 B LR y z e es r1' s1' d1' ->
  r1' = r1 /\ s1' = s1 /\ d1' = d1.
Proof.
  intros L1 L2 A0 A1'.
  apply (accepts_unfold K Kok M Mok H Gb G Hs bits Vs promises A A1 B LR y z e es LG LH LLR) in A0.
  apply (accepts_unfold K Kok M Mok H Gb G Hs bits Vs promises A A1 B LR y z e es LG LH LLR) in A1'.
  rewrite A0 in A1'. clear A0.
  assert (E : (r1' * y * s1' - r1 * y * s1) *v H +v msm (map2 (fsub K) d1' d1) Gb
              +v msm (map (fmul K ((r1' - r1) * e)) (gcoef K y es)) G +v msm (map (fmul K ((s1' - s1) * e)) (hcoef K es)) Hs = v0 M).
  { rewrite !(msm_scale_l K Kok M Mok), (msm_map2_sub d1' d1 Gb L2 L1).
    transitivity ((r1' * e) *v msm (gcoef K y es) G +v (s1' * e) *v msm (hcoef K es) Hs +v (r1' * y * s1') *v H +v msm d1' Gb
                  +v (- (1)) *v ((r1 * e) *v msm (gcoef K y es) G +v (s1 * e) *v msm (hcoef K es) Hs +v (r1 * y * s1) *v H +v msm d1 Gb)); [module_eq|].
    rewrite <- A1'. module_eq. }
  apply (combo_zero K Kok M Mok H Gb G Hs independent) in E; rewrite ?map_length, ?gcoef_length, ?hcoef_length; auto.
  2:{ apply map2_len; congruence. }
  destruct E as (_ & Fb & Fc & Fd).
  assert (Hp : fprod K (map (finv K) es) <> 0).
  { apply (fprod_nz K Kok). apply Forall_forall. intros x Hx. apply in_map_iff in Hx. destruct Hx as (c & <- & Hc). apply (finv_nz K Kok). rewrite Forall_forall in Hes. now apply Hes. }
  assert (Hpos : 0 < 2 ^ length es) by (apply Nat.neq_0_lt_0, Nat.pow_nonzero; lia).
  apply head_zero in Fc; [|rewrite gcoef_length; exact Hpos].
  apply head_zero in Fd; [|rewrite hcoef_length; exact Hpos].
  rewrite gcoef_hd in Fc. rewrite hcoef_hd in Fd.
  assert (Er : r1' - r1 = 0).
  { destruct (zero_or_not (r1' - r1)) as [X|X]; [exact X|]. exfalso. exact (fmul_nz K Kok _ _ (fmul_nz K Kok _ _ X He) Hp Fc). }
  assert (Es : s1' - s1 = 0).
  { destruct (zero_or_not (s1' - s1)) as [X|X]; [exact X|]. exfalso. exact (fmul_nz K Kok _ _ (fmul_nz K Kok _ _ X He) (fprod_nz K Kok es Hes) Fd). }
  repeat split.
  - transitivity (r1' - r1 + r1); [ring|rewrite Er; ring].
  - transitivity (s1' - s1 + s1); [ring|rewrite Es; ring].
  - apply sub_zero_eq'; [congruence|exact Fb].
Qed.
End Spec.

(** ** at the top of the executed model *)
Section Top.
Variable ofN : N -> K.
Variable dec : N -> M.
Variables (H : M) (Gb G Hv : list M).

(** the same member with other response scalars: the challenges stay what they were, because r1, s1, d1 are not
    absorbed before the last challenge is drawn (C08_responses_determined_by_log / Transcript.v) *)
Definition with_responses (mb : member K) (r1 s1 : N) (d1 : list N) : member K :=
  let p := mb_proof K mb in
  mkMember K (mb_bits K mb) (mb_cap K mb) (mb_T K mb) (mb_Henc K mb) (mb_Gbenc K mb) (mb_gens K mb) (mb_Venc K mb) (mb_promises K mb)
           (mb_seeded K mb) (mkProof (p_tag p) d1 (p_a p) (p_a1 p) (p_b p) r1 s1 (p_li p) (p_ri p)) (mb_undecodable K mb) (mb_ch K mb) (mb_nonce K mb).

Lemma single_accept_guards mode mb w zf masks o : verify_chunk K ofN mode [mb] [w] zf = (Ok masks, o) ->
  rounds_ok K mb = true /\ transcript_phase_ok K mb = true /\ d1_degree_ok K mb (mb_T K mb) = true.
Proof.
  unfold verify_chunk. destruct (consistency K [mb]) as [[mx mi]|] eqn:Ec; [|discriminate].
  cbn [forallb]. destruct (transcript_phase_ok K mb) eqn:Et; cbn [andb negb]; [|discriminate].
  cbn [hd nth proof_loop]. destruct (mb_undecodable K mb); [discriminate|].
  destruct (rounds_ok K mb) eqn:Er; cbn [negb]; [|discriminate]. intros _.
  unfold consistency in Ec. destruct (d1_degree_ok K mb (mb_T K mb)); [auto|discriminate].
Qed.

Theorem accepted_responses_unique mode mb r1' s1' d1' w w' masks sc masks' sc' :
  let mb' := with_responses mb r1' s1' d1' in
  let Nn := mb_N K mb in
  (forall cs, length cs = length (basis K M H Gb (firstn Nn G) (firstn Nn Hv)) ->
              msm cs (basis K M H Gb (firstn Nn G) (firstn Nn Hv)) = v0 M -> Forall (fun c => c = 0) cs) ->
  mode <> RecoverOnly -> w <> 0 -> w' <> 0 -> member_wf K M Gb mb ->
  Nn <= length G -> Nn <= length Hv ->
  verify_chunk K ofN mode [mb] [w] true = (Ok masks, Some sc) ->
  msm (fst sc) (interleaveM K M G Hv) +v msm (snd sc) (dyn_of K M (pts_of K M dec mb) ++ Gb ++ [H]) = v0 M ->
  verify_chunk K ofN mode [mb'] [w'] true = (Ok masks', Some sc') ->
  msm (fst sc') (interleaveM K M G Hv) +v msm (snd sc') (dyn_of K M (pts_of K M dec mb') ++ Gb ++ [H]) = v0 M ->
  ofN r1' = ofN (p_r1 (mb_proof K mb)) /\ ofN s1' = ofN (p_s1 (mb_proof K mb)) /\ map ofN d1' = map ofN (p_d1 (mb_proof K mb)).
Proof.
  intros mb' Nn Hind Hmode Hw Hw' Hwf HG HH E Z E' Z'.
  assert (Hwf' : member_wf K M Gb mb') by exact Hwf.
  pose proof (accepted_single_means_textbook_accepts K Kok M Mok ofN dec H Gb G Hv mode mb w masks sc Hmode Hw Hwf E HG HH Z) as S0.
  pose proof (accepted_single_means_textbook_accepts K Kok M Mok ofN dec H Gb G Hv mode mb' w' masks' sc' Hmode Hw' Hwf' E' HG HH Z') as S1.
  cbv zeta in S0, S1.
  destruct (single_accept_guards _ _ _ _ _ _ E) as (Rr & Rt & Rd).
  destruct (single_accept_guards _ _ _ _ _ _ E') as (_ & _ & Rd').
  destruct Hwf as (Hb & Ha & Lpv & Les & HT & Hy1).
  apply rounds_ok_facts in Rr. destruct Rr as [Llr HN].
  unfold transcript_phase_ok in Rt. destruct (verifier_ops _ _); [|discriminate].
  assert (Hce : c_e (mb_ch K mb) <> 0).
  { unfold chal_ok in Rt. rewrite !andb_true_iff, !negb_true_iff in Rt. destruct Rt as (_ & X). now apply (is_zero_false K Kok). }
  apply (chal_ok_facts K Kok) in Rt. destruct Rt as [Hy Hes].
  apply d1_degree_len in Rd. apply d1_degree_len in Rd'.
  change (mb_promises K mb') with (mb_promises K mb) in S1. change (mb_bits K mb') with (mb_bits K mb) in S1.
  change (mb_Venc K mb') with (mb_Venc K mb) in S1. change (mb_ch K mb') with (mb_ch K mb) in S1.
  cbn [mb' with_responses mb_proof p_a p_a1 p_b p_li p_ri p_r1 p_s1 p_d1] in S1, Rd'.
  assert (ENn : (length (mb_promises K mb) * mb_bits K mb)%nat = Nn) by (unfold Nn, mb_N, mb_m; now rewrite Lpv).
  rewrite ENn in S0, S1.
  assert (EN2 : Nn = 2 ^ length (c_es (mb_ch K mb))) by (unfold Nn; rewrite HN, Les; reflexivity).
  refine (responses_unique H Gb (firstn Nn G) (firstn Nn Hv) Hind (mb_bits K mb) (map dec (mb_Venc K mb)) (mb_promises K mb)
            _ _ _ _ _ _ _ _ _ _ _ Hes Hce _ _ _ _ _ _ _ _ S0 S1).
  - rewrite firstn_length. lia.
  - rewrite firstn_length. lia.
  - rewrite combine_length, !map_length. lia.
  - rewrite map_length, Rd. exact HT.
  - rewrite map_length, Rd'. exact HT.
Qed.
End Top.
End Uniq.
