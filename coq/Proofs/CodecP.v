(** Proofs about the byte codec model (C15). *)
From Coq Require Import NArith List Bool Arith Lia.
From BP Require Import Model.Codec.
Import ListNotations.
Open Scope N_scope.

Arguments N.add : simpl never. Arguments N.mul : simpl never. Arguments N.pow : simpl never.
Arguments N.div : simpl never. Arguments N.modulo : simpl never. Arguments N.ltb : simpl never.
Arguments N.leb : simpl never.

(** ** little-endian encoding *)
Lemma le_bytes_length n x : length (le_bytes n x) = n.
Proof. revert x; induction n as [|n IH]; intros x; cbn [le_bytes length]; [reflexivity|now rewrite IH]. Qed.

Lemma bytes_ok_le_bytes n x : bytes_ok (le_bytes n x) = true.
Proof.
  revert x; induction n as [|n IH]; intros x; cbn [le_bytes bytes_ok forallb]; [reflexivity|].
  fold (bytes_ok (le_bytes n (x / 256))). rewrite IH, andb_true_r. apply N.ltb_lt. apply N.mod_lt. lia.
Qed.

Lemma pow256_S n : 256 ^ N.of_nat (S n) = 256 * 256 ^ N.of_nat n.
Proof. rewrite Nat2N.inj_succ, N.pow_succ_r'. reflexivity. Qed.

Lemma le_value_le_bytes n x : x < 256 ^ N.of_nat n -> le_value (le_bytes n x) = x.
Proof.
  revert x; induction n as [|n IH]; intros x Hx.
  - cbn [le_bytes le_value]. change (256 ^ N.of_nat 0) with 1 in Hx. lia.
  - cbn [le_bytes le_value]. rewrite pow256_S in Hx. rewrite IH.
    + rewrite N.add_comm. symmetry. apply N.div_mod'.
    + apply N.div_lt_upper_bound; lia.
Qed.

Lemma bytes_ok_cons b bs : bytes_ok (b :: bs) = true <-> b < 256 /\ bytes_ok bs = true.
Proof. unfold bytes_ok; cbn [forallb]. rewrite andb_true_iff, N.ltb_lt. reflexivity. Qed.

Lemma bytes_ok_app a b : bytes_ok (a ++ b) = true <-> bytes_ok a = true /\ bytes_ok b = true.
Proof. unfold bytes_ok. rewrite forallb_app, andb_true_iff. reflexivity. Qed.

Lemma le_bytes_le_value bs : bytes_ok bs = true -> le_bytes (length bs) (le_value bs) = bs.
Proof.
  induction bs as [|b bs IH]; intros H; [reflexivity|].
  apply bytes_ok_cons in H. destruct H as [Hb Hbs].
  cbn [length le_bytes le_value].
  assert (E1 : (b + 256 * le_value bs) mod 256 = b).
  { replace (b + 256 * le_value bs) with (b + le_value bs * 256) by lia.
    rewrite N.mod_add by lia. apply N.mod_small; exact Hb. }
  assert (E2 : (b + 256 * le_value bs) / 256 = le_value bs).
  { replace (b + 256 * le_value bs) with (b + le_value bs * 256) by lia.
    rewrite N.div_add by lia. rewrite (N.div_small b) by exact Hb. lia. }
  rewrite E1, E2, IH by exact Hbs. reflexivity.
Qed.

Lemma le_value_bound bs : bytes_ok bs = true -> le_value bs < 256 ^ N.of_nat (length bs).
Proof.
  induction bs as [|b bs IH]; intros H.
  - cbn. lia.
  - apply bytes_ok_cons in H. destruct H as [Hb Hbs]. specialize (IH Hbs).
    cbn [length le_value]. rewrite pow256_S. lia.
Qed.

Lemma pow256_32 : 256 ^ N.of_nat 32 = 2 ^ 256.
Proof. reflexivity. Qed.

Lemma Lorder_lt : Lorder < 2 ^ 256.
Proof. reflexivity. Qed.

Definition chunk_ok (c : list N) : Prop := length c = 32%nat /\ bytes_ok c = true.

Lemma enc32_le_value c : chunk_ok c -> enc32 (le_value c) = c.
Proof. intros [Hl Hb]. unfold enc32. rewrite <- Hl. now apply le_bytes_le_value. Qed.

Lemma le_value_enc32 x : x < 2 ^ 256 -> le_value (enc32 x) = x.
Proof. intros H. apply le_value_le_bytes. now rewrite pow256_32. Qed.

Lemma chunk_ok_enc32 x : chunk_ok (enc32 x).
Proof. split; [apply le_bytes_length|apply bytes_ok_le_bytes]. Qed.

Lemma le_value_chunk_bound c : chunk_ok c -> le_value c < 2 ^ 256.
Proof. intros [Hl Hb]. rewrite <- pow256_32, <- Hl. now apply le_value_bound. Qed.

(** ** chunks_exact *)
Lemma chunks_exact_spec : forall fuel bs cs r, (length bs <= fuel)%nat -> chunks_exact fuel bs = (cs, r) ->
  bs = concat cs ++ r /\ Forall (fun c => length c = 32%nat) cs /\ (length r < 32)%nat.
Proof.
  induction fuel as [|f IH]; intros bs cs r Hf H; cbn [chunks_exact] in H.
  - inversion H; subst. destruct r; cbn [length] in Hf; [|lia]. repeat split; auto. cbn; lia.
  - destruct (Nat.ltb_spec (length bs) 32) as [Hl|Hl].
    + inversion H; subst. repeat split; auto.
    + destruct (chunks_exact f (skipn 32 bs)) as [cs' r'] eqn:E.
      apply IH in E; [|rewrite skipn_length; lia].
      destruct E as (E1 & E2 & E3).
      assert (Hcs : cs = firstn 32 bs :: cs') by congruence.
      assert (Hr : r = r') by congruence. subst cs r. clear H. repeat split; auto.
      * cbn [concat]. rewrite <- app_assoc, <- E1. symmetry. apply firstn_skipn.
      * constructor; auto. rewrite firstn_length. lia.
Qed.

Lemma chunks_exact_concat : forall cs fuel r, Forall (fun c => length c = 32%nat) cs -> (length r < 32)%nat ->
  (length (concat cs ++ r) <= fuel)%nat -> chunks_exact fuel (concat cs ++ r) = (cs, r).
Proof.
  induction cs as [|c cs IH]; intros fuel r Hc Hr Hf.
  - cbn [concat app] in *. destruct fuel; cbn [chunks_exact]; [reflexivity|].
    destruct (Nat.ltb_spec (length r) 32); [reflexivity|lia].
  - inversion Hc as [|? ? Hc1 Hc2]; subst. cbn [concat] in *. rewrite <- app_assoc in *.
    rewrite app_length in Hf. destruct fuel as [|f]; [lia|]. cbn [chunks_exact].
    destruct (Nat.ltb_spec (length (c ++ concat cs ++ r)) 32) as [Hl|Hl]; [rewrite app_length in Hl; lia|].
    assert (Es : skipn 32 (c ++ concat cs ++ r) = concat cs ++ r).
    { rewrite skipn_app, Hc1, Nat.sub_diag, skipn_all2 by lia. reflexivity. }
    assert (Ef : firstn 32 (c ++ concat cs ++ r) = c).
    { rewrite firstn_app, Hc1, Nat.sub_diag, firstn_all2 by lia. cbn. apply app_nil_r. }
    rewrite Es, Ef, IH; auto. lia.
Qed.

Lemma bytes_ok_concat cs : bytes_ok (concat cs) = true -> Forall (fun c => bytes_ok c = true) cs.
Proof.
  induction cs as [|c cs IH]; intros H; [constructor|]. cbn [concat] in H.
  apply bytes_ok_app in H. destruct H as [H1 H2]. constructor; auto.
Qed.

(** ** parse_scalars *)
Lemma parse_scalar_some c v : parse_scalar c = Some v -> v = le_value c /\ v < Lorder.
Proof.
  unfold parse_scalar. destruct (N.ltb_spec (le_value c) Lorder) as [Hlt|Hge]; intros H; inversion H; subst; auto.
Qed.

Lemma parse_scalars_some : forall n cs d1 rest, parse_scalars n cs = Some (d1, rest) ->
  exists pre, cs = pre ++ rest /\ length pre = n /\ d1 = map le_value pre /\ Forall (fun x => x < Lorder) d1.
Proof.
  induction n as [|n IH]; intros cs d1 rest H; cbn [parse_scalars] in H.
  - inversion H; subst. exists []. repeat split; auto.
  - destruct cs as [|c cs]; [discriminate|].
    destruct (parse_scalar c) as [v|] eqn:Ev; [|discriminate].
    destruct (parse_scalars n cs) as [[vs rest']|] eqn:E; [|discriminate].
    inversion H; subst. apply IH in E. destruct E as (pre & -> & Hl & -> & Hf).
    apply parse_scalar_some in Ev. destruct Ev as [-> Hv].
    exists (c :: pre). cbn [app length map]. repeat split; auto.
Qed.

Lemma parse_scalars_enc : forall d1 rest, Forall (fun x => x < Lorder) d1 ->
  parse_scalars (length d1) (map enc32 d1 ++ rest) = Some (d1, rest).
Proof.
  induction d1 as [|x d1 IH]; intros rest H; [reflexivity|].
  inversion H; subst. cbn [length map app parse_scalars]. unfold parse_scalar.
  rewrite le_value_enc32 by (pose proof Lorder_lt; lia).
  destruct (N.ltb_spec x Lorder); [|lia]. rewrite IH by assumption. reflexivity.
Qed.

(** ** tuples *)
Definition pair_bytes (lr : N * N) : list N := enc32 (fst lr) ++ enc32 (snd lr).

Lemma tuples_sound : forall n cs ps, (length cs <= n)%nat -> tuples cs = (ps, false) -> Forall chunk_ok cs ->
  concat cs = concat (map pair_bytes ps) /\ Forall (fun lr => fst lr < 2 ^ 256 /\ snd lr < 2 ^ 256) ps.
Proof.
  induction n as [|n IH]; intros cs ps Hn H Hc.
  - destruct cs; [|cbn in Hn; lia]. cbn in H. inversion H; subst. split; [reflexivity|constructor].
  - destruct cs as [|l [|r rest]]; cbn [tuples] in H.
    + inversion H; subst. split; [reflexivity|constructor].
    + discriminate.
    + destruct (tuples rest) as [ps' lo] eqn:E. inversion H; subst. clear H.
      inversion Hc as [|? ? Hl Hc']; subst. inversion Hc' as [|? ? Hr Hc'']; subst.
      apply IH in E; [|cbn [length] in Hn; lia|assumption]. destruct E as [E1 E2].
      split.
      * cbn [concat map]. unfold pair_bytes at 1. cbn [fst snd].
        rewrite !enc32_le_value by assumption. rewrite <- app_assoc, E1. reflexivity.
      * constructor; [|assumption]. cbn [fst snd]. split; now apply le_value_chunk_bound.
Qed.

Fixpoint pair_chunks (ps : list (N * N)) : list (list N) :=
  match ps with [] => [] | lr :: ps' => enc32 (fst lr) :: enc32 (snd lr) :: pair_chunks ps' end.

Lemma concat_pair_chunks ps : concat (pair_chunks ps) = concat (map pair_bytes ps).
Proof.
  induction ps as [|lr ps IH]; [reflexivity|]. cbn [pair_chunks concat map]. unfold pair_bytes at 1.
  rewrite <- app_assoc, IH. reflexivity.
Qed.

Lemma pair_chunks_ok ps : Forall (fun c => length c = 32%nat) (pair_chunks ps).
Proof. induction ps; cbn [pair_chunks]; repeat constructor; auto; apply le_bytes_length. Qed.

Lemma tuples_pair_chunks ps : Forall (fun lr => fst lr < 2 ^ 256 /\ snd lr < 2 ^ 256) ps ->
  tuples (pair_chunks ps) = (ps, false).
Proof.
  induction ps as [|[l r] ps IH]; intros H; [reflexivity|]. inversion H as [|? ? [H1 H2] H']; subst.
  cbn [pair_chunks tuples fst snd] in *. rewrite IH by assumption.
  rewrite !le_value_enc32 by assumption. reflexivity.
Qed.

Lemma combine_fst_snd {A B} (ps : list (A * B)) : combine (map fst ps) (map snd ps) = ps.
Proof. induction ps as [|[a b] ps IH]; cbn; [reflexivity|now rewrite IH]. Qed.

Lemma map_fst_combine {A B} : forall (a : list A) (b : list B), length a = length b -> map fst (combine a b) = a.
Proof. induction a as [|x a IH]; intros [|y b] H; cbn in *; try discriminate; [reflexivity|]. f_equal. apply IH. lia. Qed.
Lemma map_snd_combine {A B} : forall (a : list A) (b : list B), length a = length b -> map snd (combine a b) = b.
Proof. induction a as [|x a IH]; intros [|y b] H; cbn in *; try discriminate; [reflexivity|]. f_equal. apply IH. lia. Qed.

Lemma Forall_map_lt (ps : list (N * N)) :
  Forall (fun lr => fst lr < 2 ^ 256 /\ snd lr < 2 ^ 256) ps ->
  Forall (fun x => x < 2 ^ 256) (map fst ps) /\ Forall (fun x => x < 2 ^ 256) (map snd ps).
Proof. induction 1 as [|lr ps [H1 H2] _ [IH1 IH2]]; cbn; split; constructor; auto. Qed.

Lemma Forall_combine_lt : forall (a b : list N), Forall (fun x => x < 2 ^ 256) a -> Forall (fun x => x < 2 ^ 256) b ->
  Forall (fun lr => fst lr < 2 ^ 256 /\ snd lr < 2 ^ 256) (combine a b).
Proof.
  induction a as [|x a IH]; intros [|y b] Ha Hb; cbn; try constructor.
  - inversion Ha; inversion Hb; subst; cbn; auto.
  - inversion Ha; inversion Hb; subst. apply IH; auto.
Qed.

Lemma concat_map_enc32_le_value pre : Forall chunk_ok pre -> concat (map enc32 (map le_value pre)) = concat pre.
Proof.
  induction 1 as [|c pre Hc _ IH]; [reflexivity|]. cbn [map concat]. rewrite enc32_le_value, IH by assumption. reflexivity.
Qed.

(** ** decoder soundness: whatever decodes re-encodes to the same bytes, and is well formed *)
Theorem decode_then_encode bs p : bytes_ok bs = true -> from_bytes bs = Some p -> to_bytes p = bs /\ wf_proof p.
Proof.
  intros Hb H. unfold from_bytes in H.
  destruct bs as [|tag body]; [discriminate|].
  apply bytes_ok_cons in Hb. destruct Hb as [Htag Hbody].
  destruct (N.leb_spec 1 tag) as [Ht1|Ht1]; cbn [andb negb] in H; [|discriminate].
  destruct (N.leb_spec tag 6) as [Ht6|Ht6]; cbn [andb negb] in H; [|discriminate].
  destruct (chunks_exact (length body) body) as [cs rem] eqn:Ec.
  apply chunks_exact_spec in Ec; [|lia]. destruct Ec as (Ebody & Hlen & Hrem).
  destruct (parse_scalars (N.to_nat tag) cs) as [[d1 cs1]|] eqn:Ep; [|discriminate].
  apply parse_scalars_some in Ep. destruct Ep as (pre & Ecs & Hpre & Ed1 & Hd1).
  destruct cs1 as [|a [|a1 [|b [|r1 [|s1 cs2]]]]]; try discriminate.
  destruct (parse_scalar r1) as [r1v|] eqn:Er1; [|discriminate].
  destruct (parse_scalar s1) as [s1v|] eqn:Es1; [|discriminate].
  destruct (tuples cs2) as [ps leftover] eqn:Et.
  destruct ps as [|p0 ps]; [discriminate|].
  destruct leftover; cbn [orb] in H; [discriminate|].
  destruct rem as [|x rem]; cbn [negb] in H; [|discriminate].
  inversion H; subst p; clear H.
  rewrite app_nil_r in Ebody.
  assert (Hok : Forall chunk_ok cs).
  { subst body. apply bytes_ok_concat in Hbody. rewrite Forall_forall in *. intros c Hc. split; auto. }
  subst cs. apply Forall_app in Hok. destruct Hok as [Hokpre Hok1].
  inversion Hok1 as [|? ? Ha Hok2]; subst. inversion Hok2 as [|? ? Ha1 Hok3]; subst.
  inversion Hok3 as [|? ? Hbb Hok4]; subst. inversion Hok4 as [|? ? Hr1 Hok5]; subst.
  inversion Hok5 as [|? ? Hs1 Hok6]; subst.
  apply parse_scalar_some in Er1. destruct Er1 as [-> Hr1L].
  apply parse_scalar_some in Es1. destruct Es1 as [-> Hs1L].
  apply (tuples_sound (length cs2)) in Et; [|lia|assumption]. destruct Et as [Econc Hps].
  split.
  - unfold to_bytes. cbn [p_tag p_d1 p_a p_a1 p_b p_r1 p_s1 p_li p_ri]. f_equal.
    change (fst p0 :: map fst ps) with (map fst (p0 :: ps)).
    change (snd p0 :: map snd ps) with (map snd (p0 :: ps)).
    rewrite combine_fst_snd. rewrite concat_map_enc32_le_value by assumption.
    rewrite !enc32_le_value by assumption. fold pair_bytes.
    change (fun lr : N * N => enc32 (fst lr) ++ enc32 (snd lr)) with pair_bytes.
    rewrite <- Econc. rewrite concat_app. cbn [concat]. rewrite <- ?app_assoc. reflexivity.
  - apply Forall_map_lt in Hps. destruct Hps as [Hl Hr].
    unfold wf_proof. cbn [p_tag p_d1 p_a p_a1 p_b p_r1 p_s1 p_li p_ri].
    repeat split; auto; try (now apply le_value_chunk_bound).
    + now rewrite map_length.
    + cbn [length]. now rewrite !map_length.
    + cbn [length]. lia.
Qed.

(** ** encoder/decoder round trip on well-formed proofs *)
Definition blocks_of (p : proof) : list (list N) :=
  map enc32 (p_d1 p) ++ [enc32 (p_a p); enc32 (p_a1 p); enc32 (p_b p); enc32 (p_r1 p); enc32 (p_s1 p)]
  ++ pair_chunks (combine (p_li p) (p_ri p)).

Lemma to_bytes_blocks p : to_bytes p = p_tag p :: concat (blocks_of p) ++ [].
Proof.
  unfold to_bytes, blocks_of. rewrite app_nil_r. f_equal. rewrite !concat_app. cbn [concat].
  rewrite concat_pair_chunks, app_nil_r. rewrite <- !app_assoc. reflexivity.
Qed.

Lemma blocks_of_len32 p : Forall (fun c => length c = 32%nat) (blocks_of p).
Proof.
  unfold blocks_of. apply Forall_app. split.
  - apply Forall_forall. intros c Hc. apply in_map_iff in Hc. destruct Hc as (x & <- & _). apply le_bytes_length.
  - apply Forall_app. split; [repeat constructor; apply le_bytes_length|apply pair_chunks_ok].
Qed.

Theorem encode_then_decode p : wf_proof p -> from_bytes (to_bytes p) = Some p.
Proof.
  intros (Ht & Hd1len & Hd1 & Hr1 & Hs1 & Ha & Ha1 & Hb & Hli & Hri & Hlr & Hk).
  rewrite to_bytes_blocks. unfold from_bytes.
  destruct Ht as [Ht1 Ht6].
  destruct (N.leb_spec 1 (p_tag p)); [|lia]. destruct (N.leb_spec (p_tag p) 6); [|lia]. cbn [andb negb].
  rewrite chunks_exact_concat; [|apply blocks_of_len32|cbn; lia|lia].
  unfold blocks_of. rewrite <- Hd1len. rewrite parse_scalars_enc by assumption.
  cbn [app]. unfold parse_scalar. rewrite !le_value_enc32 by (pose proof Lorder_lt; lia).
  destruct (N.ltb_spec (p_r1 p) Lorder); [|lia]. destruct (N.ltb_spec (p_s1 p) Lorder); [|lia].
  rewrite tuples_pair_chunks by (now apply Forall_combine_lt).
  destruct (combine (p_li p) (p_ri p)) as [|q qs] eqn:Ec.
  { destruct (p_li p), (p_ri p); cbn in *; try discriminate; lia. }
  cbn [orb negb]. rewrite <- Ec. rewrite map_fst_combine, map_snd_combine by assumption.
  rewrite ?le_value_enc32 by assumption. destruct p; reflexivity.
Qed.

Theorem encoded_length p : wf_proof p ->
  length (to_bytes p) = (1 + 32 * (5 + N.to_nat (p_tag p) + 2 * length (p_li p)))%nat.
Proof.
  intros (Ht & Hd1len & _ & _ & _ & _ & _ & _ & _ & _ & Hlr & _).
  unfold to_bytes. cbn [length]. rewrite !app_length. unfold enc32. rewrite !le_bytes_length.
  assert (E1 : forall l, length (concat (map (le_bytes 32) l)) = (32 * length l)%nat).
  { induction l as [|x l IH]; cbn [map concat length]; [lia|]. rewrite app_length, le_bytes_length, IH. lia. }
  assert (E2 : forall l : list (N * N), length (concat (map (fun lr => le_bytes 32 (fst lr) ++ le_bytes 32 (snd lr)) l)) = (64 * length l)%nat).
  { induction l as [|x l IH]; cbn [map concat length]; [lia|]. rewrite !app_length, !le_bytes_length, IH. lia. }
  rewrite E1, E2, combine_length, Hd1len, <- Hlr, Nat.min_id. lia.
Qed.

(** ** the acceptance set *)
Theorem from_bytes_accepts_iff bs : bytes_ok bs = true ->
  ((exists p, from_bytes bs = Some p) <-> (exists p, wf_proof p /\ bs = to_bytes p)).
Proof.
  intros Hb. split.
  - intros [p Hp]. destruct (decode_then_encode bs p Hb Hp) as [E W]. eauto.
  - intros (p & W & ->). exists p. now apply encode_then_decode.
Qed.

(** injectivity: two proofs with the same encoding are equal; two byte strings decoding to the same
    proof are equal. *)
Theorem to_bytes_injective p q : wf_proof p -> wf_proof q -> to_bytes p = to_bytes q -> p = q.
Proof.
  intros Hp Hq E. apply encode_then_decode in Hp. apply encode_then_decode in Hq.
  rewrite E in Hp. congruence.
Qed.

Theorem from_bytes_injective bs bs' p : bytes_ok bs = true -> bytes_ok bs' = true ->
  from_bytes bs = Some p -> from_bytes bs' = Some p -> bs = bs'.
Proof.
  intros H1 H2 E1 E2. apply decode_then_encode in E1; auto. apply decode_then_encode in E2; auto.
  destruct E1 as [<- _], E2 as [<- _]. reflexivity.
Qed.

(** The decoder refuses a proof without folding rounds (the prover's output for bits*aggregation = 1). *)
Theorem zero_rounds_refused p : p_li p = [] -> from_bytes (to_bytes p) <> Some p.
Proof.
  intros Hli E. destruct (from_bytes (to_bytes p)) as [q|] eqn:Eq; [|discriminate].
  inversion E; subst q. clear E.
  unfold from_bytes, to_bytes in Eq. rewrite Hli in Eq. cbn [combine map concat] in Eq. rewrite app_nil_r in Eq.
  destruct (negb _); [discriminate|].
  destruct (chunks_exact _ _) as [cs rem].
  destruct (parse_scalars _ _) as [[d1 cs1]|]; [|discriminate].
  destruct cs1 as [|a [|a1 [|b [|r1 [|s1 cs2]]]]]; try discriminate.
  destruct (parse_scalar r1); [|discriminate]. destruct (parse_scalar s1); [|discriminate].
  destruct (tuples cs2) as [ps lo]. destruct ps as [|p0 ps]; [discriminate|].
  destruct (lo || _)%bool; [discriminate|]. inversion Eq as [E]. rewrite <- E in Hli. cbn in Hli. discriminate.
Qed.
