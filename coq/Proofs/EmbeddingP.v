(** Why the CONTEXT EMBEDDING of the checks (tools/lib/sessions.py) is a sound oracle, on the model: put an arbitrary member [mb] — any proof,
    any statement over the same generators, as long as it gets through its own per-member guards — anywhere among members made by the
    code-shaped prover for valid witnesses.  The product the model hands to the back end for that chunk is exactly
    [w *v residual(mb)], w the weight drawn for [mb]: the honest companions contribute nothing.  Hence, for non-zero weights, the chunk's
    product is the identity iff the product of [mb] verified ALONE is: a triple's verdict inside a batch of honest proofs is its verdict alone. *)
From Coq Require Import List Arith NArith Lia Field Ring PeanoNat Bool.
From BP Require Import Base.Field Model.Ctor Model.Codec Model.Transcript Model.Verifier Model.VerifyTop Model.Prover Model.Spec Model.RangeSpec
     Proofs.FieldP Proofs.ModuleP Proofs.VerifierEquivP Proofs.GuardsP Proofs.BatchP Proofs.BatchEquivP Proofs.BatchOnlyIfP Proofs.VerifyTopP
     Proofs.TopP Proofs.HonestTopP Proofs.HonestBatchTopP Proofs.OneUnknownP.
Import ListNotations.
Local Close Scope N_scope.

Section Emb.
Variable K : Fld.
Hypothesis Kok : FldOk K.
Add Field Kf : (Fth K Kok).
Variable M : Mod K.
Hypothesis Mok : ModOk K M.
Local Open Scope F_scope.
Notation "0" := (f0 K). Notation "1" := (f1 K).
Infix "+v" := (vadd M) (at level 50, left associativity).
Infix "*v" := (smul M) (at level 40).

Variable ofN : N -> K.
Variable toN : K -> N.
Hypothesis ofN_toN : forall x, ofN (toN x) = x.
Variable enc : M -> N.
Variable dec : N -> M.
Hypothesis dec_enc : forall p, dec (enc p) = p.
Variable g : gens K M.
Variables (bits cap : nat).
Hypothesis Hb : 1 <= bits.
Hypothesis LG : length (g_G g) = (bits * cap)%nat.
Hypothesis LH : length (g_Hv g) = (bits * cap)%nat.
Hypothesis HT : 1 <= length (g_Gb g) <= 6.
Hypothesis Hpad : (2 * N.of_nat bits * N.of_nat cap < 2 ^ 64)%N.
Hypothesis EH : enc (g_H g) <> 0%N.
Hypothesis EGb : Forall (fun q => enc q <> 0%N) (g_Gb g).

Notation hm := (hmember K M toN enc g bits cap).
Notation res := (b_residual K M (g_H g) (g_Gb g) (g_G g) (g_Hv g)).

(** what [mb] must get through on its own (the per-member guards of verify; nothing about its validity) *)
Definition passes_guards (mb : member K) : Prop :=
  member_wf K M (g_Gb g) mb /\ mb_undecodable K mb = false /\ rounds_ok K mb = true /\ transcript_phase_ok K mb = true /\
  d1_degree_ok K mb (length (g_Gb g)) = true /\ mb_T K mb = length (g_Gb g).

Lemma honest_b_ok mx (h : hparams K) w : hp_ok K M enc g bits cap h -> (bits * cap)%nat <= mx ->
  b_ok K M (g_Gb g) mx (to_b K M ofN dec (hm h) w).
Proof.
  intros Hh Hmx.
  destruct (hmember_facts K Kok M Mok ofN toN ofN_toN enc dec dec_enc g bits cap Hb LG LH HT Hpad EH EGb h Hh) as (F1 & F2 & F3 & F4 & _ & F6 & F7 & _).
  apply (member_b_ok K Kok M ofN dec (g_Gb g) mx (hm h)); auto. lia.
Qed.

Theorem embedding_product (pre post : list (hparams K)) (mb : member K) ws pad :
  let ms := map hm pre ++ mb :: map hm post in
  let w := nth (length pre) ws 0 in
  let mx := (bits * cap)%nat in
  Forall (hp_ok K M enc g bits cap) pre -> Forall (hp_ok K M enc g bits cap) post ->
  passes_guards mb -> mb_N K mb <= mx ->
  let sc := final_msm K (acc_all K (acc_init K mx (length (g_Gb g))) (terms_list K ofN ms ws)) pad in
  msm (fst sc) (interleaveM K M (g_G g) (g_Hv g)) +v msm (snd sc) (flat_map (dyn_of K M) (map (pts_of K M dec) ms) ++ g_Gb g ++ [g_H g])
  = w *v res (to_b K M ofN dec mb w).
Proof.
  intros ms w mx Hpre Hpost (Hwf & U & R & Tp & D & ET) HN sc. subst sc.
  assert (Hok : Forall (b_ok K M (g_Gb g) mx) (to_bs K M ofN dec ms ws)).
  { unfold ms. rewrite (to_bs_app K M ofN dec). apply Forall_app. split; [|constructor].
    - clear - Kok Mok ofN_toN dec_enc Hb LG LH HT Hpad EH EGb Hpre. revert ws. induction pre as [|h pre' IH]; intros ws0; cbn [map to_bs]; constructor.
      + inversion Hpre; subst. apply honest_b_ok; [assumption|unfold mx; lia].
      + inversion Hpre; subst. apply IH. assumption.
    - rewrite map_length. apply (member_b_ok K Kok M ofN dec (g_Gb g) mx mb mb); auto. now rewrite ET.
    - clear - Kok Mok ofN_toN dec_enc Hb LG LH HT Hpad EH EGb Hpost. generalize (skipn (S (length (map hm pre))) ws). induction post as [|h post' IH]; intros ws0; cbn [map to_bs]; constructor.
      + inversion Hpost; subst. apply honest_b_ok; [assumption|unfold mx; lia].
      + inversion Hpost; subst. apply IH. assumption. }
  rewrite (terms_list_to_bs K M ofN dec), <- (pts_to_bs K M ofN dec ms ws).
  rewrite (batch_is_weighted_residuals K Kok M Mok (g_H g) (g_Gb g) (g_G g) (g_Hv g) mx pad _ Hok ltac:(rewrite LG; unfold mx; lia) ltac:(rewrite LH; unfold mx; lia)).
  unfold ms. rewrite (to_bs_app K M ofN dec), map_length. rewrite (WR_app K Kok M Mok). cbn [weighted_residuals].
  rewrite (honest_bs_zero K Kok M Mok ofN toN ofN_toN enc dec dec_enc g bits cap Hb LG LH HT Hpad EH EGb pre ws Hpre).
  rewrite (honest_bs_zero K Kok M Mok ofN toN ofN_toN enc dec dec_enc g bits cap Hb LG LH HT Hpad EH EGb post _ Hpost).
  cbn [b_w to_b]. fold w.
  change (mkB K M (mb_bits K mb) (mb_promises K mb) (vproof_of K ofN (mb_proof K mb)) (mb_ch K mb) w (pts_of K M dec mb)) with (to_b K M ofN dec mb w).
  module_eq.
Qed.

(** the verdict alone and the verdict among honest companions coincide (non-zero weights) *)
Corollary embedding_sound (pre post : list (hparams K)) (mb : member K) ws w1 pad pad1 :
  let ms := map hm pre ++ mb :: map hm post in
  let w := nth (length pre) ws 0 in
  let mx := (bits * cap)%nat in
  w <> 0 -> w1 <> 0 ->
  Forall (hp_ok K M enc g bits cap) pre -> Forall (hp_ok K M enc g bits cap) post ->
  passes_guards mb -> mb_N K mb <= mx ->
  let sc := final_msm K (acc_all K (acc_init K mx (length (g_Gb g))) (terms_list K ofN ms ws)) pad in
  let sc1 := final_msm K (acc_all K (acc_init K mx (length (g_Gb g))) (terms_list K ofN [mb] [w1])) pad1 in
  (msm (fst sc) (interleaveM K M (g_G g) (g_Hv g)) +v msm (snd sc) (flat_map (dyn_of K M) (map (pts_of K M dec) ms) ++ g_Gb g ++ [g_H g]) = v0 M
   <->
   msm (fst sc1) (interleaveM K M (g_G g) (g_Hv g)) +v msm (snd sc1) (flat_map (dyn_of K M) (map (pts_of K M dec) [mb]) ++ g_Gb g ++ [g_H g]) = v0 M).
Proof.
  intros ms w mx Hw Hw1 Hpre Hpost Hg HN sc sc1.
  pose proof (embedding_product pre post mb ws pad Hpre Hpost Hg HN) as E.
  pose proof (embedding_product [] [] mb [w1] pad1 (Forall_nil _) (Forall_nil _) Hg HN) as E1.
  cbn [map app length nth] in E1.
  subst sc sc1 mx. cbv zeta in E, E1. fold ms in E. fold w in E. rewrite E.
  change (map (pts_of K M dec) [mb]) with [pts_of K M dec mb]. rewrite E1.
  change (res (to_b K M ofN dec mb w1)) with (res (to_b K M ofN dec mb w)).
  set (r := res (to_b K M ofN dec mb w)).
  split; intros Z.
  - assert (R0 : r = v0 M). { transitivity ((/ w) *v (w *v r)); [module_eq|]. rewrite Z. apply (smul_v0 K Kok M Mok). }
    rewrite R0. apply (smul_v0 K Kok M Mok).
  - assert (R0 : r = v0 M). { transitivity ((/ w1) *v (w1 *v r)); [module_eq|]. rewrite Z. apply (smul_v0 K Kok M Mok). }
    rewrite R0. apply (smul_v0 K Kok M Mok).
Qed.
End Emb.
