(** C01 / C03 ("if") at the top of the executed model, WHOLE CHUNKS: any chunk of statement / proof pairs made by
    the code-shaped prover for valid witnesses over one parameter set — mixed aggregation factors, promises, seeded
    or not, any order, ANY weights — passes every guard of [verify_chunk] and the final multiscalar product is the
    identity: the verdict is Ok with [map mask_of] as results.  Built from the one-member theorem
    (HonestTopP.honest_chunk_accepted), the guard-extraction lemmas, [uniform_chunk_runs] and the batch equation. *)
From Coq Require Import List Arith NArith Lia Field Ring PeanoNat Bool.
From BP Require Import Base.Field Model.Ctor Model.Codec Model.Transcript Model.Verifier Model.VerifyTop Model.Prover Model.Spec Model.RangeSpec
     Proofs.FieldP Proofs.ModuleP Proofs.VerifierEquivP Proofs.GuardsP Proofs.CompleteP Proofs.CompleteBatchP
     Proofs.BatchP Proofs.BatchEquivP Proofs.VerifyTopP Proofs.TopP Proofs.HonestTopP Proofs.SoundTopP Proofs.UniqueP Proofs.CheckedTopP Proofs.RunP.
Import ListNotations.
Local Close Scope N_scope.

Section HB.
Variable K : Fld.
Hypothesis Kok : FldOk K.
Add Field Kf : (Fth K Kok).
Variable M : Mod K.
Hypothesis Mok : ModOk K M.
Local Open Scope F_scope.
Notation "0" := (f0 K). Notation "1" := (f1 K).
Infix "+v" := (vadd M) (at level 50, left associativity).
Infix "*v" := (smul M) (at level 40).

Variable ofN : N -> K.
Variable toN : K -> N.
Hypothesis ofN_toN : forall x, ofN (toN x) = x.
Variable enc : M -> N.
Variable dec : N -> M.
Hypothesis dec_enc : forall p, dec (enc p) = p.
Variable g : gens K M.
Variables (bits cap : nat).

(** one honest member: the prover's inputs and the oracles *)
Record hparams := mkHp {
  hp_values : list N; hp_promises : list (option N); hp_blindings : list (list K);
  hp_nn : nonces K; hp_ch : pchals K; hp_seeded : bool; hp_nonce : nlabel -> option nat -> nat -> K; hp_a : nat }.

Definition hmember (h : hparams) : member K :=
  honest_member K M toN enc g bits cap (hp_values h) (hp_promises h) (hp_blindings h) (hp_nn h) (hp_ch h) (hp_seeded h) (hp_nonce h).

(** the premises of the one-member theorem that depend on the member *)
Definition hp_ok (h : hparams) : Prop :=
  let m := length (hp_values h) in
  let T := length (g_Gb g) in
  let ch := hp_ch h in
  let p := prove_core K M bits cap g (hp_values h) (hp_promises h) (hp_blindings h) (hp_nn h) ch in
  m = 2 ^ hp_a h /\ m <= cap /\ (m * bits)%nat = 2 ^ length (pc_es ch) /\
  pc_y ch <> 0 /\ pc_y ch - 1 <> 0 /\ pc_z ch <> 0 /\ pc_e ch <> 0 /\ Forall (fun e => e <> 0) (pc_es ch) /\
  length (hp_promises h) = m /\ length (hp_blindings h) = m /\ Forall (fun r => length r = T) (hp_blindings h) /\
  wf_nonces K T (length (pc_es ch)) (hp_nn h) /\
  Forall (fun vp => match snd vp with Some mv => (mv <= fst vp)%N | None => True end) (combine (hp_values h) (hp_promises h)) /\
  Forall (fun vp => (offset_value (fst vp) (snd vp) < 2 ^ N.of_nat bits)%N) (combine (hp_values h) (hp_promises h)) /\
  length (pc_es ch) < 64 /\ forallb (promise_fits bits) (hp_promises h) = true /\
  enc (pp_A p) <> 0%N /\ enc (pp_A1 p) <> 0%N /\ enc (pp_B p) <> 0%N /\
  Forall (fun q => enc q <> 0%N) (pp_L p) /\ Forall (fun q => enc q <> 0%N) (pp_R p).

Hypothesis Hb : 1 <= bits.
Hypothesis LG : length (g_G g) = (bits * cap)%nat.
Hypothesis LH : length (g_Hv g) = (bits * cap)%nat.
Hypothesis HT : 1 <= length (g_Gb g) <= 6.
Hypothesis Hpad : (2 * N.of_nat bits * N.of_nat cap < 2 ^ 64)%N.
Hypothesis EH : enc (g_H g) <> 0%N.
Hypothesis EGb : Forall (fun q => enc q <> 0%N) (g_Gb g).

(** everything the chunk-level argument needs about one honest member, from the one-member theorem *)
Lemma hmember_facts h : hp_ok h ->
  let mb := hmember h in
  transcript_phase_ok K mb = true /\ mb_undecodable K mb = false /\ rounds_ok K mb = true /\
  d1_degree_ok K mb (length (g_Gb g)) = true /\
  (exists pad, generator_padding (N.of_nat (mb_bits K mb)) (N.of_nat (mb_m K mb)) (N.of_nat (mb_cap K mb)) = Some pad) /\
  member_wf K M (g_Gb g) mb /\ mb_N K mb <= (bits * cap)%nat /\
  forall w, b_residual K M (g_H g) (g_Gb g) (g_G g) (g_Hv g) (to_b K M ofN dec mb w) = v0 M.
Proof.
  intros (Hm & Hcap & HN & Hy & Hy1 & Hz & He & Hes & Lp & Lb & Fb & Wn & Hle & Hlt & Hr64 & Hfit & EA & EA1 & EB & EL & ER) mb.
  destruct (honest_chunk_accepted K Kok M Mok ofN toN ofN_toN enc dec dec_enc g bits cap (hp_values h) (hp_promises h) (hp_blindings h)
              (hp_nn h) (hp_ch h) (hp_seeded h) (hp_nonce h) VerifyOnly (f1 K) (hp_a h)
              Hb Hm Hcap LG LH HN Hy Hy1 Hz He Hes Lp Lb Fb Wn Hle Hlt HT Hr64 Hpad Hfit EH EGb EA EA1 EB EL ER ltac:(discriminate)) as (sc & E & Z).
  fold (hmember h) in E, Z. fold mb in E, Z.
  destruct (single_accept_guards K ofN VerifyOnly mb 1 true _ _ E) as (Rr & Rt & Rd).
  destruct (prove_core_rounds K Kok M Mok g bits cap (hp_values h) (hp_promises h) (hp_blindings h) (hp_nn h) (hp_ch h) (hp_a h)
              Hb Hm Hcap LG LH HN Hy Hes Lp Lb Fb Wn) as [LL LR].
  assert (Lcm : length (map (fun vr => commit K M g (fofN K (fst vr)) (snd vr)) (combine (hp_values h) (hp_blindings h))) = length (hp_values h))
    by (rewrite map_length, combine_length; lia).
  assert (Hwf : member_wf K M (g_Gb g) mb).
  { unfold member_wf, mb, hmember, honest_member. cbn [mb_bits mb_promises mb_T mb_ch c_es c_y mb_proof p_li mb_Venc].
    rewrite (map_length enc), Lcm, (map_length enc), LL. repeat split; try assumption; try reflexivity; try lia. exists (hp_a h). congruence. }
  assert (EN : mb_N K mb = (length (hp_values h) * bits)%nat).
  { unfold mb_N, mb_m, mb, hmember, honest_member. cbn [mb_Venc mb_bits]. now rewrite map_length, Lcm. }
  assert (HNcap : mb_N K mb <= (bits * cap)%nat) by (rewrite EN, (Nat.mul_comm _ bits); apply Nat.mul_le_mono_l; exact Hcap).
  split; [exact Rt|]. split; [reflexivity|]. split; [exact Rr|]. split; [exact Rd|]. split; [|split; [exact Hwf|split; [exact HNcap|]]].
  - (* padding *)
    unfold verify_chunk in E. destruct (consistency K [mb]) as [[mx mi]|]; [|discriminate].
    destruct (negb (forallb (transcript_phase_ok K) [mb])); [discriminate|].
    destruct (proof_loop K ofN VerifyOnly [mb] [1] _ []) as [[acc mk]|]; [|discriminate].
    cbn [hd] in E. replace (nth mi [mb] mb) with mb in E by (destruct mi as [|[|?]]; reflexivity).
    destruct (generator_padding (N.of_nat (mb_bits K mb)) (N.of_nat (mb_m K mb)) (N.of_nat (mb_cap K mb))) as [pad|] eqn:Ep; [eauto|discriminate].
  - (* residual *)
    intros w.
    pose proof (accepted_chunk_means_zero_weighted_residuals K Kok M Mok ofN dec (g_H g) (g_Gb g) (g_G g) (g_Hv g) VerifyOnly [mb] [1] _ sc
                  ltac:(discriminate) (Forall_cons _ Hwf (Forall_nil _)) E (mb_N K mb)) as WR.
    assert (Ec : exists mi, consistency K [mb] = Some (mb_N K mb, mi)).
    { unfold verify_chunk in E. destruct (consistency K [mb]) as [[mx mi]|] eqn:Ec; [|discriminate].
      exists mi. f_equal. f_equal. unfold consistency in Ec. destruct (negb (d1_degree_ok K mb (mb_T K mb))); [discriminate|].
      cbn [consistency_rest] in Ec. destruct (_ && _) in Ec; [|discriminate]. now inversion Ec. }
    specialize (WR Ec ltac:(rewrite LG; exact HNcap) ltac:(rewrite LH; exact HNcap)).
    cbn [map flat_map] in WR. rewrite app_nil_r in WR. specialize (WR Z).
    cbn [to_bs hd weighted_residuals b_w to_b] in WR.
    change (b_residual K M (g_H g) (g_Gb g) (g_G g) (g_Hv g) (to_b K M ofN dec mb w))
      with (b_residual K M (g_H g) (g_Gb g) (g_G g) (g_Hv g) (to_b K M ofN dec mb 1)).
    transitivity (1 *v b_residual K M (g_H g) (g_Gb g) (g_G g) (g_Hv g) (to_b K M ofN dec mb 1) +v v0 M); [module_eq|exact WR].
Qed.

Lemma weighted_zero : forall bs, Forall (fun b => b_residual K M (g_H g) (g_Gb g) (g_G g) (g_Hv g) b = v0 M) bs ->
  weighted_residuals K M (g_H g) (g_Gb g) (g_G g) (g_Hv g) bs = v0 M.
Proof.
  induction bs as [|b bs IH]; intros F; cbn [weighted_residuals]; [reflexivity|].
  inversion F as [|? ? Hb0 F']; subst. rewrite Hb0, (IH F'). rewrite (smul_v0 K Kok M Mok). apply (vadd0 K M Mok).
Qed.

Theorem honest_chunk_accepted_multi (h0 : hparams) (hs : list hparams) mode (ws : list K) :
  Forall hp_ok (h0 :: hs) -> mode <> RecoverOnly ->
  let ms := map hmember (h0 :: hs) in
  exists sc,
    verify_chunk K ofN mode ms ws true = (Ok (map (mask_of K ofN mode) ms), Some sc) /\
    msm (fst sc) (interleaveM K M (g_G g) (g_Hv g)) +v msm (snd sc) (flat_map (dyn_of K M) (map (pts_of K M dec) ms) ++ g_Gb g ++ [g_H g]) = v0 M.
Proof.
  intros Hok Hmode ms.
  assert (V : verifying mode = true) by (destruct mode; try reflexivity; contradiction).
  assert (Facts : Forall (fun mb => transcript_phase_ok K mb = true /\ mb_undecodable K mb = false /\ rounds_ok K mb = true /\
                     d1_degree_ok K mb (length (g_Gb g)) = true /\
                     (exists pad, generator_padding (N.of_nat (mb_bits K mb)) (N.of_nat (mb_m K mb)) (N.of_nat (mb_cap K mb)) = Some pad) /\
                     member_wf K M (g_Gb g) mb /\ mb_N K mb <= (bits * cap)%nat /\
                     (forall w, b_residual K M (g_H g) (g_Gb g) (g_G g) (g_Hv g) (to_b K M ofN dec mb w) = v0 M) /\
                     forallb (promise_fits bits) (mb_promises K mb) = true) ms).
  { unfold ms. apply Forall_forall. intros mb Hin. apply in_map_iff in Hin. destruct Hin as (h & <- & Hh).
    rewrite Forall_forall in Hok. pose proof (Hok h Hh) as Hh'. destruct (hmember_facts h Hh') as (F1 & F2 & F3 & F4 & F5 & F6 & F7 & F8).
    refine (conj F1 (conj F2 (conj F3 (conj F4 (conj F5 (conj F6 (conj F7 (conj F8 _)))))))). now destruct Hh' as (_ & _ & _ & _ & _ & _ & _ & _ & _ & _ & _ & _ & _ & _ & _ & X & _). }
  change ms with (hmember h0 :: map hmember hs) in *.
  set (first := hmember h0) in *. set (rest := map hmember hs) in *.
  destruct (uniform_chunk_runs K ofN mode first rest ws true V) as (mx & mi & pad & Ec & Emx & Ev).
  - apply Forall_forall. intros mb Hin. rewrite Forall_forall in Facts. destruct (Facts mb Hin) as (_ & _ & _ & Fd & _ & _ & _ & _ & Ff).
    assert (Hm : exists h, mb = hmember h).
    { change (In mb (map hmember (h0 :: hs))) in Hin. apply in_map_iff in Hin. destruct Hin as (h & <- & _). eauto. }
    destruct Hm as [h ->]. unfold agrees. repeat split; try reflexivity; assumption.
  - apply Forall_forall. intros mb Hin. rewrite Forall_forall in Facts. destruct (Facts mb Hin) as (F1 & F2 & F3 & _). auto.
  - intros mb Hin. rewrite Forall_forall in Facts. now destruct (Facts mb Hin) as (_ & _ & _ & _ & F5 & _).
  - exists (final_msm K (acc_all K (acc_init K mx (mb_T K first)) (terms_list K ofN (first :: rest) ws)) pad). split; [exact Ev|].
    destruct (consistency_facts K (first :: rest) mx mi Ec) as (f0' & rest' & Ems & Fc).
    inversion Ems; subst f0' rest'.
    assert (Hmx : mx <= (bits * cap)%nat).
    { destruct (consistency_max K first rest mx mi Ec) as [_ Hin]. rewrite Emx. rewrite Forall_forall in Facts. now destruct (Facts _ Hin) as (_ & _ & _ & _ & _ & _ & F7 & _). }
    assert (Hbok : Forall (b_ok K M (g_Gb g) mx) (to_bs K M ofN dec (first :: rest) ws)).
    { clear Ev Ec Emx Ems. revert ws. generalize (first :: rest) as l, Facts, Fc. induction l as [|mb l IH]; intros Fa Fcc ws0; cbn [to_bs]; constructor.
      - inversion Fa as [|? ? (F1 & F2 & F3 & F4 & _ & F6 & _) Fa']; inversion Fcc as [|? ? (A1 & A2 & A3) Fcc']; subst.
        apply (member_b_ok K Kok M ofN dec (g_Gb g) mx first); auto.
      - inversion Fa; inversion Fcc; subst. apply IH; assumption. }
    change (mb_T K first) with (length (g_Gb g)).
    rewrite (terms_list_to_bs K M ofN dec), <- (pts_to_bs K M ofN dec (first :: rest) ws).
    rewrite (batch_is_weighted_residuals K Kok M Mok (g_H g) (g_Gb g) (g_G g) (g_Hv g) mx pad _ Hbok ltac:(rewrite LG; exact Hmx) ltac:(rewrite LH; exact Hmx)).
    apply weighted_zero.
    clear Ev Ec Emx Ems Hbok Fc. revert ws. generalize (first :: rest) as l, Facts. induction l as [|mb l IH]; intros Fa ws0; cbn [to_bs]; constructor.
    + inversion Fa as [|? ? (_ & _ & _ & _ & _ & _ & _ & F8 & _) _]; subst. apply F8.
    + inversion Fa; subst. apply IH; assumption.
Qed.
End HB.
