(** C11: the 4103 generator encodings of the largest parameter set (64 bits, 32 parties, 6 blinding generators) computed by the
    Gallina derivation of Model/Gens.v (SHAKE256 chains + SHA3-512 labels through the Ristretto one-way map, and the base point)
    are PAIRWISE DISTINCT and none is the identity encoding.  Proof by computation on a finite domain: the chains are evaluated
    once (Crypto/GenTab*.v: [chain_points k i 64 = literal], the literals being the implementation's bytes), the quadratic
    comparison runs on the literals. *)
From Coq Require Import NArith List Bool Lia.
From BP Require Import Model.Gens Crypto.GenTabPed Crypto.GenTab0 Crypto.GenTab1 Crypto.GenTab2 Crypto.GenTab3 Crypto.GenTab4 Crypto.GenTab5 Crypto.GenTab6 Crypto.GenTab7.
Import ListNotations.
Open Scope N_scope.

Fixpoint memb (x : N) (l : list N) : bool := match l with [] => false | y :: l' => (x =? y) || memb x l' end.
Fixpoint nodupb (l : list N) : bool := match l with [] => true | x :: l' => negb (memb x l') && nodupb l' end.
Lemma memb_In x l : memb x l = false -> ~ In x l.
Proof.
  induction l as [|y l IH]; cbn [memb In]; [tauto|]. intros H. apply orb_false_iff in H. destruct H as [H1 H2].
  apply N.eqb_neq in H1. intros [E|E]; [congruence|exact (IH H2 E)].
Qed.
Lemma nodupb_NoDup l : nodupb l = true -> NoDup l.
Proof.
  induction l as [|x l IH]; cbn [nodupb]; [constructor|]. intros H. apply andb_true_iff in H. destruct H as [H1 H2].
  constructor; [apply memb_In; now apply negb_true_iff|exact (IH H2)].
Qed.

(** every generator of the (64, 32, 6) parameter set, by the derivation: value generator, blinding generators, G chains, H chains *)
Definition parties : list N := map N.of_nat (seq 0 32).
Definition all_generators : list N :=
  BASEPOINT_ENC :: map blinding_point [1; 2; 3; 4; 5; 6]
  ++ flat_map (fun i => chain_points KG i 64) parties ++ flat_map (fun i => chain_points KH i 64) parties.

Definition all_literals : list N :=
  BASEPOINT_ENC :: tabGb ++ concat [tabKG_0; tabKG_1; tabKG_2; tabKG_3; tabKG_4; tabKG_5; tabKG_6; tabKG_7; tabKG_8; tabKG_9; tabKG_10; tabKG_11; tabKG_12; tabKG_13; tabKG_14; tabKG_15; tabKG_16; tabKG_17; tabKG_18; tabKG_19; tabKG_20; tabKG_21; tabKG_22; tabKG_23; tabKG_24; tabKG_25; tabKG_26; tabKG_27; tabKG_28; tabKG_29; tabKG_30; tabKG_31] ++ concat [tabKH_0; tabKH_1; tabKH_2; tabKH_3; tabKH_4; tabKH_5; tabKH_6; tabKH_7; tabKH_8; tabKH_9; tabKH_10; tabKH_11; tabKH_12; tabKH_13; tabKH_14; tabKH_15; tabKH_16; tabKH_17; tabKH_18; tabKH_19; tabKH_20; tabKH_21; tabKH_22; tabKH_23; tabKH_24; tabKH_25; tabKH_26; tabKH_27; tabKH_28; tabKH_29; tabKH_30; tabKH_31].

Lemma flat_map_cons' {A B} (f : A -> list B) x l : flat_map f (x :: l) = f x ++ flat_map f l. Proof. reflexivity. Qed.
Lemma concat_cons' {A} (x : list A) l : concat (x :: l) = x ++ concat l. Proof. reflexivity. Qed.
Lemma parties_lit : parties = [0;1;2;3;4;5;6;7;8;9;10;11;12;13;14;15;16;17;18;19;20;21;22;23;24;25;26;27;28;29;30;31].
Proof. reflexivity. Qed.

(* all rewriting happens on terms that mention the tables by NAME only; nothing may be closed by conversion here (that would
   evaluate SHAKE256 in the kernel's lazy machine) *)
Lemma chains_G : flat_map (fun i => chain_points KG i 64) parties = concat [tabKG_0; tabKG_1; tabKG_2; tabKG_3; tabKG_4; tabKG_5; tabKG_6; tabKG_7; tabKG_8; tabKG_9; tabKG_10; tabKG_11; tabKG_12; tabKG_13; tabKG_14; tabKG_15; tabKG_16; tabKG_17; tabKG_18; tabKG_19; tabKG_20; tabKG_21; tabKG_22; tabKG_23; tabKG_24; tabKG_25; tabKG_26; tabKG_27; tabKG_28; tabKG_29; tabKG_30; tabKG_31].
Proof.
  rewrite parties_lit. rewrite !flat_map_cons', !concat_cons'.
  rewrite tabKG_0_ok.
  rewrite tabKG_1_ok.
  rewrite tabKG_2_ok.
  rewrite tabKG_3_ok.
  rewrite tabKG_4_ok.
  rewrite tabKG_5_ok.
  rewrite tabKG_6_ok.
  rewrite tabKG_7_ok.
  rewrite tabKG_8_ok.
  rewrite tabKG_9_ok.
  rewrite tabKG_10_ok.
  rewrite tabKG_11_ok.
  rewrite tabKG_12_ok.
  rewrite tabKG_13_ok.
  rewrite tabKG_14_ok.
  rewrite tabKG_15_ok.
  rewrite tabKG_16_ok.
  rewrite tabKG_17_ok.
  rewrite tabKG_18_ok.
  rewrite tabKG_19_ok.
  rewrite tabKG_20_ok.
  rewrite tabKG_21_ok.
  rewrite tabKG_22_ok.
  rewrite tabKG_23_ok.
  rewrite tabKG_24_ok.
  rewrite tabKG_25_ok.
  rewrite tabKG_26_ok.
  rewrite tabKG_27_ok.
  rewrite tabKG_28_ok.
  rewrite tabKG_29_ok.
  rewrite tabKG_30_ok.
  rewrite tabKG_31_ok.
  exact eq_refl.
Qed.
Lemma chains_H : flat_map (fun i => chain_points KH i 64) parties = concat [tabKH_0; tabKH_1; tabKH_2; tabKH_3; tabKH_4; tabKH_5; tabKH_6; tabKH_7; tabKH_8; tabKH_9; tabKH_10; tabKH_11; tabKH_12; tabKH_13; tabKH_14; tabKH_15; tabKH_16; tabKH_17; tabKH_18; tabKH_19; tabKH_20; tabKH_21; tabKH_22; tabKH_23; tabKH_24; tabKH_25; tabKH_26; tabKH_27; tabKH_28; tabKH_29; tabKH_30; tabKH_31].
Proof.
  rewrite parties_lit. rewrite !flat_map_cons', !concat_cons'.
  rewrite tabKH_0_ok.
  rewrite tabKH_1_ok.
  rewrite tabKH_2_ok.
  rewrite tabKH_3_ok.
  rewrite tabKH_4_ok.
  rewrite tabKH_5_ok.
  rewrite tabKH_6_ok.
  rewrite tabKH_7_ok.
  rewrite tabKH_8_ok.
  rewrite tabKH_9_ok.
  rewrite tabKH_10_ok.
  rewrite tabKH_11_ok.
  rewrite tabKH_12_ok.
  rewrite tabKH_13_ok.
  rewrite tabKH_14_ok.
  rewrite tabKH_15_ok.
  rewrite tabKH_16_ok.
  rewrite tabKH_17_ok.
  rewrite tabKH_18_ok.
  rewrite tabKH_19_ok.
  rewrite tabKH_20_ok.
  rewrite tabKH_21_ok.
  rewrite tabKH_22_ok.
  rewrite tabKH_23_ok.
  rewrite tabKH_24_ok.
  rewrite tabKH_25_ok.
  rewrite tabKH_26_ok.
  rewrite tabKH_27_ok.
  rewrite tabKH_28_ok.
  rewrite tabKH_29_ok.
  rewrite tabKH_30_ok.
  rewrite tabKH_31_ok.
  exact eq_refl.
Qed.

Lemma all_generators_literals : all_generators = all_literals.
Proof. unfold all_generators, all_literals. rewrite tabGb_ok, chains_G, chains_H. exact eq_refl. Qed.

Theorem generators_distinct : NoDup all_generators /\ Forall (fun p => p <> 0) all_generators /\ length all_generators = 4103%nat.
Proof.
  rewrite all_generators_literals. split; [|split].
  - apply nodupb_NoDup. vm_compute. reflexivity.
  - apply Forall_forall. intros p Hp E. subst p.
    assert (X : memb 0 all_literals = false) by (vm_compute; reflexivity). exact (memb_In 0 all_literals X Hp).
  - vm_compute. reflexivity.
Qed.
