(** C05: an accepted proof with exactly one response scalar (r1, s1 or one component of d1) changed is
    refused — deterministically, because the responses are not absorbed by the proof transcript (the
    challenges stay the same) and the verification equation moves by a non-zero multiple of points that
    are linearly independent.  Independence of the generators is a hypothesis (it holds by construction
    over the harness's free-module group; on Ristretto it is the discrete-logarithm assumption). *)
From Coq Require Import List Arith NArith Lia Field Ring PeanoNat.
From BP Require Import Base.Field Model.Verifier Model.Spec Model.RangeSpec
     Proofs.FieldP Proofs.ModuleP Proofs.WipP Proofs.SvecP Proofs.ClosedP Proofs.FoldP Proofs.VerifierEquivP.
Import ListNotations.

Section Bind.
Variable K : Fld.
Hypothesis Kok : FldOk K.
Add Field Kf : (Fth K Kok).
Variable M : Mod K.
Hypothesis Mok : ModOk K M.
Local Open Scope F_scope.
Notation "0" := (f0 K). Notation "1" := (f1 K).
Infix "+v" := (vadd M) (at level 50, left associativity).
Infix "*v" := (smul M) (at level 40).

Variables (H : M) (Gb G Hs : list M).
Definition basis : list M := H :: Gb ++ G ++ Hs.
Hypothesis independent : forall cs, length cs = length basis -> msm cs basis = v0 M -> Forall (fun c => c = 0) cs.

Lemma fprod_nz (l : list K) : Forall (fun c => c <> 0) l -> fprod K l <> 0.
Proof.
  unfold Field.fprod. induction l as [|x l IH]; intros Hl; cbn [fold_right]; [exact (f1_neq_0 K Kok)|].
  inversion Hl; subst. apply (fmul_nz K Kok); auto.
Qed.
Lemma gcoef_hd y es : hd 0 (gcoef K y es) = fprod K (map (finv K) es).
Proof.
  induction es as [|e es IH]; cbn [gcoef map Field.fprod fold_right hd]; [reflexivity|].
  destruct (gcoef K y es) as [|c cs] eqn:E; cbn [map app hd] in *; [|rewrite IH; reflexivity].
  pose proof (gcoef_length K y es) as L. rewrite E in L. cbn in L. pose proof (Nat.pow_nonzero 2 (length es)). lia.
Qed.
Lemma hcoef_hd es : hd 0 (hcoef K es) = fprod K es.
Proof.
  induction es as [|e es IH]; cbn [hcoef Field.fprod fold_right hd]; [reflexivity|].
  destruct (hcoef K es) as [|c cs] eqn:E; cbn [map app hd] in *; [|rewrite IH; reflexivity].
  pose proof (hcoef_length K es) as L. rewrite E in L. cbn in L. pose proof (Nat.pow_nonzero 2 (length es)). lia.
Qed.

Lemma msm_repeat0_app n (cs : list K) (P Q : list M) : length P = n -> msm (repeat 0 n ++ cs) (P ++ Q) = msm cs Q.
Proof.
  intros <-. rewrite (msm_app K Kok M Mok) by (now rewrite repeat_length). rewrite (msm_zero K M Mok). apply (vadd0 K M Mok).
Qed.

(** a combination a*H + <b, Gb> + <c, G> + <d, Hs> that vanishes has all coefficients zero *)
Lemma combo_zero (a : K) (b c d : list K) : length b = length Gb -> length c = length G -> length d = length Hs ->
  a *v H +v msm b Gb +v msm c G +v msm d Hs = v0 M -> a = 0 /\ Forall (fun x => x = 0) b /\ Forall (fun x => x = 0) c /\ Forall (fun x => x = 0) d.
Proof.
  intros Lb Lc Ld E.
  assert (E' : msm (a :: b ++ c ++ d) basis = v0 M).
  { unfold basis. cbn [msm]. rewrite (msm_app K Kok M Mok) by exact Lb. rewrite (msm_app K Kok M Mok) by exact Lc. rewrite <- E. module_eq. }
  apply independent in E'; [|unfold basis; cbn [length]; rewrite !app_length; lia].
  inversion E' as [|? ? Ha F]; subst. apply Forall_app in F. destruct F as [Fb F]. apply Forall_app in F. destruct F as [Fc Fd]. auto.
Qed.

Variables (bits : nat) (Vs : list M) (promises : list (option N)) (A A1 B : M) (LR : list (M * M)) (y z e : K) (es : list K).
Hypothesis LG : length G = 2 ^ length es.
Hypothesis LH : length Hs = 2 ^ length es.
Hypothesis LLR : length LR = length es.
Hypothesis Hes : Forall (fun c => c <> 0) es.
Hypothesis He : e <> 0.

Definition accepts (r1 s1 : K) (d1 : list K) : Prop :=
  spec_accepts K M bits H Gb G Hs Vs promises (mkRproof K M A LR A1 B r1 s1 d1) y z es e.

Lemma accepts_unfold r1 s1 d1 :
  accepts r1 s1 d1 <->
  (e * e) *v fold_P K M es LR (P0 K M bits H G Hs Vs promises A y z) +v e *v A1 +v B
  = (r1 * e) *v msm (gcoef K y es) G +v (s1 * e) *v msm (hcoef K es) Hs +v (r1 * y * s1) *v H +v msm d1 Gb.
Proof.
  unfold accepts, spec_accepts, spec_sides. cbn [rp_A rp_LR rp_A1 rp_B rp_r1 rp_s1 rp_d1].
  rewrite (verifier_fold_split K M) by exact LLR.
  rewrite (fold_Gs_msm K Kok M Mok) by exact LG. rewrite (fold_Hs_msm K Kok M Mok) by exact LH. cbn [hd]. reflexivity.
Qed.

Lemma nonzero_head (c : K) (l : list K) (P : list M) : length l = length P -> 0 < length l ->
  Forall (fun x => x = 0) (map (fmul K c) l) -> c * hd 0 l = 0.
Proof. intros _ Hl F. destruct l as [|x l]; [cbn in Hl; lia|]. cbn [map hd] in *. now inversion F. Qed.

(** r1 *)
Theorem r1_binding r1 s1 d1 delta : delta <> 0 -> length d1 = length Gb -> accepts r1 s1 d1 -> ~ accepts (r1 + delta) s1 d1.
Proof.
  intros Hd Ld1 A0 A1'. apply accepts_unfold in A0. apply accepts_unfold in A1'. rewrite A0 in A1'. clear A0.
  assert (E : (delta * y * s1) *v H +v msm (repeat 0 (length Gb)) Gb +v msm (map (fmul K (delta * e)) (gcoef K y es)) G +v msm (repeat 0 (length Hs)) Hs = v0 M).
  { rewrite !(msm_zero K M Mok), (msm_scale_l K Kok M Mok).
    transitivity (((r1 + delta) * e) *v msm (gcoef K y es) G +v (s1 * e) *v msm (hcoef K es) Hs +v ((r1 + delta) * y * s1) *v H +v msm d1 Gb
                  +v (- (1)) *v ((r1 * e) *v msm (gcoef K y es) G +v (s1 * e) *v msm (hcoef K es) Hs +v (r1 * y * s1) *v H +v msm d1 Gb)); [module_eq|].
    rewrite <- A1'. module_eq. }
  apply combo_zero in E; rewrite ?repeat_length, ?map_length, ?gcoef_length; auto.
  destruct E as (_ & _ & Fc & _).
  apply (nonzero_head (delta * e) (gcoef K y es) G) in Fc; rewrite ?gcoef_length; auto; [|apply Nat.neq_0_lt_0, Nat.pow_nonzero; lia].
  rewrite gcoef_hd in Fc.
  assert (Hp : fprod K (map (finv K) es) <> 0).
  { apply fprod_nz. apply Forall_forall. intros x Hx. apply in_map_iff in Hx. destruct Hx as (c & <- & Hc). apply (finv_nz K Kok). rewrite Forall_forall in Hes. now apply Hes. }
  exact (fmul_nz K Kok _ _ (fmul_nz K Kok _ _ Hd He) Hp Fc).
Qed.

(** s1 *)
Theorem s1_binding r1 s1 d1 delta : delta <> 0 -> length d1 = length Gb -> accepts r1 s1 d1 -> ~ accepts r1 (s1 + delta) d1.
Proof.
  intros Hd Ld1 A0 A1'. apply accepts_unfold in A0. apply accepts_unfold in A1'. rewrite A0 in A1'. clear A0.
  assert (E : (r1 * y * delta) *v H +v msm (repeat 0 (length Gb)) Gb +v msm (repeat 0 (length G)) G +v msm (map (fmul K (delta * e)) (hcoef K es)) Hs = v0 M).
  { rewrite !(msm_zero K M Mok), (msm_scale_l K Kok M Mok).
    transitivity ((r1 * e) *v msm (gcoef K y es) G +v ((s1 + delta) * e) *v msm (hcoef K es) Hs +v (r1 * y * (s1 + delta)) *v H +v msm d1 Gb
                  +v (- (1)) *v ((r1 * e) *v msm (gcoef K y es) G +v (s1 * e) *v msm (hcoef K es) Hs +v (r1 * y * s1) *v H +v msm d1 Gb)); [module_eq|].
    rewrite <- A1'. module_eq. }
  apply combo_zero in E; rewrite ?repeat_length, ?map_length, ?hcoef_length; auto.
  destruct E as (_ & _ & _ & Fd).
  apply (nonzero_head (delta * e) (hcoef K es) Hs) in Fd; rewrite ?hcoef_length; auto; [|apply Nat.neq_0_lt_0, Nat.pow_nonzero; lia].
  rewrite hcoef_hd in Fd.
  exact (fmul_nz K Kok _ _ (fmul_nz K Kok _ _ Hd He) (fprod_nz es Hes) Fd).
Qed.

Lemma sub_zero_eq : forall (a b : list K), length a = length b -> Forall (fun x => x = 0) (map2 (fsub K) a b) -> a = b.
Proof.
  induction a as [|x a IH]; intros [|t b] Hl F; cbn [length] in Hl; try discriminate; [reflexivity|].
  cbn [map2] in F. inversion F as [|? ? Hx F']; subst.
  f_equal; [transitivity (x - t + t); [ring|rewrite Hx; ring] | apply IH; [lia|exact F']].
Qed.

(** one component of d1 *)
Theorem d1_binding r1 s1 d1 d1' : length d1 = length Gb -> length d1' = length Gb -> d1 <> d1' ->
  accepts r1 s1 d1 -> ~ accepts r1 s1 d1'.
Proof.
  intros L1 L2 Hne A0 A1'. apply accepts_unfold in A0. apply accepts_unfold in A1'. rewrite A0 in A1'. clear A0.
  assert (E : 0 *v H +v msm (map2 (fsub K) d1' d1) Gb +v msm (repeat 0 (length G)) G +v msm (repeat 0 (length Hs)) Hs = v0 M).
  { rewrite !(msm_zero K M Mok).
    assert (Es : msm (map2 (fsub K) d1' d1) Gb = msm d1' Gb +v (- (1)) *v msm d1 Gb).
    { clear - Kok Mok L1 L2. revert d1 L1 L2. generalize Gb as P. induction d1' as [|x d1' IH]; intros P [|t d1] L1 L2; cbn [length] in *; try lia; cbn [map2 msm].
      - module_eq.
      - destruct P as [|q P]; cbn [length] in *; [lia|]. cbn [msm]. rewrite (IH P d1) by lia. module_eq. }
    rewrite Es.
    transitivity ((r1 * e) *v msm (gcoef K y es) G +v (s1 * e) *v msm (hcoef K es) Hs +v (r1 * y * s1) *v H +v msm d1' Gb
                  +v (- (1)) *v ((r1 * e) *v msm (gcoef K y es) G +v (s1 * e) *v msm (hcoef K es) Hs +v (r1 * y * s1) *v H +v msm d1 Gb)); [module_eq|].
    rewrite <- A1'. module_eq. }
  apply combo_zero in E; rewrite ?repeat_length; auto.
  2:{ apply map2_len; congruence. }
  destruct E as (_ & Fb & _ & _). apply Hne. symmetry. apply sub_zero_eq; [congruence|exact Fb].
Qed.
End Bind.
