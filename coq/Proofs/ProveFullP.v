(** C06 with the prover's own error exits in the model: whenever [prove_full] returns a proof — the witness guard held, the
    transcript met no identity point and drew no zero challenge — the verifier accepts it.  Compared with
    ProveTopP.emitted_proof_verifies the seven "no absorbed point is the identity" premises and the four "challenge is not zero"
    premises are gone: they are what the prover itself checked. *)
From Coq Require Import List Arith NArith Lia Field Ring PeanoNat Bool.
From BP Require Import Base.Field Model.Ctor Model.Codec Model.Transcript Model.Verifier Model.VerifyTop Model.Prover Model.Nonce Model.ProveFull
     Proofs.FieldP Proofs.ModuleP Proofs.GuardsP Proofs.CompleteP Proofs.CompleteBatchP Proofs.BatchP Proofs.TopP Proofs.HonestTopP Proofs.ProveTopP.
Import ListNotations.
Local Close Scope N_scope.

(** ** what a defined transcript run says about the absorbed encodings *)
Lemma app_point_some l e x : app_point l e = Some x -> e <> 0%N.
Proof. unfold app_point, is_identity_enc. destruct (N.eqb_spec e 0); [discriminate|auto]. Qed.
Lemma app_points_some l : forall es x, app_points l es = Some x -> Forall (fun e => e <> 0%N) es.
Proof.
  induction es as [|e es IH]; intros x H; cbn [app_points] in H; constructor.
  - destruct (app_point l e) eqn:E; [|discriminate]. now apply app_point_some in E.
  - destruct (app_point l e); [|discriminate]. destruct (app_points l es) eqn:E; [|discriminate]. eapply IH. reflexivity.
Qed.
Lemma osome_app_some {A} (a b : option (list A)) x : osome_app a b = Some x -> (exists u, a = Some u) /\ (exists v, b = Some v).
Proof. destruct a, b; cbn; intros H; try discriminate; eauto. Qed.
Lemma prover_round_ops_some seeded T w : forall lr x, prover_round_ops seeded T lr w = Some x ->
  Forall (fun q : N * N => fst q <> 0%N /\ snd q <> 0%N) lr.
Proof.
  induction lr as [|[l r] lr IH]; intros x H; cbn [prover_round_ops] in H; constructor.
  - apply osome_app_some in H. destruct H as [_ [v H]]. apply osome_app_some in H. destruct H as [[u H] _].
    unfold ops_round in H. destruct (app_point LL l) eqn:E1; [|discriminate]. destruct (app_point LR r) eqn:E2; [|discriminate].
    split; [now apply app_point_some in E1|now apply app_point_some in E2].
  - apply osome_app_some in H. destruct H as [_ [v H]]. apply osome_app_some in H. destruct H as [_ [v' H]]. eapply IH. exact H.
Qed.

Lemma prover_ops_some s seeded p w x : prover_ops s seeded p w = Some x ->
  ts_Henc s <> 0%N /\ Forall (fun e => e <> 0%N) (ts_Gbenc s) /\ p_a p <> 0%N /\ p_a1 p <> 0%N /\ p_b p <> 0%N /\
  Forall (fun q : N * N => fst q <> 0%N /\ snd q <> 0%N) (combine (p_li p) (p_ri p)).
Proof.
  unfold prover_ops. intros H.
  apply osome_app_some in H. destruct H as [[u Hn] [v H]].
  apply osome_app_some in H. destruct H as [_ [v1 H]].
  apply osome_app_some in H. destruct H as [[u2 Hy] [v2 H]].
  apply osome_app_some in H. destruct H as [[u3 Hr] [v3 H]].
  apply osome_app_some in H. destruct H as [_ [v4 Hf]].
  unfold ops_new in Hn. destruct (app_point LH (ts_Henc s)) eqn:E1; [|discriminate]. destruct (app_points LG (ts_Gbenc s)) eqn:E2; [|discriminate].
  unfold ops_yz in Hy. destruct (app_point LA (p_a p)) eqn:E3; [|discriminate].
  unfold ops_final in Hf. destruct (app_point LA1 (p_a1 p)) eqn:E4; [|discriminate]. destruct (app_point LB (p_b p)) eqn:E5; [|discriminate].
  repeat split; try (eapply app_point_some; eassumption).
  - eapply app_points_some; eassumption.
  - eapply prover_round_ops_some; eassumption.
Qed.

Section PFP.
Variable K : Fld.
Hypothesis Kok : FldOk K.
Variable M : Mod K.
Hypothesis Mok : ModOk K M.
Infix "+v" := (vadd M) (at level 50, left associativity).
Variable ofN : N -> K.
Variable toN : K -> N.
Hypothesis ofN_toN : forall x, ofN (toN x) = x.
Variable enc : M -> N.
Variable dec : N -> M.
Hypothesis dec_enc : forall p, dec (enc p) = p.

Lemma Forall_combine_map (l r : list M) :
  Forall (fun q : N * N => fst q <> 0%N /\ snd q <> 0%N) (combine (map enc l) (map enc r)) -> length l = length r ->
  Forall (fun q => enc q <> 0%N) l /\ Forall (fun q => enc q <> 0%N) r.
Proof.
  revert r. induction l as [|x l IH]; intros [|y r] F Hl; cbn [length] in Hl; try discriminate; [split; constructor|].
  cbn [map combine] in F. inversion F as [|? ? [H1 H2] F']; subst. cbn [fst snd] in *.
  destruct (IH r F' ltac:(lia)) as [A B]. split; constructor; assumption.
Qed.

Theorem proof_of_prove_full_verifies (g : gens K M) bits cap (commitments : list M) (values : list N) (promises : list (option N))
        (blindings : list (list K)) wT prover_seeded (nn : nonces K) (ch : pchals K) seeded nonce mode (w : K) a p :
  let m := length values in
  let T := length (g_Gb g) in
  prove_full K M toN enc bits cap g commitments promises values blindings wT prover_seeded nn ch = Some p ->
  (* what the validating constructors guarantee (C17) and the typing of u64 *)
  1 <= bits <= 64 -> m = 2 ^ a -> m <= cap -> length (g_G g) = (bits * cap)%nat -> length (g_Hv g) = (bits * cap)%nat ->
  1 <= T <= 6 -> (2 * N.of_nat bits * N.of_nat cap < 2 ^ 64)%N ->
  length promises = m -> length blindings = m -> Forall (fun r => length r = wT) blindings ->
  Forall (fun v => (v < 2 ^ 64)%N) values ->
  (* the oracles' shape: one round challenge per halving, y <> 1 (not checked by the code: probability 1/l), nonces as C13 shapes them *)
  (m * bits)%nat = 2 ^ length (pc_es ch) -> length (pc_es ch) < 64 -> fsub K (pc_y ch) (f1 K) <> f0 K ->
  wf_nonces K T (length (pc_es ch)) nn ->
  mode <> RecoverOnly ->
  let mb := honest_member K M toN enc g bits cap values promises blindings nn ch seeded nonce in
  mb_Venc K mb = map enc commitments /\ mb_proof K mb = wire_of K M toN enc T p /\
  exists sc,
    verify_chunk K ofN mode [mb] [w] true = (Ok [mask_of K ofN mode mb], Some sc) /\
    msm (fst sc) (interleaveM K M (g_G g) (g_Hv g)) +v msm (snd sc) (dyn_of K M (pts_of K M dec mb) ++ g_Gb g ++ [g_H g]) = v0 M.
Proof.
  intros m T E Hb Hm Hcap LG LH HT Hpad Lp Lb Fb F64 HN Hr64 Hy1 Wn Hmode mb.
  unfold prove_full in E. fold T in E.
  destruct (prove_top K M bits cap T g commitments promises values blindings wT nn ch) as [p0|] eqn:Et; [|discriminate].
  destruct (prover_ops _ _ _ _) as [ops|] eqn:Eo; [|discriminate].
  destruct (chal_ok K _) eqn:Ec; [|discriminate]. inversion E; subst p0; clear E.
  apply prover_ops_some in Eo. cbn [ts_Henc ts_Gbenc wire_of p_a p_a1 p_b p_li p_ri] in Eo.
  destruct Eo as (EH & EGb & EA & EA1 & EB & ELR).
  assert (EGb' : Forall (fun q => enc q <> 0%N) (g_Gb g)).
  { apply Forall_forall. intros q Hq. rewrite Forall_forall in EGb. apply EGb. now apply in_map. }
  (* challenge facts *)
  assert (Hce : pc_e ch <> f0 K /\ pc_z ch <> f0 K).
  { unfold chal_ok in Ec. cbn [c_y c_z c_es c_e] in Ec. rewrite !andb_true_iff, !negb_true_iff in Ec. destruct Ec as (((_ & Z) & _) & X).
    split; now apply (is_zero_false K Kok). }
  apply (chal_ok_facts K Kok) in Ec. cbn [c_y c_es] in Ec. destruct Ec as [Hy Hes]. destruct Hce as [He Hz].
  (* the prover's output has as many L as R *)
  assert (Wv : witness_valid K M bits T (fofN K) g commitments promises values blindings wT = true).
  { unfold prove_top in Et. destruct (witness_valid _ _ _ _ _ _ _ _ _ _ _); [reflexivity|discriminate]. }
  assert (Ep : p = prove_core K M bits cap g values promises blindings nn ch).
  { unfold prove_top in Et. rewrite Wv in Et. now inversion Et. }
  pose proof Wv as Wv'. apply (witness_valid_iff K M Mok) in Wv'; [|fold m; lia|fold m; lia]. destruct Wv' as (_ & HwT & _). subst wT.
  destruct (prove_core_rounds K Kok M Mok g bits cap values promises blindings nn ch a ltac:(lia) Hm Hcap LG LH HN Hy Hes Lp Lb Fb Wn) as [LL LR].
  rewrite <- Ep in LL, LR.
  destruct (Forall_combine_map (pp_L p) (pp_R p) ELR ltac:(congruence)) as [EL ER].
  destruct (emitted_proof_verifies K Kok M Mok ofN toN ofN_toN enc dec dec_enc g bits cap commitments values promises blindings T nn ch seeded nonce mode w a p
              Et Hb Hm Hcap LG LH HT Hpad Lp Lb Fb F64 HN Hr64 Hy Hy1 Hz He Hes Wn EH EGb' EA EA1 EB EL ER Hmode) as (A1 & A2 & A3).
  split; [exact A1|]. split; [exact A2|exact A3].
Qed.
End PFP.
