(** The abstract transcript operations of Model/Transcript.v interpreted by the Gallina Merlin of Crypto/Strobe.v: the challenges a
    transcript hands out are a function of the operations applied to it.  RNG operations ([ORng], [OFill]) work on a CLONE of the
    STROBE state (Transcript::build_rng), so they leave the transcript itself where it was. *)
From Coq Require Import List Arith NArith Bool String Ascii.
From BP Require Import Model.Codec Model.Transcript Crypto.Keccak Crypto.Strobe.
Import ListNotations.
Open Scope N_scope.

Definition bytes_of_string (s : string) : list N := map N_of_ascii (list_ascii_of_string s).
Definition label_bytes (l : label) : list N := bytes_of_string (label_string l).

Definition op_apply (s : strobe) (o : op) : strobe * list (list N) :=
  match o with
  | OApp l len v => (t_append (label_bytes l) (le_bytes len v) s, [])
  | OChal l len => let '(s', c) := t_challenge (label_bytes l) len s in (s', [c])
  | ORng _ => (s, [])
  | OFill _ => (s, [])
  end.

Fixpoint run_ops (s : strobe) (ops : list op) : strobe * list (list N) :=
  match ops with
  | [] => (s, [])
  | o :: r => let '(s1, c1) := op_apply s o in let '(s2, c2) := run_ops s1 r in (s2, c1 ++ c2)
  end.

(** the transcript RNG built at some point: clone, optional re-keying with the witness bytes, finalisation with the caller's 32 bytes *)
Definition WITNESS_LABEL : list N := bytes_of_string "witness".
Definition rng_at (s : strobe) (witness : option (list N)) (random : list N) : strobe :=
  r_finalize random (match witness with Some w => r_rekey WITNESS_LABEL w s | None => s end).
