(** * RangeProof::verify on one chunk with its partial machine operations explicit: the guards of
    Model/VerifyTop.v in front of the checked per-proof body of Model/Checked.v, and the two length
    assertions of the multiscalar back end on the final product.  Outcome: value / error / panic. *)
From Coq Require Import List Arith NArith Bool.
From BP Require Import Base.Field Model.Ctor Model.Codec Model.Transcript Model.Verifier Model.VerifyTop Model.Checked.
Import ListNotations.

Section CT.
Variable K : Fld.
Variable ofN : N -> K.
Local Open Scope F_scope.

(** second loop.  d and its sum are computed before the mask recovery and its `continue`, so they run in
    RecoverOnly too; the s-vector only in the verifying modes.  [npts] counts the dynamic points pushed. *)
Fixpoint proof_loop_chk (mode : vmode) (ms : list (member K)) (ws : list K) (acc : batch_acc K) (masks : list (option (list K))) (npts : nat)
  : tri (batch_acc K * list (option (list K)) * nat) :=
  match ms with
  | [] => Val (acc, masks, npts)
  | mb :: ms' =>
      if mb_undecodable K mb then Fail
      else if negb (rounds_ok K mb) then Fail
      else
        let w := hd (f0 K) ws in
        let masks' := masks ++ [mask_of K ofN mode mb] in
        let z2 := c_z (mb_ch K mb) * c_z (mb_ch K mb) in
        match mode with
        | RecoverOnly =>
            tbind (d_vec_chk K (mb_bits K mb) (mb_m K mb) z2) (fun _ =>
            tbind (d_sum_chk K (mb_bits K mb) (mb_m K mb) z2) (fun _ =>
            proof_loop_chk mode ms' (tl ws) acc masks' npts))
        | _ =>
            tbind (proof_terms_chk K (mb_bits K mb) (mb_m K mb) (mb_promises K mb) (vproof_of K ofN (mb_proof K mb)) (mb_ch K mb) w) (fun t =>
            proof_loop_chk mode ms' (tl ws) (acc_proof K acc t) masks'
              (npts + length (mb_Venc K mb) + 3 + length (p_li (mb_proof K mb)) + length (p_ri (mb_proof K mb))))
        end
  end.

Definition verify_chunk_chk (mode : vmode) (ms : list (member K)) (ws : list K) (msm_zero : bool) : tri (list (option (list K))) :=
  match consistency K ms with
  | None => Fail
  | Some (max_mn, max_index) =>
      if negb (forallb (transcript_phase_ok K) ms) then Fail else
      match ms with
      | [] => Fail
      | first :: _ =>
        tbind (proof_loop_chk mode ms ws (acc_init K max_mn (mb_T K first)) [] 0) (fun r =>
          let '(acc, masks, npts) := r in
          match mode with
          | RecoverOnly => Val masks
          | _ =>
              let mx := nth max_index ms first in
              match generator_padding (N.of_nat (mb_bits K mx)) (N.of_nat (mb_m K mx)) (N.of_nat (mb_cap K mx)) with
              | None => Fail
              | Some pad =>
                  let sc := final_msm K acc (N.to_nat pad) in
                  (* table rows: 2 * bits * capacity of the owner; dynamic points: the members', then Gb_k, then H *)
                  tbind (msm_chk (length (fst sc)) (2 * mb_bits K mx * mb_cap K mx)
                                 (length (snd sc)) (npts + length (mb_Gbenc K first) + 1)) (fun _ =>
                  if msm_zero then Val masks else Fail)
              end
          end)
      end
  end.
(** verify_batch: the three shape refusals, then slice::chunks (a panic for a chunk size of zero), then the chunks in order *)
Fixpoint verify_chunks_chk (mode : vmode) (cs : list (list (member K))) (orc : list (list K * bool)) (masks : list (option (list K)))
  : tri (list (option (list K))) :=
  match cs with
  | [] => Val masks
  | c :: cs' =>
      let '(ws, z) := hd ([], false) orc in
      tbind (verify_chunk_chk mode c ws z) (fun m => verify_chunks_chk mode cs' (tl orc) (masks ++ m))
  end.

Definition verify_batch_chk (mode : vmode) (nstatements nproofs ntranscripts : nat) (ms : list (member K)) (orc : list (list K * bool))
  : tri (list (option (list K))) :=
  if Nat.eqb nstatements 0 || Nat.eqb nproofs 0 || Nat.eqb ntranscripts 0 then Fail
  else if negb (Nat.eqb nstatements nproofs) then Fail
  else if negb (Nat.eqb ntranscripts nstatements) then Fail
  else if Nat.eqb MAX_BATCH 0 then Panic
  else verify_chunks_chk mode (chunks_of (length ms) MAX_BATCH ms) orc [].
End CT.
